// Reference codec for the Galois binary graph format (".gr"), versions 1 and 2.
//
// Header-only, no Galois includes, C++17. Written from the format description
// in /repo/libgalois/src/FileGraph.cpp ("Graph file format:" comment) and the
// field documentation of FileGraph.h; it shares no code with the library.
//
// ---------------------------------------------------------------------------
// Layout implemented (all integers little-endian):
//
//   offset 0   uint64  version            1 or 2
//          8   uint64  sizeofEdgeData     bytes of edge data per edge (0 = none)
//         16   uint64  numNodes
//         24   uint64  numEdges
//         32   uint64  outIdx[numNodes]   outIdx[n] = index one past the last
//                                         edge of node n (end offsets; node 0
//                                         starts at 0, node n at outIdx[n-1])
//   32+8N      dstT    dst[numEdges]      dstT = uint32 (v1) / uint64 (v2)
//              pad                        see below
//              byte    data[numEdges][sizeofEdgeData]
//
// Padding after the destination array ("potential padding (32bit max) to
// Re-Align to 64bits" in the format comment):
//
//   * version 1: 4 bytes iff numEdges is odd. Every reader and writer in the
//     library agrees on this. A file without edge data may legitimately end
//     right after the last destination (the pad would be the last thing in
//     the file); read_gr accepts both lengths when sizeofEdgeData == 0 and
//     reports what it found in RefGraph::padBytes.
//   * version 2: destinations are 8 bytes wide so no re-alignment is ever
//     needed, and the documented layout ("32bit max") asks for none. The
//     library used to be inconsistent here (DESIGN.md section 7): before /repo
//     commit 865c2b1 FileGraph::fromMem, fromArrays and
//     LC_CSR_Graph::readGraphFromGRFile skipped one extra 8-byte word when
//     numEdges is odd, whereas rawBlockSize (allocation size, hence toFile
//     length), FileGraphWriter::phase1 and partFromFile did not; since that
//     commit every reader and writer uses no padding (V2Pad::None). Both
//     conventions are implemented:
//         V2Pad::None   no padding               (documented layout; writers)
//         V2Pad::Odd8   8 bytes iff numEdges odd (what the in-memory readers
//                                                 expected before 865c2b1)
//     write_gr takes the convention as a parameter (default None). read_gr
//     does not assume one: it DECODES BY FILE LENGTH. With
//     base = 32 + 8*numNodes + 8*numEdges and D = sizeofEdgeData*numEdges,
//     length == base + D  -> no pad, length == base + 8 + D (numEdges odd)
//     -> 8-byte pad; any other length is malformed. For D > 0 the two cases
//     are distinct, for D == 0 either is accepted. The convention found is
//     reported in RefGraph::padBytes. With an even edge count or no edge data
//     the two conventions describe the same graph, so verdicts that only use
//     such files are convention-free.
//
// Validation performed by read_gr/decode_gr (std::runtime_error on failure):
//   length >= 32; version in {1,2}; sizes do not overflow and match the file
//   length exactly (no trailing garbage, no truncation); numNodes == 0 implies
//   numEdges == 0; outIdx non-decreasing and outIdx[numNodes-1] == numEdges;
//   every destination < numNodes; version 1 requires numNodes <= 2^32.
//   Pad bytes are not required to be zero (RefGraph::padNonZero tells).
//
// Edge data representation: the first min(8, size) bytes of an edge's data
// are kept little-endian, zero-extended, in RefEdge::data; bytes 8.. (only for
// sizeofEdgeData > 8) in RefEdge::ext. So uint32/uint64/float/double and
// structs up to 8 bytes live entirely in `data` (use std::memcpy / bit casts).
#pragma once

#include <algorithm>
#include <cmath>
#include <cstdint>
#include <cstdio>
#include <cstring>
#include <stdexcept>
#include <string>
#include <utility>
#include <vector>

namespace ref {

// ------------------------------------------------------------------ graph
struct RefEdge {
  uint64_t dst  = 0;
  uint64_t data = 0; // bytes 0..7 of the edge data (LE, zero-extended)
  std::string ext;   // bytes 8.. of the edge data (empty unless size > 8)

  RefEdge() = default;
  RefEdge(uint64_t d, uint64_t v = 0) : dst(d), data(v) {}
  bool operator==(const RefEdge& o) const { return dst == o.dst && data == o.data && ext == o.ext; }
  bool operator!=(const RefEdge& o) const { return !(*this == o); }
  bool operator<(const RefEdge& o) const {
    if (dst != o.dst)
      return dst < o.dst;
    if (data != o.data)
      return data < o.data;
    return ext < o.ext;
  }
};

struct RefGraph {
  uint64_t numNodes = 0;
  // adj[src] = out-edges of src in file order
  std::vector<std::vector<RefEdge>> adj;

  // informational (filled by read_gr/decode_gr; ignored by write_gr)
  int version           = 0;
  uint64_t edgeDataSize = 0;
  unsigned padBytes     = 0; // bytes found between destinations and edge data
  bool padNonZero       = false;
  std::string kind;          // generator: name of the shape

  explicit RefGraph(uint64_t n = 0) : numNodes(n), adj(n) {}

  uint64_t numEdges() const {
    uint64_t m = 0;
    for (auto& a : adj)
      m += a.size();
    return m;
  }
  void addEdge(uint64_t s, uint64_t d, uint64_t data = 0) { adj.at(s).emplace_back(d, data); }
  // same nodes, same per-node edge sequences (order matters)
  bool sameAs(const RefGraph& o) const { return numNodes == o.numNodes && adj == o.adj; }
  // same nodes, same per-node edge multisets
  bool sameMultisetAs(const RefGraph& o) const {
    if (numNodes != o.numNodes)
      return false;
    for (uint64_t n = 0; n < numNodes; ++n) {
      auto a = adj[n], b = o.adj[n];
      if (a.size() != b.size())
        return false;
      std::sort(a.begin(), a.end());
      std::sort(b.begin(), b.end());
      if (a != b)
        return false;
    }
    return true;
  }
};

// transpose: edge (s -> d, x) becomes (d -> s, x); in-edge lists are ordered by
// (source, position in the source's list), i.e. the order a sequential scan of
// the CSR arrays produces
inline RefGraph transpose(const RefGraph& g) {
  RefGraph t(g.numNodes);
  t.version      = g.version;
  t.edgeDataSize = g.edgeDataSize;
  for (uint64_t s = 0; s < g.numNodes; ++s)
    for (auto& e : g.adj[s]) {
      RefEdge r = e;
      r.dst     = s;
      t.adj.at(e.dst).push_back(r);
    }
  return t;
}

// ------------------------------------------------------------------ codec
enum class V2Pad { None, Odd8 };

namespace detail {
inline void put64(std::vector<uint8_t>& b, uint64_t v) {
  for (int i = 0; i < 8; ++i)
    b.push_back((uint8_t)(v >> (8 * i)));
}
inline void put32(std::vector<uint8_t>& b, uint32_t v) {
  for (int i = 0; i < 4; ++i)
    b.push_back((uint8_t)(v >> (8 * i)));
}
inline uint64_t get64(const uint8_t* p) {
  uint64_t v = 0;
  for (int i = 0; i < 8; ++i)
    v |= (uint64_t)p[i] << (8 * i);
  return v;
}
inline uint32_t get32(const uint8_t* p) {
  uint32_t v = 0;
  for (int i = 0; i < 4; ++i)
    v |= (uint32_t)p[i] << (8 * i);
  return v;
}
[[noreturn]] inline void bad(const std::string& what) { throw std::runtime_error("gr_codec: " + what); }
// a*b+c with overflow detection
inline bool mul_add(uint64_t a, uint64_t b, uint64_t c, uint64_t& out) {
  unsigned __int128 r = (unsigned __int128)a * b + c;
  if (r >> 64)
    return false;
  out = (uint64_t)r;
  return true;
}
} // namespace detail

// Encode `g` as a .gr image. edgeDataSize = bytes per edge (0 = no edge data).
inline std::vector<uint8_t> encode_gr(const RefGraph& g, int version, uint64_t edgeDataSize,
                                      V2Pad v2pad = V2Pad::None) {
  using namespace detail;
  if (version != 1 && version != 2)
    bad("encode: unknown version " + std::to_string(version));
  if (g.adj.size() != g.numNodes)
    bad("encode: adj.size() != numNodes");
  if (version == 1 && g.numNodes > (1ull << 32))
    bad("encode: version 1 cannot hold more than 2^32 nodes");
  uint64_t m = g.numEdges();
  std::vector<uint8_t> b;
  b.reserve(32 + 8 * g.numNodes + (version == 1 ? 4 : 8) * m + 8 + edgeDataSize * m);
  put64(b, (uint64_t)version);
  put64(b, edgeDataSize);
  put64(b, g.numNodes);
  put64(b, m);
  uint64_t run = 0;
  for (auto& a : g.adj) {
    run += a.size();
    put64(b, run);
  }
  for (uint64_t s = 0; s < g.numNodes; ++s)
    for (auto& e : g.adj[s]) {
      if (e.dst >= g.numNodes)
        bad("encode: destination " + std::to_string(e.dst) + " of node " + std::to_string(s) + " out of range");
      if (version == 1)
        put32(b, (uint32_t)e.dst);
      else
        put64(b, e.dst);
    }
  if (version == 1) {
    if (m % 2)
      put32(b, 0);
  } else if (v2pad == V2Pad::Odd8 && (m % 2)) {
    put64(b, 0);
  }
  if (edgeDataSize) {
    for (auto& a : g.adj)
      for (auto& e : a) {
        for (uint64_t i = 0; i < edgeDataSize; ++i) {
          uint8_t byte;
          if (i < 8)
            byte = (uint8_t)(e.data >> (8 * i));
          else
            byte = (i - 8) < e.ext.size() ? (uint8_t)e.ext[i - 8] : 0;
          b.push_back(byte);
        }
      }
  }
  return b;
}

// Decode and fully validate a .gr image of exactly `len` bytes.
inline RefGraph decode_gr(const uint8_t* p, uint64_t len) {
  using namespace detail;
  if (len < 32)
    bad("file shorter than the 32-byte header (" + std::to_string(len) + " bytes)");
  uint64_t version = get64(p), esz = get64(p + 8), n = get64(p + 16), m = get64(p + 24);
  if (version != 1 && version != 2)
    bad("unknown version " + std::to_string(version));
  if (version == 1 && n > (1ull << 32))
    bad("version 1 file with more than 2^32 nodes");
  if (n == 0 && m != 0)
    bad("numNodes == 0 but numEdges == " + std::to_string(m));
  const uint64_t dstW = version == 1 ? 4 : 8;
  uint64_t base, dataBytes;
  if (!mul_add(n, 8, 32, base) || !mul_add(m, dstW, base, base))
    bad("header sizes overflow");
  if (!mul_add(m, esz, 0, dataBytes))
    bad("edge data size overflows");
  if (base > len)
    bad("truncated: index/destination arrays need " + std::to_string(base) + " bytes, file has " +
        std::to_string(len));
  uint64_t rest = len - base; // pad + data
  unsigned pad;
  if (version == 1) {
    unsigned want = (m % 2) ? 4 : 0;
    if (rest >= want && rest - want == dataBytes)
      pad = want;
    else if (dataBytes == 0 && rest == 0)
      pad = 0; // file without edge data ending right after the destinations
    else
      bad("version 1: length " + std::to_string(len) + " does not match header (expected " +
          std::to_string(base + want + dataBytes) + ")");
  } else {
    if (rest == dataBytes)
      pad = 0;
    else if ((m % 2) && rest >= 8 && rest - 8 == dataBytes)
      pad = 8;
    else
      bad("version 2: length " + std::to_string(len) + " matches neither padding convention (expected " +
          std::to_string(base + dataBytes) + ((m % 2) ? " or " + std::to_string(base + 8 + dataBytes) : "") +
          ")");
  }
  RefGraph g(0);
  g.numNodes     = n;
  g.version      = (int)version;
  g.edgeDataSize = esz;
  g.padBytes     = pad;
  g.adj.resize(n);
  const uint8_t* idx  = p + 32;
  const uint8_t* dsts = idx + 8 * n;
  const uint8_t* padp = dsts + dstW * m;
  const uint8_t* data = padp + pad;
  for (unsigned i = 0; i < pad; ++i)
    if (padp[i])
      g.padNonZero = true;
  uint64_t prev = 0;
  for (uint64_t s = 0; s < n; ++s) {
    uint64_t end = get64(idx + 8 * s);
    if (end < prev)
      bad("outIdx decreases at node " + std::to_string(s));
    if (end > m)
      bad("outIdx[" + std::to_string(s) + "] = " + std::to_string(end) + " exceeds numEdges");
    auto& a = g.adj[s];
    a.reserve(end - prev);
    for (uint64_t e = prev; e < end; ++e) {
      RefEdge r;
      r.dst = version == 1 ? get32(dsts + 4 * e) : get64(dsts + 8 * e);
      if (r.dst >= n)
        bad("edge " + std::to_string(e) + " of node " + std::to_string(s) + ": destination " +
            std::to_string(r.dst) + " >= numNodes");
      if (esz) {
        const uint8_t* d = data + esz * e;
        for (uint64_t i = 0; i < esz && i < 8; ++i)
          r.data |= (uint64_t)d[i] << (8 * i);
        if (esz > 8)
          r.ext.assign((const char*)d + 8, (size_t)(esz - 8));
      }
      a.push_back(std::move(r));
    }
    prev = end;
  }
  if (prev != m)
    bad("last outIdx = " + std::to_string(prev) + " but numEdges = " + std::to_string(m));
  return g;
}

inline std::vector<uint8_t> read_file_bytes(const std::string& path) {
  FILE* f = fopen(path.c_str(), "rb");
  if (!f)
    detail::bad("cannot open '" + path + "' for reading");
  std::vector<uint8_t> b;
  uint8_t buf[1 << 16];
  size_t k;
  while ((k = fread(buf, 1, sizeof buf, f)) > 0)
    b.insert(b.end(), buf, buf + k);
  bool err = ferror(f);
  fclose(f);
  if (err)
    detail::bad("read error on '" + path + "'");
  return b;
}

inline void write_file_bytes(const std::string& path, const std::vector<uint8_t>& b) {
  FILE* f = fopen(path.c_str(), "wb");
  if (!f)
    detail::bad("cannot open '" + path + "' for writing");
  size_t k = b.empty() ? 0 : fwrite(b.data(), 1, b.size(), f);
  bool ok  = (k == b.size());
  ok       = (fclose(f) == 0) && ok;
  if (!ok)
    detail::bad("write error on '" + path + "'");
}

inline void write_gr(const std::string& path, const RefGraph& g, int version, uint64_t edgeDataSize,
                     V2Pad v2pad = V2Pad::None) {
  write_file_bytes(path, encode_gr(g, version, edgeDataSize, v2pad));
}

inline RefGraph read_gr(const std::string& path) {
  std::vector<uint8_t> b = read_file_bytes(path);
  return decode_gr(b.data(), b.size());
}

// ------------------------------------------------------------------ generator
// Own small RNG (splitmix64) so that ref/ does not depend on the harness.
struct GenRng {
  uint64_t s;
  explicit GenRng(uint64_t seed) : s(seed ? seed : 0x9e3779b97f4a7c15ULL) {}
  uint64_t next() {
    uint64_t z = (s += 0x9e3779b97f4a7c15ULL);
    z          = (z ^ (z >> 30)) * 0xbf58476d1ce4e5b9ULL;
    z          = (z ^ (z >> 27)) * 0x94d049bb133111ebULL;
    return z ^ (z >> 31);
  }
  uint64_t below(uint64_t n) { return n ? next() % n : 0; }
  bool chance(unsigned num, unsigned den) { return below(den) < num; }
  double unit() { return (next() >> 11) * (1.0 / 9007199254740992.0); }
};

enum class Shape : unsigned {
  Empty = 0,       // 0 nodes
  SingleNode,      // 1 node, 0..3 self loops
  Isolated,        // nodes, no edges
  SelfLoops,       // every edge is a self loop (some nodes several)
  Parallel,        // few nodes, many parallel edges (and parallel self loops)
  Path,            // 0->1->...->n-1 (last node has no out-edges)
  Cycle,           // path plus n-1 -> 0 (last node has an edge)
  OutStar,         // hub -> everybody (hub position random: first, last, middle)
  InStar,          // everybody -> hub
  Grid,            // w x h grid, edges right and down (and optionally back)
  PowerLaw,        // zipf-like out-degrees, preferential destinations
  Random,          // uniform random multigraph
  Dense,           // small complete-ish graph
  LastOnly,        // only the last node has out-edges
  FirstOnly,       // only node 0 has out-edges (all other nodes, incl. last, none)
  Bipartite,       // edges from the first half to the second half only
  Mixed,           // random graph with injected self loops, duplicates, isolated tail
  NumShapes
};

inline const char* shapeName(Shape s) {
  static const char* n[] = {"empty",  "single", "isolated", "selfloops", "parallel", "path",
                            "cycle",  "outstar", "instar",  "grid",      "powerlaw", "random",
                            "dense",  "lastonly", "firstonly", "bipartite", "mixed"};
  return (unsigned)s < (unsigned)Shape::NumShapes ? n[(unsigned)s] : "?";
}

enum class DataMode : unsigned {
  Unique = 0, // 1,2,3,... in edge order (identifies every edge; < 2^32 edges)
  Random,     // random bits
  Small,      // values 0..7 (many ties)
  Zero        // all zero
};

// Assign edge data (masking to `edgeDataSize` bytes; for sizes > 8 `ext` is
// filled with bytes derived from the value so that every byte is checked).
inline void assign_data(RefGraph& g, uint64_t seed, DataMode mode, uint64_t edgeDataSize) {
  GenRng r(seed ^ 0xda7a);
  uint64_t k    = 0;
  uint64_t mask = edgeDataSize >= 8 ? ~0ull : ((1ull << (8 * edgeDataSize)) - 1);
  for (auto& a : g.adj)
    for (auto& e : a) {
      ++k;
      uint64_t v = 0;
      switch (mode) {
      case DataMode::Unique: v = k; break;
      case DataMode::Random: v = r.next(); break;
      case DataMode::Small: v = r.below(8); break;
      case DataMode::Zero: v = 0; break;
      }
      e.data = edgeDataSize ? (v & mask) : 0;
      e.ext.clear();
      if (edgeDataSize > 8) {
        e.ext.resize(edgeDataSize - 8);
        uint64_t x = v * 0x9e3779b97f4a7c15ULL + 1;
        for (auto& c : e.ext) {
          c = (char)(x >> 56);
          x = x * 6364136223846793005ULL + 1442695040888963407ULL;
        }
      }
    }
  g.edgeDataSize = edgeDataSize;
}

// Deterministic graph of the given shape with about `n` nodes (shapes with a
// fixed size ignore n). Edge data are left 0; call assign_data.
inline RefGraph gen_shape(uint64_t seed, Shape shape, uint64_t n) {
  GenRng r(seed * 0x2545F4914F6CDD1DULL + (unsigned)shape);
  auto atLeast = [&](uint64_t k) { return n < k ? k : n; };
  RefGraph g(0);
  auto init = [&](uint64_t nn) {
    g.numNodes = nn;
    g.adj.assign(nn, {});
  };
  switch (shape) {
  case Shape::Empty: init(0); break;
  case Shape::SingleNode: {
    init(1);
    uint64_t k = r.below(4);
    for (uint64_t i = 0; i < k; ++i)
      g.addEdge(0, 0);
    break;
  }
  case Shape::Isolated: init(atLeast(1)); break;
  case Shape::SelfLoops: {
    init(atLeast(1));
    for (uint64_t s = 0; s < g.numNodes; ++s) {
      uint64_t k = r.below(4) == 0 ? 0 : 1 + r.below(3);
      for (uint64_t i = 0; i < k; ++i)
        g.addEdge(s, s);
    }
    break;
  }
  case Shape::Parallel: {
    init(2 + r.below(std::min<uint64_t>(atLeast(2), 6)));
    uint64_t m = 4 + r.below(60);
    for (uint64_t i = 0; i < m; ++i) {
      uint64_t s = r.below(g.numNodes), d = r.below(2) ? s : r.below(g.numNodes);
      uint64_t k = 1 + r.below(5);
      for (uint64_t j = 0; j < k; ++j)
        g.addEdge(s, d);
    }
    break;
  }
  case Shape::Path: {
    init(atLeast(2));
    for (uint64_t s = 0; s + 1 < g.numNodes; ++s)
      g.addEdge(s, s + 1);
    break;
  }
  case Shape::Cycle: {
    init(atLeast(2));
    for (uint64_t s = 0; s < g.numNodes; ++s)
      g.addEdge(s, (s + 1) % g.numNodes);
    break;
  }
  case Shape::OutStar:
  case Shape::InStar: {
    init(atLeast(2));
    uint64_t hub;
    switch (r.below(3)) {
    case 0: hub = 0; break;
    case 1: hub = g.numNodes - 1; break;
    default: hub = r.below(g.numNodes); break;
    }
    bool withSelf = r.below(2);
    for (uint64_t v = 0; v < g.numNodes; ++v) {
      if (v == hub && !withSelf)
        continue;
      if (shape == Shape::OutStar)
        g.addEdge(hub, v);
      else
        g.addEdge(v, hub);
    }
    break;
  }
  case Shape::Grid: {
    uint64_t nn = atLeast(4);
    uint64_t w  = 1 + r.below(std::min<uint64_t>(nn, 64));
    uint64_t h  = std::max<uint64_t>(1, nn / w);
    init(w * h);
    bool back = r.below(2);
    for (uint64_t y = 0; y < h; ++y)
      for (uint64_t x = 0; x < w; ++x) {
        uint64_t v = y * w + x;
        if (x + 1 < w)
          g.addEdge(v, v + 1);
        if (y + 1 < h)
          g.addEdge(v, v + w);
        if (back && x > 0)
          g.addEdge(v, v - 1);
        if (back && y > 0)
          g.addEdge(v, v - w);
      }
    break;
  }
  case Shape::PowerLaw: {
    init(atLeast(2));
    uint64_t N = g.numNodes;
    // out-degree ~ N / rank^a over a random permutation of nodes; destinations
    // drawn with a skew towards low "popularity ranks"
    std::vector<uint64_t> perm(N), pop(N);
    for (uint64_t i = 0; i < N; ++i)
      perm[i] = pop[i] = i;
    for (uint64_t i = N; i > 1; --i) {
      std::swap(perm[i - 1], perm[r.below(i)]);
      std::swap(pop[i - 1], pop[r.below(i)]);
    }
    double a     = 0.8 + r.unit() * 0.8;
    uint64_t top = std::min<uint64_t>(N, 3000);
    for (uint64_t rank = 1; rank <= N; ++rank) {
      double dd = (double)top / std::pow((double)rank, a);
      uint64_t d = (uint64_t)dd;
      if (d == 0 && r.below(3) == 0)
        d = 1;
      uint64_t s = perm[rank - 1];
      for (uint64_t j = 0; j < d; ++j) {
        double u    = r.unit();
        uint64_t pr = (uint64_t)((double)N * u * u * u);
        if (pr >= N)
          pr = N - 1;
        g.addEdge(s, pop[pr]);
      }
    }
    break;
  }
  case Shape::Random: {
    init(atLeast(1));
    uint64_t m = r.below(g.numNodes * 6 + 1);
    for (uint64_t i = 0; i < m; ++i)
      g.addEdge(r.below(g.numNodes), r.below(g.numNodes));
    break;
  }
  case Shape::Dense: {
    init(2 + r.below(std::min<uint64_t>(atLeast(2), 40)));
    for (uint64_t s = 0; s < g.numNodes; ++s)
      for (uint64_t d = 0; d < g.numNodes; ++d)
        if (r.below(8) != 0)
          g.addEdge(s, d);
    break;
  }
  case Shape::LastOnly:
  case Shape::FirstOnly: {
    init(atLeast(2));
    uint64_t s = shape == Shape::LastOnly ? g.numNodes - 1 : 0;
    uint64_t m = 1 + r.below(g.numNodes * 2);
    for (uint64_t i = 0; i < m; ++i)
      g.addEdge(s, r.below(g.numNodes));
    break;
  }
  case Shape::Bipartite: {
    init(atLeast(2));
    uint64_t half = g.numNodes / 2;
    uint64_t m    = r.below(g.numNodes * 4 + 1);
    for (uint64_t i = 0; i < m; ++i)
      g.addEdge(r.below(half), half + r.below(g.numNodes - half));
    break;
  }
  case Shape::Mixed:
  default: {
    init(atLeast(3));
    uint64_t N    = g.numNodes;
    uint64_t live = 1 + r.below(N); // nodes >= live stay isolated (tail without edges) ...
    bool lastHas  = r.below(2);     // ... except possibly the very last node
    uint64_t m    = r.below(N * 4 + 1);
    for (uint64_t i = 0; i < m; ++i) {
      uint64_t s = r.below(live), d;
      switch (r.below(8)) {
      case 0: d = s; break;
      case 1: d = N - 1; break;
      case 2: d = 0; break;
      default: d = r.below(N); break;
      }
      uint64_t k = r.below(6) == 0 ? 2 + r.below(3) : 1;
      for (uint64_t j = 0; j < k; ++j)
        g.addEdge(s, d);
    }
    if (lastHas) {
      uint64_t k = 1 + r.below(4);
      for (uint64_t j = 0; j < k; ++j)
        g.addEdge(N - 1, r.below(N));
    }
    break;
  }
  }
  g.kind = shapeName(shape);
  return g;
}

// Random shape, random size in [0, maxNodes] skewed towards small graphs,
// random data mode. Entirely determined by (seed, maxNodes, edgeDataSize).
inline RefGraph gen_graph(uint64_t seed, uint64_t maxNodes, uint64_t edgeDataSize,
                          DataMode* modeOut = nullptr) {
  GenRng r(seed ^ 0x6772617068ULL);
  Shape shape = (Shape)r.below((unsigned)Shape::NumShapes);
  uint64_t n;
  switch (r.below(4)) {
  case 0: n = 1 + r.below(std::min<uint64_t>(maxNodes, 8) + 0); break;
  case 1: n = 1 + r.below(std::min<uint64_t>(maxNodes, 64) + 0); break;
  case 2: n = 1 + r.below(std::min<uint64_t>(maxNodes, 600) + 0); break;
  default: n = 1 + r.below(maxNodes ? maxNodes : 1); break;
  }
  if (n > maxNodes)
    n = maxNodes ? maxNodes : 1;
  RefGraph g    = gen_shape(r.next(), shape, n);
  DataMode mode = (DataMode)r.below(3);
  assign_data(g, r.next(), mode, edgeDataSize);
  if (modeOut)
    *modeOut = mode;
  return g;
}

} // namespace ref
