// C13 reference oracle: "pieces are contiguous, pairwise disjoint, in order and
// together cover the input exactly". Independent of Galois (no Galois includes).
//
// Positions are __int128 so that every 64-bit signed/unsigned position fits.
//
// What is demanded (and nothing more, see properties.jsonl C13):
//   * every piece is well formed: begin <= end;
//   * the NON-EMPTY pieces, taken in part-index order, are laid end to end:
//     the first begins at lo, each next one begins exactly where the previous
//     non-empty one ended, the last ends at hi;
//   * an EMPTY piece (begin == end) covers nothing and may sit anywhere (real
//     routines return (end,end), (0,0), (lastEnd,lastEnd) ... for empty parts).
//
// The checker is incremental so that it also serves when only some part indices
// can be sampled (2^32 parts): feed(id, b, e) must be called with increasing
// ids; every conclusion drawn is valid for the sampled subset, i.e. a demand
// that needs knowledge of unsampled ids ("begins exactly at") is weakened to
// the sound one ("begins at or after"). With all ids fed it is the full check.
#pragma once
#include <cstdint>
#include <string>

namespace c13ref {

typedef __int128 pos_t;

inline std::string pos_str(pos_t v) {
  if (v == 0)
    return "0";
  bool neg = v < 0;
  unsigned __int128 u = neg ? (unsigned __int128)(-(v + 1)) + 1 : (unsigned __int128)v;
  std::string s;
  while (u) {
    s.insert(s.begin(), char('0' + (int)(u % 10)));
    u /= 10;
  }
  return neg ? "-" + s : s;
}

enum Kind {
  HELD = 0,
  INVERTED_PIECE,      // begin > end
  STARTS_AFTER_BEGIN,  // first non-empty piece begins after lo: head uncovered
  STARTS_BEFORE_BEGIN, // a piece begins before lo
  GAP,                 // next non-empty piece begins after the previous end
  OVERLAP,             // next non-empty piece begins before the previous end
  UNCOVERED_TAIL,      // last non-empty piece ends before hi
  BEYOND_END           // a piece ends after hi
};

inline const char* kind_name(Kind k) {
  switch (k) {
  case HELD: return "held";
  case INVERTED_PIECE: return "inverted-piece";
  case STARTS_AFTER_BEGIN: return "uncovered-head";
  case STARTS_BEFORE_BEGIN: return "before-begin";
  case GAP: return "gap";
  case OVERLAP: return "overlap";
  case UNCOVERED_TAIL: return "uncovered-tail";
  case BEYOND_END: return "beyond-end";
  }
  return "?";
}

struct Tiling {
  pos_t lo, hi;       // input range [lo,hi)
  pos_t hiMin;        // coverage may legally stop anywhere in [hiMin,hi] (== hi normally)
  uint64_t nparts;    // number of part indices
  // state
  pos_t cur;             // end of the last non-empty piece (lo before any)
  bool allSeenSinceCur;  // every id since the one that set cur (or since 0) was fed
  uint64_t nextId = 0;   // next id expected if nothing is skipped
  uint64_t nonEmpty = 0; // number of non-empty pieces fed
  uint64_t fed      = 0;
  // first violation
  Kind bad        = HELD;
  uint64_t badId  = 0;
  pos_t badB = 0, badE = 0, expected = 0;

  Tiling(pos_t lo_, pos_t hi_, uint64_t nparts_)
      : lo(lo_), hi(hi_), hiMin(hi_), nparts(nparts_), cur(lo_), allSeenSinceCur(true) {}

  void fail(Kind k, uint64_t id, pos_t b, pos_t e, pos_t exp) {
    if (bad == HELD) {
      bad = k; badId = id; badB = b; badE = e; expected = exp;
    }
  }

  // ids must be fed in increasing order
  void feed(uint64_t id, pos_t b, pos_t e) {
    ++fed;
    if (id != nextId)
      allSeenSinceCur = false;
    nextId = id + 1;
    if (b > e) {
      fail(INVERTED_PIECE, id, b, e, b);
      return;
    }
    if (b == e)
      return; // empty piece: covers nothing
    ++nonEmpty;
    if (b < lo)
      fail(STARTS_BEFORE_BEGIN, id, b, e, lo);
    else if (b < cur)
      fail(OVERLAP, id, b, e, cur);
    else if (b > cur && allSeenSinceCur)
      fail(nonEmpty == 1 ? STARTS_AFTER_BEGIN : GAP, id, b, e, cur);
    if (e > hi)
      fail(BEYOND_END, id, b, e, hi);
    cur             = e;
    allSeenSinceCur = true;
  }

  // call after the last feed
  Kind finish() {
    if (bad != HELD)
      return bad;
    if (nextId != nparts)
      allSeenSinceCur = false;
    if (cur < hiMin && allSeenSinceCur)
      fail(UNCOVERED_TAIL, nparts ? nparts - 1 : 0, cur, cur, hiMin);
    return bad;
  }

  std::string describe() const {
    return std::string(kind_name(bad)) + " at part " + std::to_string(badId) + ": piece [" +
           pos_str(badB) + "," + pos_str(badE) + ") expected boundary " + pos_str(expected) +
           " input [" + pos_str(lo) + "," + pos_str(hi) + ") parts " + std::to_string(nparts);
  }
};

} // namespace c13ref
