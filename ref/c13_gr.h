// C13 reference: minimal writer for the Galois binary ".gr" CSR format, written
// from the documented layout (OfflineGraph.h header comment); no Galois includes.
//
//   uint64 version (1|2), uint64 sizeofEdgeData, uint64 numNodes, uint64 numEdges
//   uint64 outIdx[numNodes]          (outIdx[n] = index one past n's last edge)
//   v1: uint32 dst[numEdges] (+ 4 bytes padding if numEdges is odd)
//   v2: uint64 dst[numEdges]
//   edge data [numEdges * sizeofEdgeData]
//
// Little-endian host assumed (x86-64).
#pragma once
#include <cstdint>
#include <cstdio>
#include <string>
#include <vector>

namespace c13ref {

// degrees -> inclusive prefix sum
inline std::vector<uint64_t> prefix_of(const std::vector<uint64_t>& deg) {
  std::vector<uint64_t> p(deg.size());
  uint64_t c = 0;
  for (size_t i = 0; i < deg.size(); ++i) {
    c += deg[i];
    p[i] = c;
  }
  return p;
}

// Writes a graph with the given out-degrees; destinations are (src+1+j) mod N
// (irrelevant for C13); edge data (if sizeofEdge==4) is the edge index.
inline bool write_gr(const std::string& path, const std::vector<uint64_t>& deg, int version,
                     unsigned sizeofEdge) {
  FILE* f = fopen(path.c_str(), "wb");
  if (!f)
    return false;
  std::vector<uint64_t> pre = prefix_of(deg);
  uint64_t n = deg.size(), m = n ? pre.back() : 0;
  uint64_t hdr[4] = {(uint64_t)version, sizeofEdge, n, m};
  bool ok = fwrite(hdr, 8, 4, f) == 4;
  if (n)
    ok = ok && fwrite(pre.data(), 8, n, f) == n;
  if (version == 1) {
    std::vector<uint32_t> d;
    d.reserve(m + 1);
    for (uint64_t s = 0; s < n; ++s)
      for (uint64_t j = 0; j < deg[s]; ++j)
        d.push_back((uint32_t)((s + 1 + j) % n));
    if (m & 1)
      d.push_back(0);
    if (!d.empty())
      ok = ok && fwrite(d.data(), 4, d.size(), f) == d.size();
  } else {
    std::vector<uint64_t> d;
    d.reserve(m);
    for (uint64_t s = 0; s < n; ++s)
      for (uint64_t j = 0; j < deg[s]; ++j)
        d.push_back((s + 1 + j) % n);
    if (!d.empty())
      ok = ok && fwrite(d.data(), 8, d.size(), f) == d.size();
  }
  if (sizeofEdge == 4) {
    std::vector<uint32_t> w(m);
    for (uint64_t i = 0; i < m; ++i)
      w[i] = (uint32_t)i;
    if (m)
      ok = ok && fwrite(w.data(), 4, m, f) == m;
    if (m & 1) { // keep the file a multiple of 8 bytes
      uint32_t z = 0;
      ok = ok && fwrite(&z, 4, 1, f) == 1;
    }
  }
  ok = (fclose(f) == 0) && ok;
  return ok;
}

} // namespace c13ref
