// C14 reference support (no Galois includes): instrumented element type with a
// live-instance registry, and its trivially copyable twin.
//
// Registry: every construction registers the object's address, every
// destruction removes it. Violations of "constructed and destroyed exactly
// once, never used outside its lifetime" are *recorded* (first one wins), they
// never touch the memory of a non-live object, so the harness survives them:
//   construct-over-live-element   placement-new on an address that already holds a live element
//   destroy-of-non-live-element   destructor on an address that holds no live element (double destroy,
//                                 destroy of a never-constructed slot)
//   use-of-non-live-element       value read / assignment on an address that holds no live element
// Single-threaded by design (C14 is about single-threaded use).
#pragma once

#include <cstdint>
#include <cstdio>
#include <string>
#include <type_traits>
#include <unordered_map>

namespace c14 {

struct Registry {
  std::unordered_map<const void*, uint64_t> live; // address -> serial
  uint64_t serial     = 0;
  uint64_t constructs = 0, destroys = 0, uses = 0, moves = 0;
  bool bad            = false;
  std::string kind, how;
  uint64_t badSerial = 0;

  void fail(const char* k, const char* h) {
    if (bad)
      return;
    bad  = true;
    kind = k;
    how  = h;
  }
  void construct(const void* p, const char* h) {
    ++constructs;
    auto r = live.emplace(p, ++serial);
    if (!r.second)
      fail("construct-over-live-element", h);
  }
  bool destroy(const void* p) {
    ++destroys;
    if (!live.erase(p)) {
      fail("destroy-of-non-live-element", "destructor");
      return false;
    }
    return true;
  }
  bool use(const void* p, const char* h) {
    ++uses;
    if (!live.count(p)) {
      fail("use-of-non-live-element", h);
      return false;
    }
    return true;
  }
  bool isLive(const void* p) const { return live.count(p) != 0; }
  size_t liveCount() const { return live.size(); }
  void reset() {
    live.clear();
    bad = false;
    kind.clear();
    how.clear();
    constructs = destroys = uses = moves = 0;
  }
};
inline Registry g_reg;

constexpr int MOVED_FROM = -777001; // value left in a moved-from Tracked
constexpr int NON_LIVE   = -777002; // value reported for a non-live Tracked
constexpr int CORRUPT    = -777003; // value reported for a torn Pod
constexpr int DEAD       = -777004; // written into a destroyed Tracked

//! Element with non-trivial construction/copy/move/destruction.
struct Tracked {
  int v;
  int chk;

  Tracked() : v(0), chk(~0) { g_reg.construct(this, "default-ctor"); }
  Tracked(int x) : v(x), chk(~x) { g_reg.construct(this, "value-ctor"); }
  Tracked(const Tracked& o) {
    int x = o.get("copy-ctor source");
    v     = x;
    chk   = ~x;
    g_reg.construct(this, "copy-ctor");
  }
  Tracked(Tracked&& o) noexcept {
    int x = o.get("move-ctor source");
    v     = x;
    chk   = ~x;
    g_reg.construct(this, "move-ctor");
    ++g_reg.moves;
    if (g_reg.isLive(&o))
      o.set(MOVED_FROM);
  }
  Tracked& operator=(const Tracked& o) {
    int x = o.get("copy-assign source");
    if (g_reg.use(this, "copy-assign target"))
      set(x);
    return *this;
  }
  Tracked& operator=(Tracked&& o) noexcept {
    if (this == &o)
      return *this;
    int x = o.get("move-assign source");
    if (g_reg.use(this, "move-assign target"))
      set(x);
    ++g_reg.moves;
    if (g_reg.isLive(&o))
      o.set(MOVED_FROM);
    return *this;
  }
  ~Tracked() {
    if (g_reg.destroy(this))
      set(DEAD);
  }
  void set(int x) {
    v   = x;
    chk = ~x;
  }
  //! value; never touches the memory of a non-live object
  int get(const char* how = "read") const {
    if (!g_reg.use(this, how))
      return NON_LIVE;
    return chk == ~v ? v : CORRUPT;
  }
};
inline bool operator==(const Tracked& a, const Tracked& b) { return a.get("==") == b.get("=="); }
inline bool operator!=(const Tracked& a, const Tracked& b) { return !(a == b); }
inline bool operator<(const Tracked& a, const Tracked& b) { return a.get("<") < b.get("<"); }
inline bool operator>(const Tracked& a, const Tracked& b) { return b < a; }
inline bool operator<=(const Tracked& a, const Tracked& b) { return !(b < a); }
inline bool operator>=(const Tracked& a, const Tracked& b) { return !(a < b); }

//! Trivially copyable twin with the same size and a redundancy word (torn or
//! half-copied elements become visible).
struct Pod {
  int v;
  int chk;
  Pod() = default;
  Pod(int x) : v(x), chk(~x) {}
  int get(const char* = "") const { return chk == ~v ? v : CORRUPT; }
};
static_assert(std::is_trivially_copyable<Pod>::value, "Pod must be trivially copyable");
static_assert(sizeof(Pod) == sizeof(Tracked), "twins have the same size");
inline bool operator==(const Pod& a, const Pod& b) { return a.get() == b.get(); }
inline bool operator!=(const Pod& a, const Pod& b) { return !(a == b); }
inline bool operator<(const Pod& a, const Pod& b) { return a.get() < b.get(); }
inline bool operator>(const Pod& a, const Pod& b) { return b < a; }
inline bool operator<=(const Pod& a, const Pod& b) { return !(b < a); }
inline bool operator>=(const Pod& a, const Pod& b) { return !(a < b); }

inline int val(const Tracked& x) { return x.get(); }
inline int val(const Pod& x) { return x.get(); }
inline int val(int x) { return x; }

template <typename T>
struct ElemName;
template <>
struct ElemName<Tracked> {
  static const char* name() { return "tracked"; }
  static constexpr bool tracked = true;
};
template <>
struct ElemName<Pod> {
  static const char* name() { return "pod"; }
  static constexpr bool tracked = false;
};
template <>
struct ElemName<int> {
  static const char* name() { return "int"; }
  static constexpr bool tracked = false;
};


// ------------------------------------------------------------------ other element sizes / alignments
// TrackedX<E, A> / PodX<E, A>: like Tracked / Pod with E extra redundancy words (sizeof = 8 + 4*E rounded up to
// the alignment A): 12-, 20- and 24-byte elements whose size does not divide a block header or a chunk, and
// elements with alignment 8. Every word is derived from the value, so a partial overwrite is visible (CORRUPT).
inline int padWord(int v, unsigned i) { return v ^ (int)(0x5a5a0000u + 0x101u * (i + 1)); }

template <unsigned E, unsigned A = 4>
struct alignas(A) TrackedX {
  int v;
  int chk;
  int pad[E];

  TrackedX() { fill(0); g_reg.construct(this, "default-ctor"); }
  TrackedX(int x) { fill(x); g_reg.construct(this, "value-ctor"); }
  TrackedX(const TrackedX& o) {
    fill(o.get("copy-ctor source"));
    g_reg.construct(this, "copy-ctor");
  }
  TrackedX(TrackedX&& o) noexcept {
    fill(o.get("move-ctor source"));
    g_reg.construct(this, "move-ctor");
    ++g_reg.moves;
    if (g_reg.isLive(&o))
      o.fill(MOVED_FROM);
  }
  TrackedX& operator=(const TrackedX& o) {
    int x = o.get("copy-assign source");
    if (g_reg.use(this, "copy-assign target"))
      fill(x);
    return *this;
  }
  TrackedX& operator=(TrackedX&& o) noexcept {
    if (this == &o)
      return *this;
    int x = o.get("move-assign source");
    if (g_reg.use(this, "move-assign target"))
      fill(x);
    ++g_reg.moves;
    if (g_reg.isLive(&o))
      o.fill(MOVED_FROM);
    return *this;
  }
  ~TrackedX() {
    if (g_reg.destroy(this))
      fill(DEAD);
  }
  void fill(int x) {
    v   = x;
    chk = ~x;
    for (unsigned i = 0; i < E; ++i)
      pad[i] = padWord(x, i);
  }
  int get(const char* how = "read") const {
    if (!g_reg.use(this, how))
      return NON_LIVE;
    if (chk != ~v)
      return CORRUPT;
    for (unsigned i = 0; i < E; ++i)
      if (pad[i] != padWord(v, i))
        return CORRUPT;
    return v;
  }
};

template <unsigned E, unsigned A = 4>
struct alignas(A) PodX {
  int v;
  int chk;
  int pad[E];
  PodX() = default;
  PodX(int x) : v(x), chk(~x) {
    for (unsigned i = 0; i < E; ++i)
      pad[i] = padWord(x, i);
  }
  int get(const char* = "") const {
    if (chk != ~v)
      return CORRUPT;
    for (unsigned i = 0; i < E; ++i)
      if (pad[i] != padWord(v, i))
        return CORRUPT;
    return v;
  }
};

#define C14_CMP(TYPE)                                                                                                 \
  template <unsigned E, unsigned A>                                                                                   \
  inline bool operator==(const TYPE<E, A>& a, const TYPE<E, A>& b) {                                                  \
    return a.get("==") == b.get("==");                                                                                \
  }                                                                                                                   \
  template <unsigned E, unsigned A>                                                                                   \
  inline bool operator!=(const TYPE<E, A>& a, const TYPE<E, A>& b) {                                                  \
    return !(a == b);                                                                                                 \
  }                                                                                                                   \
  template <unsigned E, unsigned A>                                                                                   \
  inline bool operator<(const TYPE<E, A>& a, const TYPE<E, A>& b) {                                                   \
    return a.get("<") < b.get("<");                                                                                   \
  }                                                                                                                   \
  template <unsigned E, unsigned A>                                                                                   \
  inline int val(const TYPE<E, A>& x) {                                                                               \
    return x.get();                                                                                                   \
  }
C14_CMP(TrackedX)
C14_CMP(PodX)
#undef C14_CMP

typedef TrackedX<1> Tracked12;    // {int,int,int}
typedef PodX<1> Pod12;
typedef TrackedX<3> Tracked20;
typedef PodX<3> Pod20;
typedef TrackedX<4, 8> Tracked24; // size and alignment of three pointers
typedef PodX<4, 8> Pod24;
static_assert(sizeof(Tracked12) == 12 && sizeof(Pod12) == 12 && sizeof(Tracked20) == 20 && sizeof(Pod20) == 20 &&
                  sizeof(Tracked24) == 24 && sizeof(Pod24) == 24 && alignof(Tracked24) == 8,
              "element sizes");
static_assert(std::is_trivially_copyable<Pod12>::value && std::is_trivially_copyable<Pod24>::value, "");

template <unsigned E, unsigned A>
struct ElemName<TrackedX<E, A>> {
  static constexpr bool tracked = true;
};
template <unsigned E, unsigned A>
struct ElemName<PodX<E, A>> {
  static constexpr bool tracked = false;
};

} // namespace c14
