// C14 reference support (no Galois includes): instrumented element type with a
// live-instance registry, and its trivially copyable twin.
//
// Registry: every construction registers the object's address, every
// destruction removes it. Violations of "constructed and destroyed exactly
// once, never used outside its lifetime" are *recorded* (first one wins), they
// never touch the memory of a non-live object, so the harness survives them:
//   construct-over-live-element   placement-new on an address that already holds a live element
//   destroy-of-non-live-element   destructor on an address that holds no live element (double destroy,
//                                 destroy of a never-constructed slot)
//   use-of-non-live-element       value read / assignment on an address that holds no live element
// Single-threaded by design (C14 is about single-threaded use).
#pragma once

#include <cstdint>
#include <cstdio>
#include <string>
#include <type_traits>
#include <unordered_map>

namespace c14 {

struct Registry {
  std::unordered_map<const void*, uint64_t> live; // address -> serial
  uint64_t serial     = 0;
  uint64_t constructs = 0, destroys = 0, uses = 0, moves = 0;
  bool bad            = false;
  std::string kind, how;
  uint64_t badSerial = 0;

  void fail(const char* k, const char* h) {
    if (bad)
      return;
    bad  = true;
    kind = k;
    how  = h;
  }
  void construct(const void* p, const char* h) {
    ++constructs;
    auto r = live.emplace(p, ++serial);
    if (!r.second)
      fail("construct-over-live-element", h);
  }
  bool destroy(const void* p) {
    ++destroys;
    if (!live.erase(p)) {
      fail("destroy-of-non-live-element", "destructor");
      return false;
    }
    return true;
  }
  bool use(const void* p, const char* h) {
    ++uses;
    if (!live.count(p)) {
      fail("use-of-non-live-element", h);
      return false;
    }
    return true;
  }
  bool isLive(const void* p) const { return live.count(p) != 0; }
  size_t liveCount() const { return live.size(); }
  void reset() {
    live.clear();
    bad = false;
    kind.clear();
    how.clear();
    constructs = destroys = uses = moves = 0;
  }
};
inline Registry g_reg;

constexpr int MOVED_FROM = -777001; // value left in a moved-from Tracked
constexpr int NON_LIVE   = -777002; // value reported for a non-live Tracked
constexpr int CORRUPT    = -777003; // value reported for a torn Pod
constexpr int DEAD       = -777004; // written into a destroyed Tracked

//! Element with non-trivial construction/copy/move/destruction.
struct Tracked {
  int v;
  int chk;

  Tracked() : v(0), chk(~0) { g_reg.construct(this, "default-ctor"); }
  Tracked(int x) : v(x), chk(~x) { g_reg.construct(this, "value-ctor"); }
  Tracked(const Tracked& o) {
    int x = o.get("copy-ctor source");
    v     = x;
    chk   = ~x;
    g_reg.construct(this, "copy-ctor");
  }
  Tracked(Tracked&& o) noexcept {
    int x = o.get("move-ctor source");
    v     = x;
    chk   = ~x;
    g_reg.construct(this, "move-ctor");
    ++g_reg.moves;
    if (g_reg.isLive(&o))
      o.set(MOVED_FROM);
  }
  Tracked& operator=(const Tracked& o) {
    int x = o.get("copy-assign source");
    if (g_reg.use(this, "copy-assign target"))
      set(x);
    return *this;
  }
  Tracked& operator=(Tracked&& o) noexcept {
    if (this == &o)
      return *this;
    int x = o.get("move-assign source");
    if (g_reg.use(this, "move-assign target"))
      set(x);
    ++g_reg.moves;
    if (g_reg.isLive(&o))
      o.set(MOVED_FROM);
    return *this;
  }
  ~Tracked() {
    if (g_reg.destroy(this))
      set(DEAD);
  }
  void set(int x) {
    v   = x;
    chk = ~x;
  }
  //! value; never touches the memory of a non-live object
  int get(const char* how = "read") const {
    if (!g_reg.use(this, how))
      return NON_LIVE;
    return chk == ~v ? v : CORRUPT;
  }
};
inline bool operator==(const Tracked& a, const Tracked& b) { return a.get("==") == b.get("=="); }
inline bool operator!=(const Tracked& a, const Tracked& b) { return !(a == b); }
inline bool operator<(const Tracked& a, const Tracked& b) { return a.get("<") < b.get("<"); }
inline bool operator>(const Tracked& a, const Tracked& b) { return b < a; }
inline bool operator<=(const Tracked& a, const Tracked& b) { return !(b < a); }
inline bool operator>=(const Tracked& a, const Tracked& b) { return !(a < b); }

//! Trivially copyable twin with the same size and a redundancy word (torn or
//! half-copied elements become visible).
struct Pod {
  int v;
  int chk;
  Pod() = default;
  Pod(int x) : v(x), chk(~x) {}
  int get(const char* = "") const { return chk == ~v ? v : CORRUPT; }
};
static_assert(std::is_trivially_copyable<Pod>::value, "Pod must be trivially copyable");
static_assert(sizeof(Pod) == sizeof(Tracked), "twins have the same size");
inline bool operator==(const Pod& a, const Pod& b) { return a.get() == b.get(); }
inline bool operator!=(const Pod& a, const Pod& b) { return !(a == b); }
inline bool operator<(const Pod& a, const Pod& b) { return a.get() < b.get(); }
inline bool operator>(const Pod& a, const Pod& b) { return b < a; }
inline bool operator<=(const Pod& a, const Pod& b) { return !(b < a); }
inline bool operator>=(const Pod& a, const Pod& b) { return !(a < b); }

inline int val(const Tracked& x) { return x.get(); }
inline int val(const Pod& x) { return x.get(); }
inline int val(int x) { return x; }

template <typename T>
struct ElemName;
template <>
struct ElemName<Tracked> {
  static const char* name() { return "tracked"; }
  static constexpr bool tracked = true;
};
template <>
struct ElemName<Pod> {
  static const char* name() { return "pod"; }
  static constexpr bool tracked = false;
};
template <>
struct ElemName<int> {
  static const char* name() { return "int"; }
  static constexpr bool tracked = false;
};

} // namespace c14
