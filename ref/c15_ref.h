// Independent sequential reference models for C15 (no Galois includes).
//   - SeqUnionFind      : plain array union-find over ids
//   - BitModel          : one bool per bit, inclusive-range reset, word view
//   - canonical_partition: canonical labelling of a partition for comparison
#pragma once

#include <algorithm>
#include <cstddef>
#include <cstdint>
#include <numeric>
#include <vector>

namespace c15ref {

struct SeqUnionFind {
  std::vector<uint32_t> parent;
  explicit SeqUnionFind(size_t n) : parent(n) { std::iota(parent.begin(), parent.end(), 0u); }
  uint32_t find(uint32_t x) {
    uint32_t r = x;
    while (parent[r] != r)
      r = parent[r];
    while (parent[x] != r) {
      uint32_t nx = parent[x];
      parent[x]   = r;
      x           = nx;
    }
    return r;
  }
  // returns true iff two different sets were joined
  bool unite(uint32_t a, uint32_t b) {
    a = find(a);
    b = find(b);
    if (a == b)
      return false;
    parent[std::max(a, b)] = std::min(a, b);
    return true;
  }
  size_t components() {
    size_t c = 0;
    for (uint32_t i = 0; i < parent.size(); ++i)
      if (find(i) == i)
        ++c;
    return c;
  }
};

// label[i] = smallest member id of i's class, given any representative map
inline std::vector<uint32_t> canonical_partition(const std::vector<uint32_t>& rep) {
  // rep[i] is an arbitrary class identifier in [0, n)
  size_t n = rep.size();
  std::vector<uint32_t> smallest(n, UINT32_MAX), out(n);
  for (uint32_t i = 0; i < n; ++i)
    if (i < smallest[rep[i]])
      smallest[rep[i]] = i;
  for (uint32_t i = 0; i < n; ++i)
    out[i] = smallest[rep[i]];
  return out;
}

struct BitModel {
  std::vector<uint8_t> b; // one byte per bit
  explicit BitModel(size_t n = 0) : b(n, 0) {}
  size_t size() const { return b.size(); }
  void set(size_t i) { b[i] = 1; }
  void reset(size_t i) { b[i] = 0; }
  bool test(size_t i) const { return b[i] != 0; }
  // inclusive range, like DynamicBitSet::reset(begin,end)
  void reset_range(size_t begin, size_t end) {
    for (size_t i = begin; i <= end && i < b.size(); ++i)
      b[i] = 0;
  }
  size_t words() const { return (b.size() + 63) / 64; }
  uint64_t word(size_t w) const {
    uint64_t v = 0;
    size_t lo  = w * 64;
    for (size_t i = 0; i < 64 && lo + i < b.size(); ++i)
      if (b[lo + i])
        v |= (uint64_t)1 << i;
    return v;
  }
  void load_word(size_t w, uint64_t v) {
    size_t lo = w * 64;
    for (size_t i = 0; i < 64 && lo + i < b.size(); ++i)
      b[lo + i] = (v >> i) & 1;
  }
  uint64_t count() const {
    uint64_t c = 0;
    for (uint8_t x : b)
      c += x;
    return c;
  }
  std::vector<uint32_t> offsets() const {
    std::vector<uint32_t> o;
    for (size_t i = 0; i < b.size(); ++i)
      if (b[i])
        o.push_back((uint32_t)i);
    return o;
  }
};

} // namespace c15ref
