// Independent reference code for C09 (no Galois includes, header-only).
//
//  * IntervalShadow: a sharded map of the address intervals that the harness
//    currently believes to be live. insert() is called AFTER an allocator
//    returned a block, erase() BEFORE the block is handed back, so a correct
//    allocator can never appear to overlap.
//  * canary_fill / canary_check: block-specific byte pattern over the
//    *requested* size (dense for small blocks, sparse - head, tail and a
//    stripe at every 4 KB boundary - for big ones).
#pragma once

#include <cstddef>
#include <cstdint>
#include <cstring>
#include <map>
#include <mutex>

namespace vref {

struct ShadowEntry {
  uintptr_t lo = 0, hi = 0; // [lo,hi)
  uint64_t id  = 0;         // harness block id
  uint32_t tag = 0;         // free for the harness (component / owner thread)
};

class IntervalShadow {
  static constexpr unsigned NSHARD       = 128;
  static constexpr unsigned REGION_SHIFT = 21; // 2 MB address regions
  struct alignas(64) Shard {
    std::mutex m;
    std::map<uintptr_t, ShadowEntry> byLo; // disjoint intervals keyed by lo
  };
  Shard shards_[NSHARD];

  static unsigned shardOf(uintptr_t region) { return (unsigned)((region * 0x9E3779B97F4A7C15ULL) >> 57) % NSHARD; }

  // overlap test inside one shard (caller holds the lock)
  static bool overlapsLocked(const Shard& s, uintptr_t lo, uintptr_t hi, ShadowEntry* other) {
    auto it = s.byLo.lower_bound(lo);
    if (it != s.byLo.end() && it->second.lo < hi) {
      if (other)
        *other = it->second;
      return true;
    }
    if (it != s.byLo.begin()) {
      --it;
      if (it->second.hi > lo) {
        if (other)
          *other = it->second;
        return true;
      }
    }
    return false;
  }

  // distinct shards touched by the 2 MB regions of [lo,hi), in visiting order
  static unsigned shardsOf(uintptr_t lo, uintptr_t hi, unsigned* out) {
    uint64_t seen[NSHARD / 64] = {};
    unsigned n = 0;
    for (uintptr_t r = lo >> REGION_SHIFT; r <= (hi - 1) >> REGION_SHIFT; ++r) {
      unsigned sh = shardOf(r);
      if (seen[sh / 64] & (1ULL << (sh % 64)))
        continue;
      seen[sh / 64] |= 1ULL << (sh % 64);
      out[n++] = sh;
      if (n == NSHARD)
        break;
    }
    return n;
  }

public:
  // Registers [p,p+len). Returns true when it is disjoint from every live
  // interval (and is now live itself); false (nothing registered, *other =
  // one overlapping live interval) otherwise. len == 0 is accepted and not
  // registered. An interval is stored (whole) in the shard of every 2 MB
  // region it touches, so two overlapping intervals always meet in a shard.
  bool insert(const void* p, size_t len, uint64_t id, uint32_t tag, ShadowEntry* other) {
    if (!len)
      return true;
    uintptr_t lo = (uintptr_t)p, hi = lo + len;
    ShadowEntry e;
    e.lo  = lo;
    e.hi  = hi;
    e.id  = id;
    e.tag = tag;
    unsigned sh[NSHARD];
    unsigned n = shardsOf(lo, hi, sh);
    for (unsigned i = 0; i < n; ++i) {
      Shard& s = shards_[sh[i]];
      bool bad;
      {
        std::lock_guard<std::mutex> lg(s.m);
        bad = overlapsLocked(s, lo, hi, other);
        if (!bad)
          s.byLo.emplace(lo, e);
      }
      if (bad) {
        for (unsigned j = 0; j < i; ++j) { // roll back
          Shard& t = shards_[sh[j]];
          std::lock_guard<std::mutex> lg(t.m);
          auto it = t.byLo.find(lo);
          if (it != t.byLo.end() && it->second.id == id)
            t.byLo.erase(it);
        }
        return false;
      }
    }
    return true;
  }

  // Unregisters [p,p+len). Returns false if it was not registered with this id
  // (a harness bookkeeping error, never an allocator fault).
  bool erase(const void* p, size_t len, uint64_t id) {
    if (!len)
      return true;
    uintptr_t lo = (uintptr_t)p, hi = lo + len;
    unsigned sh[NSHARD];
    unsigned n = shardsOf(lo, hi, sh);
    bool ok    = true;
    for (unsigned i = 0; i < n; ++i) {
      Shard& s = shards_[sh[i]];
      std::lock_guard<std::mutex> lg(s.m);
      auto it = s.byLo.find(lo);
      if (it != s.byLo.end() && it->second.id == id && it->second.hi == hi)
        s.byLo.erase(it);
      else
        ok = false;
    }
    return ok;
  }

  // does [p,p+len) intersect a live interval? (no registration)
  bool overlaps(const void* p, size_t len, ShadowEntry* other) {
    if (!len)
      return false;
    uintptr_t lo = (uintptr_t)p, hi = lo + len;
    unsigned sh[NSHARD];
    unsigned n = shardsOf(lo, hi, sh);
    for (unsigned i = 0; i < n; ++i) {
      Shard& s = shards_[sh[i]];
      std::lock_guard<std::mutex> lg(s.m);
      if (overlapsLocked(s, lo, hi, other))
        return true;
    }
    return false;
  }

  size_t liveEntries() {
    size_t n = 0;
    for (auto& s : shards_) {
      std::lock_guard<std::mutex> lg(s.m);
      n += s.byLo.size();
    }
    return n;
  }
};

// ------------------------------------------------------------------ canaries
constexpr size_t CANARY_DENSE_MAX = 128 * 1024; // larger blocks get the sparse pattern
constexpr size_t CANARY_EDGE      = 4096;
constexpr size_t CANARY_STRIPE    = 64;
constexpr size_t CANARY_PAGE      = 4096;

inline uint8_t canary_byte(uint64_t seed, size_t off) {
  uint64_t w = (seed + (off >> 3)) * 0x9E3779B97F4A7C15ULL + 0x5851F42D4C957F2DULL;
  return (uint8_t)(w >> (8 * (off & 7)));
}

namespace detail {
inline void fill_range(unsigned char* base, size_t a, size_t b, uint64_t seed) {
  size_t i = a;
  for (; i < b && (i & 7); ++i)
    base[i] = canary_byte(seed, i);
  for (; i + 8 <= b; i += 8) {
    uint64_t w = (seed + (i >> 3)) * 0x9E3779B97F4A7C15ULL + 0x5851F42D4C957F2DULL;
    memcpy(base + i, &w, 8); // little endian: byte k = w >> 8k
  }
  for (; i < b; ++i)
    base[i] = canary_byte(seed, i);
}
// returns offset of first mismatch in [a,b) or (size_t)-1
inline size_t check_range(const unsigned char* base, size_t a, size_t b, uint64_t seed) {
  size_t i = a;
  for (; i < b && (i & 7); ++i)
    if (base[i] != canary_byte(seed, i))
      return i;
  for (; i + 8 <= b; i += 8) {
    uint64_t w = (seed + (i >> 3)) * 0x9E3779B97F4A7C15ULL + 0x5851F42D4C957F2DULL, v;
    memcpy(&v, base + i, 8);
    if (v != w) {
      for (size_t k = 0; k < 8; ++k)
        if (base[i + k] != canary_byte(seed, i + k))
          return i + k;
    }
  }
  for (; i < b; ++i)
    if (base[i] != canary_byte(seed, i))
      return i;
  return (size_t)-1;
}
template <typename F>
inline void for_canary_ranges(size_t len, F f) {
  if (len <= CANARY_DENSE_MAX) {
    f((size_t)0, len);
    return;
  }
  f((size_t)0, CANARY_EDGE);
  for (size_t o = CANARY_PAGE; o + CANARY_STRIPE <= len - CANARY_EDGE; o += CANARY_PAGE)
    if (o >= CANARY_EDGE)
      f(o, o + CANARY_STRIPE);
  f(len - CANARY_EDGE, len);
}
} // namespace detail

// bytes actually covered by the pattern for a block of len bytes
inline size_t canary_covered(size_t len) {
  size_t n = 0;
  detail::for_canary_ranges(len, [&](size_t a, size_t b) { n += b - a; });
  return n;
}
inline void canary_fill(void* p, size_t len, uint64_t seed) {
  detail::for_canary_ranges(len, [&](size_t a, size_t b) { detail::fill_range((unsigned char*)p, a, b, seed); });
}
// offset of the first foreign byte or (size_t)-1 when intact
inline size_t canary_check(const void* p, size_t len, uint64_t seed) {
  size_t bad = (size_t)-1;
  detail::for_canary_ranges(len, [&](size_t a, size_t b) {
    if (bad != (size_t)-1)
      return;
    bad = detail::check_range((const unsigned char*)p, a, b, seed);
  });
  return bad;
}

} // namespace vref
