// Reference oracles for C16 (ParallelSTL). No Galois includes: only the C++
// standard library. Everything here decides exactly what the property states
// and no more:
//   partition : returned point p is a valid partition point of the output
//               (all-true before, all-false after) and the output is a
//               permutation of the input
//   sort      : output ordered by the comparator (stability NOT required) and a
//               permutation of the input
//   find_if   : result == last iff no element satisfies the predicate, else the
//               result satisfies it (any match is accepted)
//   count_if / accumulate / map_reduce / partial_sum : equal to the value the
//               std:: algorithm computes on a copy of the input
#pragma once

#include <algorithm>
#include <cstddef>
#include <cstdint>
#include <numeric>
#include <string>
#include <vector>

namespace ref16 {

// ------------------------------------------------------------ permutation
// `less` must be a strict TOTAL order on the full value (payload included).
template <class T, class TotalLess>
bool same_multiset(const std::vector<T>& a, const std::vector<T>& b, TotalLess less, size_t* firstDiff = nullptr) {
  if (a.size() != b.size()) {
    if (firstDiff)
      *firstDiff = std::min(a.size(), b.size());
    return false;
  }
  std::vector<T> x(a), y(b);
  std::sort(x.begin(), x.end(), less);
  std::sort(y.begin(), y.end(), less);
  for (size_t i = 0; i < x.size(); ++i)
    if (less(x[i], y[i]) || less(y[i], x[i])) {
      if (firstDiff)
        *firstDiff = i;
      return false;
    }
  return true;
}

// ------------------------------------------------------------ partition
struct PartitionVerdict {
  bool inRange       = true;  // 0 <= p <= n
  bool partitioned   = true;  // all-true before p, all-false from p on
  size_t badIndex    = 0;     // first index on the wrong side of p
  bool badValue      = false; // pred value at badIndex
  size_t expectTrue  = 0;     // number of elements of the INPUT satisfying pred
  size_t runs        = 0;     // number of maximal equal-pred runs in the output
  size_t boundary[4] = {0, 0, 0, 0}; // start index of runs 1..4 (if they exist)
  bool firstRunTrue  = false;
  bool untouched     = false; // output sequence identical to the input sequence
};

template <class T, class PurePred, class Eq>
PartitionVerdict check_partition(const std::vector<T>& in, const std::vector<T>& out, long p, PurePred pred, Eq eq) {
  PartitionVerdict v;
  const size_t n = out.size();
  v.expectTrue   = (size_t)std::count_if(in.begin(), in.end(), pred);
  if (p < 0 || (size_t)p > n) {
    v.inRange     = false;
    v.partitioned = false;
  }
  bool prev = false;
  for (size_t i = 0; i < n; ++i) {
    bool b = pred(out[i]);
    if (i == 0) {
      v.firstRunTrue = b;
      v.runs         = 1;
    } else if (b != prev) {
      if (v.runs < 5)
        v.boundary[v.runs - 1] = i;
      ++v.runs;
    }
    prev = b;
    if (v.inRange && v.partitioned && b != (i < (size_t)p)) {
      v.partitioned = false;
      v.badIndex    = i;
      v.badValue    = b;
    }
  }
  v.untouched = in.size() == n;
  for (size_t i = 0; v.untouched && i < n; ++i)
    if (!eq(in[i], out[i]))
      v.untouched = false;
  return v;
}

// ------------------------------------------------------------ sort
// returns n if ordered, else the first i with comp(out[i+1], out[i])
template <class T, class PureComp>
size_t first_unordered(const std::vector<T>& out, PureComp comp) {
  for (size_t i = 0; i + 1 < out.size(); ++i)
    if (comp(out[i + 1], out[i]))
      return i;
  return out.size();
}

// ------------------------------------------------------------ scans / folds
template <class T>
std::vector<T> partial_sums(const std::vector<T>& in) {
  std::vector<T> r(in.size());
  std::partial_sum(in.begin(), in.end(), r.begin());
  return r;
}

} // namespace ref16
