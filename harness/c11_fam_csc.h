#pragma once
// C11: LC_CSR_CSC_Graph — in-edges constructed from the out-edges
// (constructIncomingEdges: count, prefix sum, atomic slot claiming), in-edge
// data by value or shared with the out-edge, in-edge sorting, and the direct
// .gr reader readAndConstructBiGraphFromGRFile.
#include "c11_csr.h"

namespace c11 {

template <class G>
void observeIn(G& g, const Indexer<G>& ix, Obs& o, galois::MethodFlag flag) {
  o.adj.assign(ix.nodes.size(), {});
  for (size_t i = 0; i < ix.nodes.size(); ++i) {
    auto b = g.in_edge_begin((uint32_t)i, flag);
    auto e = g.in_edge_end((uint32_t)i, flag);
    auto d = std::distance(b, e);
    if (d < 0 || (uint64_t)d > (1ull << 32)) {
      if (o.err.empty())
        o.err = "node " + std::to_string(i) + ": in_edge_end precedes in_edge_begin";
      continue;
    }
    auto& a = o.adj[i];
    for (auto it = b; it != e; ++it) {
      uint64_t src = g.getInEdgeDst(it);
      if (src >= ix.nodes.size() && o.err.empty())
        o.err = "node " + std::to_string(i) + ": in-edge source is not a node of the graph";
      ref::RefEdge r(src);
      if constexpr (graphHasEdgeData<G>)
        toRef<typename G::edge_data_type>(g.getInEdgeData(it), r);
      a.push_back(std::move(r));
    }
  }
}

template <class G>
bool verifyIn(Ctx& c, G& g, const Indexer<G>& ix, bool sorted) {
  Obs in;
  observeIn(g, ix, in, c.rng.below(2) ? galois::MethodFlag::UNPROTECTED : galois::MethodFlag::WRITE);
  if (!checkMultiset(c, in, c.XT(), "in-edges", true))
    return false;
  if (sorted && !checkSortedByDst(c, in, "in-edges"))
    return false;
  uint64_t run = 0;
  auto& pfx    = g.getInEdgePrefixSum();
  for (uint64_t n = 0; n < c.X.numNodes; ++n) {
    uint64_t want = c.XT().adj[n].size();
    run += want;
    uint64_t k = 0;
    for (auto ii : g.in_edges((uint32_t)n, galois::MethodFlag::UNPROTECTED)) {
      (void)ii;
      if (++k > want + 4)
        break;
    }
    if (g.getInDegree((uint32_t)n) != want || k != want || pfx[n] != run) {
      c.fail("in-edges-degree", J().kv("node", n).kv("expected", want).kv("getInDegree", g.getInDegree((uint32_t)n))
                                    .kv("in_edges_range", k).kv("prefix_sum", (uint64_t)pfx[n]).kv("expected_prefix", run).str());
      return false;
    }
  }
  return true;
}

template <class G>
void opInEdges(Ctx& c) {
  G g;
  loadCsr<G, CscFam>(c, g, c.file(), c.esz);
  g.constructIncomingEdges();
  ++c.transposes;
  if (!verifyCsr<G, CscFam>(c, g, c.X, true, "read"))
    return;
  Indexer<G> ix;
  ix.build(g, c.X.numNodes + 8);
  verifyIn(c, g, ix, false);
}

template <class G, bool All>
void opSortIn(Ctx& c) {
  G g;
  loadCsr<G, CscFam>(c, g, c.file(), c.esz);
  g.constructIncomingEdges();
  ++c.transposes;
  if (All)
    g.sortAllInEdgesByDst();
  else
    for (uint64_t n = 0; n < c.X.numNodes; ++n)
      g.sortInEdgesByDst((uint32_t)n);
  Indexer<G> ix;
  ix.build(g, c.X.numNodes + 8);
  if (!verifyIn(c, g, ix, true))
    return;
  // the out-edges are untouched
  Obs o;
  observeOut(g, ix, o, galois::MethodFlag::UNPROTECTED);
  checkOrdered(c, o, c.X, "read");
}

template <class G>
void opBiGR(Ctx& c) {
  G g;
  g.readAndConstructBiGraphFromGRFile(c.file());
  ++c.builds;
  ++c.transposes;
  if (!verifyCsr<G, CscFam>(c, g, c.X, true, "read"))
    return;
  Indexer<G> ix;
  ix.build(g, c.X.numNodes + 8);
  verifyIn(c, g, ix, false);
}

enum CscOps : unsigned { C_READ = 1, C_IN = 2, C_SORTIN = 4, C_BIGR = 8, C_ALL = 15 };

template <class G>
void regCsc(const std::string& cfg, unsigned ops) {
  using E = typename G::edge_data_type;
  auto& R = registry();
  if (ops & C_READ)
    R.push_back(mkEntry<E>(CscFam::name, cfg, "read", &opRead<G, CscFam>));
  if (ops & C_IN)
    R.push_back(mkEntry<E>(CscFam::name, cfg, "in_edges", &opInEdges<G>, 0, 3));
  if (ops & C_SORTIN) {
    R.push_back(mkEntry<E>(CscFam::name, cfg, "sortInEdgesByDst", &opSortIn<G, false>));
    R.push_back(mkEntry<E>(CscFam::name, cfg, "sortAllInEdgesByDst", &opSortIn<G, true>));
  }
  if (ops & C_BIGR)
    R.push_back(mkEntry<E>(CscFam::name, cfg, "readAndConstructBiGraphFromGRFile", &opBiGR<G>));
}

// LC_CSR_CSC_Graph<NodeTy, EdgeTy, EdgeDataByValue, HasNoLockable, UseNumaAlloc, HasOutOfLineLockable>
template <class E, bool ByVal, bool NL = false, bool NU = false, bool OOL = false>
using Csc = gg::LC_CSR_CSC_Graph<uint32_t, E, ByVal, NL, NU, OOL>;

template <class E>
void regCscFull() {
  regCsc<Csc<E, true>>("byvalue", C_ALL);
  regCsc<Csc<E, false>>("shared", C_ALL);
  regCsc<Csc<E, true, true, false, false>>("byvalue+nolock", C_IN | C_SORTIN);
  regCsc<Csc<E, false, true, false, false>>("shared+nolock", C_IN | C_SORTIN);
  regCsc<Csc<E, true, false, true, false>>("byvalue+numa", C_IN | C_SORTIN);
  regCsc<Csc<E, false, false, true, false>>("shared+numa", C_IN | C_SORTIN);
  regCsc<Csc<E, true, false, false, true>>("byvalue+ool", C_IN | C_SORTIN);
  regCsc<Csc<E, false, false, false, true>>("shared+ool", C_IN | C_SORTIN);
  regCsc<Csc<E, true, false, true, true>>("byvalue+ool+numa", C_IN | C_SORTIN);
  regCsc<Csc<E, false, false, true, true>>("shared+ool+numa", C_IN | C_SORTIN);
}


} // namespace c11
