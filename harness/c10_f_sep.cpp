// C10 flavours: Morph_SepInOut_Graph (separate in-edge vector). Own executable: its header re-defines the helper
// templates of MorphGraph.h, so the two must never meet in one program.
#include "galois/graphs/Morph_SepInOut_Graph.h"
#include "c10_graph.h"
using namespace c10;
typedef galois::graphs::Morph_SepInOut_Graph<ND, uint64_t, true, true, false, false> GSepInOut;
typedef galois::graphs::Morph_SepInOut_Graph<ND, uint64_t, false, false, false, false> GSepUndir;
C10_FLAVOUR(sepinout, "sep-inout", "sep-inout", F_INOUT | F_SEP, GSepInOut)
C10_FLAVOUR(sepundir, "sep-undirected", "sep-undirected", F_UNDIRECTED | F_SEP, GSepUndir)
