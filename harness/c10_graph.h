// C10: graph-type dependent part. Included by c10_f_*.cpp AFTER the graph header
// (MorphGraph.h or Morph_SepInOut_Graph.h — never both in one executable).
//
// Runner<G,FL>::run executes one case:
//   sequential   every op on the main thread, after each op the real graph is compared with the model
//                (observed result, full dump, structural invariants);
//   cautious     for_each over item programs: phase A acquires every node any later step can touch
//                (containsNode(n) on every named node, edge_begin / in_edge_begin on every node whose adjacency is
//                enumerated), phase B takes the ticket, phase C performs the calls (which only re-acquire owned nodes);
//   bare         for_each over single-call items that rely on the acquires *inside* the API call
//                (addEdge / findEdge+removeEdge / ...) on a static live node set; ticket after the call.
// After a loop: nothing left owned; structural invariants on the graph; replay of the committed items in ticket
// order (a) on a fresh graph of the same type and (b) on the model; dumps and recorded results must agree.
#pragma once

#include "c10_common.h"

#include "galois/Galois.h"
#include "galois/runtime/Context.h"
#include "galois/worklists/WorkList.h"

namespace c10 {

struct ND {
  uint32_t lid;
  uint64_t val;
  ND() : lid(~0u), val(0) {}
  ND(uint32_t l, uint64_t v) : lid(l), val(v) {}
};

struct Probe : public galois::runtime::LockManagerBase {
  static galois::runtime::LockManagerBase* ownerOf(galois::runtime::Lockable* l) {
    return galois::runtime::LockManagerBase::getOwner(l);
  }
  bool isFree(galois::runtime::Lockable* l) {
    if (tryAcquire(l) != NEW_OWNER)
      return false;
    release(l);
    return true;
  }
};

struct alignas(64) Slot : public galois::runtime::Lockable {
  std::atomic<void*> h{nullptr};
};

template <class G, unsigned FL>
struct Box {
  typedef typename G::GraphNode GN;
  typedef typename G::edge_iterator EI;
  static constexpr bool kUndirected = FL & F_UNDIRECTED;
  static constexpr bool kInOut      = FL & F_INOUT;
  static constexpr bool kSorted     = FL & F_SORTED;
  static constexpr bool kNoLock     = FL & F_NOLOCK;
  static constexpr bool kSep        = FL & F_SEP;

  G g;
  std::unique_ptr<Slot[]> slots;
  uint32_t n = 0;

  explicit Box(uint32_t nTotal) : slots(new Slot[nTotal ? nTotal : 1]), n(nTotal) {}

  GN h(uint32_t lid) const { return lid < n ? static_cast<GN>(slots[lid].h.load(std::memory_order_relaxed)) : nullptr; }
  bool live(uint32_t lid, galois::MethodFlag mf) {
    GN x = h(lid);
    return x && g.containsNode(x, mf);
  }

  // a->b edge with the smallest data (or, when byData, the one carrying `want`)
  bool pick(GN a, GN b, galois::MethodFlag mf, bool byData, uint64_t want, EI& out) {
    bool found    = false;
    uint64_t best = 0;
    for (EI it = g.edge_begin(a, mf), e = g.edge_end(a, mf); it != e; ++it) {
      if (g.getEdgeDst(it) != b)
        continue;
      uint64_t d = g.getEdgeData(it);
      if (byData) {
        if (d == want) {
          out = it;
          return true;
        }
      } else if (!found || d < best) {
        found = true;
        best  = d;
        out   = it;
      }
    }
    return found;
  }

  // the in-edge iterator at `at` for the edge from -> at (found through the API's findInEdge)
  auto findIn(GN at, GN from, galois::MethodFlag mf) {
    if constexpr (kSep && kInOut)
      return g.findInEdge(from, at, mf); // SepInOut: (src, dst) looks in dst's in-list
    else
      return g.findInEdge(at, from, mf); // MorphGraph: looks in the first argument's list for an in-entry from the second
  }

  template <typename It>
  bool sortedRange(It it, It e) {
    GN prev    = nullptr;
    bool first = true;
    for (; it != e; ++it) {
      GN d = g.getEdgeDst(it);
      if (!first && std::less<GN>()(d, prev))
        return false;
      prev  = d;
      first = false;
    }
    return true;
  }

  // Executes one op through the public API. guide (serial replay only) carries the result recorded in the
  // concurrent run: where several parallel edges qualify, the one with the recorded data is taken.
  // bare: no liveness pre-check (it would pre-acquire the operands), static live node set.
  void apply(const Op& op, Res& r, const Res* guide, galois::MethodFlag mf, bool bare, unsigned slowNs = 0) {
    r = Res();
    if (op.kind == K_ADD_NODE) {
      if (op.a < n && !h(op.a)) {
        GN x = g.createNode(ND(op.a, op.v));
        g.addNode(x, mf);
        slots[op.a].h.store(x, std::memory_order_relaxed);
        r.st = 1;
      }
      return;
    }
    GN a = h(op.a);
    if (!bare && !(a && g.containsNode(a, mf)))
      return;
    GN b = nullptr;
    if (needsB(op.kind)) {
      b = h(op.b);
      if (!bare && !(b && g.containsNode(b, mf)))
        return;
    }
    r.st = 1;
    switch (op.kind) {
    case K_REMOVE_NODE:
      g.removeNode(a, mf);
      break;
    case K_UPDATE_NODE: {
      ND& d = g.getData(a, mf);
      r.r1  = d.val;
      d.val = d.val * 31 + op.v;
      break;
    }
    case K_ADD_EDGE: {
      bool pre = false;
      if (!bare)
        pre = g.findEdge(a, b, mf) != g.edge_end(a, mf);
      EI it = g.addEdge(a, b, mf);
      if (it == g.edge_end(a, mf)) {
        r.bad = B_ADD_END;
        break;
      }
      if (g.getEdgeDst(it) != b)
        r.bad = B_WRONG_DST;
      uint64_t d = g.getEdgeData(it);
      if (d == 0) { // value-initialised: created by this call
        g.getEdgeData(it) = op.v;
        r.r0              = 0;
        if (pre)
          r.bad = B_ADD_DUP;
      } else {
        r.r0 = 1;
        r.r1 = d;
        if (!bare && !pre)
          r.bad = B_ADD_RETURNED_OLD;
      }
      break;
    }
    case K_ADD_MULTI: {
      EI it = g.addMultiEdge(a, b, mf, op.v);
      if (it == g.edge_end(a, mf)) {
        r.bad = B_ADD_END;
        break;
      }
      if (g.getEdgeDst(it) != b)
        r.bad = B_WRONG_DST;
      else if (g.getEdgeData(it) != op.v)
        r.bad = B_MULTI_DATA;
      break;
    }
    case K_REMOVE_FIND:
    case K_REMOVE_ENUM: {
      if (bare && op.kind == K_REMOVE_ENUM && !guide) {
        // relies on removeEdge's own acquire of the destination: only the source is acquired beforehand, the
        // entry is located without locking (static live node set), no edge data is read
        g.getData(a, mf);
        EI it = g.edge_begin(a, galois::MethodFlag::UNPROTECTED), e = g.edge_end(a, mf);
        for (; it != e; ++it)
          if (g.getEdgeDst(it) == b)
            break;
        if (it != e) {
          r.r0 = 1;
          if constexpr ((FL & F_DIRECTED) != 0)
            r.r1 = g.getEdgeData(it); // stored inline at the (owned) source
          else
            r.nr1 = 1;
          g.removeEdge(a, it, mf);
        }
        break;
      }
      EI it;
      bool found;
      if (op.kind == K_REMOVE_FIND || bare || (guide && guide->nr1)) {
        it    = g.findEdge(a, b, mf);
        found = it != g.edge_end(a, mf);
      } else
        found = pick(a, b, mf, false, 0, it);
      // serial replay: the API made another (equally legal) choice among parallel edges than in the recorded run
      if (guide && guide->r0 && !guide->nr1 && !(found && g.getEdgeData(it) == guide->r1)) {
        found = pick(a, b, mf, true, guide->r1, it);
        if (!found) {
          r.bad = B_GUIDE_MISSING;
          break;
        }
      }
      if (found) {
        if (g.getEdgeDst(it) != b)
          r.bad = B_WRONG_DST;
        r.r0 = 1;
        r.r1 = g.getEdgeData(it);
        g.removeEdge(a, it, mf);
      }
      break;
    }
    case K_REMOVE_VIA_IN: { // at a: remove the edge b->a (undirected: the edge {a,b})
      if constexpr (kUndirected) {
        EI it      = g.findInEdge(a, b, mf);
        bool found = it != g.in_edge_end(a, mf);
        if (guide && guide->r0 && !(found && g.getEdgeData(it) == guide->r1)) {
          found = pick(a, b, mf, true, guide->r1, it);
          if (!found) {
            r.bad = B_GUIDE_MISSING;
            break;
          }
        }
        if (found) {
          if (g.getEdgeDst(it) != b)
            r.bad = B_WRONG_DST;
          r.r0 = 1;
          r.r1 = g.getEdgeData(it);
          g.removeEdge(a, it, mf);
        }
      } else if constexpr (kSep && kInOut) {
        auto it    = findIn(a, b, mf);
        bool found = it != g.in_edge_end(a, mf);
        if (guide && guide->r0 && !(found && g.getEdgeData(it) == guide->r1)) {
          found = false;
          for (auto jt = g.in_edge_begin(a, mf), e = g.in_edge_end(a, mf); jt != e; ++jt)
            if (g.getEdgeDst(jt) == b && g.getEdgeData(jt) == guide->r1) {
              it    = jt;
              found = true;
              break;
            }
          if (!found) {
            r.bad = B_GUIDE_MISSING;
            break;
          }
        }
        if (found) {
          if (g.getEdgeDst(it) != b)
            r.bad = B_WRONG_DST;
          r.r0 = 1;
          r.r1 = g.getEdgeData(it);
          g.removeInEdge(a, it, mf);
        }
      }
      break;
    }
    case K_FIND: {
      EI it = g.findEdge(a, b, mf);
      if (it != g.edge_end(a, mf)) {
        r.r0 = 1;
        r.r1 = g.getEdgeData(it);
        if (g.getEdgeDst(it) != b)
          r.bad = B_WRONG_DST;
      }
      if constexpr (kSorted) {
        EI jt  = g.findEdgeSortedByDst(a, b, mf);
        bool f = jt != g.edge_end(a, mf);
        if (f != (bool)r.r0 || (f && g.getEdgeDst(jt) != b))
          r.bad = B_SORTED_FIND;
      }
      break;
    }
    case K_FIND_IN: {
      if constexpr (kUndirected || kInOut) {
        auto it = findIn(a, b, mf);
        if (it != g.in_edge_end(a, mf)) {
          r.r0 = 1;
          r.r1 = g.getEdgeData(it);
          if (g.getEdgeDst(it) != b)
            r.bad = B_WRONG_DST;
        }
      }
      break;
    }
    case K_UPDATE_EDGE: {
      EI it;
      bool found;
      if (bare) {
        it    = g.findEdge(a, b, mf);
        found = it != g.edge_end(a, mf);
      } else
        found = pick(a, b, mf, false, 0, it);
      if (guide && guide->r0 && !(found && g.getEdgeData(it) == guide->r1)) {
        found = pick(a, b, mf, true, guide->r1, it);
        if (!found) {
          r.bad = B_GUIDE_MISSING;
          break;
        }
      }
      if (found) {
        r.r0              = 1;
        r.r1              = g.getEdgeData(it);
        g.getEdgeData(it) = edgeUpdate(r.r1, op.v);
      }
      break;
    }
    case K_UPDATE_EDGE_IN: {
      if constexpr (kUndirected || kInOut) {
        auto it    = findIn(a, b, mf);
        bool found = it != g.in_edge_end(a, mf);
        if (guide && guide->r0 && !(found && g.getEdgeData(it) == guide->r1)) {
          found = false;
          for (auto jt = g.in_edge_begin(a, galois::MethodFlag::UNPROTECTED), e = g.in_edge_end(a, mf); jt != e; ++jt)
            if (g.getEdgeDst(jt) == b && g.getEdgeData(jt) == guide->r1) {
              it    = jt;
              found = true;
              break;
            }
          if (!found) {
            r.bad = B_GUIDE_MISSING;
            break;
          }
        }
        if (found) {
          if (g.getEdgeDst(it) != b)
            r.bad = B_WRONG_DST;
          r.r0              = 1;
          r.r1              = g.getEdgeData(it);
          g.getEdgeData(it) = edgeUpdate(r.r1, op.v);
        }
      }
      break;
    }
    case K_ENUM_OUT: {
      uint64_t c = 0, hsh = 0;
      for (EI it = g.edge_begin(a, mf), e = g.edge_end(a, mf); it != e; ++it) {
        ++c;
        hsh += mix(g.getData(g.getEdgeDst(it), galois::MethodFlag::UNPROTECTED).lid + 1, g.getEdgeData(it));
      }
      r.r0 = c;
      r.r1 = hsh;
      if constexpr (kSorted)
        if (!sortedRange(g.edge_begin(a, galois::MethodFlag::UNPROTECTED), g.edge_end(a, mf)))
          r.bad = B_UNSORTED;
      if (slowNs) { // the neighbourhood is owned: a second enumeration a little later must see the same
        busy_delay_ns(slowNs);
        uint64_t c2 = 0, h2 = 0;
        for (EI it = g.edge_begin(a, mf), e = g.edge_end(a, mf); it != e; ++it) {
          ++c2;
          h2 += mix(g.getData(g.getEdgeDst(it), galois::MethodFlag::UNPROTECTED).lid + 1, g.getEdgeData(it));
        }
        if (c2 != c || h2 != hsh)
          r.bad = B_ENUM_UNSTABLE;
      }
      break;
    }
    case K_ENUM_IN: {
      if constexpr (kUndirected || kInOut) {
        uint64_t c = 0, hsh = 0;
        for (auto it = g.in_edge_begin(a, mf), e = g.in_edge_end(a, mf); it != e; ++it) {
          ++c;
          hsh += mix(g.getData(g.getEdgeDst(it), galois::MethodFlag::UNPROTECTED).lid + 1, g.getEdgeData(it));
        }
        r.r0 = c;
        r.r1 = hsh;
        if constexpr (kSorted)
          if (!sortedRange(g.in_edge_begin(a, galois::MethodFlag::UNPROTECTED), g.in_edge_end(a, mf)))
            r.bad = B_UNSORTED;
        if (slowNs) {
          busy_delay_ns(slowNs);
          uint64_t c2 = 0, h2 = 0;
          for (auto it = g.in_edge_begin(a, mf), e = g.in_edge_end(a, mf); it != e; ++it) {
            ++c2;
            h2 += mix(g.getData(g.getEdgeDst(it), galois::MethodFlag::UNPROTECTED).lid + 1, g.getEdgeData(it));
          }
          if (c2 != c || h2 != hsh)
            r.bad = B_ENUM_UNSTABLE;
        }
      }
      break;
    }
    case K_SORT: {
      if constexpr (!kNoLock) { // sortEdgesByDst needs a Lockable node (does not compile for HasNoLockable)
        g.sortEdgesByDst(a, mf);
        if (!sortedRange(g.edge_begin(a, galois::MethodFlag::UNPROTECTED), g.edge_end(a, mf)))
          r.bad = B_UNSORTED;
      }
      break;
    }
    default:
      break;
    }
  }

  // ------------------------------------------------------------ structural dump + invariants (quiescent graph)
  // Everything through the public API. Returns a list of (kind, detail) problems.
  struct Problem {
    std::string kind, detail;
  };
  void dump(Dump& d, std::vector<Problem>& probs) {
    const auto U = galois::MethodFlag::UNPROTECTED;
    d.nodes.clear();
    d.out.clear();
    d.in.clear();
    std::vector<uint8_t> seen(n, 0);
    typedef std::tuple<uint32_t, uint32_t, const void*> Cell; // (src,dst,&data)
    std::vector<Cell> outCells, inCells;
    auto prob = [&](const char* kind, const std::string& det) {
      for (auto& p : probs)
        if (p.kind == kind)
          return;
      probs.push_back(Problem{kind, det});
    };
    for (auto it = g.begin(), e = g.end(); it != e; ++it) {
      GN x       = *it;
      ND& nd     = g.getData(x, U);
      uint32_t l = nd.lid;
      if (l >= n || h(l) != x) {
        prob("node-iteration", "node iteration yields a node that was never added (lid field " + std::to_string(l) + ")");
        continue;
      }
      if (seen[l]++)
        prob("node-iteration", "node iteration yields node " + std::to_string(l) + " more than once");
      d.nodes.emplace_back(l, nd.val);
    }
    // every handle that containsNode() reports as in the graph must have been yielded
    for (uint32_t l = 0; l < n; ++l) {
      GN x = h(l);
      if (x && g.containsNode(x, U) && !seen[l])
        prob("node-iteration", "node " + std::to_string(l) + " is in the graph (containsNode) but node iteration does not yield it");
      if (x && !g.containsNode(x, U) && seen[l])
        prob("node-iteration", "node " + std::to_string(l) + " is yielded by node iteration but containsNode is false");
    }
    for (auto& nv : d.nodes) {
      uint32_t l = nv.first;
      GN x       = h(l);
      GN prev    = nullptr;
      bool first = true;
      for (EI it = g.edge_begin(x, U), e = g.edge_end(x, U); it != e; ++it) {
        GN y        = g.getEdgeDst(it);
        uint32_t dl = g.getData(y, U).lid;
        if (dl >= n || h(dl) != y || !seen[dl]) {
          prob("edge-to-removed-node", "out-edge of node " + std::to_string(l) + " refers to a node that is not in the graph (lid field " +
                                           std::to_string(dl) + ")");
          continue;
        }
        uint64_t& cell = g.getEdgeData(it);
        d.out.emplace_back(l, dl, cell);
        outCells.emplace_back(l, dl, (const void*)&cell);
        if (kSorted && !first && std::less<GN>()(y, prev))
          prob("unsorted", "out-edges of node " + std::to_string(l) + " are not sorted by destination");
        prev  = y;
        first = false;
      }
      if constexpr (kInOut) {
        prev  = nullptr;
        first = true;
        for (auto it = g.in_edge_begin(x, U), e = g.in_edge_end(x, U); it != e; ++it) {
          GN y        = g.getEdgeDst(it);
          uint32_t sl = g.getData(y, U).lid;
          if (sl >= n || h(sl) != y || !seen[sl]) {
            prob("edge-to-removed-node", "in-edge of node " + std::to_string(l) + " refers to a node that is not in the graph (lid field " +
                                             std::to_string(sl) + ")");
            continue;
          }
          uint64_t& cell = g.getEdgeData(it);
          d.in.emplace_back(l, sl, cell);
          inCells.emplace_back(sl, l, (const void*)&cell); // as (src,dst,cell)
          if (kSorted && !first && std::less<GN>()(y, prev))
            prob("unsorted", "in-edges of node " + std::to_string(l) + " are not sorted by source");
          prev  = y;
          first = false;
        }
      }
    }
    d.canon();
    // reverse entries exist and share the data cell
    if constexpr (kInOut) {
      std::sort(outCells.begin(), outCells.end());
      std::sort(inCells.begin(), inCells.end());
      if (outCells != inCells) {
        std::vector<Cell> onlyOut, onlyIn;
        std::set_difference(outCells.begin(), outCells.end(), inCells.begin(), inCells.end(), std::back_inserter(onlyOut));
        std::set_difference(inCells.begin(), inCells.end(), outCells.begin(), outCells.end(), std::back_inserter(onlyIn));
        std::string s;
        bool cellOnly = false;
        if (!onlyOut.empty()) {
          auto& c = onlyOut[0];
          // is there an in-entry for the same pair with another cell?
          for (auto& ic : onlyIn)
            if (std::get<0>(ic) == std::get<0>(c) && std::get<1>(ic) == std::get<1>(c))
              cellOnly = true;
          s += "out-edge " + std::to_string(std::get<0>(c)) + "->" + std::to_string(std::get<1>(c)) +
               (cellOnly ? " has an in-entry at the destination, but with a different data cell; "
                         : " has no in-entry at its destination; ");
        }
        if (!onlyIn.empty() && !cellOnly) {
          auto& c = onlyIn[0];
          s += "in-entry at " + std::to_string(std::get<1>(c)) + " from " + std::to_string(std::get<0>(c)) +
               " has no matching out-edge at the source; ";
        }
        prob(cellOnly ? "reverse-entry-data-not-shared" : "reverse-entry-missing", s);
      }
    } else if constexpr (kUndirected) {
      // entry (a,b,cell) must be matched by (b,a,cell); self-loops: each cell an even number of times
      std::vector<Cell> fwd, rev;
      std::map<std::pair<uint32_t, const void*>, unsigned> self;
      for (auto& c : outCells) {
        if (std::get<0>(c) == std::get<1>(c))
          self[{std::get<0>(c), std::get<2>(c)}]++;
        else if (std::get<0>(c) < std::get<1>(c))
          fwd.push_back(c);
        else
          rev.emplace_back(std::get<1>(c), std::get<0>(c), std::get<2>(c));
      }
      std::sort(fwd.begin(), fwd.end());
      std::sort(rev.begin(), rev.end());
      if (fwd != rev) {
        std::vector<Cell> onlyF, onlyR;
        std::set_difference(fwd.begin(), fwd.end(), rev.begin(), rev.end(), std::back_inserter(onlyF));
        std::set_difference(rev.begin(), rev.end(), fwd.begin(), fwd.end(), std::back_inserter(onlyR));
        bool cellOnly = false;
        std::string s;
        uint32_t x = 0, y = 0;
        if (!onlyF.empty()) {
          x = std::get<0>(onlyF[0]);
          y = std::get<1>(onlyF[0]);
          for (auto& c : onlyR)
            if (std::get<0>(c) == x && std::get<1>(c) == y)
              cellOnly = true;
          s = "edge " + std::to_string(x) + "-" + std::to_string(y) + " listed at " + std::to_string(x) +
              (cellOnly ? " has an entry at the other endpoint, but with a different data cell"
                        : " has no entry at the other endpoint");
        } else {
          x = std::get<0>(onlyR[0]);
          y = std::get<1>(onlyR[0]);
          s = "edge " + std::to_string(x) + "-" + std::to_string(y) + " listed at " + std::to_string(y) +
              " has no entry at the other endpoint";
        }
        prob(cellOnly ? "reverse-entry-data-not-shared" : "reverse-entry-missing", s);
      }
      for (auto& kv : self)
        if (kv.second % 2)
          prob("reverse-entry-missing", "self-loop of node " + std::to_string(kv.first.first) + " has an odd number of adjacency entries");
    }
  }

  // every live node exactly once over the per-thread local ranges
  void localIteration(const Dump& d, unsigned maxT, std::vector<Problem>& probs, uint64_t& counted) {
    std::vector<std::vector<uint32_t>> per(maxT);
    unsigned saved = galois::getActiveThreads();
    galois::setActiveThreads(maxT);
    galois::on_each([&](unsigned tid, unsigned) {
      auto& v = per[tid];
      for (auto it = g.local_begin(), e = g.local_end(); it != e; ++it)
        v.push_back(g.getData(*it, galois::MethodFlag::UNPROTECTED).lid);
    });
    galois::setActiveThreads(saved);
    std::vector<uint32_t> all;
    for (auto& v : per)
      all.insert(all.end(), v.begin(), v.end());
    counted += all.size();
    std::sort(all.begin(), all.end());
    std::vector<uint32_t> exp;
    for (auto& nv : d.nodes)
      exp.push_back(nv.first);
    if (all != exp) {
      std::string s = "local_begin/local_end over all threads yield " + std::to_string(all.size()) + " nodes, begin/end yield " +
                      std::to_string(exp.size());
      for (size_t i = 1; i < all.size(); ++i)
        if (all[i] == all[i - 1]) {
          s += "; node " + std::to_string(all[i]) + " yielded twice";
          break;
        }
      probs.push_back(Problem{"local-iteration", s});
    }
  }
};

// =====================================================================================================
template <class G, unsigned FL>
struct Runner {
  typedef Box<G, FL> B;
  static constexpr bool kNoLock = FL & F_NOLOCK;

  struct alignas(128) TL {
    std::vector<Commit> commits;
    uint64_t starts = 0;
    bool inC        = false;
    uint64_t phaseCAborts = 0;
  };

  const CaseSpec& spec;
  const Flavour& fl;
  CaseResult& out;
  std::unique_ptr<Slot[]> parts; // no-lockable flavours: harness-side partition locks
  std::vector<TL> tls;
  B* conc = nullptr;
  galois::MethodFlag mfA, mfC;

  Runner(const CaseSpec& s, const Flavour& f, CaseResult& o) : spec(s), fl(f), out(o) {
    unsigned maxT = galois::substrate::getThreadPool().getMaxThreads();
    tls.resize(maxT);
    if (kNoLock)
      parts.reset(new Slot[std::max(1u, s.parts)]);
    // lockable graphs: default flags; no-lockable graphs: explicit UNPROTECTED under partition locks
    mfA = kNoLock ? galois::MethodFlag::UNPROTECTED : galois::MethodFlag::WRITE;
    mfC = (kNoLock || s.unprotectedC) ? galois::MethodFlag::UNPROTECTED : galois::MethodFlag::WRITE;
  }

  std::string key(const std::string& kind) const { return std::string("C10:") + fl.family + ":" + kind; }
  // keys of loop-level oracles: one per oracle
  std::string loopKey(const std::string& kind) const { return key(kind); }

  galois::runtime::Lockable* lockFor(uint32_t lid) {
    if (kNoLock)
      return &parts[lid % spec.parts];
    return &conc->slots[lid];
  }

  // ------------------------------------------------------------ loop operator
  void phaseA(const Prog& p) {
    B& bx = *conc;
    for (unsigned i = 0; i < p.nops; ++i) {
      const Op& op = p.ops[i];
      galois::runtime::acquire(lockFor(op.a), galois::MethodFlag::WRITE);
      typename B::GN a = bx.h(op.a);
      if (a)
        bx.g.containsNode(a, mfA);
      if (p.delay == 3)
        busy_delay_ns(1500);
      if (needsB(op.kind)) {
        galois::runtime::acquire(lockFor(op.b), galois::MethodFlag::WRITE);
        typename B::GN b = bx.h(op.b);
        if (b)
          bx.g.containsNode(b, mfA);
      }
      if (a && needsOutNhood(op.kind))
        bx.g.edge_begin(a, mfA);
      if constexpr (FL & (F_INOUT | F_UNDIRECTED))
        if (a && needsInNhood(op.kind))
          bx.g.in_edge_begin(a, mfA);
    }
  }

  template <typename Ctx>
  void operator()(uint32_t& item, Ctx&) {
    unsigned tid = galois::substrate::ThreadPool::getTID();
    TL& tl       = tls[tid];
    tl.starts++;
    if (tl.inC) { // the previous attempt on this thread was aborted after its commit point
      tl.phaseCAborts++;
      tl.inC = false;
    }
    const Prog& p = spec.progs[item];
    Commit c;
    c.item = item;
    if (spec.mode == M_BARE) {
      // single API call relying on its internal acquires; may abort inside (before it modified anything)
      conc->apply(p.ops[0], c.res[0], nullptr, galois::MethodFlag::WRITE, true, p.delay ? 1500 + (item % 5) * 700 : 0);
      delay(p, item);
      c.ticket = ticket();
    } else {
      phaseA(p);
      delay(p, item);
      c.ticket = ticket(); // commit point: everything below only re-acquires owned nodes
      tl.inC   = true;
      if (p.delay) // slow owner after the commit point as well: later tickets are taken while this item still works
        busy_delay_ns(1000 + (item % 7) * 1500);
      for (unsigned i = 0; i < p.nops; ++i) {
        conc->apply(p.ops[i], c.res[i], nullptr, mfC, false, p.delay ? 1500 + (item % 5) * 700 : 0);
        if (p.delay == 3)
          busy_delay_ns(800);
      }
    }
    tl.commits.push_back(c);
    tl.inC = false;
    progress();
  }
  void delay(const Prog& p, uint32_t item) {
    if (p.delay == 1)
      busy_delay_ns(400 + (item % 7) * 300);
    else if (p.delay == 2)
      sleep_us(60 + (item % 5) * 40);
    else if (p.delay == 3)
      busy_delay_ns(15000);
  }

  struct OpRef {
    Runner* r;
    template <typename Ctx>
    void operator()(uint32_t& item, Ctx& ctx) const {
      (*r)(item, ctx);
    }
  };

  // ------------------------------------------------------------ helpers
  void initGraph(B& bx, bool parallel) {
    size_t i = 0;
    if (parallel) {
      // initial nodes inside a do_all: concurrent createNode, nodes spread over the per-thread bag segments
      std::vector<uint32_t> idx;
      for (; i < spec.init.size() && spec.init[i].kind == K_ADD_NODE; ++i)
        idx.push_back((uint32_t)i);
      galois::do_all(galois::iterate(idx), [&](uint32_t k) {
        Res r;
        bx.apply(spec.init[k], r, nullptr, galois::MethodFlag::UNPROTECTED, false);
      }, galois::no_stats());
    }
    for (; i < spec.init.size(); ++i) {
      Res r;
      bx.apply(spec.init[i], r, nullptr, galois::MethodFlag::WRITE, false);
    }
  }
  void initModel(Model& m) {
    m.init(FL, spec.nTotal);
    std::string err;
    for (auto& op : spec.init)
      m.apply(op, Res(), err);
  }

  void reportProblems(const std::vector<typename B::Problem>& probs, const std::string& where) {
    for (auto& p : probs)
      out.add(loopKey(p.kind), J().kv("check", p.kind).kv("where", where).kv("what", p.detail).kv("flavour", fl.name).str());
  }

  // Attributed failure kind for a divergence that appears right after `op` in a serial execution.
  std::string attributed(const Op& op, size_t parallelBefore, const std::string& generic) {
    if (isRemoveEdge(op.kind)) {
      uint32_t s = isInView(op.kind) ? op.b : op.a, t = isInView(op.kind) ? op.a : op.b;
      if (parallelBefore > 1 && tracksReverse(FL))
        return "removeEdge-multi-edge-unshares-data";
      if (s == t)
        return "removeEdge-self-loop-corrupts-adjacency";
    }
    return generic + ":" + kindName(op.kind);
  }

  // Serial execution of `ops` on a fresh real graph and on the model, comparing after every step.
  // guides (optional) = recorded results of the concurrent run, compared too. Returns false at the first
  // divergence (reported with an attributed key).
  bool serialStepwise(const std::vector<Op>& ops, const std::vector<Res>* guides, const char* where) {
    // A graph on which a divergence was seen may be internally corrupt (its destructor could crash): it is leaked.
    B* bxp = new B(spec.nTotal);
    bool ok = serialStepwiseOn(*bxp, ops, guides, where);
    if (ok)
      delete bxp;
    return ok;
  }
  bool serialStepwiseOn(B& bx, const std::vector<Op>& ops, const std::vector<Res>* guides, const char* where) {
    Model m;
    initGraph(bx, false);
    initModel(m);
    for (size_t i = 0; i < ops.size(); ++i) {
      const Op& op = ops[i];
      size_t before = needsB(op.kind) ? (isInView(op.kind) ? m.parallel(op.b, op.a) : m.parallel(op.a, op.b)) : 0;
      Res r;
      bx.apply(op, r, guides ? &(*guides)[i] : nullptr, galois::MethodFlag::WRITE, false);
      std::string err;
      Res e = m.apply(op, r, err);
      out.stepChecks++;
      auto hist = [&] { return history(ops, i); };
      if (r.bad) {
        out.add(key(attributed(op, before, std::string("api-inconsistency:") + badName(r.bad))),
                J().kv("where", where).kv("op", opStr(op)).kv("step", (uint64_t)i).kv("what", badName(r.bad)).kv("flavour", fl.name)
                    .kv("history", hist()).str());
        return false;
      }
      if (!err.empty() || !sameRes(e, r)) {
        out.add(key(attributed(op, before, "result-mismatch")),
                J().kv("where", where).kv("op", opStr(op)).kv("step", (uint64_t)i).kv("observed", resStr(r)).kv("model", resStr(e))
                    .kv("model_error", err).kv("flavour", fl.name).kv("history", hist()).str());
        return false;
      }
      Dump dr, dm;
      std::vector<typename B::Problem> probs;
      bx.dump(dr, probs);
      m.dump(dm);
      if (!probs.empty()) {
        out.add(key(attributed(op, before, probs[0].kind)),
                J().kv("where", where).kv("op", opStr(op)).kv("step", (uint64_t)i).kv("what", probs[0].detail).kv("flavour", fl.name)
                    .kv("history", hist()).str());
        return false;
      }
      if (!(dr == dm)) {
        out.add(key(attributed(op, before, "state-differs-from-model")),
                J().kv("where", where).kv("op", opStr(op)).kv("step", (uint64_t)i).kv("what", dr.diff(dm, "graph", "model"))
                    .kv("flavour", fl.name).kv("history", hist()).str());
        return false;
      }
    }
    return true;
  }
  std::string history(const std::vector<Op>& ops, size_t upto) {
    // the ops that touched the operands of ops[upto] (a readable witness), newest last, capped
    std::vector<std::string> v;
    const Op& last = ops[upto];
    auto touches   = [&](const Op& o, uint32_t x) { return o.a == x || (needsB(o.kind) && o.b == x); };
    for (size_t i = 0; i <= upto; ++i)
      if (touches(ops[i], last.a) || (needsB(last.kind) && touches(ops[i], last.b)))
        v.push_back(opStr(ops[i]));
    std::string s = "init: " + std::to_string(spec.init.size()) + " ops; ";
    size_t from   = v.size() > 24 ? v.size() - 24 : 0;
    for (size_t i = from; i < v.size(); ++i)
      s += v[i] + " ";
    return s;
  }

  // ------------------------------------------------------------ modes
  void runSequential() {
    std::vector<Op> ops;
    for (auto& p : spec.progs)
      for (unsigned i = 0; i < p.nops; ++i)
        ops.push_back(p.ops[i]);
    countOps(ops);
    serialStepwise(ops, nullptr, "sequential");
  }
  void countOps(const std::vector<Op>& ops) {
    for (auto& o : ops) {
      out.kindCount[o.kind]++;
      if (needsB(o.kind) && o.a == o.b)
        out.selfLoopOps++;
      if (o.kind == K_ADD_MULTI)
        out.multiEdgeOps++;
    }
  }

  // re-adding a removed node is not defined by the API documentation: probe only, never a violation
  void runReaddProbe() {
    B bx(spec.nTotal);
    initGraph(bx, false);
    for (auto& p : spec.progs) {
      const Op& op = p.ops[0];
      typename B::GN x = bx.h(op.a);
      if (!x || !bx.g.containsNode(x))
        continue;
      bx.g.removeNode(x);
      bx.g.addNode(x);
      out.readdProbes++;
      Dump d;
      std::vector<typename B::Problem> probs;
      bx.dump(d, probs);
      bool asym = false;
      for (auto& pr : probs)
        if (pr.kind == "reverse-entry-missing")
          asym = true;
      if (asym)
        out.readdAsymmetric++;
      // directed graphs: do hidden in-edges come back?
      out.stepChecks++;
    }
  }

  void runLoop() {
    B* bxp = new B(spec.nTotal);
    B* rbp = new B(spec.nTotal);
    runLoopOn(*bxp, *rbp);
    conc = nullptr;
    if (out.viols.empty()) { // graphs involved in a violation may be internally corrupt: leaked, not destroyed
      delete bxp;
      delete rbp;
    }
  }
  void runLoopOn(B& bx, B& rb) {
    conc = &bx;
    galois::setActiveThreads(spec.threads);
    initGraph(bx, spec.parallelInit);
    std::vector<uint32_t> items(spec.progs.size());
    for (uint32_t i = 0; i < items.size(); ++i)
      items[i] = i;
    for (auto& t : tls)
      t.commits.reserve(spec.progs.size() / std::max(1u, spec.threads) + 64);
    galois::setActiveThreads(spec.threads);
    galois::for_each(galois::iterate(items), OpRef{this}, galois::wl<galois::worklists::PerSocketChunkFIFO<4>>(),
                     galois::no_pushes(), galois::no_stats());
    perturb_off();

    // ---- gather
    std::vector<Commit> commits;
    for (auto& t : tls) {
      out.attempts += t.starts;
      out.phaseCAborts += t.phaseCAborts;
      if (!t.commits.empty())
        out.threadsCommitted++;
      commits.insert(commits.end(), t.commits.begin(), t.commits.end());
    }
    out.commits = commits.size();
    std::sort(commits.begin(), commits.end(), [](const Commit& a, const Commit& b) { return a.ticket < b.ticket; });
    if (out.phaseCAborts)
      out.add("C10:harness:conflict-after-commit-point",
              J().kv("count", out.phaseCAborts).kv("what", "an iteration was aborted after its commit point: the cautious prefix "
                                                            "missed a node (harness error, the graph may be half-mutated)").kv("flavour", fl.name).str());
    {
      std::vector<uint8_t> done(spec.progs.size(), 0);
      uint64_t dup = 0, lost = 0;
      for (auto& c : commits)
        if (done[c.item]++)
          dup++;
      for (auto d : done)
        if (!d)
          lost++;
      if (dup || lost)
        out.add(loopKey("loop-items-not-committed-exactly-once"), J().kv("lost", lost).kv("duplicated", dup).kv("flavour", fl.name).str());
    }

    // ---- nothing left owned
    if constexpr (!kNoLock) {
      Probe probe;
      for (uint32_t l = 0; l < spec.nTotal; ++l) {
        galois::runtime::Lockable* lk = &bx.slots[l];
        bool bad                      = Probe::ownerOf(lk) != nullptr || !probe.isFree(lk);
        typename B::GN x              = bx.h(l);
        if (x) {
          galois::runtime::Lockable* nl = x;
          bad |= Probe::ownerOf(nl) != nullptr || !probe.isFree(nl);
          out.locksChecked++;
        }
        if (bad) {
          out.add(loopKey("node-left-owned-after-loop"), J().kv("check", "node-left-owned-after-loop").kv("node", l).kv("flavour", fl.name).str());
          break;
        }
      }
    } else {
      Probe probe;
      for (unsigned p = 0; p < spec.parts; ++p) {
        out.locksChecked++;
        if (Probe::ownerOf(&parts[p]) != nullptr || !probe.isFree(&parts[p])) {
          out.add(loopKey("node-left-owned-after-loop"), J().kv("check", "node-left-owned-after-loop").kv("partition", p).kv("flavour", fl.name).str());
          break;
        }
      }
    }

    // ---- structural invariants on the concurrently mutated graph
    Dump dc;
    std::vector<typename B::Problem> pc;
    bx.dump(dc, pc);
    bx.localIteration(dc, (unsigned)tls.size(), pc, out.localIterNodes);
    out.nodesFinal = dc.nodes.size();
    out.edgesFinal = dc.out.size();

    // ---- (a) serial replay on a fresh graph of the same type, (b) on the model
    std::vector<Op> ops;
    std::vector<Res> recs;
    for (auto& c : commits) {
      const Prog& p = spec.progs[c.item];
      for (unsigned i = 0; i < p.nops; ++i) {
        ops.push_back(p.ops[i]);
        recs.push_back(c.res[i]);
      }
    }
    countOps(ops);
    Model m;
    initGraph(rb, false);
    initModel(m);
    std::string firstResultDiff, firstModelDiff, firstBad;
    bool guideMissing = false; // a recorded result that no serial execution can reproduce
    for (size_t i = 0; i < ops.size(); ++i) {
      const Res& rec = recs[i];
      if (rec.st)
        out.opsExecuted++;
      else
        out.opsSkipped++;
      if (rec.st && ops[i].kind == K_ADD_NODE)
        out.nodesCreatedInLoop++;
      if (rec.st && ops[i].kind == K_REMOVE_NODE)
        out.nodesRemoved++;
      if (rec.st && isRemoveEdge(ops[i].kind) && rec.r0)
        out.edgesRemoved++;
      if (rec.bad && firstBad.empty())
        firstBad = std::string(badName(rec.bad)) + " at " + opStr(ops[i]) + " (commit position " + std::to_string(i) + ")";
      Res rr;
      rb.apply(ops[i], rr, &rec, galois::MethodFlag::WRITE, false);
      out.replayOps++;
      if (rr.bad == B_GUIDE_MISSING && rec.bad != B_GUIDE_MISSING)
        guideMissing = true;
      // which parallel edge findEdge returns is not specified: r1 of find-style queries is judged by the model only
      bool choiceKind = ops[i].kind == K_FIND || ops[i].kind == K_FIND_IN || ops[i].kind == K_ADD_EDGE;
      if (firstResultDiff.empty() &&
          (rr.st != rec.st || rr.r0 != rec.r0 || (!choiceKind && !rec.nr1 && !rr.nr1 && rr.r1 != rec.r1) || (rr.bad && rr.bad != rec.bad)))
        firstResultDiff = opStr(ops[i]) + " (commit position " + std::to_string(i) + "): loop observed " + resStr(rec) +
                          ", serial replay " + resStr(rr);
      std::string err;
      Res e = m.apply(ops[i], rec, err);
      if (firstModelDiff.empty() && (!err.empty() || !sameRes(e, rec)))
        firstModelDiff = opStr(ops[i]) + " (commit position " + std::to_string(i) + "): loop observed " + resStr(rec) +
                         ", model " + resStr(e) + (err.empty() ? "" : " [" + err + "]");
    }
    Dump ds, dm;
    std::vector<typename B::Problem> ps;
    rb.dump(ds, ps);
    m.dump(dm);

    // Is the *serial* execution of the real code already inconsistent (sequential defect)? Then attribute it
    // with the stepwise executor and do not judge serialisability of this case.
    bool serialBroken = !guideMissing && (!ps.empty() || !(ds == dm));
    if (serialBroken) {
      out.tainted = true;
      bool ok     = serialStepwise(ops, &recs, "serial replay of the committed operations");
      if (ok) // not reproduced stepwise: report generically
        out.add(loopKey("serial-replay-differs-from-model"),
                J().kv("check", "serial-replay-differs-from-model")
                    .kv("what", ps.empty() ? ds.diff(dm, "serial-replay", "model") : ps[0].detail).kv("flavour", fl.name).str());
      return;
    }
    reportProblems(pc, "graph after the loop");
    if (!firstBad.empty())
      out.add(loopKey("api-inconsistency-in-loop"), J().kv("check", "api-inconsistency-in-loop").kv("what", firstBad).kv("flavour", fl.name).str());
    if (!(dc == ds) || !firstResultDiff.empty())
      out.add(loopKey("not-serializable"),
              J().kv("check", "not-serializable")
                  .kv("what", "graph after the loop differs from the serial execution of the committed operations in ticket order")
                  .kv("dump_diff", dc == ds ? std::string("-") : dc.diff(ds, "loop", "serial-replay"))
                  .kv("first_result_diff", firstResultDiff).kv("threads", spec.threads).kv("commits", (uint64_t)commits.size())
                  .kv("flavour", fl.name).str());
    if (!(dc == dm) || !firstModelDiff.empty())
      out.add(loopKey("differs-from-model"),
              J().kv("check", "differs-from-model")
                  .kv("what", "graph after the loop / recorded results differ from the model replay in ticket order")
                  .kv("dump_diff", dc == dm ? std::string("-") : dc.diff(dm, "loop", "model")).kv("first_result_diff", firstModelDiff)
                  .kv("threads", spec.threads).kv("commits", (uint64_t)commits.size()).kv("flavour", fl.name).str());
  }

  void run() {
    switch (spec.mode) {
    case M_SEQ: runSequential(); break;
    case M_READD: runReaddProbe(); break;
    default: runLoop(); break;
    }
  }
};

template <class G, unsigned FL>
void runFlavour(const CaseSpec& s, const Flavour& f, CaseResult& o) {
  Runner<G, FL> r(s, f, o);
  r.run();
}

#define C10_FLAVOUR(ID, NAME, FAMILY, FLAGS, ...)                                            \
  static void run_##ID(const c10::CaseSpec& s, const c10::Flavour& f, c10::CaseResult& o) {  \
    c10::runFlavour<__VA_ARGS__, FLAGS>(s, f, o);                                            \
  }                                                                                          \
  static c10::Registrar reg_##ID(NAME, FAMILY, FLAGS, &run_##ID);

} // namespace c10
