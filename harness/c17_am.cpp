// C17 part C — the active-message layer above sendTagged (libdist/src/Network.cpp, Network.h):
//   net.sendMsg(dest, pad, buf)              pad(src, RecvBuffer&) runs on dest inside handleReceives()
//   net.broadcast(pad, buf, self)            every other host (through bcastLandingPad) and, if self, the root itself
//   net.sendSimple(dest, fn, args...)        fn(src, args...) through genericLandingPad<Args...>
//   net.broadcastSimple(fn, args...)         = broadcast(genericLandingPad, ..., self=false)
//   net.handleReceives()                     dispatches everything queued under tag 0
// Runs under mpirun -np 1..4. Landing pads travel as raw function addresses, so every rank must have the same
// address layout: the target is linked -no-pie (targets.d/c17.cmake) and the ranks compare pad addresses with
// plain MPI before the first case (mismatch = broken harness, exit 2).
//
// What every host does in a case is a pure function of the case seed: per host a list of operations (form,
// destination / self flag, payload size, payload seed) grouped in rounds. All active messages of one sender to one
// destination share tag 0 and one FIFO, and each host sends from one thread, so the k-th landing-pad invocation
// with source s on host d must be the k-th operation of s that addresses d (C17: messages of one pair and one tag
// arrive in the order sent). Payloads of 24 bytes and more also carry (magic, src, operation index, length, seed)
// so that a mismatch can be told apart: an older operation again = delivered-n-times, a later one = out-of-order.
//
// Oracle, per message handed to the layer:
//   * the landing pad that was named runs on every destination exactly once  -> delivered-n-times / lost / wrong-landing-pad
//   * with the source host that sent it                                       -> wrong-source
//   * with exactly the serialised payload: r_size() is compared first (an empty or short payload is reported, never
//     read past), then every byte; for the *Simple forms every decoded argument   -> payload-differs
//   * broadcast(self=true) runs the pad on the root exactly once inside the call, self=false never
//   * nothing is delivered that was not sent (extra invocations, left-overs after the case) -> delivered-n-times
//   * lost is a liveness verdict under the same discipline as c17_net: every host that owes this one messages has
//     published "round sent and flushed", this host keeps calling handleReceives(), and no host anywhere got any
//     landing-pad invocation for the whole patience window. Then the process set stops with exit code 3.
// Keys: C17:<broadcast|sendMsg|sendSimple|broadcastSimple>:<kind>.
#define VERIF_MAIN_TU
#include "verif.h"

#include "galois/DistGalois.h"
#include "galois/Galois.h"
#include "galois/runtime/Network.h"

#include <mpi.h>

#include <algorithm>
#include <cmath>
#include <set>

#include <fcntl.h>
#include <sys/mman.h>
#include <sys/stat.h>

using namespace verif;
namespace gr = galois::runtime;

static constexpr unsigned MAXH  = 4;
static constexpr uint32_t MAGIC = 0xA17C17AAu;

// ------------------------------------------------------------------ shared block (same discipline as c17_net)
struct Shm {
  std::atomic<uint64_t> sendsDone[MAXH]; // serial of the last round whose operations were all issued and flushed
  std::atomic<uint64_t> delivered[MAXH]; // landing-pad invocations so far (global progress)
  std::atomic<uint32_t> abortFlag, abortAck;
  std::atomic<uint32_t> fatalSet[MAXH];
  char fatalKey[MAXH][160];
  char fatalDetail[MAXH][3800];
};
static Shm* g_shm    = nullptr;
static unsigned g_me = 0, g_np = 1;
static Harness* g_H  = nullptr;

static void watcherLoop() {
  for (;;) {
    usleep(20000);
    if (!g_shm->abortFlag.load())
      continue;
    if (g_me == 0) {
      usleep(200000);
      for (unsigned r = 0; r < g_np; ++r)
        if (g_shm->fatalSet[r].load())
          g_H->violation(g_shm->fatalKey[r], g_shm->fatalDetail[r]);
      g_H->line(J().kv("ev", "hang_exit").kv("case", g_H->curCase.load()).str());
      if (g_H->out && g_H->out != stdout)
        fflush(g_H->out);
      g_shm->abortAck.store(1);
      usleep(100000);
      _exit(3);
    } else if (g_shm->abortAck.load())
      _exit(3);
  }
}
[[noreturn]] static void fatal(const std::string& key, const std::string& detail) {
  strncpy(g_shm->fatalKey[g_me], key.c_str(), sizeof(g_shm->fatalKey[0]) - 1);
  std::string d = detail;
  if (d.size() >= sizeof(g_shm->fatalDetail[0]))
    d = J().kv("truncated", d.substr(0, 3000)).str();
  strncpy(g_shm->fatalDetail[g_me], d.c_str(), sizeof(g_shm->fatalDetail[0]) - 1);
  g_shm->fatalSet[g_me].store(1);
  g_shm->abortFlag.store(1);
  for (;;)
    usleep(100000);
}

// ------------------------------------------------------------------ plan
enum Form { SENDMSG = 0, BCAST_SELF, BCAST_NOSELF, SIMPLE_A, SIMPLE_B, BCAST_SIMPLE, NFORM };
static const char* FORM_KEY[]  = {"sendMsg", "broadcast", "broadcast", "sendSimple", "sendSimple", "broadcastSimple"};
static const char* FORM_NAME[] = {"sendMsg",      "broadcast(self=true)", "broadcast(self=false)",
                                  "sendSimple(u64,vector<u8>)", "sendSimple(u32,string,vector<u32>,u8)", "broadcastSimple(u64,vector<u8>)"};
static bool isBroadcast(unsigned f) { return f == BCAST_SELF || f == BCAST_NOSELF || f == BCAST_SIMPLE; }

struct Op {
  uint8_t form = 0, dest = 0;
  uint32_t len = 0, idx = 0, round = 0;
  uint64_t seed = 0;
};
struct Hdr {
  uint32_t magic;
  uint16_t src, form;
  uint32_t opIdx, len;
  uint64_t seed;
};
static_assert(sizeof(Hdr) == 24, "header layout");

static void fillBytes(uint8_t* p, size_t n, uint64_t seed) {
  uint64_t s = seed ? seed : 1;
  size_t i   = 0;
  for (; i + 8 <= n; i += 8) {
    uint64_t v = splitmix64(s);
    memcpy(p + i, &v, 8);
  }
  if (i < n) {
    uint64_t v = splitmix64(s);
    memcpy(p + i, &v, n - i);
  }
}
// the payload bytes of an operation (identical for every destination of a broadcast)
static void genPayload(unsigned src, const Op& op, std::vector<uint8_t>& out) {
  out.resize(op.len);
  if (op.len >= sizeof(Hdr)) {
    Hdr h{MAGIC, (uint16_t)src, op.form, op.idx, op.len, op.seed};
    memcpy(out.data(), &h, sizeof h);
    fillBytes(out.data() + sizeof h, op.len - sizeof h, op.seed ^ 0xA11);
  } else
    fillBytes(out.data(), op.len, op.seed ^ 0xA11);
}
// arguments of the second sendSimple signature
static void genSimpleB(const Op& op, uint32_t& a, std::string& s, std::vector<uint32_t>& v, uint8_t& z) {
  Rng r(op.seed ^ 0xB0B);
  a = (uint32_t)r.next();
  z = (uint8_t)r.next();
  s.clear();
  size_t sl = op.len % 97;
  for (size_t i = 0; i < sl; ++i)
    s.push_back((char)(1 + r.below(255)));
  v.resize(op.len / 4);
  for (auto& x : v)
    x = (uint32_t)r.next();
}

static uint32_t logUniform(Rng& r, uint32_t lo, uint32_t hi) {
  double a = std::log((double)lo), b = std::log((double)hi + 1.0);
  uint32_t v = (uint32_t)std::exp(a + (b - a) * r.unit());
  return std::min(std::max(v, lo), hi);
}
static uint32_t drawLen(Rng& r, unsigned form, uint64_t& bigBudget) {
  unsigned overhead = form == SENDMSG ? 8 : form == BCAST_SELF || form == BCAST_NOSELF ? 16 : 32;
  unsigned k        = (unsigned)r.below(100);
  uint32_t len;
  if (k < 8)
    len = 0;
  else if (k < 16)
    len = 4;
  else if (k < 28)
    len = 1 + (uint32_t)r.below(23);
  else if (k < 50)
    len = 24 + (uint32_t)r.below(600);
  else if (k < 70) // the whole message (payload + pad addresses) around the 1400-byte aggregation threshold / half of it
    len = (r.chance(2, 3) ? 1400 : 700) - overhead - 12 + (uint32_t)r.below(25);
  else if (k < 90)
    len = logUniform(r, 1500, 64 * 1024);
  else
    len = logUniform(r, 64 * 1024, 1 << 20);
  if (len > 64 * 1024) {
    if (bigBudget < len)
      len = 2048 + (uint32_t)r.below(4096);
    else
      bigBudget -= len;
  }
  return len;
}

// ------------------------------------------------------------------ findings
struct Findings {
  std::vector<std::pair<std::string, std::string>> v;
  std::map<std::string, unsigned> perKey;
  void add(const std::string& key, const std::string& detail) {
    if (perKey[key]++ < 3)
      v.emplace_back(key, detail);
  }
};
static Findings g_find;
static std::string key(unsigned form, const char* kind) { return std::string("C17:") + FORM_KEY[form] + ":" + kind; }
static std::string hexHead(const uint8_t* p, size_t n, size_t maxn = 24) {
  static const char* d = "0123456789abcdef";
  std::string s;
  for (size_t i = 0; i < n && i < maxn; ++i) {
    s += d[p[i] >> 4];
    s += d[p[i] & 15];
  }
  return s + (n > maxn ? ".." : "");
}

// ------------------------------------------------------------------ state of the running case (one thread per host)
struct CaseState {
  std::vector<Op> ops[MAXH];            // what every host does, in order
  std::vector<uint32_t> expect[MAXH];   // per source: indices into ops[src] of what reaches this host over the network
  std::vector<uint32_t> cum[MAXH];      // per source: expect[] entries up to and including round r
  uint32_t arrivals[MAXH] = {};         // landing-pad invocations per source so far
  std::set<uint32_t> skipped[MAXH];     // operations jumped over by a resynchronisation and not seen since
  // synchronous self-delivery of the broadcast being issued
  bool inBroadcast = false;
  const Op* selfOp = nullptr;
  unsigned selfCount = 0;
  std::vector<uint8_t> scratch;
  uint64_t nDelivered = 0, nSelf = 0, nAboveRoot = 0, nEmpty = 0, nThresh = 0, nLarge = 0, bytes = 0;
  long caseNo = -1;
};
static CaseState* g_cs = nullptr;

static J witness(unsigned padForm, uint32_t src, size_t gotLen) {
  J j;
  j.kv("host", g_me).kv("hosts", g_np).kv("reported_source", src).kv("landing_pad_of", FORM_NAME[padForm]).kv("payload_size_received", gotLen);
  return j;
}

// returns the operation this invocation is matched with (nullptr: reported and dropped)
static const Op* matchArrival(unsigned padForm, uint32_t src, const uint8_t* data, size_t len, bool haveBytes) {
  CaseState& C = *g_cs;
  if (src >= g_np) {
    g_find.add(key(padForm, "wrong-source"), witness(padForm, src, len).kv("why", "source id out of range").str());
    return nullptr;
  }
  g_shm->delivered[g_me].fetch_add(1, std::memory_order_relaxed);
  progress();
  if (C.inBroadcast) { // the pad runs inside net.broadcast(): the root's own copy
    ++C.selfCount;
    ++C.nSelf;
    if (src != g_me)
      g_find.add(key(padForm, "wrong-source"), witness(padForm, src, len).kv("why", "self-delivery of a broadcast must name the root").str());
    if (C.selfOp->form != padForm)
      g_find.add(key(C.selfOp->form, "wrong-landing-pad"), witness(padForm, src, len).kv("sent_as", FORM_NAME[C.selfOp->form]).str());
    return C.selfOp;
  }
  uint32_t k = C.arrivals[src]++;
  Hdr h{};
  bool haveHdr = haveBytes && len >= sizeof(Hdr);
  if (haveHdr) {
    memcpy(&h, data, sizeof h);
    haveHdr = h.magic == MAGIC && h.src == src;
  }
  if (k >= C.expect[src].size()) {
    J j = witness(padForm, src, len);
    j.kv("invocation_no_from_this_source", k).kv("messages_sent_to_this_host_by_it", C.expect[src].size())
        .kv("why", "more landing-pad invocations than messages handed to the layer");
    if (haveHdr)
      j.kv("embedded_operation", h.opIdx);
    if (haveBytes)
      j.kv("head", hexHead(data, len));
    g_find.add(key(padForm, "delivered-n-times"), j.str());
    return nullptr;
  }
  const Op* op = &C.ops[src][C.expect[src][k]];
  if (haveHdr && h.opIdx != op->idx) {
    if (h.opIdx < op->idx) {
      --C.arrivals[src];
      auto it = C.skipped[src].find(h.opIdx);
      if (it == C.skipped[src].end()) { // an operation that was matched before arrives again
        g_find.add(key(padForm, "delivered-n-times"),
                   witness(padForm, src, len).kv("embedded_operation", h.opIdx).kv("next_expected_operation", op->idx)
                       .kv("why", "an earlier message of this source was delivered again").str());
        return nullptr;
      }
      C.skipped[src].erase(it); // the overtaken message (already reported as out-of-order) arrives after all
      op = &C.ops[src][h.opIdx];
    } else {
      g_find.add(key(op->form, "out-of-order"),
                 witness(padForm, src, len).kv("embedded_operation", h.opIdx).kv("next_expected_operation", op->idx)
                     .kv("expected_form", FORM_NAME[op->form]).kv("expected_payload_size", op->len)
                     .kv("why", "a later message of this source arrived before an earlier one (lost or overtaken)").str());
      for (uint32_t p = k + 1; p < C.expect[src].size(); ++p)
        if (C.expect[src][p] == h.opIdx) { // resynchronise; what was jumped over is still owed
          for (uint32_t q = k; q < p; ++q)
            C.skipped[src].insert(C.expect[src][q]);
          C.arrivals[src] = p + 1;
          op              = &C.ops[src][h.opIdx];
          break;
        }
    }
  }
  if (op->form != padForm) {
    g_find.add(key(op->form, "wrong-landing-pad"),
               witness(padForm, src, len).kv("sent_as", FORM_NAME[op->form]).kv("operation", op->idx).kv("sent_payload_size", op->len).str());
    return nullptr;
  }
  ++C.nDelivered;
  if (isBroadcast(op->form) && g_me > src)
    ++C.nAboveRoot;
  return op;
}

static void notePayloadClass(const Op& op) {
  CaseState& C = *g_cs;
  C.bytes += op.len;
  if (op.len == 0)
    ++C.nEmpty;
  else if (op.len >= 1340 && op.len <= 1420)
    ++C.nThresh;
  else if (op.len >= 256 * 1024)
    ++C.nLarge;
}

// raw pads: (src, RecvBuffer&)
static void rawPad(unsigned padForm, uint32_t src, gr::RecvBuffer& rb) {
  size_t len          = rb.r_size(); // first: an empty / short payload is reported, never read past
  const uint8_t* data = len ? rb.r_linearData() : nullptr;
  const Op* op        = matchArrival(padForm, src, data, len, true);
  if (!op)
    return;
  notePayloadClass(*op);
  CaseState& C = *g_cs;
  if (len != op->len) {
    g_find.add(key(op->form, "payload-differs"),
               witness(padForm, src, len).kv("payload_size_sent", op->len).kv("operation", op->idx).kv("root_or_sender", src)
                   .kv("received_head", data ? hexHead(data, len) : std::string("")).kv("why", "size of the payload handed to the landing pad").str());
    return;
  }
  genPayload(src, *op, C.scratch);
  if (len && memcmp(C.scratch.data(), data, len) != 0) {
    size_t d = 0;
    while (d < len && C.scratch[d] == data[d])
      ++d;
    g_find.add(key(op->form, "payload-differs"),
               witness(padForm, src, len).kv("operation", op->idx).kv("first_difference_at", d).kv("received_head", hexHead(data, len))
                   .kv("sent_head", hexHead(C.scratch.data(), len)).str());
  }
}
static void padMsg(uint32_t src, gr::RecvBuffer& rb) { rawPad(SENDMSG, src, rb); }
static void padBcastSelf(uint32_t src, gr::RecvBuffer& rb) { rawPad(BCAST_SELF, src, rb); }
static void padBcastNoSelf(uint32_t src, gr::RecvBuffer& rb) { rawPad(BCAST_NOSELF, src, rb); }

// decoded-argument pads
static void simpleBody(unsigned padForm, uint32_t src, uint64_t token, const std::vector<uint8_t>& body) {
  const Op* op = matchArrival(padForm, src, body.data(), body.size(), true);
  if (!op)
    return;
  notePayloadClass(*op);
  CaseState& C = *g_cs;
  genPayload(src, *op, C.scratch);
  if (token != op->seed || body != C.scratch)
    g_find.add(key(op->form, "payload-differs"),
               witness(padForm, src, body.size()).kv("payload_size_sent", op->len).kv("operation", op->idx).kv("token_received", token)
                   .kv("token_sent", op->seed).kv("received_head", hexHead(body.data(), body.size())).str());
}
static void padSimpleA(uint32_t src, uint64_t token, std::vector<uint8_t> body) { simpleBody(SIMPLE_A, src, token, body); }
static void padBcastSimple(uint32_t src, uint64_t token, std::vector<uint8_t> body) { simpleBody(BCAST_SIMPLE, src, token, body); }
static void padSimpleB(uint32_t src, uint32_t a, std::string s, std::vector<uint32_t> v, uint8_t z) {
  const Op* op = matchArrival(SIMPLE_B, src, nullptr, s.size() + 4 * v.size(), false);
  if (!op)
    return;
  notePayloadClass(*op);
  uint32_t ea;
  uint8_t ez;
  std::string es;
  std::vector<uint32_t> ev;
  genSimpleB(*op, ea, es, ev, ez);
  if (a != ea || z != ez || s != es || v != ev)
    g_find.add(key(SIMPLE_B, "payload-differs"),
               witness(SIMPLE_B, src, s.size() + 4 * v.size()).kv("operation", op->idx).kv("u32_ok", a == ea).kv("string_ok", s == es)
                   .kv("vector_ok", v == ev).kv("u8_ok", z == ez).kv("string_len", s.size()).kv("string_len_sent", es.size())
                   .kv("vector_len", v.size()).kv("vector_len_sent", ev.size()).str());
}

// ------------------------------------------------------------------ main
int main(int argc, char** argv) {
  const char* rk = getenv("OMPI_COMM_WORLD_RANK");
  if (!rk)
    rk = getenv("PMI_RANK");
  int envRank = rk ? atoi(rk) : 0;
  if (envRank != 0)
    setenv("VERIF_NO_HANG_MONITOR", "1", 1);
  std::vector<char*> args(argv, argv + argc);
  static char devnull[] = "/dev/null";
  if (envRank != 0)
    for (int i = 1; i + 1 < argc; ++i)
      if (std::string(args[i]) == "--out")
        args[i + 1] = devnull;
  Harness H("C17", argc, args.data());
  g_H = &H;
  galois::DistMemSys G;
  auto& net = gr::getSystemNetworkInterface();
  g_me      = net.ID;
  g_np      = net.Num;
  if (g_np > MAXH) {
    fprintf(stderr, "c17_am: at most %u hosts\n", MAXH);
    return 2;
  }
  auto& bar = gr::getHostBarrier();
  galois::setActiveThreads(1);

  // landing pads are sent as raw addresses: every rank must have the same layout (-no-pie)
  {
    uintptr_t mine[2] = {(uintptr_t)&padMsg, (uintptr_t)&padSimpleB};
    std::vector<uintptr_t> all(2 * g_np);
    MPI_Allgather(mine, 2, MPI_UINT64_T, all.data(), 2, MPI_UINT64_T, MPI_COMM_WORLD);
    for (unsigned r = 0; r < g_np; ++r)
      if (all[2 * r] != mine[0] || all[2 * r + 1] != mine[1]) {
        fprintf(stderr, "c17_am: rank %u has landing pads at other addresses than rank %u (executable must be linked -no-pie)\n", r, g_me);
        _exit(2);
      }
  }
  {
    char name[64] = {0};
    if (g_me == 0)
      snprintf(name, sizeof name, "/verif-c17am-%ld-%ld", (long)getpid(), (long)time(nullptr));
    MPI_Bcast(name, sizeof name, MPI_CHAR, 0, MPI_COMM_WORLD);
    int fd = shm_open(name, O_CREAT | O_RDWR, 0600);
    if (fd < 0 || ftruncate(fd, sizeof(Shm)) != 0) {
      perror("c17_am: shm");
      return 2;
    }
    void* p = mmap(nullptr, sizeof(Shm), PROT_READ | PROT_WRITE, MAP_SHARED, fd, 0);
    if (p == MAP_FAILED) {
      perror("c17_am: mmap");
      return 2;
    }
    close(fd);
    g_shm = (Shm*)p;
    MPI_Barrier(MPI_COMM_WORLD);
    if (g_me == 0)
      shm_unlink(name);
  }
  std::thread(watcherLoop).detach();

  const double patience = getenv("VERIF_C17_PATIENCE") ? atof(getenv("VERIF_C17_PATIENCE")) : (double)H.paramInt("patience", 40);
  const unsigned maxOps = (unsigned)H.paramInt("maxops", H.thorough ? 120 : 40);
  const long selftest   = H.paramInt("selftest", 0);
  static const char* MODES[] = {"broadcast", "sendMsg", "sendSimple+broadcastSimple", "mixed"};
  uint64_t roundSerial = 0;

  for (long k = H.firstCase(); k < H.endCase(); ++k) {
    Rng rng(H.caseSeed(k));
    unsigned mode    = (unsigned)(k % 4);
    unsigned nrounds = 1 + (unsigned)rng.below(4);
    bool waitEachRound = rng.chance(1, 2); // quota reached after every round, or several rounds in flight
    bool barrierRounds = rng.chance(1, 3);
    unsigned pollEvery = (unsigned)rng.pick({0, 0, 1, 5}); // handleReceives() between the sends
    auto CSp     = std::make_unique<CaseState>();
    CaseState& C = *CSp;
    C.caseNo     = k;
    uint64_t counts[NFORM] = {}, rootsMask = 0;
    // ---- the plan: identical draws on every host
    for (unsigned r = 0; r < nrounds; ++r)
      for (unsigned h = 0; h < g_np; ++h) {
        unsigned n        = rng.chance(1, 6) ? 0 : 1 + (unsigned)rng.below(maxOps);
        uint64_t bigBudget = 3u << 20;
        for (unsigned i = 0; i < n; ++i) {
          Op op;
          switch (mode) {
          case 0: op.form = rng.chance(1, 2) ? BCAST_SELF : BCAST_NOSELF; break;
          case 1: op.form = SENDMSG; break;
          case 2: op.form = (uint8_t)rng.pick({(int)SIMPLE_A, (int)SIMPLE_B, (int)BCAST_SIMPLE}); break;
          default: op.form = (uint8_t)rng.below(NFORM); break;
          }
          op.dest  = (uint8_t)rng.below(g_np);
          op.seed  = rng.next();
          op.len   = drawLen(rng, op.form, bigBudget);
          op.round = r;
          op.idx   = (uint32_t)C.ops[h].size();
          C.ops[h].push_back(op);
          counts[op.form]++;
          if (isBroadcast(op.form))
            rootsMask |= 1u << h;
        }
      }
    for (unsigned s = 0; s < g_np; ++s) {
      C.cum[s].assign(nrounds, 0);
      for (auto& op : C.ops[s]) {
        bool reaches = isBroadcast(op.form) ? s != g_me : op.dest == g_me;
        if (reaches)
          C.expect[s].push_back(op.idx);
        if (reaches)
          for (unsigned r = op.round; r < nrounds; ++r)
            C.cum[s][r]++;
      }
    }
    H.hangKey = "C17:active-messages:hang";
    H.begin(k, J().kv("component", std::string("active-messages(") + MODES[mode] + ")").kv("hosts", g_np).kv("rounds", nrounds)
                   .kv("wait_each_round", waitEachRound).kv("poll_every", pollEvery).kv("sendMsg", counts[SENDMSG])
                   .kv("broadcast_self", counts[BCAST_SELF]).kv("broadcast_noself", counts[BCAST_NOSELF])
                   .kv("sendSimple", counts[SIMPLE_A] + counts[SIMPLE_B]).kv("broadcastSimple", counts[BCAST_SIMPLE]).str());
    g_cs = &C;

    auto quotaReached = [&](unsigned r) {
      for (unsigned s = 0; s < g_np; ++s)
        if (C.arrivals[s] < C.cum[s][r])
          return false;
      return true;
    };
    auto globalDelivered = [&] {
      uint64_t t = 0;
      for (unsigned r = 0; r < g_np; ++r)
        t += g_shm->delivered[r].load(std::memory_order_relaxed);
      return t;
    };
    auto waitQuota = [&](unsigned r, uint64_t serial) {
      uint64_t idle = 0, lastGlobal = 0;
      double stuckSince = -1;
      while (!quotaReached(r)) {
        uint64_t before = g_shm->delivered[g_me].load(std::memory_order_relaxed);
        net.handleReceives();
        if (g_shm->delivered[g_me].load(std::memory_order_relaxed) != before) {
          idle       = 0;
          stuckSince = -1;
          continue;
        }
        ++idle;
        if ((idle & 63) == 0)
          sched_yield();
        if (idle > 50000 && (idle & 15) == 0)
          usleep(100);
        if ((idle & 1023) != 0)
          continue;
        if (g_shm->abortFlag.load())
          for (;;)
            usleep(100000);
        bool allDone = true;
        for (unsigned s = 0; s < g_np; ++s)
          if (C.arrivals[s] < C.cum[s][r] && g_shm->sendsDone[s].load() < serial)
            allDone = false;
        uint64_t gl = globalDelivered();
        double now  = now_s();
        if (!allDone || gl != lastGlobal || stuckSince < 0) {
          stuckSince = now;
          lastGlobal = gl;
        } else if (now - stuckSince > patience) {
          std::string miss = "[";
          unsigned form    = SENDMSG;
          bool first       = true;
          for (unsigned s = 0; s < g_np; ++s)
            if (C.arrivals[s] < C.cum[s][r]) {
              const Op& op = C.ops[s][C.expect[s][C.arrivals[s]]];
              if (first)
                form = op.form;
              miss += (first ? "" : ",") + J().kv("from", s).kv("invocations_so_far", C.arrivals[s]).kv("owed_through_this_round", C.cum[s][r])
                                               .kv("next_missing_operation", op.idx).kv("form", FORM_NAME[op.form]).kv("payload_size", op.len).str();
              first = false;
            }
          fatal(key(form, "lost"),
                J().kv("host", g_me).kv("hosts", g_np).kv("round", r).raw("missing", miss + "]").kv("patience_s", patience)
                    .kv("anyPendingSends", net.anyPendingSends()).kv("anyPendingReceives", net.anyPendingReceives())
                    .kv("why", "every owing host had issued and flushed its round, this host kept calling handleReceives(), and no "
                               "landing pad ran on any host for the whole patience window")
                    .str());
        }
      }
    };

    // ---- the rounds
    std::vector<uint8_t> payload;
    size_t next = 0;
    for (unsigned r = 0; r < nrounds; ++r) {
      uint64_t serial = ++roundSerial;
      unsigned sincePoll = 0;
      for (; next < C.ops[g_me].size() && C.ops[g_me][next].round == r; ++next) {
        const Op& op = C.ops[g_me][next];
        if (selftest == 1 && r == 0 && op.idx == 0)
          continue; // harness self-test only (never set by the spec): an operation of the plan is not issued
        switch (op.form) {
        case SENDMSG: {
          genPayload(g_me, op, payload);
          gr::SendBuffer b;
          if (!payload.empty())
            b.insert(payload.data(), payload.size());
          net.sendMsg(op.dest, &padMsg, b);
          break;
        }
        case BCAST_SELF:
        case BCAST_NOSELF: {
          genPayload(g_me, op, payload);
          gr::SendBuffer b;
          if (!payload.empty())
            b.insert(payload.data(), payload.size());
          bool self     = op.form == BCAST_SELF;
          C.inBroadcast = true;
          C.selfOp      = &op;
          C.selfCount   = 0;
          net.broadcast(self ? &padBcastSelf : &padBcastNoSelf, b, self);
          C.inBroadcast = false;
          if (C.selfCount != (self ? 1u : 0u))
            g_find.add(key(op.form, self && C.selfCount == 0 ? "lost" : "delivered-n-times"),
                       J().kv("host", g_me).kv("operation", op.idx).kv("form", FORM_NAME[op.form]).kv("landing_pad_ran_on_root", C.selfCount)
                           .kv("expected", self ? 1 : 0).str());
          break;
        }
        case SIMPLE_A: {
          genPayload(g_me, op, payload);
          net.sendSimple(op.dest, &padSimpleA, (uint64_t)op.seed, payload);
          break;
        }
        case SIMPLE_B: {
          uint32_t a;
          uint8_t z;
          std::string s;
          std::vector<uint32_t> v;
          genSimpleB(op, a, s, v, z);
          net.sendSimple(op.dest, &padSimpleB, a, s, v, z);
          break;
        }
        case BCAST_SIMPLE: {
          genPayload(g_me, op, payload);
          net.broadcastSimple(&padBcastSimple, (uint64_t)op.seed, payload);
          break;
        }
        }
        if (pollEvery && ++sincePoll >= pollEvery) {
          sincePoll = 0;
          net.handleReceives();
        }
        progress();
      }
      net.flush();
      g_shm->sendsDone[g_me].store(serial);
      if (waitEachRound || r + 1 == nrounds)
        waitQuota(r, serial);
      if (barrierRounds && r + 1 < nrounds)
        bar.wait(); // not judged here (c17_net does)
    }
    // ---- end of case: every host has seen everything it was owed; nothing more may be dispatched
    {
      bar.wait();
      for (int rep = 0; rep < 4; ++rep)
        net.handleReceives();
      for (unsigned s = 0; s < g_np; ++s)
        if (!C.skipped[s].empty()) { // later messages of the same source and tag arrived, these never did
          const Op& op = C.ops[s][*C.skipped[s].begin()];
          g_find.add(key(op.form, "lost"),
                     J().kv("host", g_me).kv("from", s).kv("operation", op.idx).kv("form", FORM_NAME[op.form]).kv("payload_size", op.len)
                         .kv("never_delivered", C.skipped[s].size())
                         .kv("why", "every later message of this source had been dispatched and all hosts had passed the final barrier").str());
        }
    }
    MPI_Barrier(MPI_COMM_WORLD); // nobody issues operations of the next case while a host still looks for left-overs
    g_cs = nullptr;

    // ---- gather on rank 0 (plain MPI)
    std::string mine;
    for (auto& f : g_find.v)
      mine += f.first + "\t" + f.second + "\n";
    g_find.v.clear();
    g_find.perKey.clear();
    int mylen = (int)mine.size();
    std::vector<int> lens(g_np), displs(g_np);
    MPI_Gather(&mylen, 1, MPI_INT, lens.data(), 1, MPI_INT, 0, MPI_COMM_WORLD);
    int total = 0;
    for (unsigned r = 0; r < g_np; ++r) {
      displs[r] = total;
      total += g_me == 0 ? lens[r] : 0;
    }
    std::string all((size_t)total, '\0');
    MPI_Gatherv(mine.data(), mylen, MPI_CHAR, all.data(), lens.data(), displs.data(), MPI_CHAR, 0, MPI_COMM_WORLD);
    uint64_t owed = 0;
    for (unsigned s = 0; s < g_np; ++s)
      owed += C.expect[s].size();
    uint64_t loc[8] = {C.nDelivered, C.nSelf, C.nAboveRoot, C.nEmpty, C.nThresh, C.nLarge, C.bytes, owed};
    uint64_t sum[8] = {};
    MPI_Reduce(loc, sum, 8, MPI_UINT64_T, MPI_SUM, 0, MPI_COMM_WORLD);
    if (g_me == 0) {
      size_t pos = 0;
      while (pos < all.size()) {
        size_t nl  = all.find('\n', pos);
        size_t tab = all.find('\t', pos);
        if (nl == std::string::npos || tab == std::string::npos || tab > nl)
          break;
        H.violation(all.substr(pos, tab - pos), all.substr(tab + 1, nl - tab - 1));
        pos = nl + 1;
      }
    }
    unsigned nroots = (unsigned)__builtin_popcountll(rootsMask);
    std::string sig = std::string("am|") + MODES[mode] + "|np" + std::to_string(g_np) + "|r" + std::to_string(nrounds) + "|w" +
                      (waitEachRound ? "1" : "0") + "|p" + std::to_string(pollEvery) + "|roots" + std::to_string(nroots) + "|e" +
                      (sum[3] ? "1" : "0") + "|t" + (sum[4] ? "1" : "0") + "|L" + (sum[5] ? "1" : "0");
    bool nontrivial = sum[0] + sum[1] >= 2;
    H.end(k, sig, nontrivial,
          J().kv("am_pad_invocations", sum[0] + sum[1]).kv("am_network_deliveries", sum[0]).kv("am_self_deliveries", sum[1])
              .kv("am_messages_owed", sum[7]).kv("am_broadcast_deliveries_above_root", sum[2]).kv("am_empty_payloads", sum[3])
              .kv("am_payloads_at_threshold", sum[4]).kv("am_payloads_256KB_or_more", sum[5]).kv("am_payload_bytes", sum[6])
              .kv("am_sendMsg", counts[SENDMSG]).kv("am_broadcast_self_true", counts[BCAST_SELF]).kv("am_broadcast_self_false", counts[BCAST_NOSELF])
              .kv("am_sendSimple", counts[SIMPLE_A] + counts[SIMPLE_B]).kv("am_broadcastSimple", counts[BCAST_SIMPLE])
              .kv("am_cases_all_hosts_root", (int)(nroots == g_np && g_np > 1)).kv(("am_cases_np" + std::to_string(g_np)).c_str(), 1).str());
  }
  MPI_Barrier(MPI_COMM_WORLD);
  return 0;
}
