// worklist instantiations, part D: priority schedulers
#include "c01_common.h"
using namespace c01;
using namespace galois::worklists;

typedef OrderedByIntegerMetric<PrioIndexer, PerSocketChunkFIFO<8>> OBIM;
C01_WL(OBIM_default, "OBIM", F_PRIO | F_QUICK, OBIM)
C01_WL(OBIM_nobsp, "OBIM", F_PRIO, OBIM::with_back_scan_prevention<false>::type)
C01_WL(OBIM_period1, "OBIM", F_PRIO, OBIM::with_block_period<1>::type)
C01_WL(OBIM_period4, "OBIM", F_PRIO | F_QUICK, OBIM::with_block_period<4>::type)
C01_WL(OBIM_desc, "OBIM", F_PRIO | F_DESC, OBIM::with_descending<true>::type)
C01_WL(OBIM_monotonic, "OBIM", F_PRIO | F_MONOTONE, OBIM::with_monotonic<true>::type)
C01_WL(OBIM_chunk1_lifo, "OBIM", F_PRIO, OBIM::with_container<PerSocketChunkLIFO<1>>::type)
C01_WL(OBIM_ptc, "OBIM", F_PRIO, OBIM::with_container<PerThreadChunkFIFO<4>>::type)
