// C16: galois::ParallelSTL::sort (three- and two-argument forms)
#include "c16_common.h"

namespace c16 {

template <class T>
static void sort_T(const CaseCfg& c, Rng& rng, Outcome& o) {
  std::vector<uint32_t> keys = gen_keys(rng, c.keyPat, c.n);
  std::vector<T> input       = make_input_from_keys<T>(keys), out;
  Cmp<T> cmp{c.cmp};
  with_ra_range<T>(c, input, out, [&](auto first, auto last) {
    if (c.cmp.kind == 4)
      galois::ParallelSTL::sort(first, last); // std::less<T> -> operator<
    else
      galois::ParallelSTL::sort(first, last, cmp);
  });
  Monitor& m = g_mon;
  auto pure  = [&](const T& a, const T& b) { return cmpPure(c.cmp, a, b); };
  size_t bad = ref16::first_unordered(out, pure);
  size_t diff = 0;
  bool perm   = ref16::same_multiset(input, out, TotalLess(), &diff);
  J w;
  w.kv("n", c.n).kv("threads", c.threads).kv("threads_used", m.threadsUsed()).kv("comparator_calls", m.totalCalls());
  if (bad != out.size())
    o.violation("C16:sort:not-sorted", J(w).kv("what", "comp(out[i+1], out[i]) holds")
                                           .kv("i", bad).kv("key_i", keyOf(out[bad])).kv("key_i1", keyOf(out[bad + 1])).str());
  if (!perm)
    o.violation("C16:sort:not-permutation",
                J(w).kv("what", "output is not a permutation of the input").kv("first_diff_rank", diff).str());
  o.cls = (perm && bad == out.size()) ? "ok" : "bad";
  // measured: equivalent elements (under the comparator) whose relative input order was reversed -- allowed,
  // reported only to show that the oracle does not demand stability
  uint64_t unstable = 0;
  if constexpr (std::is_same_v<T, Elem>) {
    for (size_t i = 0; i + 1 < out.size() && unstable < 1000000; ++i)
      if (!pure(out[i], out[i + 1]) && out[i].id > out[i + 1].id)
        ++unstable;
  }
  o.add("sort_unstable_adjacent_pairs", unstable);
}

void run_sort(const CaseCfg& c, Rng& rng, Outcome& o) {
  if (c.elem == 1)
    sort_T<Elem>(c, rng, o);
  else
    sort_T<uint32_t>(c, rng, o);
}

} // namespace c16
