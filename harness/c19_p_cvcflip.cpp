// C19 — instantiation of cuspPartitionGraph<GenericCVCColumnFlip, char, void|uint32_t> (see c19_extract.h)
#include "c19_extract.h"
void c19::run_cvcflip(const CaseArgs& a, std::vector<uint64_t>& out) { runCusp<GenericCVCColumnFlip>(a, out); }
