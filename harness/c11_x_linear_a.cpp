// C11 full template matrix (c11_graphs_full only): LC_Linear_Graph x options (void, uint32, uint64)
#include "c11_fam_linear.h"

namespace c11 {
void registerX_linear_a() {
  regLinFull<void>();
  regLinFull<uint32_t>();
  regLinFull<uint64_t>();
}
} // namespace c11
