#include "c03_inst.h"
namespace c03 {
RunFn lookupC(unsigned kind, bool steal, unsigned ci) {
  switch (kind) {
  case K_COUNT_U32: return lookupKind<K_COUNT_U32>(steal, ci);
  case K_COUNT_I64: return lookupKind<K_COUNT_I64>(steal, ci);
  case K_COUNT_U16: return lookupKind<K_COUNT_U16>(steal, ci);
  }
  return nullptr;
}
} // namespace c03
