// C11: inout family, representative subset of the template matrix (quick + thorough)
#include "c11_fam_inout.h"

namespace c11 {

void registerInOut() {
  regIOCsr<IOCsr<void>>("lock", true);
  regIOCsr<IOCsr<uint32_t>>("lock", true);
  regIOCsr<IOCsr<E12, false, true, true>>("ool+numa", false);
  regIOCsr<IOCsr<uint64_t, true, true>>("nolock+numa", false);
  regIOLin<IOLin<void>>("lock");
  regIOLin<IOLin<uint32_t>>("lock");
  regIOLin<IOLin<float, false, true, true>>("ool+numa");
}

} // namespace c11
