// C12 part (a): what the library WRITES.
//   FileGraphWriter (phase1 / incrementDegree / phase2 / addNeighbor / finish) + toFile,
//   FileGraph copy (fromArrays) + toFile, fromGraph<T> + toFile.
// Oracle: the bytes written are decoded by the independent codec and compared with the graph the
// library was given; the same file is read back through FileGraph::fromFile and compared again
// (library-writes -> library-reads must be the identity whatever the padding convention).
#include "c12_common.h"

#include "galois/Galois.h"
#include "galois/graphs/FileGraph.h"

using namespace c12;
using verif::J;
namespace gg = galois::graphs;

namespace {

// read access to the protected edge-data pointer: FileGraph::getEdgeData dereferences it without a
// check, so the harness looks first (a null pointer with edge data present is reported as a
// violation instead of crashing the process)
struct PeekGraph : gg::FileGraph {
  const char* rawEdgeData() const { return edgeData; }
};

Adj decodedAdj(const ref::RefGraph& d) { return d.adj; }

// decode `path` with the reference codec and compare with `exp`
template <typename T>
void checkFile(Case& c, const std::string& path, const ref::RefGraph& exp, const std::string& cls) {
  constexpr unsigned W = std::is_void<T>::value ? 0 : sizeof(std::conditional_t<std::is_void<T>::value, char, T>);
  ref::RefGraph d;
  try {
    d = ref::read_gr(path);
  } catch (const std::exception& e) {
    c.violation(c.key("malformed-file", cls),
                J().kv("decoder", e.what()).kv("file_bytes", fileSize(path)).kv("nodes", exp.numNodes)
                    .kv("edges", exp.numEdges()).kv("width", W).str());
    return;
  }
  c.filesDecoded++;
  if (d.edgeDataSize != W || d.numNodes != exp.numNodes || d.numEdges() != exp.numEdges()) {
    c.violation(c.key("file-header", cls),
                J().kv("expected_nodes", exp.numNodes).kv("file_nodes", d.numNodes).kv("expected_edges", exp.numEdges())
                    .kv("file_edges", d.numEdges()).kv("expected_edge_size", W).kv("file_edge_size", d.edgeDataSize).str());
    return;
  }
  if (d.version == 2 && d.padBytes != 0) {
    // the length of the file reveals a pad word that the version-2 layout does not have
    c.violation(c.key("file-layout", cls), J().kv("what", "version 2 file written with a pad word after the destinations")
                                               .kv("file_bytes", fileSize(path)).kv("pad_bytes_by_length", d.padBytes).str());
    return;
  }
  std::string w = diffWhole(c, exp, decodedAdj(d));
  if (!w.empty())
    c.violation(c.key("file-content", cls),
                J().kv("file_version", d.version).kv("file_bytes", fileSize(path)).kv("pad_bytes_by_length", d.padBytes)
                    .raw("diff", w).str());
}

// read `path` back through FileGraph::fromFile and compare with `exp`
template <typename T>
void checkReadBack(Case& c, const std::string& path, const ref::RefGraph& exp, const std::string& cls) {
  PeekGraph r;
  r.fromFile(path);
  c.libReads++;
  if (r.size() != exp.numNodes || r.sizeEdges() != exp.numEdges()) {
    c.violation(c.key("readback-size", cls), J().kv("expected_nodes", exp.numNodes).kv("nodes", (uint64_t)r.size())
                                                  .kv("expected_edges", exp.numEdges()).kv("edges", (uint64_t)r.sizeEdges()).str());
    return;
  }
  if constexpr (!std::is_void<T>::value) {
    if (r.sizeEdges() && !r.rawEdgeData()) {
      // the failing component is the reader: same key as the fromFile component uses
      c.violation("C12:FileGraph.fromFile:edge-data-missing:width" + std::to_string(sizeof(T)),
                  J().kv("what", "file written by the library (toFile) has edge data, fromFile presents none (edgeData == nullptr)")
                      .kv("file_bytes", fileSize(path)).kv("edges", exp.numEdges()).kv("edge_size", (uint64_t)sizeof(T)).str());
      return;
    }
  }
  Adj seen      = enumerateFileGraph<T>(r);
  std::string w = diffWhole(c, exp, seen);
  if (!w.empty())
    c.violation(c.key("readback", cls), J().kv("what", "library wrote the file, library read it back: different graph")
                                             .kv("file_bytes", fileSize(path)).raw("diff", w).str());
}

// ------------------------------------------------------------------ FileGraphWriter
template <typename T>
void writer_t(Case& c) {
  const ref::RefGraph& g = c.g;
  const uint64_t n = g.numNodes, m = g.numEdges();
  const unsigned degMode   = c.variant & 1;        // 0: one incrementDegree per edge, 1: bulk per node
  const unsigned dataMode  = (c.variant >> 1) & 1; // 0: addNeighbor<T>(s,d,data), 1: finish<T>() pointer
  const unsigned orderMode = (c.variant >> 2) % 3; // 0: node-major, 1: shuffled, 2: nodes descending

  struct E {
    uint64_t s;
    size_t i;
  };
  std::vector<E> order;
  order.reserve(m);
  if (orderMode == 2) {
    for (uint64_t s = n; s-- > 0;)
      for (size_t i = 0; i < g.adj[s].size(); ++i)
        order.push_back({s, i});
  } else {
    for (uint64_t s = 0; s < n; ++s)
      for (size_t i = 0; i < g.adj[s].size(); ++i)
        order.push_back({s, i});
    if (orderMode == 1)
      for (size_t i = order.size(); i > 1; --i)
        std::swap(order[i - 1], order[c.rng.below(i)]);
  }
  // expected graph: per node, edges in the order addNeighbor is called
  ref::RefGraph exp(n);
  exp.edgeDataSize = c.width;
  for (auto& e : order)
    exp.adj[e.s].push_back(g.adj[e.s][e.i]);

  gg::FileGraphWriter w;
  w.setNumNodes(n);
  w.template setNumEdges<T>(m);
  w.phase1();
  if (degMode == 0) {
    for (auto& e : order)
      w.incrementDegree(e.s);
  } else {
    for (uint64_t s = 0; s < n; ++s)
      if (!g.adj[s].empty() || c.rng.below(2))
        w.incrementDegree(s, g.adj[s].size());
  }
  w.phase2();
  std::vector<size_t> idxOf;
  if constexpr (std::is_void<T>::value) {
    for (auto& e : order)
      w.addNeighbor(e.s, g.adj[e.s][e.i].dst);
    w.finish();
  } else {
    if (dataMode == 0) {
      for (auto& e : order)
        w.template addNeighbor<T>(e.s, g.adj[e.s][e.i].dst, valueOf<T>(g.adj[e.s][e.i]));
      w.finish();
    } else {
      idxOf.reserve(m);
      for (auto& e : order)
        idxOf.push_back(w.addNeighbor(e.s, g.adj[e.s][e.i].dst));
      T* p = w.template finish<T>();
      for (size_t k = 0; k < order.size(); ++k)
        p[idxOf[k]] = valueOf<T>(g.adj[order[k].s][order[k].i]);
    }
  }
  // the writer is documented to be usable as a FileGraph after finish()
  constexpr uint64_t W = std::is_void<T>::value ? 0 : sizeof(std::conditional_t<std::is_void<T>::value, char, T>);
  if (w.size() != n || w.sizeEdges() != m || w.edgeSize() != W)
    c.violation(c.key("in-memory-size"), J().kv("nodes", (uint64_t)w.size()).kv("expected_nodes", n)
                                             .kv("edges", (uint64_t)w.sizeEdges()).kv("expected_edges", m)
                                             .kv("edge_size", (uint64_t)w.edgeSize()).kv("expected_edge_size", W).str());
  else {
    std::string d = diffWhole(c, exp, enumerateFileGraph<T>(w));
    if (!d.empty())
      c.violation(c.key("in-memory-content"), J().raw("diff", d).str());
  }
  std::string out = c.path("w");
  w.toFile(out);
  c.filesWrittenByLib++;
  checkFile<T>(c, out, exp, "");
  checkReadBack<T>(c, out, exp, "");
}

// ------------------------------------------------------------------ FileGraph copy + toFile
template <typename T>
void copy_t(Case& c) {
  const bool assign = (c.variant >> 1) & 1; // copy assignment instead of copy construction
  std::string cls   = c.v2class();
  std::string in    = c.path("in");
  ref::write_gr(in, c.g, c.version, c.width, ref::V2Pad::None);
  PeekGraph a;
  a.fromFile(in);
  c.libReads++;
  if constexpr (!std::is_void<T>::value)
    if (a.sizeEdges() && !a.rawEdgeData()) {
      c.violation("C12:FileGraph.fromFile:edge-data-missing:width" + std::to_string(sizeof(T)),
                  J().kv("what", "reference-written file has edge data, fromFile presents none (edgeData == nullptr)")
                      .kv("file_bytes", fileSize(in)).kv("edges", c.g.numEdges()).kv("version", c.version).str());
      return;
    }
  // the source graph is the reference: input, copy, written file and read-back must all be it
  Adj seen = enumerateFileGraph<T>(a);
  {
    std::string d = diffWhole(c, c.g, seen);
    if (!d.empty()) {
      c.violation(c.key("input-misread", cls), J().kv("what", "fromFile of the reference-written input").raw("diff", d).str());
      return;
    }
  }
  const ref::RefGraph& seenG = c.g;
  if (c.variant >= 4) {
    // no copy: toFile of the file-backed graph itself (what graph-convert does when a conversion has nothing to
    // change: "copy input to output")
    std::string out = c.path("direct");
    a.toFile(out);
    c.filesWrittenByLib++;
    checkFile<T>(c, out, seenG, cls);
    checkReadBack<T>(c, out, seenG, cls);
    return;
  }
  gg::FileGraph b;
  if (assign) {
    gg::FileGraph tmp;
    tmp = a;
    b   = std::move(tmp);
  } else {
    gg::FileGraph tmp(a);
    b = std::move(tmp);
  }
  if (b.size() != seenG.numNodes || b.sizeEdges() != seenG.numEdges())
    c.violation(c.key("copy-size", cls), J().kv("nodes", (uint64_t)b.size()).kv("edges", (uint64_t)b.sizeEdges()).str());
  else {
    std::string d = diffWhole(c, seenG, enumerateFileGraph<T>(b));
    if (!d.empty())
      c.violation(c.key("copy-differs", cls), J().raw("diff", d).str());
  }
  std::string out = c.path("out");
  b.toFile(out);
  c.filesWrittenByLib++;
  checkFile<T>(c, out, seenG, cls);
  checkReadBack<T>(c, out, seenG, cls);
}

// ------------------------------------------------------------------ fromGraph<T> + toFile
template <typename T>
void fromgraph_t(Case& c) {
  if constexpr (std::is_void<T>::value) {
    return;
  } else {
    const bool voidInput = (c.variant >> 1) & 1; // structure-only input (gr2randomweightgr on an unweighted graph)
    std::string cls      = c.v2class();
    std::string in       = c.path("in");
    ref::write_gr(in, c.g, c.version, voidInput ? 0 : c.width, ref::V2Pad::None);
    gg::FileGraph a;
    a.fromFile(in);
    c.libReads++;
    gg::FileGraph b;
    T* p = b.template fromGraph<T>(a);
    // new edge data in CSR edge order
    ref::RefGraph exp = c.g;
    exp.edgeDataSize  = sizeof(T);
    uint64_t i        = 0;
    for (auto& adj : exp.adj)
      for (auto& e : adj) {
        unsigned char buf[sizeof(T)];
        for (auto& ch : buf)
          ch = (unsigned char)c.rng.below(256);
        e = edgeOfBytes(e.dst, buf, sizeof(T));
        if (p)
          std::memcpy(&p[i], buf, sizeof(T));
        ++i;
      }
    if (!p && i) {
      c.violation(c.key("null-edge-data", cls), J().kv("edges", i).str());
      return;
    }
    if (b.size() != exp.numNodes || b.sizeEdges() != exp.numEdges() || b.edgeSize() != sizeof(T))
      c.violation(c.key("in-memory-size", cls), J().kv("nodes", (uint64_t)b.size()).kv("edges", (uint64_t)b.sizeEdges())
                                                    .kv("edge_size", (uint64_t)b.edgeSize()).str());
    else {
      std::string d = diffWhole(c, exp, enumerateFileGraph<T>(b));
      if (!d.empty())
        c.violation(c.key("in-memory-content", cls), J().raw("diff", d).str());
    }
    std::string out = c.path("out");
    b.toFile(out);
    c.filesWrittenByLib++;
    checkFile<T>(c, out, exp, cls);
    checkReadBack<T>(c, out, exp, cls);
  }
}

} // namespace

namespace c12 {
void run_writer(Case& c) { C12_WIDTH_SWITCH(c.width, writer_t, c); }
void run_copy(Case& c) { C12_WIDTH_SWITCH(c.width, copy_t, c); }
void run_fromgraph(Case& c) { C12_WIDTH_SWITCH(c.width, fromgraph_t, c); }
} // namespace c12
