// C13 — second TU of c13_graphdiv: the divisions that need a graph object
// (LC_CSR_Graph, FileGraph / FileGraphWriter / partFromFile, OfflineGraph).
#include "c13_graphdiv.h"
#include "c13_gr.h"

#include "galois/Galois.h"
#include "galois/graphs/FileGraph.h"
#include "galois/graphs/GraphHelpers.h"
#include "galois/graphs/LC_CSR_Graph.h"
#include "galois/graphs/OfflineGraph.h"
#include "galois/graphs/ReadGraph.h"

#include <unistd.h>

using namespace c13;
namespace gg = galois::graphs;

// graph kinds
//  0  LC_CSR_Graph<int,void>, no_lockable            (what DistGraph instantiates; blocked local ranges)
//  1  LC_CSR_Graph<int,void>, no_lockable, numa_alloc (local ranges come from divideByNode)
//  2  LC_CSR_Graph<int,int>, numa_alloc               (default abstract locks, edge data)
//  3  LC_CSR_Graph<int,int>, no_lockable, numa_alloc, built by constructFrom(prefix sum) + initializeLocalRanges
//  4  LC_CSR_Graph<int,int>                           (default abstract locks, interleaved; unit ranges only)
typedef gg::LC_CSR_Graph<int, void>::with_no_lockable<true>::type G0;
typedef gg::LC_CSR_Graph<int, void>::with_no_lockable<true>::type::with_numa_alloc<true>::type G1;
typedef gg::LC_CSR_Graph<int, int>::with_numa_alloc<true>::type G2;
typedef gg::LC_CSR_Graph<int, int>::with_no_lockable<true>::type::with_numa_alloc<true>::type G3;
// default abstract locks, edge data, interleaved allocation (the functor constructor of LC_CSR_Graph cannot
// be used: it does not compile, outOfLineAllocateBlocked(n, bool) does not exist)
typedef gg::LC_CSR_Graph<int, int> G2F;

const char* c13::graphKindName(int k) {
  switch (k) {
  case 0: return "LC_CSR<int,void,no_lockable>";
  case 1: return "LC_CSR<int,void,no_lockable,numa>";
  case 2: return "LC_CSR<int,int,numa>";
  case 3: return "LC_CSR<int,int,no_lockable,numa>/constructFrom(prefix)";
  default: return "LC_CSR<int,int>(abstract locks)";
  }
}

// ------------------------------------------------------------------ determineUnitRangesFromGraph
template <typename G>
static void unitRangesGraph(Acc& A, G& g, uint64_t N, uint32_t units, bool sub, uint32_t b, uint32_t e, uint32_t alpha,
                            bool exhaustive, const std::function<std::string()>& wit) {
  std::vector<uint32_t> r = sub ? gg::determineUnitRangesFromGraph(g, units, b, e, alpha)
                                : gg::determineUnitRangesFromGraph(g, units, alpha);
  ++A.calls;
  uint64_t lo = sub ? b : 0, hi = sub ? e : N;
  judgeUnitVector(A, r, units, lo, hi, exhaustive, unitClass(sub, units, hi - lo, lo), wit);
}

void c13::runUnitRangesFromGraph(Acc& A, Rng& rng, GraphObjCtx& C, int graphKind, bool sub, bool exhaustive, int slice) {
  if (exhaustive) {
    // graphKind is the node weight (alpha) here; one graph per node count, its
    // prefix sum rewritten with fixEndEdge for every degree vector (CuSP builds
    // its graphs with allocateFrom + fixEndEdge)
    uint32_t alpha    = (uint32_t)graphKind;
    const unsigned NX = C.H.thorough ? 7 : 6;
    unsigned lo, hi, maxUnits;
    if (!sub) {
      lo = slice ? NX : 0;
      hi = slice ? NX : NX - 1;
      maxUnits = NX + 2;
    } else {
      lo = slice ? NX - 1 : 0;
      hi = slice ? NX - 1 : NX - 2;
      maxUnits = NX + 1;
    }
    std::vector<uint64_t> deg, pre;
    for (unsigned n = lo; n <= hi; ++n) {
      G0 g;
      g.allocateFrom(n, 5 * n + 1);
      g.constructNodes();
      for (uint64_t d = 0; d < (1ULL << (2 * n)); ++d) {
        nthSmallDegrees(d, n, deg);
        pre = prefixOf(deg);
        for (unsigned i = 0; i < n; ++i)
          g.fixEndEdge(i, pre[i]);
        for (uint32_t units = 1; units <= maxUnits; ++units) {
          if (!sub)
            unitRangesGraph(A, g, n, units, false, 0, 0, alpha, true,
                            [&] { return J().raw("degrees", degJson(deg)).kv("units", units).kv("nodeAlpha", alpha).str(); });
          else
            for (uint32_t b = 0; b <= n; ++b)
              for (uint32_t e = b; e <= n; ++e)
                unitRangesGraph(A, g, n, units, true, b, e, alpha, true, [&] {
                  return J().raw("degrees", degJson(deg)).kv("units", units).kv("beginNode", b).kv("endNode", e).kv("nodeAlpha", alpha).str();
                });
        }
      }
    }
    return;
  }
  unsigned reps = 40 * C.scale;
  for (unsigned i = 0; i < reps; ++i) {
    size_t n                  = rng.chance(1, 3) ? (size_t)rng.below(13) : (size_t)logUniform(rng, 3000);
    unsigned dist             = (unsigned)rng.below(10); // no "huge": real edges are allocated
    std::vector<uint64_t> deg = genDegrees(rng, dist, n, rng.pick<uint64_t>({1, 3, 10}));
    std::vector<uint64_t> pre = prefixOf(deg);
    uint64_t m                = n ? pre.back() : 0;
    auto run                  = [&](auto& g) {
      for (size_t units : std::vector<size_t>{1, 2 + (size_t)rng.below(15), (size_t)std::min<uint64_t>(n + 1 + rng.below(20), 300),
                                              1 + (size_t)rng.below(300)}) {
        uint32_t b = 0, e = (uint32_t)n;
        if (sub) {
          b = (uint32_t)rng.below(n + 1);
          e = b + (uint32_t)rng.below(n - b + 1);
          if (rng.chance(1, 3)) e = (uint32_t)n;
        }
        uint32_t alpha = (uint32_t)rng.pick<uint64_t>({0, 0, 1, 2, 10, logUniform(rng, 100000)});
        unitRangesGraph(A, g, n, (uint32_t)units, sub, b, e, alpha, false, [&] {
          return J().raw("degrees", degJson(deg)).kv("nodes", n).kv("dist", DIST_NAMES[dist]).kv("units", units)
              .kv("beginNode", b).kv("endNode", e).kv("nodeAlpha", alpha).kv("sub", sub).kv("graph", graphKindName(graphKind)).str();
        });
      }
    };
    if (graphKind == 0) {
      G0 g;
      g.allocateFrom((uint32_t)n, m);
      g.constructNodes();
      uint64_t eidx = 0;
      for (size_t s = 0; s < n; ++s) {
        for (uint64_t j = 0; j < deg[s]; ++j)
          g.constructEdge(eidx++, (uint32_t)((s + 1 + j) % n));
        g.fixEndEdge((uint32_t)s, pre[s]);
      }
      run(g);
    } else {
      // complete graph object with abstract locks (edge_begin walks the neighbours)
      G2F g;
      g.allocateFrom((uint32_t)n, m);
      g.constructNodes();
      uint64_t eidx = 0;
      for (size_t s = 0; s < n; ++s) {
        for (uint64_t j = 0; j < deg[s]; ++j, ++eidx)
          g.constructEdge(eidx, (uint32_t)((s + 1 + j) % n), (int)j);
        g.fixEndEdge((uint32_t)s, pre[s]);
      }
      run(g);
    }
  }
}

// ------------------------------------------------------------------ FileGraph
static void buildWriter(gg::FileGraphWriter& w, const std::vector<uint64_t>& deg) {
  size_t n   = deg.size();
  uint64_t m = 0;
  for (auto d : deg) m += d;
  w.setNumNodes(n);
  w.setNumEdges<void>(m);
  w.phase1();
  for (size_t s = 0; s < n; ++s)
    if (deg[s])
      w.incrementDegree(s, deg[s]);
  w.phase2();
  for (size_t s = 0; s < n; ++s)
    for (uint64_t j = 0; j < deg[s]; ++j)
      w.addNeighbor(s, (s + 1 + j) % n);
  w.finish();
}

// node ranges of divideByEdge are documented to stop after the last node that
// has edges ("may potentially not return all nodes in the graph")
static uint64_t lastNodeWithEdgesPlus1(const std::vector<uint64_t>& deg, size_t lo, size_t hi) {
  for (size_t i = hi; i > lo; --i)
    if (deg[i - 1])
      return i - lo;
  return 0;
}

static void fileGraphDivide(Acc& A, gg::FileGraph& fg, bool byEdge, size_t nw, size_t ew, size_t total, uint64_t hiMinNodes,
                            bool exhaustive, const std::string& flags, const std::function<std::string()>& wit) {
  uint64_t N = fg.size(), M = fg.sizeEdges();
  Tiling tn(0, (pos_t)N, total), te(0, (pos_t)M, total);
  for (size_t id = 0; id < total; ++id) {
    auto r = byEdge ? fg.divideByEdge(nw, ew, id, total) : fg.divideByNode(nw, ew, id, total);
    ++A.calls;
    tn.feed(id, (pos_t)*r.first.first, (pos_t)*r.first.second);
    te.feed(id, (pos_t)*r.second.first, (pos_t)*r.second.second);
  }
  if (!byEdge) {
    A.finishDivision(tn, N, exhaustive, "nodes" + flags, wit);
    secondaryCheck(A, te, "edges" + flags, wit);
  } else {
    // the edges are what is divided; the node ranges only have to be well
    // formed, in order, and reach at least the last node that has edges
    A.finishDivision(te, M, exhaustive, "edges", wit);
    tn.hiMin = (pos_t)hiMinNodes;
    secondaryCheck(A, tn, "nodes", wit);
  }
}

void c13::runFileGraph(Acc& A, Rng& rng, GraphObjCtx& C, int source, bool byEdge, bool exhaustive, int slice) {
  std::string path = C.tmpdir + "/fg.gr";
  if (exhaustive) {
    // in-memory FileGraphWriter graphs over all small degree vectors
    const unsigned NX   = byEdge ? 5 : (C.H.thorough ? 7 : 6);
    const unsigned MAXP = byEdge ? 7 : NX + 2;
    Weights w           = slice ? Weights{8, 4} : Weights{0, 1};
    std::vector<uint64_t> deg;
    for (unsigned n = 0; n <= NX; ++n)
      for (uint64_t d = 0; d < (1ULL << (2 * n)); ++d) {
        nthSmallDegrees(d, n, deg);
        gg::FileGraphWriter fw;
        buildWriter(fw, deg);
        for (size_t total = 1; total <= MAXP; ++total)
          fileGraphDivide(A, fw, byEdge, w.node, w.edge, total, lastNodeWithEdgesPlus1(deg, 0, n), true, "", [&] {
            return J().raw("degrees", degJson(deg)).kv("nodeSize", w.node).kv("edgeSize", w.edge).kv("total", total)
                .kv("source", "FileGraphWriter").str();
          });
      }
    return;
  }
  unsigned reps = (byEdge ? 12 : 40) * C.scale;
  for (unsigned i = 0; i < reps; ++i) {
    size_t n                  = rng.chance(1, 3) ? (size_t)rng.below(13) : (size_t)logUniform(rng, byEdge ? 400 : 3000);
    unsigned dist             = (unsigned)rng.below(10);
    std::vector<uint64_t> deg = genDegrees(rng, dist, n, rng.pick<uint64_t>({1, 3, 10}));
    size_t nw, ew;
    uint64_t m = 0;
    for (auto d : deg) m += d;
    pickWeights(rng, n, m, nw, ew);
    std::vector<size_t> totals = byEdge ? std::vector<size_t>{1, 2 + (size_t)rng.below(7), (size_t)(m + 1 + rng.below(5)) % 40 + 1}
                                        : pickTotals(rng, n, 4, 300);
    auto witBase = [&](size_t total, const char* src) {
      return J().raw("degrees", degJson(deg)).kv("nodes", n).kv("dist", DIST_NAMES[dist]).kv("nodeSize", nw).kv("edgeSize", ew)
          .kv("total", total).kv("source", src);
    };
    if (source == 0) {
      gg::FileGraphWriter fw;
      buildWriter(fw, deg);
      for (size_t total : totals)
        fileGraphDivide(A, fw, byEdge, nw, ew, total, lastNodeWithEdgesPlus1(deg, 0, n), false, "", [&] { return witBase(total, "FileGraphWriter").str(); });
      continue;
    }
    int version = rng.chance(1, 4) ? 2 : 1;
    if (!c13ref::write_gr(path, deg, version, 0)) {
      C.H.note("tmpfile", J().kv("error", "cannot write " + path).str());
      continue;
    }
    {
      gg::FileGraph whole;
      whole.fromFile(path);
      if (source == 1) {
        for (size_t total : totals)
          fileGraphDivide(A, whole, byEdge, nw, ew, total, lastNodeWithEdgesPlus1(deg, 0, n), false, "",
                          [&] { return witBase(total, "fromFile").kv("version", version).str(); });
      } else {
        // load the part of one "host" exactly as a divideByNode of the whole graph assigns it
        size_t hosts = 1 + (size_t)rng.below(6), host = (size_t)rng.below(hosts);
        auto hr      = whole.divideByNode(rng.below(3), 1, host, hosts);
        ++A.calls;
        uint64_t pb = *hr.first.first, pe = *hr.first.second;
        if (pb <= pe && pe <= n && pb != pe) { // (the host division itself is judged in the fromFile family)
          gg::FileGraph part;
          part.partFromFile(path, hr.first, hr.second);
          A.extra["parts_loaded"]++;
          for (size_t total : totals)
            fileGraphDivide(A, part, byEdge, nw, ew, total, lastNodeWithEdgesPlus1(deg, pb, pe), false, ",offset", [&] {
              return witBase(total, "partFromFile").kv("version", version).kv("partNodeBegin", pb).kv("partNodeEnd", pe)
                  .kv("partEdgeBegin", *hr.second.first).kv("partEdgeEnd", *hr.second.second).str();
            });
        }
      }
    }
    unlink(path.c_str());
  }
}

// ------------------------------------------------------------------ OfflineGraph
static std::vector<unsigned> smallScale(uint64_t c, size_t total) {
  std::vector<unsigned> sf(total);
  for (auto& v : sf) {
    v = (unsigned)(c & 3);
    c >>= 2;
  }
  return sf;
}

static void offlineDivide(Acc& A, gg::OfflineGraph& og, size_t nw, size_t ew, size_t total, const std::vector<unsigned>& sf,
                          bool exhaustive, const std::function<std::string()>& wit) {
  uint64_t N = og.size(), M = og.sizeEdges();
  Tiling tn(0, (pos_t)N, total), te(0, (pos_t)M, total);
  for (size_t id = 0; id < total; ++id) {
    auto r = sf.empty() ? og.divideByNode(nw, ew, id, total) : og.divideByNode(nw, ew, id, total, sf);
    ++A.calls;
    tn.feed(id, (pos_t)*r.first.first, (pos_t)*r.first.second);
    te.feed(id, (pos_t)*r.second.first, (pos_t)*r.second.second);
  }
  std::string flags = sf.empty() ? "" : ",scale";
  A.finishDivision(tn, N, exhaustive, "nodes" + flags, wit);
  secondaryCheck(A, te, "edges" + flags, wit);
}

void c13::runOfflineGraph(Acc& A, Rng& rng, GraphObjCtx& C, int version, bool scaleFactor, bool exhaustive, int slice) {
  std::string path = C.tmpdir + "/og.gr";
  try {
    if (exhaustive) {
      const unsigned NX   = C.H.thorough ? 6 : 5;
      const unsigned MAXP = scaleFactor ? 3 : NX + 2;
      std::vector<uint64_t> deg;
      for (unsigned n = 0; n <= NX; ++n)
        for (uint64_t d = 0; d < (1ULL << (2 * n)); ++d) {
          nthSmallDegrees(d, n, deg);
          if (!c13ref::write_gr(path, deg, version, 0))
            continue;
          {
            gg::OfflineGraph og(path);
            for (size_t total = 1; total <= MAXP; ++total) {
              if (!scaleFactor) {
                for (int w : {0, 2})
                  offlineDivide(A, og, EXH_WEIGHTS[w].node, EXH_WEIGHTS[w].edge, total, {}, true, [&] {
                    return J().raw("degrees", degJson(deg)).kv("w", w).kv("total", total).kv("version", version).str();
                  });
              } else
                for (uint64_t c = 1; c < (1ULL << (2 * total)); ++c) {
                  auto sf = smallScale(c, total);
                  offlineDivide(A, og, 0, 1, total, sf, true, [&] {
                    return J().raw("degrees", degJson(deg)).raw("scaleFactor", jarr(sf)).kv("total", total).kv("version", version).str();
                  });
                }
            }
          }
          unlink(path.c_str());
        }
      return;
    }
    unsigned reps = 30 * C.scale;
    for (unsigned i = 0; i < reps; ++i) {
      size_t n                  = rng.chance(1, 3) ? (size_t)rng.below(13) : (size_t)logUniform(rng, 2000);
      unsigned dist             = (unsigned)rng.below(10);
      std::vector<uint64_t> deg = genDegrees(rng, dist, n, rng.pick<uint64_t>({1, 3, 10}));
      uint64_t m                = 0;
      for (auto d : deg) m += d;
      if (!c13ref::write_gr(path, deg, version, version == 1 && rng.chance(1, 2) ? 4 : 0))
        continue;
      {
        gg::OfflineGraph og(path);
        size_t nw, ew;
        // the call sites (DistributedGraph.h computeMasters*) pass (0, edgeWeight) or (nodeWeight, edgeWeight)
        pickWeights(rng, n, m, nw, ew);
        for (size_t total : pickTotals(rng, n, 3, 64)) {
          std::vector<unsigned> sf;
          if (scaleFactor) {
            sf.resize(total);
            uint64_t sum = 0;
            for (auto& v : sf) {
              v = rng.chance(1, 5) ? 0 : 1 + (unsigned)rng.below(4);
              sum += v;
            }
            if (!sum) sf[rng.below(total)] = 1;
          }
          offlineDivide(A, og, nw, ew, total, sf, false, [&] {
            return J().raw("degrees", degJson(deg)).kv("nodes", n).kv("dist", DIST_NAMES[dist]).kv("nodeWeight", nw)
                .kv("edgeWeight", ew).kv("total", total).raw("scaleFactor", jarr(sf)).kv("version", version).str();
          });
        }
      }
      unlink(path.c_str());
    }
  } catch (const char* msg) {
    C.H.note("offline-graph-exception", J().kv("what", msg).str());
    unlink(path.c_str());
  }
}

// ------------------------------------------------------------------ LC_CSR_Graph thread ranges
struct ThreadRec {
  pos_t v[10]; // graph.local_begin/end, LocalRange block_pair, local_pair, block_begin/end, local_begin/end
};
static const char* CSR_ACC[] = {"graph.local_begin/end", "LocalRange.block_pair", "LocalRange.local_pair",
                                "LocalRange.block_begin/end", "LocalRange.local_begin/end"};

template <typename G>
static void judgeThreadRanges(Acc& A, G& g, unsigned T, uint64_t N, const std::function<std::string()>& wit) {
  std::vector<ThreadRec> rec(T);
  auto R = galois::iterate(g)(std::tuple<>()); // LocalRange<G>, as do_all(iterate(graph)) obtains it
  galois::on_each([&](unsigned tid, unsigned) {
    ThreadRec& r = rec[tid];
    r.v[0]       = (pos_t)*g.local_begin();
    r.v[1]       = (pos_t)*g.local_end();
    auto bp      = R.block_pair();
    auto lp      = R.local_pair();
    r.v[2]       = (pos_t)*bp.first;
    r.v[3]       = (pos_t)*bp.second;
    r.v[4]       = (pos_t)*lp.first;
    r.v[5]       = (pos_t)*lp.second;
    r.v[6]       = (pos_t)*R.block_begin();
    r.v[7]       = (pos_t)*R.block_end();
    r.v[8]       = (pos_t)*R.local_begin();
    r.v[9]       = (pos_t)*R.local_end();
    progress();
  });
  A.calls += (uint64_t)T * 8;
  for (int acc = 0; acc < 5; ++acc) {
    Tiling t(0, (pos_t)N, T);
    for (unsigned tid = 0; tid < T; ++tid)
      t.feed(tid, rec[tid].v[2 * acc], rec[tid].v[2 * acc + 1]);
    A.finishDivision(t, N, false, CSR_ACC[acc], wit);
  }
}

template <typename G>
static void judgeMemberDivide(Acc& A, Rng& rng, G& g, uint64_t N, uint64_t M, const std::function<std::string()>& wit) {
  size_t nw, ew;
  pickWeights(rng, N, M, nw, ew);
  for (size_t total : pickTotals(rng, N, 2, 100)) {
    Tiling tn(0, (pos_t)N, total), te(0, (pos_t)M, total);
    for (size_t id = 0; id < total; ++id) {
      auto r = g.divideByNode(nw, ew, id, total);
      ++A.calls;
      tn.feed(id, (pos_t)*r.first.first, (pos_t)*r.first.second);
      te.feed(id, (pos_t)*r.second.first, (pos_t)*r.second.second);
    }
    auto w2 = [&] { return J().kv("nodeSize", nw).kv("edgeSize", ew).kv("total", total).raw("graph", wit()).str(); };
    A.finishDivision(tn, N, false, "divideByNode,nodes", w2);
    secondaryCheck(A, te, "divideByNode,edges", w2);
  }
}

void c13::runCsrThreadRanges(Acc& A, Rng& rng, GraphObjCtx& C, int graphKind) {
  std::string path = C.tmpdir + "/csr.gr";
  unsigned reps    = 60 * C.scale;
  for (unsigned i = 0; i < reps; ++i) {
    size_t n                  = rng.chance(1, 3) ? (size_t)rng.below(20) : (size_t)logUniform(rng, 3000);
    unsigned dist             = (unsigned)rng.below(10);
    std::vector<uint64_t> deg = genDegrees(rng, dist, n, rng.pick<uint64_t>({1, 3, 10}));
    std::vector<uint64_t> pre = prefixOf(deg);
    uint64_t m                = n ? pre.back() : 0;
    unsigned T                = 1 + (unsigned)rng.below(C.maxT);
    if (rng.chance(1, 4)) T = C.maxT;
    galois::setActiveThreads(T);
    auto wit = [&] {
      return J().raw("degrees", degJson(deg)).kv("nodes", n).kv("edges", m).kv("dist", DIST_NAMES[dist]).kv("threads", T)
          .kv("graph", graphKindName(graphKind)).str();
    };
    if (graphKind == 3) {
      G3 g;
      std::vector<std::vector<uint32_t>> ids(n);
      std::vector<std::vector<int>> data(n);
      for (size_t s = 0; s < n; ++s)
        for (uint64_t j = 0; j < deg[s]; ++j) {
          ids[s].push_back((uint32_t)((s + 1 + j) % n));
          data[s].push_back((int)j);
        }
      g.constructFrom((uint32_t)n, m, pre, ids, data); // ends with initializeLocalRanges()
      judgeThreadRanges(A, g, T, n, wit);
      judgeMemberDivide(A, rng, g, n, m, wit);
      continue;
    }
    if (!c13ref::write_gr(path, deg, 1, graphKind == 2 ? 4 : 0)) {
      C.H.note("tmpfile", J().kv("error", "cannot write " + path).str());
      continue;
    }
    switch (graphKind) {
    case 0: {
      G0 g;
      gg::readGraph(g, path);
      judgeThreadRanges(A, g, T, n, wit);
      judgeMemberDivide(A, rng, g, n, m, wit);
      break;
    }
    case 1: {
      G1 g;
      gg::readGraph(g, path);
      judgeThreadRanges(A, g, T, n, wit);
      judgeMemberDivide(A, rng, g, n, m, wit);
      break;
    }
    default: {
      G2 g;
      gg::readGraph(g, path);
      judgeThreadRanges(A, g, T, n, wit);
      judgeMemberDivide(A, rng, g, n, m, wit);
      break;
    }
    }
    unlink(path.c_str());
  }
  galois::setActiveThreads(std::min(C.maxT, 4u));
}
