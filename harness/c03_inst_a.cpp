#include "c03_inst.h"
namespace c03 {
RunFn lookupA(unsigned kind, bool steal, unsigned ci) {
  switch (kind) {
  case K_POINTER: return lookupKind<K_POINTER>(steal, ci);
  case K_VECTOR: return lookupKind<K_VECTOR>(steal, ci);
  case K_DEQUE: return lookupKind<K_DEQUE>(steal, ci);
  case K_SUBRANGE: return lookupKind<K_SUBRANGE>(steal, ci);
  }
  return nullptr;
}
} // namespace c03
