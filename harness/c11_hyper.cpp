// C11: hyper family, representative subset of the template matrix (quick + thorough)
#include "c11_fam_hyper.h"

namespace c11 {

void registerHyper() {
  regHyper<Hyper<void>>("lock", H_ALL);
  regHyper<Hyper<uint32_t>>("lock", H_ALL);
  regHyper<Hyper<uint64_t, false, true, true>>("ool+numa", H_READ | H_TRANSPOSE | H_SORTDST);
  regHyper<Hyper<void, true, true>>("nolock+numa", H_READ | H_TRANSPOSE | H_VECTORS);
}

} // namespace c11
