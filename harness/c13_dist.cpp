// C13 — work-division routines, part 3 (dist build, thorough tier): the host
// ranges computed by DistGraph::computeMasters (libcusp DistributedGraph.h):
//   BALANCED_MASTERS            block_range over nodes, optional scale factors / decompose factor (no network)
//   BALANCED_EDGES_OF_MASTERS   OfflineGraph::divideByNode(0, edgeWeight, ...) per host + exchange over the network
//   BALANCED_MASTERS_AND_EDGES  OfflineGraph::divideByNode(nodeWeight, edgeWeight, ...) per host + exchange
// The resulting gid2host vector (one (begin,end) pair per host or per host x
// decompose factor) must tile [0, numNodes).
//
// Runs under mpirun -np N (N = 1..4): every rank executes the same cases from
// the same seed; only rank 0 writes the event log and judges.
#define VERIF_MAIN_TU
#include "c13_common.h"
#include "c13_gr.h"

#include "galois/DistGalois.h"
#include "galois/graphs/DistributedGraph.h"
#include "galois/runtime/Network.h"

#include <unistd.h>

using namespace c13;
namespace gg = galois::graphs;

class HostRanges : public gg::DistGraph<int, void> {
  unsigned getHostIDImpl(uint64_t) const override { return 0; }
  bool isOwnedImpl(uint64_t) const override { return false; }
  bool isLocalImpl(uint64_t) const override { return false; }
  bool isVertexCutImpl() const override { return false; }

public:
  HostRanges(unsigned host, unsigned numHosts) : gg::DistGraph<int, void>(host, numHosts) {}
  const std::vector<std::pair<uint64_t, uint64_t>>& masters(gg::MASTERS_DISTRIBUTION md, gg::OfflineGraph& g,
                                                             const std::vector<unsigned>& sf, uint32_t nw, uint32_t ew,
                                                             unsigned df) {
    gid2host.clear();
    computeMasters(md, g, sf, nw, ew, df);
    return gid2host;
  }
};

static void judgeHosts(Acc& A, const std::vector<std::pair<uint64_t, uint64_t>>& r, size_t expectPieces, uint64_t N,
                       const std::string& cls, const std::function<std::string()>& wit) {
  ++A.calls;
  if (r.size() != expectPieces) {
    A.violation("bad-vector-size", cls, J().kv("pieces", r.size()).kv("expected", expectPieces).raw("input", wit()).str());
    return;
  }
  Tiling t(0, (pos_t)N, r.size());
  for (size_t i = 0; i < r.size(); ++i)
    t.feed(i, (pos_t)r[i].first, (pos_t)r[i].second);
  A.finishDivision(t, N, false, cls, [&] {
    std::vector<uint64_t> flat;
    for (auto& p : r) {
      flat.push_back(p.first);
      flat.push_back(p.second);
    }
    return J().raw("gid2host", jarr(flat)).raw("args", wit()).str();
  });
}

int main(int argc, char** argv) {
  // rank before MPI_Init (Open MPI / MPICH launchers export it); non-zero ranks log to /dev/null
  const char* rk = getenv("OMPI_COMM_WORLD_RANK");
  if (!rk) rk = getenv("PMI_RANK");
  int envRank = rk ? atoi(rk) : 0;
  std::vector<char*> args(argv, argv + argc);
  static char devnull[] = "/dev/null";
  if (envRank != 0)
    for (int i = 1; i + 1 < argc; ++i)
      if (std::string(args[i]) == "--out")
        args[i + 1] = devnull;
  Harness H("C13", argc, args.data());
  galois::DistMemSys G;
  auto& net      = galois::runtime::getSystemNetworkInterface();
  unsigned me    = net.ID, np = net.Num;
  bool log       = me == 0;
  galois::setActiveThreads(2);
  std::string path = "/var/tmp/verif-c13dist-" + std::to_string((long)getppid()) + ".gr";
  auto& bar        = galois::runtime::getHostBarrier();
  const unsigned scale = H.thorough ? 3 : 1;

  for (long k = H.firstCase(); k < H.endCase(); ++k) {
    Rng rng(mix(H.caseSeed(k), (uint64_t)H.paramInt("salt", 0))); // salt: other random inputs for the same plan
    int fam = (int)(k % 4);
    static const char* FAM[] = {"BALANCED_MASTERS", "BALANCED_MASTERS+scalefactor", "BALANCED_EDGES_OF_MASTERS",
                                "BALANCED_MASTERS_AND_EDGES"};
    std::string comp = std::string("DistGraph::computeMasters(") + FAM[fam] + ")";
    H.hangKey        = "C13:" + comp + ":hang";
    H.begin(k, J().kv("component", comp).kv("hosts", np).str());
    Acc A(H, comp);
    unsigned reps = (fam < 2 ? 40 : 25) * scale;
    for (unsigned i = 0; i < reps; ++i) {
      // ---- identical draws on every rank
      size_t n                  = rng.chance(1, 3) ? 1 + (size_t)rng.below(13) : (size_t)logUniform(rng, 1500);
      if (fam < 3 && rng.chance(1, 10)) n = 0; // empty graph (not for MASTERS_AND_EDGES: it computes an average degree)
      unsigned dist             = (unsigned)rng.below(10);
      std::vector<uint64_t> deg = genDegrees(rng, dist, n, rng.pick<uint64_t>({1, 3, 10}));
      int version               = rng.chance(1, 4) ? 2 : 1;
      unsigned df               = 1 + (unsigned)rng.below(3);
      uint32_t nw = (uint32_t)rng.pick<uint64_t>({0, 0, 1, 5, 100}), ew = (uint32_t)rng.pick<uint64_t>({0, 1, 1, 3, 16});
      unsigned simHosts = 1 + (unsigned)rng.below(12); // families 0/1 need no network: any host count
      std::vector<unsigned> sf;
      bool useScale = fam == 1 || (fam >= 2 && rng.chance(1, 3));
      unsigned nh   = fam < 2 ? simHosts : np;
      if (useScale) {
        if (fam == 1) df = 1; // scale factors are documented as incompatible with the decompose factor
        sf.resize(fam == 2 ? (size_t)nh * df : nh); // one factor per division (host x decompose factor for the edge variant)
        for (auto& v : sf) v = 1 + (unsigned)rng.below(4);
      }
      // ---- rank 0 writes the file
      if (me == 0 && !c13ref::write_gr(path, deg, version, 0)) {
        fprintf(stderr, "cannot write %s\n", path.c_str());
        _exit(2);
      }
      bar.wait();
      {
        gg::OfflineGraph og(path);
        auto wit = [&] {
          return J().raw("degrees", jarr(deg, 48)).kv("nodes", n).kv("dist", DIST_NAMES[dist]).kv("hosts", nh).kv("decompose", df)
              .kv("nodeWeight", nw).kv("edgeWeight", ew).raw("scalefactor", jarr(sf)).kv("version", version).str();
        };
        if (fam < 2) {
          for (unsigned h = 0; h < nh; ++h) { // every simulated host must compute the same tiling
            HostRanges g(h, nh);
            auto& r = g.masters(gg::BALANCED_MASTERS, og, sf, nw, ew, df);
            if (log)
              judgeHosts(A, r, sf.empty() || nh * df == 1 ? (size_t)nh * df : nh, n, sf.empty() ? "" : "scale", wit);
          }
        } else {
          HostRanges g(me, np);
          auto& r = g.masters(fam == 2 ? gg::BALANCED_EDGES_OF_MASTERS : gg::BALANCED_MASTERS_AND_EDGES, og, sf, nw, ew, df);
          if (log)
            judgeHosts(A, r, fam == 2 ? (size_t)np * df : np, n, sf.empty() ? "" : "scale", wit);
        }
      }
      bar.wait();
      if (me == 0)
        unlink(path.c_str());
      progress();
    }
    std::string sig = comp + "|np" + std::to_string(np) + "|mp" + (A.more_parts_than_elems ? "1" : "0");
    H.end(k, sig, A.nontrivial(), A.obs());
  }
  return 0;
}
