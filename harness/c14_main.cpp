// C14 — Galois sequential containers behave like their standard counterparts.
//
// One case = one container type x one configuration (chunk size, element type,
// enabled operation classes) x one random operation sequence (<= 200 ops),
// applied in lock-step to the Galois container and to a std:: model. After
// EVERY step: the operation's result, size/empty, full forward traversal,
// backward traversal (where bidirectional), const traversal, and the
// live-instance registry of the instrumented element type (construct/destroy
// exactly once, no use outside the lifetime, live instances == elements).
// The first failed check ends the case (the container may be corrupt) and is
// reported with key C14:<component>:<check>-after-<operation kind>.
#define VERIF_MAIN_TU
#include "c14_common.h"

#include "galois/Galois.h"

#include <fcntl.h>
#include <pthread.h>
#include <signal.h>
#include <sstream>
#include <thread>

#if VERIF_ASAN
#include <dlfcn.h>
#include <sanitizer/common_interface_defs.h>
#endif

using namespace c14;

namespace {
struct Comp {
  const char* name;
  void (*fn)(Case&);
  unsigned weight;
};
const Comp COMPS[] = {
    {"gdeque", run_gdeque, 8},
    {"FixedSizeRing", run_FixedSizeRing, 5},
    {"FixedSizeBag", run_FixedSizeBag, 2},
    {"ConcurrentFixedSizeBag", run_ConcurrentFixedSizeBag, 2},
    {"gslist", run_gslist, 4},
    {"ConcurrentGslist", run_ConcurrentGslist, 3},
    {"InsertBag", run_InsertBag, 5},
    {"flat_map", run_flat_map, 5},
    {"PODResizeableArray", run_PODResizeableArray, 4},
    {"LazyArray", run_LazyArray, 2},
    {"LazyObject", run_LazyObject, 1},
    {"optional", run_optional, 2},
    {"LargeArray", run_LargeArray, 1},
    {"CopyableTuple", run_CopyableTuple, 1},
    {"MinHeap", run_MinHeap, 3},
    {"ThreadSafeMinHeap", run_ThreadSafeMinHeap, 2},
    {"ThreadSafeOrderedSet", run_ThreadSafeOrderedSet, 3},
    {"TwoLevelIterator", run_TwoLevelIterator, 4},
    {"TwoLevelIteratorA", run_TwoLevelIteratorA, 4},
};

// An operation that never returns (e.g. a corrupted tree walked forever) would otherwise stall the whole run.
// Verdict by *thread CPU time* (not wall-clock: a descheduled thread accrues none): every operation here works
// on <= a few hundred elements and takes microseconds; one that burns CPU_LIMIT_S seconds of the case thread's
// own CPU time without completing is reported as non-returning, and the process exits with the HANG code so
// that the driver restarts after the case.
constexpr double CPU_LIMIT_S = 2.0;
std::atomic<bool> g_stopWatch{false};
std::atomic<const char*> g_curComponent{""};
std::atomic<Case*> g_curCase{nullptr}; // its history is read only while the case thread is stuck

void cpuWatchdog(verif::Harness* H, pthread_t caseThread) {
  clockid_t cid;
  if (pthread_getcpuclockid(caseThread, &cid) != 0)
    return;
  auto cpuNow = [&]() {
    timespec ts;
    clock_gettime(cid, &ts);
    return ts.tv_sec + ts.tv_nsec * 1e-9;
  };
  uint64_t lastSeq = g_opSeq.load(std::memory_order_relaxed);
  double cpuAtSeq  = cpuNow();
  while (!g_stopWatch.load(std::memory_order_relaxed)) {
    verif::sleep_us(100000);
    uint64_t s = g_opSeq.load(std::memory_order_relaxed);
    double cpu = cpuNow();
    if (s != lastSeq || H->curCase < 0) {
      lastSeq  = s;
      cpuAtSeq = cpu;
      continue;
    }
    if (cpu - cpuAtSeq >= CPU_LIMIT_S) {
      char op[sizeof g_curOp];
      memcpy(op, g_curOp, sizeof op);
      op[sizeof op - 1] = 0;
      Case* cc = g_curCase.load();
      char ctx[sizeof g_checkCtx];
      memcpy(ctx, g_checkCtx, sizeof ctx);
      ctx[sizeof ctx - 1] = 0;
      H->violation(std::string("C14:") + g_curComponent.load() + ":" + (ctx[0] ? ctx : "does-not-return") + "-after-" + op,
                   J().kv("kind", "operation (or the traversal after it) did not return")
                       .kv("thread_cpu_seconds_without_completing", cpu - cpuAtSeq).kv("operation", op)
                       .kv("config", cc ? cc->cfg : "").kv("history", cc ? cc->history() : "").str());
      H->line(J().kv("ev", "hang_exit").kv("case", H->curCase).str());
      bumpCrashCount();
      _exit(3);
    }
  }
}

// ------------------------------------------------------------------ fatal errors inside a case
// A sanitizer report, a failed Galois assert or a fatal signal ends the process. To give such failures keys that
// are as narrow and as stable as the oracle keys (C14:<component>:<class>-after-<operation kind>, independent of
// the element type that happens to appear in a sanitizer message), stderr is captured in an unlinked temp file
// and classified in-process; the violation is written by the harness itself and the process leaves with the
// "violation already recorded" code 3, after which the driver restarts at the next case.
int g_errFd = -1, g_realErr = -1;
off_t g_caseErrOff = 0;

std::string keyText(std::string t, size_t maxn = 60) {
  std::string o;
  for (char ch : t) {
    if (isalnum((unsigned char)ch) || strchr("_!<>=().+*&|[]", ch))
      o += ch;
    else if (ch == ' ' || ch == '-' || ch == ':' || ch == ',')
      o += (o.empty() || o.back() == '-') ? "" : "-";
  }
  while (!o.empty() && o.back() == '-')
    o.pop_back();
  return o.substr(0, maxn);
}

std::string classify(const std::string& txt, const char* fallback) {
  size_t p, q;
  if ((p = txt.find("Assertion `")) != std::string::npos && (q = txt.find("' failed", p)) != std::string::npos)
    return "assert(" + keyText(txt.substr(p + 11, q - p - 11)) + ")";
  if ((p = txt.find("terminate called after throwing an instance of '")) != std::string::npos) {
    p += 48;
    return "uncaught-" + keyText(txt.substr(p, txt.find('\'', p) - p));
  }
  if ((p = txt.find("ERROR: AddressSanitizer: ")) != std::string::npos) {
    p += 25;
    std::string d = txt.substr(p, txt.find_first_of(" \n", p) - p);
    if (d == "SEGV")
      return "signal-SIGSEGV";
    if (d == "ABRT")
      return "abort";
    return "asan-" + keyText(d);
  }
  if ((p = txt.find("runtime error: ")) != std::string::npos) {
    p += 15;
    std::string d = txt.substr(p, txt.find('\n', p) - p);
    for (const char* cut : {" of type", " for type", " address 0x", " 0x"})
      if ((q = d.find(cut)) != std::string::npos)
        d = d.substr(0, q);
    for (char& ch : d)
      if (isdigit((unsigned char)ch))
        ch = 'N';
    return "ubsan-" + keyText(d);
  }
  return fallback;
}

void fatalReport(const char* fallback) {
  static std::atomic<bool> once{false};
  if (once.exchange(true))
    _exit(3);
  std::string txt;
  if (g_errFd >= 0) {
    off_t end = lseek(g_errFd, 0, SEEK_END);
    off_t from = std::max<off_t>(g_caseErrOff, end - 65536);
    if (end > from) {
      txt.resize((size_t)(end - from));
      ssize_t n = pread(g_errFd, &txt[0], txt.size(), from);
      txt.resize(n > 0 ? (size_t)n : 0);
    }
    if (g_realErr >= 0 && !txt.empty())
      (void)!write(g_realErr, txt.data(), txt.size());
  }
  verif::Harness* H = verif::g_harness;
  if (!H || H->curCase < 0)
    return; // outside a case: let the process die the normal way (driver: harness failure)
  Case* cc = g_curCase.load();
  if (cc && cc->bad)
    H->violation(cc->key, cc->detail); // the oracle had already caught it; the crash is its consequence
  else {
    char op[sizeof g_curOp];
    memcpy(op, g_curOp, sizeof op);
    op[sizeof op - 1] = 0;
    std::string excerpt;
    std::stringstream ss(txt);
    std::string ln;
    unsigned nl = 0;
    while (std::getline(ss, ln) && nl < 24)
      if (ln.find("DEBUG:") == std::string::npos && !ln.empty()) {
        excerpt += ln.substr(0, 260) + "\n";
        ++nl;
      }
    std::string cls = classify(txt, fallback);
    char ctx[sizeof g_checkCtx];
    memcpy(ctx, g_checkCtx, sizeof ctx);
    ctx[sizeof ctx - 1] = 0;
    H->violation(std::string("C14:") + g_curComponent.load() + ":" + (ctx[0] ? std::string(ctx) : cls) + "-after-" + op,
                 J().kv("kind", "fatal error inside the case").kv("class", cls).kv("while_evaluating_check", ctx)
                     .kv("operation", op)
                     .kv("config", cc ? cc->cfg : "").kv("history", cc ? cc->history() : "").kv("stderr", excerpt).str());
  }
  H->line(J().kv("ev", "hang_exit").kv("case", H->curCase).str());
  bumpCrashCount();
  if (H->curCase + 1 >= H->endCase() && !g_capFile.empty())
    unlink(g_capFile.c_str()); // the run ends with this case
  _exit(3);
}

void onDeath() { fatalReport("sanitizer-abort"); }
void onSignal(int sig) {
  fatalReport(sig == SIGSEGV ? "signal-SIGSEGV" : sig == SIGABRT ? "abort" : sig == SIGBUS ? "signal-SIGBUS"
              : sig == SIGFPE ? "signal-SIGFPE" : "signal-SIGILL");
  signal(sig, SIG_DFL);
  raise(sig);
}

void installFatalHandlers() {
  const char* keep = getenv("VERIF_C14_KEEP_STDERR");
  if (!(keep && *keep == '1')) {
    char path[] = "/var/tmp/c14-stderr-XXXXXX";
    int fd      = mkstemp(path);
    if (fd >= 0) {
      unlink(path);
      g_realErr = dup(2);
      g_errFd   = fd;
      dup2(fd, 2);
    }
  }
#if VERIF_ASAN
  __sanitizer_set_death_callback(onDeath); // ASan reports, asserts/aborts (handle_abort=1), SEGV
  // gcc links libubsan as a second runtime with its own copy of sanitizer_common: register there as well
  if (void* h = dlopen("libubsan.so.1", RTLD_LAZY | RTLD_NOLOAD))
    if (auto f = (void (*)(void (*)()))dlsym(h, "__sanitizer_set_death_callback"))
      f(onDeath);
#else
  static char altstack[1 << 16];
  stack_t ss;
  ss.ss_sp    = altstack;
  ss.ss_size  = sizeof altstack;
  ss.ss_flags = 0;
  sigaltstack(&ss, nullptr);
  struct sigaction sa;
  memset(&sa, 0, sizeof sa);
  sa.sa_handler = onSignal;
  sa.sa_flags   = SA_ONSTACK | SA_NODEFER;
  for (int sig : {SIGSEGV, SIGBUS, SIGFPE, SIGILL, SIGABRT})
    sigaction(sig, &sa, nullptr);
#endif
}
} // namespace

int main(int argc, char** argv) {
  verif::Harness H("C14", argc, argv);
  installFatalHandlers();
  galois::SharedMemSys G;
  galois::setActiveThreads(1); // the property is about single-threaded use
  std::thread watchdog(cpuWatchdog, &H, pthread_self());
  uint64_t salt = (uint64_t)H.paramInt("salt", 0); // thorough tier: several processes with different sequences
  {
    // crash-cap state shared by the restarts of this run (same driver process, same arguments)
    const char* off = getenv("VERIF_C14_NO_CRASHCAP");
    if (H.only < 0 && !(off && *off == '1')) {
      uint64_t h = verif::mix(H.seed, salt * 2 + VERIF_ASAN);
      for (char ch : H.param("comps", "") + "#" + std::to_string(H.cases))
        h = verif::mix(h, (unsigned char)ch);
      char buf[128];
      snprintf(buf, sizeof buf, "/var/tmp/c14-crashcap-%d-%016llx", (int)getppid(), (unsigned long long)h);
      g_capFile = buf;
      loadCrashCounts();
    }
  }

  // --param comps=a,b,c restricts the components of this process
  std::vector<const Comp*> sched;
  {
    std::set<std::string> only;
    std::stringstream ss(H.param("comps", ""));
    std::string tok;
    while (std::getline(ss, tok, ','))
      if (!tok.empty())
        only.insert(tok);
    for (auto& name : only) {
      bool found = false;
      for (auto& cp : COMPS)
        found |= name == cp.name;
      if (!found) {
        fprintf(stderr, "unknown component %s\n", name.c_str());
        return 2;
      }
    }
    // weighted round-robin: every window of sched.size() cases visits every component
    unsigned maxw = 0;
    for (auto& cp : COMPS)
      maxw = std::max(maxw, cp.weight);
    for (unsigned r = 0; r < maxw; ++r)
      for (auto& cp : COMPS)
        if (r < cp.weight && (only.empty() || only.count(cp.name)))
          sched.push_back(&cp);
  }

  for (long k = H.firstCase(); k < H.endCase(); ++k) {
    const Comp& cp = *sched[(size_t)k % sched.size()];
    Case c(H, k, salt ? verif::mix(H.caseSeed(k), salt) : H.caseSeed(k));
    g_reg.reset();
    if (g_errFd >= 0)
      g_caseErrOff = lseek(g_errFd, 0, SEEK_END);
    H.hangKey      = std::string("C14:") + cp.name + ":hang";
    g_curComponent.store(cp.name);
    g_curCase.store(&c);
    noteProgress("case-start");
    cp.fn(c);
    g_curCase.store(nullptr);
    if (c.skipped)
      continue;
    if (!c.begun) {
      fprintf(stderr, "runner %s did not begin its case\n", cp.name);
      return 2;
    }
    // everything the runner created is destroyed by now
    if (!c.bad && g_reg.bad)
      c.fail(g_reg.kind, J().kv("during", g_reg.how).kv("phase", "teardown"), false);
    if (!c.bad && g_reg.liveCount() != 0)
      c.fail("elements-never-destroyed", J().kv("live_instances_after_teardown", (uint64_t)g_reg.liveCount()), false);
    if (c.bad)
      H.violation(c.key, c.detail);
    bool nontrivial = c.ops >= 8 && c.maxSize >= 2 && c.kinds.size() >= 3;
    char hb[32];
    snprintf(hb, sizeof hb, "%016llx", (unsigned long long)c.hh);
    std::string sig = c.component + "|" + c.cfg + "|" + hb;
    J obs;
    obs.kv("ops", c.ops).kv("traversals_compared", c.checks).kv("elements_compared", c.visited)
        .kv("results_compared", c.resultChecks).kv("multi_block_states", c.multiBlock)
        .kv("constructs", g_reg.constructs).kv("destroys", g_reg.destroys).kv("element_moves", g_reg.moves)
        .kv((std::string("cases_") + cp.name).c_str(), 1)
        .kv("cases_ended_by_violation", (int)c.bad);
    for (auto& e : c.extra)
      obs.kv(e.first.c_str(), e.second);
    if (g_skippedCases) {
      obs.kv("cases_skipped_after_crash_cap", g_skippedCases);
      g_skippedCases = 0;
    }
    H.end(k, sig, nontrivial, obs.str());
  }
  if (g_skippedCases)
    H.note("cases_skipped_after_crash_cap", J().kv("n", g_skippedCases).str());
  if (!g_capFile.empty())
    unlink(g_capFile.c_str());
  g_stopWatch.store(true);
  watchdog.join();
  return 0;
}
