// C14 — Galois sequential containers behave like their standard counterparts.
//
// One case = one container type x one configuration (chunk size, element type,
// enabled operation classes) x one random operation sequence (<= 200 ops),
// applied in lock-step to the Galois container and to a std:: model. After
// EVERY step: the operation's result, size/empty, full forward traversal,
// backward traversal (where bidirectional), const traversal, and the
// live-instance registry of the instrumented element type (construct/destroy
// exactly once, no use outside the lifetime, live instances == elements).
// The first failed check ends the case (the container may be corrupt) and is
// reported with key C14:<component>:<check>-after-<operation kind>.
#define VERIF_MAIN_TU
#include "c14_common.h"

#include "galois/Galois.h"

#include <pthread.h>
#include <sstream>
#include <thread>

using namespace c14;

namespace {
struct Comp {
  const char* name;
  void (*fn)(Case&);
  unsigned weight;
};
const Comp COMPS[] = {
    {"gdeque", run_gdeque, 8},
    {"FixedSizeRing", run_FixedSizeRing, 5},
    {"FixedSizeBag", run_FixedSizeBag, 2},
    {"ConcurrentFixedSizeBag", run_ConcurrentFixedSizeBag, 2},
    {"gslist", run_gslist, 4},
    {"ConcurrentGslist", run_ConcurrentGslist, 3},
    {"InsertBag", run_InsertBag, 5},
    {"flat_map", run_flat_map, 5},
    {"PODResizeableArray", run_PODResizeableArray, 4},
    {"LazyArray", run_LazyArray, 2},
    {"LazyObject", run_LazyObject, 1},
    {"optional", run_optional, 2},
    {"LargeArray", run_LargeArray, 1},
    {"CopyableTuple", run_CopyableTuple, 1},
    {"MinHeap", run_MinHeap, 3},
    {"ThreadSafeMinHeap", run_ThreadSafeMinHeap, 2},
    {"ThreadSafeOrderedSet", run_ThreadSafeOrderedSet, 3},
    {"TwoLevelIterator", run_TwoLevelIterator, 4},
    {"TwoLevelIteratorA", run_TwoLevelIteratorA, 4},
};

// An operation that never returns (e.g. a corrupted tree walked forever) would otherwise stall the whole run.
// Verdict by *thread CPU time* (not wall-clock: a descheduled thread accrues none): every operation here works
// on <= a few hundred elements and takes microseconds; one that burns CPU_LIMIT_S seconds of the case thread's
// own CPU time without completing is reported as non-returning, and the process exits with the HANG code so
// that the driver restarts after the case.
constexpr double CPU_LIMIT_S = 3.0;
std::atomic<bool> g_stopWatch{false};
std::atomic<const char*> g_curComponent{""};
std::atomic<Case*> g_curCase{nullptr}; // its history is read only while the case thread is stuck

void cpuWatchdog(verif::Harness* H, pthread_t caseThread) {
  clockid_t cid;
  if (pthread_getcpuclockid(caseThread, &cid) != 0)
    return;
  auto cpuNow = [&]() {
    timespec ts;
    clock_gettime(cid, &ts);
    return ts.tv_sec + ts.tv_nsec * 1e-9;
  };
  uint64_t lastSeq = g_opSeq.load(std::memory_order_relaxed);
  double cpuAtSeq  = cpuNow();
  while (!g_stopWatch.load(std::memory_order_relaxed)) {
    verif::sleep_us(100000);
    uint64_t s = g_opSeq.load(std::memory_order_relaxed);
    double cpu = cpuNow();
    if (s != lastSeq || H->curCase < 0) {
      lastSeq  = s;
      cpuAtSeq = cpu;
      continue;
    }
    if (cpu - cpuAtSeq >= CPU_LIMIT_S) {
      char op[sizeof g_curOp];
      memcpy(op, g_curOp, sizeof op);
      op[sizeof op - 1] = 0;
      Case* cc = g_curCase.load();
      H->violation(std::string("C14:") + g_curComponent.load() + ":does-not-return-after-" + op,
                   J().kv("kind", "operation (or the traversal after it) did not return")
                       .kv("thread_cpu_seconds_without_completing", cpu - cpuAtSeq).kv("operation", op)
                       .kv("config", cc ? cc->cfg : "").kv("history", cc ? cc->history() : "").str());
      H->line(J().kv("ev", "hang_exit").kv("case", H->curCase).str());
      _exit(3);
    }
  }
}
} // namespace

int main(int argc, char** argv) {
  verif::Harness H("C14", argc, argv);
  galois::SharedMemSys G;
  galois::setActiveThreads(1); // the property is about single-threaded use
  std::thread watchdog(cpuWatchdog, &H, pthread_self());

  // --param comps=a,b,c restricts the components of this process
  std::vector<const Comp*> sched;
  {
    std::set<std::string> only;
    std::stringstream ss(H.param("comps", ""));
    std::string tok;
    while (std::getline(ss, tok, ','))
      if (!tok.empty())
        only.insert(tok);
    for (auto& name : only) {
      bool found = false;
      for (auto& cp : COMPS)
        found |= name == cp.name;
      if (!found) {
        fprintf(stderr, "unknown component %s\n", name.c_str());
        return 2;
      }
    }
    // weighted round-robin: every window of sched.size() cases visits every component
    unsigned maxw = 0;
    for (auto& cp : COMPS)
      maxw = std::max(maxw, cp.weight);
    for (unsigned r = 0; r < maxw; ++r)
      for (auto& cp : COMPS)
        if (r < cp.weight && (only.empty() || only.count(cp.name)))
          sched.push_back(&cp);
  }

  for (long k = H.firstCase(); k < H.endCase(); ++k) {
    const Comp& cp = *sched[(size_t)k % sched.size()];
    Case c(H, k, H.caseSeed(k));
    g_reg.reset();
    H.hangKey      = std::string("C14:") + cp.name + ":hang";
    g_curComponent.store(cp.name);
    g_curCase.store(&c);
    noteProgress("case-start");
    cp.fn(c);
    g_curCase.store(nullptr);
    if (!c.begun) {
      fprintf(stderr, "runner %s did not begin its case\n", cp.name);
      return 2;
    }
    // everything the runner created is destroyed by now
    if (!c.bad && g_reg.bad)
      c.fail(g_reg.kind, J().kv("during", g_reg.how).kv("phase", "teardown"), false);
    if (!c.bad && g_reg.liveCount() != 0)
      c.fail("elements-never-destroyed", J().kv("live_instances_after_teardown", (uint64_t)g_reg.liveCount()), false);
    if (c.bad)
      H.violation(c.key, c.detail);
    bool nontrivial = c.ops >= 8 && c.maxSize >= 2 && c.kinds.size() >= 3;
    char hb[32];
    snprintf(hb, sizeof hb, "%016llx", (unsigned long long)c.hh);
    std::string sig = c.component + "|" + c.cfg + "|" + hb;
    J obs;
    obs.kv("ops", c.ops).kv("traversals_compared", c.checks).kv("elements_compared", c.visited)
        .kv("results_compared", c.resultChecks).kv("multi_block_states", c.multiBlock)
        .kv("constructs", g_reg.constructs).kv("destroys", g_reg.destroys).kv("element_moves", g_reg.moves)
        .kv((std::string("cases_") + cp.name).c_str(), 1)
        .kv("cases_ended_by_violation", (int)c.bad);
    for (auto& e : c.extra)
      obs.kv(e.first.c_str(), e.second);
    H.end(k, sig, nontrivial, obs.str());
  }
  g_stopWatch.store(true);
  watchdog.join();
  return 0;
}
