// C18 — field f_add: std::atomic<uint32_t>, GALOIS_SYNC_STRUCTURE_REDUCE_ADD + BITSET (kcore trim style)
#include "c18_field.h"

galois::DynamicBitSet bitset_f_add;
GALOIS_SYNC_STRUCTURE_REDUCE_ADD(f_add, uint32_t);
GALOIS_SYNC_STRUCTURE_BITSET(f_add);

namespace {
using namespace c18;
void store(Graph& g, uint32_t lid, const uint64_t* w) { g.getData(lid).f_add.store((uint32_t)w[0], std::memory_order_relaxed); }
void load(Graph& g, uint32_t lid, uint64_t* w) { w[0] = g.getData(lid).f_add.load(std::memory_order_relaxed); }
bool write(Graph& g, uint32_t lid, const uint64_t* w, bool mark) {
  galois::atomicAdd(g.getData(lid).f_add, (uint32_t)w[0]);
  if (mark)
    bitset_f_add.set(lid);
  return true;
}
void sync(Substrate& s, unsigned W, unsigned R, bool b, bool a, const std::string& l) {
  sync_any<Reduce_add_f_add, Bitset_f_add, false>(s, W, R, b, a, l);
}
void resetMirrors(Substrate& s) { s.reset_mirrorField<Reduce_add_f_add>(); }
} // namespace
const c18::FieldVT c18::vt_f_add = {"f_add", "GALOIS_SYNC_STRUCTURE_REDUCE_ADD(atomic<uint32_t>)", R_ADD, K_U32, 1, true, false,
                                    store, load, write, &bitset_f_add, sync, resetMirrors};
