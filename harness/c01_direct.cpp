// C01 (second harness) — conservation of work at the worklist boundary.
//
// for_each only returns correctly if no worklist ever forgets an item. Here the worklist
// policies that can be used without executor co-operation (no barrier / round protocol) are
// driven directly from on_each, much faster than through a loop body: every thread pushes
// its share of uniquely numbered items, then all threads pop (and, in the mixed phase, push
// children of what they popped) until their view is empty. Rounds of "everybody pops until
// empty" are repeated until one whole round yields nothing; only then the verdict is taken:
//   * an item that was pushed and is still missing after a round in which no thread could
//     pop anything is lost for good (for_each would have returned without running it),
//   * no item is ever popped twice, nothing is popped that was not pushed.
// The oracle demands nothing about order.
#define VERIF_MAIN_TU
#include "verif.h"

#include "galois/Galois.h"
#include "galois/substrate/Barrier.h"
#include "galois/worklists/AdaptiveObim.h"
#include "galois/worklists/Chunk.h"
#include "galois/worklists/LocalQueue.h"
#include "galois/worklists/Obim.h"
#include "galois/worklists/PerThreadChunk.h"
#include "galois/worklists/Simple.h"

#include <atomic>
#include <memory>
#include <thread>
#include <vector>

using namespace verif;
namespace gw = galois::worklists;

namespace {

struct DItem {
  uint32_t id;
  int prio;
};
struct DIndexer {
  int operator()(const DItem& i) const { return i.prio; }
};

struct Plan {
  unsigned threads;
  unsigned initial;   // items pushed in the first phase
  unsigned maxItems;  // bound for initial + children
  unsigned prioRange; // priorities of initial items
  int childMode;      // 0 none, 1 same/later priority, 2 any priority (also earlier than the current one), 3 earlier only
  unsigned childProb; // per-256 chance that a popped item pushes a child (twice)
  unsigned pushRounds; // number of push phases (items split over them)
  uint64_t salt;
};

struct Result {
  uint64_t pushed = 0, popped = 0, rounds = 0, lateRounds = 0, missing = 0, dup = 0, alien = 0, firstMissing = 0;
  bool quiescent = false; // the last drain round popped nothing
  int firstMissingPrio = 0;
  unsigned poppers = 0;
};

template <typename WL>
Result drive(const Plan& P) {
  galois::setActiveThreads(P.threads);
  std::unique_ptr<WL> wlp(new WL());
  WL& wl = *wlp;
  std::vector<std::atomic<uint8_t>> popped(P.maxItems), pushedF(P.maxItems);
  std::vector<int> prio(P.maxItems, 0);
  for (auto& x : popped)
    x.store(0, std::memory_order_relaxed);
  for (auto& x : pushedF)
    x.store(0, std::memory_order_relaxed);
  std::atomic<uint32_t> nextId{P.initial};
  std::atomic<uint64_t> dup{0}, alien{0}, npop{0};
  std::atomic<unsigned> roundPops{0}, poppers{0};
  std::atomic<int> stop{0};
  unsigned roundsDone = 0, lateRounds = 0;
  auto& barrier = galois::runtime::getBarrier(P.threads);
  {
    Rng r(P.salt);
    for (unsigned i = 0; i < P.initial; ++i)
      prio[i] = (int)r.below(P.prioRange);
  }
  auto take = [&](const DItem& it, Rng& r, bool mayPush) {
    if (it.id >= P.maxItems || !pushedF[it.id].load(std::memory_order_relaxed)) {
      alien.fetch_add(1, std::memory_order_relaxed);
      return;
    }
    if (popped[it.id].fetch_add(1, std::memory_order_relaxed) != 0)
      dup.fetch_add(1, std::memory_order_relaxed);
    npop.fetch_add(1, std::memory_order_relaxed);
    progress();
    if (!mayPush || P.childMode == 0)
      return;
    for (int c = 0; c < 2; ++c) {
      if (r.below(256) >= P.childProb)
        continue;
      uint32_t id = nextId.fetch_add(1, std::memory_order_relaxed);
      if (id >= P.maxItems)
        return;
      int p;
      switch (P.childMode) {
      case 1: p = it.prio + (int)r.below(3); break;
      case 2: p = (int)r.below(P.prioRange + 4); break;
      default: p = it.prio - 1 - (int)r.below(5); if (p < 0) p = 0; break;
      }
      prio[id] = p;
      pushedF[id].store(1, std::memory_order_relaxed);
      wl.push(DItem{id, p});
    }
  };
  galois::on_each([&](unsigned tid, unsigned numT) {
    Rng r(mix(P.salt, tid + 1));
    bool iPopped = false;
    for (unsigned pr = 0; pr < P.pushRounds; ++pr) {
      // push phase: this thread's share of this round's slice of the initial items
      uint64_t lo = (uint64_t)P.initial * pr / P.pushRounds, hi = (uint64_t)P.initial * (pr + 1) / P.pushRounds;
      uint64_t b = lo + (hi - lo) * tid / numT, e = lo + (hi - lo) * (tid + 1) / numT;
      for (uint64_t i = b; i < e; ++i) {
        pushedF[i].store(1, std::memory_order_relaxed);
        wl.push(DItem{(uint32_t)i, prio[i]});
      }
      barrier.wait();
      // mixed phase: pop, maybe push children, until this thread's view is empty
      for (;;) {
        auto it = wl.pop();
        if (!it)
          break;
        iPopped = true;
        take(*it, r, true);
      }
      barrier.wait();
    }
    // drain rounds: until a whole round pops nothing (bounded)
    for (unsigned round = 0; round < 12; ++round) {
      unsigned mine = 0;
      for (;;) {
        auto it = wl.pop();
        if (!it)
          break;
        iPopped = true;
        ++mine;
        take(*it, r, false);
      }
      if (mine)
        roundPops.fetch_add(mine, std::memory_order_relaxed);
      barrier.wait();
      if (tid == 0) {
        unsigned n = roundPops.exchange(0, std::memory_order_relaxed);
        ++roundsDone;
        if (n && round > 0)
          ++lateRounds;
        stop.store(n == 0 ? 1 : 0, std::memory_order_relaxed);
      }
      barrier.wait();
      if (stop.load(std::memory_order_relaxed))
        break;
    }
    if (iPopped)
      poppers.fetch_add(1, std::memory_order_relaxed);
  });
  Result R;
  uint32_t total = std::min<uint32_t>(nextId.load(), P.maxItems);
  for (uint32_t i = 0; i < total; ++i) {
    if (!pushedF[i].load())
      continue; // id reserved beyond the bound, never pushed
    ++R.pushed;
    if (!popped[i].load()) {
      if (!R.missing) {
        R.firstMissing     = i;
        R.firstMissingPrio = prio[i];
      }
      ++R.missing;
    }
  }
  R.popped     = npop.load();
  R.dup        = dup.load();
  R.alien      = alien.load();
  R.rounds     = roundsDone;
  R.lateRounds = lateRounds;
  R.poppers    = poppers.load();
  R.quiescent  = stop.load() == 1;
  return R;
}

struct Entry {
  const char* name;
  const char* family;
  bool prio;
  Result (*fn)(const Plan&);
};

typedef gw::OrderedByIntegerMetric<DIndexer, gw::PerSocketChunkFIFO<8>> OB;
typedef gw::AdaptiveOrderedByIntegerMetric<DIndexer, gw::PerSocketChunkFIFO<8>> AO;
template <typename W>
using RT = typename W::template retype<DItem>;

#define E(name, family, prio, ...) {name, family, prio, &drive<RT<__VA_ARGS__>>}
static const Entry ENTRIES[] = {
    E("AdaptiveOBIM_default", "AdaptiveOBIM", true, gw::AdaptiveOrderedByIntegerMetric<DIndexer>),
    E("AdaptiveOBIM_psc8", "AdaptiveOBIM", true, AO),
    E("AdaptiveOBIM_period2", "AdaptiveOBIM", true, AO::with_block_period<2>::type),
    E("AdaptiveOBIM_nobsp", "AdaptiveOBIM", true, AO::with_back_scan_prevention<false>::type),
    E("AdaptiveOBIM_chunklifo", "AdaptiveOBIM", true, AO::with_container<gw::PerSocketChunkLIFO<2>>::type),
    E("OBIM_default", "OBIM", true, gw::OrderedByIntegerMetric<DIndexer>),
    E("OBIM_psc8", "OBIM", true, OB),
    E("OBIM_period1", "OBIM", true, OB::with_block_period<1>::type),
    E("OBIM_nobsp", "OBIM", true, OB::with_back_scan_prevention<false>::type),
    E("OBIM_desc", "OBIM", true, OB::with_descending<true>::type),
    E("OBIM_chunk1_lifo", "OBIM", true, OB::with_container<gw::PerSocketChunkLIFO<1>>::type),
    E("OBIM_ptc", "OBIM", true, OB::with_container<gw::PerThreadChunkFIFO<4>>::type),
    E("ChunkFIFO_2", "Chunk", false, gw::ChunkFIFO<2>),
    E("ChunkLIFO_8", "Chunk", false, gw::ChunkLIFO<8>),
    E("PerSocketChunkFIFO_4", "PerSocketChunk", false, gw::PerSocketChunkFIFO<4>),
    E("PerSocketChunkLIFO_1", "PerSocketChunk", false, gw::PerSocketChunkLIFO<1>),
    E("PerSocketChunkBag_64", "PerSocketChunk", false, gw::PerSocketChunkBag<64>),
    E("PerThreadChunkFIFO_4", "PerThreadChunk", false, gw::PerThreadChunkFIFO<4>),
    E("PerThreadChunkLIFO_1", "PerThreadChunk", false, gw::PerThreadChunkLIFO<1>),
    E("LocalQueue_PSC_GFIFO", "LocalQueue", false, gw::LocalQueue<gw::PerSocketChunkFIFO<8>, gw::GFIFO<>>),
    E("GFIFO", "Simple", false, gw::GFIFO<>),
    E("GLIFO", "Simple", false, gw::GLIFO<>),
};
constexpr unsigned NENT = sizeof(ENTRIES) / sizeof(ENTRIES[0]);

} // namespace

int main(int argc, char** argv) {
  Harness H("C01", argc, argv);
  galois::SharedMemSys G;
  auto& tp           = galois::substrate::getThreadPool();
  unsigned maxT      = std::min(64u, tp.getMaxThreads());
  unsigned nsock     = tp.getMaxSockets();
  std::string only   = H.param("wl");
  long oversub       = H.paramInt("oversub", 0);
  long maxItemsParam = H.paramInt("maxitems", H.thorough ? 6000 : 2500);
  std::vector<const Entry*> pool;
  for (auto& e : ENTRIES)
    if (only.empty() || strstr(e.name, only.c_str()))
      pool.push_back(&e);
  if (pool.empty()) {
    fprintf(stderr, "no worklist matches\n");
    return 2;
  }
  for (long k = H.firstCase(); k < H.endCase(); ++k) {
    Rng rng(H.caseSeed(k));
    // two of three cases go to the priority schedulers (bins, scan starts, master log: the intricate part)
    const Entry* e;
    for (;;) {
      e = pool[rng.below(pool.size())];
      if (e->prio || rng.below(3) == 0 || !only.empty())
        break;
    }
    Plan P;
    switch (rng.below(5)) {
    case 0: P.threads = maxT; break;
    case 1: P.threads = 2; break;
    case 2: P.threads = std::min(maxT, 5u); break;
    default: P.threads = 1 + (unsigned)rng.below(maxT); break;
    }
    P.initial    = (unsigned)rng.pick({1, 7, 100, 100, 600, 600, 2000});
    P.initial    = std::min<unsigned>(P.initial, (unsigned)maxItemsParam);
    P.prioRange  = (unsigned)rng.pick({1, 8, 50, 1000, 1000000, 1000000});
    P.childMode  = e->prio ? (int)rng.below(4) : (int)rng.below(2);
    P.childProb  = (unsigned)rng.pick({32, 100, 128});
    P.maxItems   = P.childMode ? std::min<unsigned>((unsigned)maxItemsParam, P.initial * 3 + 50) : P.initial;
    P.pushRounds = (unsigned)rng.pick({1, 1, 2, 3});
    P.salt       = rng.next();
    std::string comp = std::string(e->family) + ":direct";
    H.hangKey        = "C01:" + comp + ":hang";
    H.begin(k, J().kv("component", comp).kv("worklist", e->name).kv("threads", P.threads).kv("initial", P.initial)
                   .kv("priority_range", P.prioRange).kv("child_mode", P.childMode).kv("push_rounds", P.pushRounds)
                   .kv("sockets", nsock).str());
    unsigned pointProb = (unsigned)rng.pick({0, 0, 256, 4096});
    unsigned spinProb  = oversub ? 65535u : (unsigned)rng.pick({0, 0, 512, 8192});
    perturb_case(rng.next(), pointProb, spinProb, 30);
    Result R = e->fn(P);
    perturb_off();
    std::string cls = std::string(P.prioRange >= 1000 ? ":sparse-priorities" : "") + (nsock > 1 ? ":multi-socket" : "");
    if (R.missing && !R.quiescent)
      H.note("drain-rounds-exhausted", J().kv("worklist", e->name).kv("still_missing", R.missing).str());
    if (R.missing && R.quiescent)
      H.violation("C01:" + comp + ":lost-work" + cls,
                  J().kv("worklist", e->name).kv("pushed", R.pushed).kv("never_popped", R.missing)
                      .kv("first_missing_id", R.firstMissing).kv("its_priority", R.firstMissingPrio)
                      .kv("threads", P.threads).kv("drain_rounds", R.rounds)
                      .kv("why", "after a round in which no thread could pop anything, items that were pushed have never been returned by pop()")
                      .str());
    if (R.dup)
      H.violation("C01:" + comp + ":popped-twice" + cls,
                  J().kv("worklist", e->name).kv("duplicate_pops", R.dup).kv("threads", P.threads).str());
    if (R.alien)
      H.violation("C01:" + comp + ":popped-what-was-never-pushed" + cls,
                  J().kv("worklist", e->name).kv("pops", R.alien).kv("threads", P.threads).str());
    bool nontrivial = R.poppers >= 2 && R.pushed >= 50;
    std::string sig = std::string(e->name) + "|t" + std::to_string(P.threads) + "|s" + std::to_string(nsock) + "|n" +
                      std::to_string(P.initial) + "|r" + std::to_string(P.prioRange) + "|c" + std::to_string(P.childMode) + "|p" +
                      std::to_string(P.pushRounds) + "|w" + std::to_string(R.poppers);
    H.end(k, sig, nontrivial,
          J().kv("items_pushed", R.pushed).kv("items_popped", R.popped).kv("drain_rounds", R.rounds)
              .kv("late_drain_rounds", R.lateRounds).kv("direct_cases", 1).kv("sparse_priority_cases", (int)(P.prioRange >= 1000))
              .kv("multi_socket_cases", (int)(nsock > 1 && R.poppers > 1)).str());
  }
  return 0;
}
