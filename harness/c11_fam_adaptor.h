#pragma once
// C11: LC_Adaptor_Graph — a user-supplied CSR triple presented through the
// LC graph interface (the usage of libgalois/test/lc-adaptor.cpp).
#include "c11_ptr.h"
#include <boost/iterator/counting_iterator.hpp>

namespace c11 {

static const char* ADA = "LC_Adaptor_Graph";

template <class E>
struct Arrays {
  using DataT = std::conditional_t<std::is_void_v<E>, char, E>;
  std::vector<uint64_t> outIdx;
  std::vector<uint32_t> outs;
  std::vector<DataT> data;
  std::vector<uint32_t> nodeData;
};

template <class E, bool NL>
class Adapted : public gg::LC_Adaptor_Graph<uint32_t, E, Adapted<E, NL>, uint32_t, boost::counting_iterator<uint32_t>,
                                            const uint32_t*, NL> {
  using Base = gg::LC_Adaptor_Graph<uint32_t, E, Adapted<E, NL>, uint32_t, boost::counting_iterator<uint32_t>,
                                    const uint32_t*, NL>;
  Arrays<E>& a;

public:
  using typename Base::edge_data_reference;
  using typename Base::edge_iterator;
  using typename Base::GraphNode;
  using typename Base::iterator;
  using typename Base::node_data_reference;
  explicit Adapted(Arrays<E>& arr) : a(arr) {}
  size_t get_id(GraphNode n) const { return n; }
  node_data_reference get_data(GraphNode n) { return a.nodeData[n]; }
  edge_data_reference get_edge_data(edge_iterator it) {
    if constexpr (std::is_void_v<E>)
      return {};
    else
      return a.data[(size_t)(it - a.outs.data())];
  }
  GraphNode get_edge_dst(edge_iterator it) { return *it; }
  uint64_t get_size() const { return a.outIdx.size(); }
  uint64_t get_size_edges() const { return a.outs.size(); }
  iterator get_begin() const { return iterator(0); }
  iterator get_end() const { return iterator((uint32_t)a.outIdx.size()); }
  edge_iterator get_edge_begin(GraphNode n) { return a.outs.data() + (n == 0 ? 0 : a.outIdx[n - 1]); }
  edge_iterator get_edge_end(GraphNode n) { return a.outs.data() + a.outIdx[n]; }
};

template <class E, bool NL>
void opAdapt(Ctx& c) {
  Arrays<E> arr;
  uint64_t run = 0;
  for (uint64_t n = 0; n < c.X.numNodes; ++n) {
    for (auto& r : c.X.adj[n]) {
      arr.outs.push_back((uint32_t)r.dst);
      if constexpr (!std::is_void_v<E>)
        arr.data.push_back(fromRef<E>(r));
    }
    run += c.X.adj[n].size();
    arr.outIdx.push_back(run);
    arr.nodeData.push_back((uint32_t)n * 3 + 1);
  }
  using G = Adapted<E, NL>;
  G g(arr);
  ++c.builds;
  if (!verifyPtr<G, true, false>(c, g, c.X, true, "adapt"))
    return;
  for (uint64_t n : sampleNodes(c, c.X.numNodes, 64))
    if (g.getData((uint32_t)n, galois::MethodFlag::UNPROTECTED) != (uint32_t)n * 3 + 1) {
      c.fail("adapt-node-data", J().kv("node", n).str());
      return;
    }
}


} // namespace c11
