// C15 — reductions and concurrent collections give the sequential answer.
//
// One executable, many small cases; case k exercises ONE component (round
// robin over the component table so that every component is covered by every
// run) with one generated update assignment. Oracles are sequential folds /
// std:: models / an independent union-find (ref/c15_ref.h).
#define VERIF_MAIN_TU
#include "c15_common.h"

#include "galois/Galois.h"
#include "galois/substrate/ThreadPool.h"

using namespace verif;

namespace c15 {

unsigned pickThreads(Case& c) {
  unsigned maxT = c.maxT;
  switch (c.rng.below(6)) {
  case 0: return maxT;
  case 1: return 1 + (unsigned)c.rng.below(std::min(maxT, 3u));
  case 2: return maxT > 1 ? maxT - 1 : 1;
  default: return 1 + (unsigned)c.rng.below(maxT);
  }
}

Plan makePlan(Case& c, unsigned forcedThreads, bool allowForEach) {
  Plan p;
  p.threads  = forcedThreads ? forcedThreads : pickThreads(c);
  unsigned m = (unsigned)c.rng.below(20);
  p.mode     = m < 10 ? 0 : m < 13 ? 1 : m < 16 ? 2 : m < 18 ? 3 : 4;
  if (p.mode == 4 && !allowForEach)
    p.mode = 1;
  p.pattern   = (int)c.rng.below(7);
  p.noise     = c.rng.pick({0u, 0u, 8u, 64u});
  p.pointProb = c.rng.pick({0u, 0u, 2048u, 16384u});
  p.nseed     = c.rng.next();
  return p;
}

ExecResult execPlan(Case& c, const Plan& p, size_t n, const std::function<void(uint32_t, unsigned)>& apply) {
  galois::setActiveThreads(p.threads);
  unsigned T = galois::getActiveThreads();
  ExecResult r;
  r.by.assign(n, 0xffff);
  std::vector<uint8_t> cnt(n, 0);
  struct alignas(128) PT {
    uint64_t ops = 0;
    Rng rng{1};
  };
  std::vector<PT> pt(c.maxT);
  for (unsigned t = 0; t < c.maxT; ++t)
    pt[t].rng = Rng(mix(p.nseed, 1000 + t));
  auto one = [&](uint32_t i, unsigned tid) {
    PT& me = pt[tid];
    if (p.noise && (me.rng.next() & 255) < p.noise) {
      if (me.rng.below(4) == 0)
        sched_yield();
      else
        busy_delay_ns(50 + me.rng.below(3000));
    }
    apply(i, tid);
    cnt[i]++;
    r.by[i] = (uint16_t)tid;
    if ((++me.ops & 63) == 0)
      progress();
  };
  perturb_case(p.nseed, p.pointProb, 0, 20);
  switch (p.mode) {
  case 0: {
    Rng ar(mix(p.nseed, 7));
    std::vector<std::vector<uint32_t>> lists(T);
    unsigned t0 = (unsigned)ar.below(T);
    for (uint32_t i = 0; i < n; ++i) {
      unsigned t;
      switch (p.pattern) {
      case 0: t = t0; break;
      case 1: t = i % T; break;
      case 2: t = (unsigned)ar.below(T); break;
      case 3: t = ar.below(10) < 8 ? t0 : (unsigned)ar.below(T); break;
      case 4: t = (unsigned)((uint64_t)i * T / n); break;
      case 5: t = T == 1 ? 0 : (unsigned)(2 * ar.below(T / 2) + 1); break;
      default: t = T - 1; break;
      }
      lists[t].push_back(i);
    }
    galois::on_each(
        [&](unsigned tid, unsigned) {
          for (uint32_t i : lists[tid])
            one(i, tid);
        },
        galois::no_stats());
    break;
  }
  case 1:
    galois::do_all(
        galois::iterate(uint32_t(0), uint32_t(n)),
        [&](uint32_t i) { one(i, galois::substrate::ThreadPool::getTID()); }, galois::steal(),
        galois::chunk_size<1>(), galois::no_stats());
    break;
  case 2:
    galois::do_all(
        galois::iterate(uint32_t(0), uint32_t(n)),
        [&](uint32_t i) { one(i, galois::substrate::ThreadPool::getTID()); }, galois::steal(),
        galois::chunk_size<16>(), galois::no_stats());
    break;
  case 3:
    galois::do_all(
        galois::iterate(uint32_t(0), uint32_t(n)),
        [&](uint32_t i) { one(i, galois::substrate::ThreadPool::getTID()); }, galois::chunk_size<64>(),
        galois::no_stats());
    break;
  default:
    galois::for_each(
        galois::iterate(uint32_t(0), uint32_t(n)),
        [&](uint32_t i, auto&) { one(i, galois::substrate::ThreadPool::getTID()); },
        galois::disable_conflict_detection(), galois::no_pushes(), galois::no_stats(),
        galois::wl<galois::worklists::PerSocketChunkFIFO<8>>());
    break;
  }
  perturb_off();
  for (unsigned t = 0; t < c.maxT; ++t)
    if (pt[t].ops)
      r.workers++;
  for (size_t i = 0; i < n; ++i)
    if (cnt[i] != 1)
      r.exactlyOnce = false;
  if (!r.exactlyOnce)
    c.skippedNotOnce = true;
  c.workersMax = std::max(c.workersMax, r.workers);
  c.add("parallel_phases", 1);
  c.add("ops", n);
  return r;
}

} // namespace c15

using namespace c15;

struct Entry {
  const char* label;
  void (*fn)(Case&, int);
  int which;
};

int main(int argc, char** argv) {
  Harness H("C15", argc, argv);
  galois::SharedMemSys G;
  auto& tp       = galois::substrate::getThreadPool();
  unsigned maxT  = tp.getMaxThreads();
  unsigned nsock = tp.getMaxSockets();

  static const char* RED[N_REDUCIBLE] = {"GAccumulator.int", "GAccumulator.fp", "GReduceMax.int", "GReduceMax.fp",
                                         "GReduceMin.int", "GReduceMin.fp", "GReduceLogicalAnd", "GReduceLogicalOr",
                                         "make_reducible.value", "make_reducible.moveonly", "make_reducible.map",
                                         "GAccumulator.unsigned"};
  static const char* BAG[N_BAG]       = {"InsertBag.fill", "InsertBag.pop", "InsertBag.shrink-clear",
                                   "InsertBag.shrink-destroy"};
  static const char* PTC[N_PERTHREAD] = {"PerThreadVector", "PerThreadDeque", "PerThreadGdeque", "PerThreadList",
                                         "PerThreadSet", "PerThreadMap", "PerThreadMinHeap",
                                         "PerThreadContainer.shrink-clear"};
  static const char* BITS[N_BITS]     = {"DynamicBitSet.reset_range_exhaustive", "DynamicBitSet.reset_range_large",
                                     "DynamicBitSet.reset_range_concurrent", "DynamicBitSet.concurrent",
                                     "DynamicBitSet.bitwise"};
  static const char* ATOM[N_ATOMICS]  = {"atomicMinMax", "atomicAddSubtract", "AtomicHelpers.serial"};
  static const char* SETS[N_SETS]     = {"ThreadSafeOrderedSet", "ThreadSafeMinHeap", "UnionFind",
                                         "ThreadSafeMinHeap.drained-remove"};
  std::vector<Entry> table;
  for (int i = 0; i < N_REDUCIBLE; ++i) table.push_back({RED[i], run_reducible, i});
  for (int i = 0; i < N_BAG; ++i) table.push_back({BAG[i], run_bag, i});
  for (int i = 0; i < N_PERTHREAD; ++i) table.push_back({PTC[i], run_perthread, i});
  for (int i = 0; i < N_BITS; ++i) table.push_back({BITS[i], run_bits, i});
  for (int i = 0; i < N_ATOMICS; ++i) table.push_back({ATOM[i], run_atomics, i});
  for (int i = 0; i < N_SETS; ++i) table.push_back({SETS[i], run_sets, i});
  // extra weight for the schedule-dependent components
  table.push_back({"UnionFind", run_sets, 2});
  table.push_back({"DynamicBitSet.concurrent", run_bits, 3});
  table.push_back({"InsertBag.fill", run_bag, 0});
  table.push_back({"atomicMinMax", run_atomics, 0});
  table.push_back({"atomicAddSubtract", run_atomics, 1});

  std::string only = H.param("only");
  if (!only.empty()) {
    std::vector<Entry> f;
    for (auto& e : table)
      if (std::string(e.label).find(only) != std::string::npos)
        f.push_back(e);
    if (f.empty()) {
      fprintf(stderr, "no component matches only=%s\n", only.c_str());
      return 2;
    }
    // drop duplicates introduced by the weighting
    std::vector<Entry> u;
    for (auto& e : f) {
      bool dup = false;
      for (auto& x : u)
        dup |= x.fn == e.fn && x.which == e.which;
      if (!dup)
        u.push_back(e);
    }
    table = u;
  }

  for (long k = H.firstCase(); k < H.endCase(); ++k) {
    Case c(H, k, maxT, nsock);
    const Entry& e = table[(size_t)k % table.size()];
    e.fn(c, e.which);
    if (!c.begun) {
      fprintf(stderr, "component %s did not begin a case\n", e.label);
      return 2;
    }
    bool nontrivial = c.seqExhaustive ? c.seqChecks >= 2 : c.workersMax >= 2;
    J o;
    for (auto& kv : c.obs)
      o.kv(kv.first.c_str(), kv.second);
    o.kv("oracle_checks_seq", c.seqChecks);
    o.kv("parallel_cases", (int)(c.workersMax >= 2));
    o.kv("multi_socket_cases", (int)(nsock > 1 && c.workersMax >= 2));
    o.kv("not_exactly_once_skips", (int)c.skippedNotOnce);
    o.kv(("n_" + std::string(e.label)).c_str(), 1);
    H.end(k, c.sig + "|s" + std::to_string(nsock), nontrivial, o.str());
    galois::setActiveThreads(maxT);
  }
  return 0;
}
