#pragma once
// C11: LC_CSR_Hypergraph — the CSR clone used for hypergraphs. readGraph() does
// not compile for it (ReadGraph.h passes a 4th constructFrom argument), so it
// is built the way its public API allows: allocateFrom(FileGraph) + per-thread
// constructFrom(FileGraph, tid, total), from arrays, or edge by edge.
#include "c11_csr.h"

namespace c11 {

// constructFrom(numNodes, numEdges, prefix_sum, edges_id): structure only (no data argument)
template <class G>
void opHyperVectors(Ctx& c) {
  uint64_t N = c.X.numNodes, m = c.X.numEdges();
  std::vector<uint64_t> prefix(N);
  std::vector<std::vector<uint32_t>> ids(N);
  uint64_t run = 0;
  for (uint64_t n = 0; n < N; ++n) {
    run += c.X.adj[n].size();
    prefix[n] = run;
    for (auto& r : c.X.adj[n])
      ids[n].push_back((uint32_t)r.dst);
  }
  G g;
  g.constructFrom((uint32_t)N, m, prefix, ids);
  ++c.builds;
  c.parallelBuilds += c.threads > 1;
  verifyCsr<G, HyperFam>(c, g, c.X, true, "build");
}

enum HyperOps : unsigned { H_READ = 1, H_TRANSPOSE = 2, H_SORTDST = 4, H_FINDSORTED = 8, H_SORTDATA = 16, H_SORTCUSTOM = 32, H_FIND = 64, H_MANUAL = 128, H_VECTORS = 256, H_ALL = 511 };

template <class G>
void regHyper(const std::string& cfg, unsigned ops) {
  using E = typename G::edge_data_type;
  using F = HyperFam;
  auto& R = registry();
  if (ops & H_READ)
    R.push_back(mkEntry<E>(F::name, cfg, "read", &opRead<G, F>, 0, 2));
  if (ops & H_TRANSPOSE)
    R.push_back(mkEntry<E>(F::name, cfg, "transpose", &opTranspose<G, F>, 0, 2));
  if (ops & H_SORTDST)
    R.push_back(mkEntry<E>(F::name, cfg, "sortEdgesByDst", &opSortDst<G, F, false>));
  if (ops & H_FINDSORTED)
    R.push_back(mkEntry<E>(F::name, cfg, "findEdgeSortedByDst", &opSortDst<G, F, true>));
  if (ops & H_SORTCUSTOM)
    R.push_back(mkEntry<E>(F::name, cfg, "sortEdges", &opSortCustom<G, F>));
  if (ops & H_FIND)
    R.push_back(mkEntry<E>(F::name, cfg, "findEdge", &opFind<G, F>));
  if (ops & H_MANUAL)
    R.push_back(mkEntry<E>(F::name, cfg, "constructEdge", &opManual<G, F>));
  if constexpr (std::is_void_v<E>) {
    if (ops & H_VECTORS)
      R.push_back(mkEntry<E>(F::name, cfg, "constructFrom-vectors", &opHyperVectors<G>));
  } else {
    if (ops & H_SORTDATA)
      R.push_back(mkEntry<E>(F::name, cfg, "sortEdgesByEdgeData", &opSortData<G, F>));
  }
}

template <class E, bool NL = false, bool NU = false, bool OOL = false>
using Hyper = gg::LC_CSR_Hypergraph<uint32_t, E, NL, NU, OOL>;

template <class E>
void regHyperFull() {
  regHyper<Hyper<E>>("lock", H_ALL);
  regHyper<Hyper<E, true>>("nolock", H_READ | H_TRANSPOSE | H_SORTDST);
  regHyper<Hyper<E, false, true>>("lock+numa", H_READ | H_TRANSPOSE | H_SORTDST | H_VECTORS);
  regHyper<Hyper<E, false, false, true>>("ool", H_READ | H_TRANSPOSE | H_SORTDST);
  regHyper<Hyper<E, true, true>>("nolock+numa", H_READ | H_TRANSPOSE | H_SORTDST);
  regHyper<Hyper<E, false, true, true>>("ool+numa", H_READ | H_TRANSPOSE | H_SORTDST);
}


} // namespace c11
