// C09: heap components - FixedSizeHeap, FixedSizeAllocator<T>, Pow_2_BlockAllocator,
// VariableSizeHeap (both allocate overloads), BumpHeap<Source>, BumpWithMallocHeap
// (the per-iteration allocator base), PageHeap, pagePoolAlloc/Free/PreAlloc.
#include "c09_engine.h"

using namespace c09;
namespace gr = galois::runtime;

namespace {

template <unsigned N>
struct Blob {
  unsigned char d[N];
};

// A user-supplied source heap (Mem.h's heaps are mix-in layers over a
// "SourceHeap"; MallocHeap is the documented third-party example). It records
// the chunks it handed out, so the harness can tell exactly which memory the
// layer above owns.
template <unsigned N>
struct TrackSrc {
  enum { AllocSize = N };
  std::map<uintptr_t, size_t> chunks;
  uint64_t nalloc = 0, nfree = 0;
  void* allocate(size_t) {
    void* p = malloc(N);
    if (!p)
      abort();
    chunks[(uintptr_t)p] = N;
    ++nalloc;
    return p;
  }
  void deallocate(void* p) {
    chunks.erase((uintptr_t)p);
    ++nfree;
    free(p);
  }
  // 0: inside one chunk; 1: starts in a chunk but runs over its end; 2: starts in no chunk
  int classify(const void* p, size_t len) const {
    uintptr_t lo = (uintptr_t)p;
    auto it      = chunks.upper_bound(lo);
    if (it == chunks.begin())
      return 2;
    --it;
    if (lo >= it->first + it->second)
      return 2;
    return lo + len <= it->first + it->second ? 0 : 1;
  }
  ~TrackSrc() {
    for (auto& kv : chunks)
      free((void*)kv.first);
  }
};
template <typename S>
struct IsTrack : std::false_type {};
template <unsigned N>
struct IsTrack<TrackSrc<N>> : std::true_type {};

// ------------------------------------------------------------------ FixedSizeHeap
const size_t FS_MENU[]   = {1,   7,    8,    9,     16,    24,     40,      64,     100,
                          128, 520,  4096, 4104,  65536, 65544,  262144,  1048576, PAGE2M - 8};
const unsigned FS_MENU_N = sizeof(FS_MENU) / sizeof(FS_MENU[0]);

size_t bumpCost(size_t size) {
  // what a BumpHeap<SystemHeap> really spends on a block of this size
  size_t a = (size + 7) & ~(size_t)7;
  if (a > (PAGE2M - 8) / 2)
    return PAGE2M;
  return a;
}

struct FixedHeapA : Adapter {
  std::vector<size_t> sizes;
  std::vector<gr::FixedSizeHeap> heaps;
  FixedHeapA() {
    comp           = "FixedSizeHeap";
    threadSafe     = true;
    liveBytesCap   = 16u << 20;
  }
  void setup(CaseCtx& c, Rng& rng, bool storm, unsigned nthreads) override {
    c.extent    = EXT_WITHIN_SLICE;
    unsigned ns = 1 + (unsigned)rng.below(3);
    for (unsigned i = 0; i < ns; ++i) {
      size_t s = FS_MENU[rng.below(storm ? 13 : FS_MENU_N)];
      if (std::find(sizes.begin(), sizes.end(), s) == sizes.end())
        sizes.push_back(s);
    }
    // the handle may be created on any thread (thread-local lookup cache in SizedHeapFactory)
    heaps.reserve(sizes.size());
    for (size_t s : sizes) {
      int t = rng.below(2) ? -1 : (int)rng.below(nthreads);
      galois::setActiveThreads(nthreads);
      runOn(t, [&] { heaps.emplace_back(s); });
    }
  }
  Req next(Rng& rng, bool) override {
    Req r;
    r.aux  = (uint32_t)rng.below(sizes.size());
    r.size = sizes[r.aux];
    return r;
  }
  size_t cost(const Req& r) override { return bumpCost(r.size); }
  void alloc(CaseCtx& c, const Req& r, int tid, std::vector<Blk>& out) override {
    void* p = heaps[r.aux].allocate(r.size);
    out.push_back(onAlloc(c, p, r.size, align, r.aux, tid, "FixedSizeHeap::allocate"));
  }
  void dealloc(CaseCtx& c, Blk& b, int) override {
    beforeFree(c, b);
    heaps[b.aux].deallocate(b.p);
  }
  int listClass(const Blk& b) override { return sizes[b.aux] >= 1024 ? (int)b.aux : -1; }
  Req reqForClass(int cl) override {
    Req r;
    r.aux  = (uint32_t)cl;
    r.size = sizes[cl];
    return r;
  }
  void describe(J& j) override { j.raw("sizes", jarr(sizes)); }
  std::string sigPart() override {
    std::string s = "sz";
    for (size_t x : sizes)
      s += "_" + std::to_string(x);
    return s;
  }
};

// ------------------------------------------------------------------ FixedSizeAllocator<T>
struct TypedFS {
  size_t size;
  void* (*alloc)();
  void (*dealloc)(void*);
};
template <unsigned N>
TypedFS mkTyped() {
  return TypedFS{sizeof(Blob<N>),
                 []() -> void* {
                   galois::FixedSizeAllocator<Blob<N>> a; // stateless handle, as std containers make them
                   Blob<N>* p = a.allocate(1);
                   if (p)
                     a.construct(p);
                   return p;
                 },
                 [](void* p) {
                   // a rebound copy must reach the same heap
                   typename galois::FixedSizeAllocator<int>::template rebind<Blob<N>>::other a{
                       galois::FixedSizeAllocator<int>()};
                   a.destroy((Blob<N>*)p);
                   a.deallocate((Blob<N>*)p, 1);
                 }};
}
const TypedFS TYPED[] = {mkTyped<1>(),  mkTyped<8>(),   mkTyped<12>(),   mkTyped<24>(),   mkTyped<40>(),
                         mkTyped<100>(), mkTyped<520>(), mkTyped<4104>(), mkTyped<65544>()};
const unsigned TYPED_N = sizeof(TYPED) / sizeof(TYPED[0]);

struct FixedAllocA : Adapter {
  std::vector<unsigned> types;
  FixedAllocA() {
    comp       = "FixedSizeAllocator";
    threadSafe = true;
  }
  void setup(CaseCtx& c, Rng& rng, bool, unsigned) override {
    c.extent    = EXT_WITHIN_SLICE;
    unsigned ns = 1 + (unsigned)rng.below(3);
    for (unsigned i = 0; i < ns; ++i) {
      unsigned t = (unsigned)rng.below(TYPED_N);
      if (std::find(types.begin(), types.end(), t) == types.end())
        types.push_back(t);
    }
  }
  Req next(Rng& rng, bool) override {
    Req r;
    r.aux  = types[rng.below(types.size())];
    r.size = TYPED[r.aux].size;
    return r;
  }
  size_t cost(const Req& r) override { return bumpCost(r.size); }
  void alloc(CaseCtx& c, const Req& r, int tid, std::vector<Blk>& out) override {
    void* p = TYPED[r.aux].alloc();
    out.push_back(onAlloc(c, p, r.size, align, r.aux, tid, "FixedSizeAllocator<T>::allocate(1)"));
  }
  void dealloc(CaseCtx& c, Blk& b, int) override {
    beforeFree(c, b);
    TYPED[b.aux].dealloc(b.p);
  }
  int listClass(const Blk& b) override { return TYPED[b.aux].size >= 1024 ? (int)b.aux : -1; }
  Req reqForClass(int cl) override {
    Req r;
    r.aux  = (uint32_t)cl;
    r.size = TYPED[cl].size;
    return r;
  }
  void describe(J& j) override {
    std::vector<size_t> s;
    for (unsigned t : types)
      s.push_back(TYPED[t].size);
    j.raw("sizeofT", jarr(s));
  }
  std::string sigPart() override {
    std::string s = "T";
    for (unsigned t : types)
      s += "_" + std::to_string(TYPED[t].size);
    return s;
  }
};

// ------------------------------------------------------------------ Pow_2_BlockAllocator
struct Pow2A : Adapter {
  uint64_t mallocBackups = 0;
  std::set<unsigned> classesSeen;
  std::mutex m;
  Pow2A() {
    comp         = "Pow_2_BlockAllocator";
    threadSafe   = true;
    liveBytesCap = 12u << 20;
  }
  void setup(CaseCtx& c, Rng&, bool, unsigned) override { c.extent = EXT_WITHIN_SLICE; } // malloc backups: unknown origin
  static unsigned cls(size_t bytes) {
    unsigned i = 3;
    while (((size_t)1 << i) < bytes)
      ++i;
    return i;
  }
  Req next(Rng& rng, bool storm) override {
    Req r;
    r.aux  = (uint32_t)rng.below(3); // element type: char, uint64_t, Blob<24>
    size_t bytes;
    if (rng.below(12) == 0 && !storm)
      bytes = (size_t)rng.pick({65537, 65544, 100000, 1 << 20});
    else
      bytes = boundarySize(rng, storm ? 8192 : 65536 + 9, 16);
    size_t es = r.aux == 0 ? 1 : r.aux == 1 ? 8 : 24;
    size_t n  = (bytes + es - 1) / es;
    if (!n)
      n = 1;
    r.size = n * es;
    return r;
  }
  size_t cost(const Req& r) override { return r.size > 65536 ? r.size : bumpCost((size_t)1 << cls(r.size)); }
  void alloc(CaseCtx& c, const Req& r, int tid, std::vector<Blk>& out) override {
    void* p;
    switch (r.aux) {
    case 0: {
      galois::Pow_2_VarSizeAlloc<char> a;
      p = a.allocate(r.size);
    } break;
    case 1: {
      galois::Pow_2_VarSizeAlloc<uint64_t> a;
      p = a.allocate(r.size / 8);
    } break;
    default: {
      // a rebound copy shares the heap
      galois::Pow_2_VarSizeAlloc<char> a0;
      galois::Pow_2_VarSizeAlloc<Blob<24>> a(a0);
      p = a.allocate(r.size / 24);
    }
    }
    {
      std::lock_guard<std::mutex> lg(m);
      if (r.size > 65536)
        ++mallocBackups;
      else
        classesSeen.insert(cls(r.size));
    }
    out.push_back(onAlloc(c, p, r.size, align, r.aux, tid, "Pow_2_BlockAllocator<T>::allocate", 0, r.size > 65536));
  }
  void dealloc(CaseCtx& c, Blk& b, int) override {
    beforeFree(c, b);
    switch (b.aux) {
    case 0: {
      galois::Pow_2_VarSizeAlloc<char> a;
      a.deallocate((char*)b.p, b.len);
    } break;
    case 1: {
      galois::Pow_2_VarSizeAlloc<uint64_t> a;
      a.deallocate((uint64_t*)b.p, b.len / 8);
    } break;
    default: {
      galois::Pow_2_VarSizeAlloc<Blob<24>> a;
      a.deallocate((Blob<24>*)b.p, b.len / 24);
    }
    }
  }
  int listClass(const Blk& b) override { return (b.len > 65536 || b.len < 1024) ? -1 : (int)cls(b.len); }
  Req reqForClass(int cl) override {
    Req r;
    r.aux  = 0;
    r.size = (size_t)1 << cl;
    return r;
  }
  void addObs(J& j) override { j.kv("pow2_malloc_backups", mallocBackups).kv("pow2_classes_seen", (uint64_t)classesSeen.size()); }
  std::string sigPart() override { return "cls" + std::to_string(classesSeen.size()) + (mallocBackups ? "+m" : ""); }
};

// ------------------------------------------------------------------ bump heaps
// Shared by VariableSizeHeap (= ThreadPrivateHeap<BumpHeap<SystemHeap>>) and
// plain BumpHeap<Source> instances. aux: 0 = allocate(size), 1 = one call of
// allocate(size, allocated), 2 = the documented loop "call repeatedly until
// the request is covered".
template <typename Heap, size_t SrcAlloc>
struct BumpLikeA : Adapter {
  std::vector<std::unique_ptr<Heap>> inst; // serial / thread-safe: one; storm on a non-thread-safe heap: one per thread
  bool shared;
  unsigned apiMix = 2; // 0: allocate(size) only, 1: allocate(size,allocated) only, 2: both
  uint64_t twoArgCalls = 0, partial = 0, splitReqs = 0;
  std::mutex m;
  BumpLikeA(const char* name, bool threadSafeHeap) {
    comp          = name;
    threadSafe    = true; // storms use one instance per thread unless the heap itself is thread safe
    shared        = threadSafeHeap;
    canClear      = true;
    accumulates   = true;
    deallocReuses = false;
    liveCap       = 400;
    liveBytesCap  = 48u << 20;
    accumCap      = SrcAlloc >= PAGE2M ? (40u << 20) : (4u << 20);
  }
  void setup(CaseCtx& c, Rng& rng, bool storm, unsigned nthreads) override {
    c.extent   = Heap::extent;
    apiMix     = (unsigned)rng.pick({0, 1, 2, 2});
    unsigned n = (storm && !shared) ? nthreads : 1;
    for (unsigned i = 0; i < n; ++i)
      inst.emplace_back(new Heap());
  }
  Heap& heapFor(int tid) { return *inst[inst.size() == 1 ? 0 : (tid < 0 ? 0 : tid)]; }
  Req next(Rng& rng, bool storm) override {
    Req r;
    unsigned v = (unsigned)rng.below(10);
    r.aux      = v < 5 ? 0 : v < 8 ? 1 : 2;
    if (apiMix == 0)
      r.aux = 0;
    else if (apiMix == 1 && r.aux == 0)
      r.aux = 1 + (v & 1);
    size_t A = SrcAlloc;
    if (r.aux == 0) {
      // allocate(size) aborts by design when size cannot fit a chunk: stay <= A-8
      if (rng.below(6) == 0)
        r.size = A - 8 - 8 * rng.below(4) - (rng.below(2) ? 0 : rng.below(8));
      else if (rng.below(4) == 0)
        r.size = 1 + rng.below(A - 8);
      else
        r.size = boundarySize(rng, std::min<size_t>(A - 8, storm ? 70000 : A - 8), 21);
      r.size = std::max<size_t>(1, std::min(r.size, A - 8));
    } else {
      switch (rng.below(6)) {
      case 0: r.size = A - 16 + rng.below(32); break;          // around one chunk
      case 1: r.size = A + rng.below(2 * A); break;            // more than a chunk
      case 2: r.size = 1 + rng.below(A); break;
      default: r.size = boundarySize(rng, storm ? 70000 : 3 * A, 22); break;
      }
      if (storm)
        r.size = std::min<size_t>(r.size, 300000);
    }
    return r;
  }
  size_t cost(const Req& r) override { return r.size + 8; }
  void one(CaseCtx& c, Heap& h, size_t size, bool twoArg, uint32_t aux, int tid, std::vector<Blk>& out, size_t* gotOut) {
    void* p;
    size_t got = size;
    if (twoArg) {
      got = (size_t)-1;
      p   = h.allocate(size, got);
      std::lock_guard<std::mutex> lg(m);
      ++twoArgCalls;
      if (got < size)
        ++partial;
    } else {
      p = h.allocate(size);
    }
    if (gotOut)
      *gotOut = got;
    const char* how = twoArg ? "allocate(size,allocated)" : "allocate(size)";
    if (got > size) {
      c.report(c.key("allocated-exceeds-request", 1),
               J().kv("requested", size).kv("allocated", got).kv("ptr", hexp(p)).str());
      if (gotOut)
        *gotOut = 0;
      return;
    }
    int where = (p && got) ? Heap::classify(h, p, got) : 0;
    if (where) {
      c.poisoned.store(true, std::memory_order_relaxed);
      c.report(c.key(where == 1 ? "block-overruns-chunk" : "block-outside-allocator-memory", twoArg ? 1 : 0),
               J().kv("ptr", hexp(p)).kv("len", got).kv("requested", size).kv("how", how)
                   .kv("what", where == 1 ? "block starts in a chunk of the source heap and runs over its end"
                                          : "block starts in no chunk the source heap handed out")
                   .kv("source_chunk_size", (uint64_t)SrcAlloc).str());
      c.allocs.fetch_add(1, std::memory_order_relaxed);
      Blk b;
      b.p   = p;
      b.len = got; // tainted: reported, never touched
      out.push_back(b);
      return;
    }
    out.push_back(onAlloc(c, p, got, align, aux, tid, how, twoArg ? 1 : 0));
  }
  void alloc(CaseCtx& c, const Req& r, int tid, std::vector<Blk>& out) override {
    Heap& h = heapFor(tid);
    if (r.aux == 0) {
      one(c, h, r.size, false, 0, tid, out, nullptr);
    } else if (r.aux == 1) {
      one(c, h, r.size, true, 1, tid, out, nullptr);
    } else {
      {
        std::lock_guard<std::mutex> lg(m);
        ++splitReqs;
      }
      size_t left = r.size;
      for (unsigned iter = 0; left && iter < 64; ++iter) {
        size_t got = 0;
        one(c, h, left, true, 2, tid, out, &got);
        if (!got || got > left || c.poisoned.load(std::memory_order_relaxed))
          break; // reported (or nothing usable): do not spin
        left -= got;
      }
    }
  }
  void dealloc(CaseCtx& c, Blk& b, int tid) override {
    beforeFree(c, b, false);
    heapFor(tid).deallocate(b.p); // a no-op by design; the memory comes back with clear()
  }
  void clear(CaseCtx&, int) override {
    for (auto& h : inst)
      h->clear();
  }
  void teardown(CaseCtx&) override { inst.clear(); }
  void describe(J& j) override {
    j.kv("source_chunk", (uint64_t)SrcAlloc).kv("instances", (uint64_t)inst.size())
        .kv("api", apiMix == 0 ? "allocate(size)" : apiMix == 1 ? "allocate(size,allocated)" : "both");
  }
  void addObs(J& j) override {
    j.kv("alloc2_calls", twoArgCalls).kv("alloc2_partial", partial).kv("alloc2_split_requests", splitReqs);
  }
  std::string sigPart() override {
    return "src" + std::to_string(SrcAlloc) + "|api" + std::to_string(apiMix) + "|2arg" + bucket(twoArgCalls) + "|part" + bucket(partial);
  }
};

// heap wrappers giving the adapter access to the source layer
struct VarHeap : gr::VariableSizeHeap {
  static int classify(VarHeap&, const void*, size_t) { return 0; } // page extent is checked through the mmap record
  static constexpr Extent extent = EXT_WITHIN_SLICE;
};
template <typename Src>
struct PlainBump : gr::BumpHeap<Src> {
  static int classify(PlainBump& h, const void* p, size_t len) {
    if constexpr (IsTrack<Src>::value)
      return static_cast<Src&>(h).classify(p, len);
    else
      return 0;
  }
  static constexpr Extent extent = IsTrack<Src>::value ? EXT_NONE : EXT_WITHIN_SLICE;
};

// ------------------------------------------------------------------ BumpWithMallocHeap (per-iteration allocator base)
template <typename Src, size_t SrcAlloc>
struct IterBaseA : Adapter {
  using Heap  = gr::BumpWithMallocHeap<gr::FreeListHeap<Src>>;
  using Alloc = gr::ExternalHeapAllocator<char, Heap>;
  std::vector<std::unique_ptr<Heap>> inst;
  uint64_t fallbacks = 0;
  std::mutex m;
  IterBaseA() {
    comp          = "BumpWithMallocHeap";
    threadSafe    = true; // one instance per thread in storms (as in the executors)
    canClear      = true;
    accumulates   = true;
    deallocReuses = false;
    liveBytesCap  = 48u << 20;
    accumCap      = SrcAlloc >= PAGE2M ? (40u << 20) : (6u << 20);
  }
  void setup(CaseCtx& c, Rng&, bool storm, unsigned nthreads) override {
    c.extent   = IsTrack<Src>::value ? EXT_NONE : EXT_WITHIN_SLICE; // malloc fallbacks are of unknown origin: not demanded
    unsigned n = storm ? nthreads : 1;
    for (unsigned i = 0; i < n; ++i)
      inst.emplace_back(new Heap());
  }
  Heap& heapFor(int tid) { return *inst[inst.size() == 1 ? 0 : (tid < 0 ? 0 : tid)]; }
  Req next(Rng& rng, bool storm) override {
    Req r;
    r.aux    = (uint32_t)rng.below(3); // char, uint64_t, Blob<24> through rebind
    size_t A = SrcAlloc;
    size_t bytes;
    switch (rng.below(8)) {
    case 0: bytes = A - 24 + rng.below(40); break; // around the malloc-fallback threshold (8 + aligned > A)
    case 1: bytes = storm ? 1 + rng.below(70000) : A + rng.below(A); break;
    default: bytes = boundarySize(rng, storm ? std::min<size_t>(70000, 2 * A) : 2 * A + 100, 22); break;
    }
    size_t es = r.aux == 0 ? 1 : r.aux == 1 ? 8 : 24;
    size_t n  = std::max<size_t>(1, (bytes + es - 1) / es);
    r.size    = n * es;
    return r;
  }
  size_t cost(const Req& r) override { return r.size + 8; }
  void alloc(CaseCtx& c, const Req& r, int tid, std::vector<Blk>& out) override {
    Heap& h = heapFor(tid);
    Alloc a(&h);
    void* p;
    switch (r.aux) {
    case 0: p = a.allocate(r.size); break;
    case 1: {
      typename Alloc::template rebind<uint64_t>::other b(a);
      p = b.allocate(r.size / 8);
    } break;
    default: {
      typename Alloc::template rebind<Blob<24>>::other b(a);
      p = b.allocate(r.size / 24);
    }
    }
    bool fb = 8 + ((r.size + 7) & ~(size_t)7) > SrcAlloc;
    if (fb) {
      std::lock_guard<std::mutex> lg(m);
      ++fallbacks;
    }
    if constexpr (IsTrack<Src>::value) {
      int where = (p && !fb) ? static_cast<Src&>(h).classify(p, r.size) : 0;
      if (where) {
        c.poisoned.store(true, std::memory_order_relaxed);
        c.report(c.key(where == 1 ? "block-overruns-chunk" : "block-outside-allocator-memory"),
                 J().kv("ptr", hexp(p)).kv("len", r.size).kv("source_chunk_size", (uint64_t)SrcAlloc).str());
        c.allocs.fetch_add(1, std::memory_order_relaxed);
        Blk b;
        b.p   = p;
        b.len = r.size;
        out.push_back(b);
        return;
      }
    }
    out.push_back(onAlloc(c, p, r.size, align, r.aux, tid,
                          fb ? "ExternalHeapAllocator::allocate (malloc fallback)" : "ExternalHeapAllocator::allocate", 0, fb));
  }
  void dealloc(CaseCtx& c, Blk& b, int tid) override {
    beforeFree(c, b, false);
    Alloc a(&heapFor(tid));
    a.deallocate((char*)b.p, b.len); // no-op by design
  }
  void clear(CaseCtx&, int) override {
    for (auto& h : inst)
      h->clear();
  }
  void teardown(CaseCtx&) override { inst.clear(); }
  void describe(J& j) override { j.kv("source_chunk", (uint64_t)SrcAlloc).kv("instances", (uint64_t)inst.size()); }
  void addObs(J& j) override { j.kv("malloc_fallbacks", fallbacks); }
  std::string sigPart() override { return "src" + std::to_string(SrcAlloc) + "|fb" + bucket(fallbacks); }
};

// ------------------------------------------------------------------ PageHeap / page pool
struct PageHeapA : Adapter {
  uint64_t aligned2m = 0, pages = 0;
  std::mutex m;
  PageHeapA() {
    comp         = "PageHeap";
    pageSized    = true;
    align        = 4096; // OS page; 2 MB address alignment is measured, not demanded (no huge pages here)
    threadSafe   = true;
    liveCap      = 12;
    liveBytesCap = 24u << 20;
  }
  void setup(CaseCtx& c, Rng&, bool, unsigned) override { c.extent = EXT_WHOLE_SLICE; }
  Req next(Rng& rng, bool) override {
    Req r;
    r.size = rng.below(4) ? PAGE2M : boundarySize(rng, PAGE2M, 21);
    return r;
  }
  size_t cost(const Req&) override { return PAGE2M; }
  void alloc(CaseCtx& c, const Req& r, int tid, std::vector<Blk>& out) override {
    void* p = gr::PageHeap::getInstance()->allocate(r.size);
    {
      std::lock_guard<std::mutex> lg(m);
      ++pages;
      if (((uintptr_t)p % PAGE2M) == 0)
        ++aligned2m;
    }
    out.push_back(onAlloc(c, p, r.size, align, 0, tid, "PageHeap::allocate"));
  }
  void dealloc(CaseCtx& c, Blk& b, int) override {
    beforeFree(c, b);
    gr::PageHeap::getInstance()->deallocate(b.p);
  }
  int listClass(const Blk&) override { return 0; }
  Req reqForClass(int) override {
    Req r;
    r.size = PAGE2M;
    return r;
  }
  void addObs(J& j) override { j.kv("pages_handed_out", pages).kv("pages_2mb_address_aligned", aligned2m); }
  std::string sigPart() override { return "page"; }
};

struct PagePoolA : Adapter {
  uint64_t aligned2m = 0, pages = 0, prealloc = 0, countMismatch = 0;
  std::mutex m;
  PagePoolA() {
    comp         = "pagePool";
    pageSized    = true;
    align        = 4096;
    threadSafe   = true;
    hasExtra     = true;
    liveCap      = 12;
    liveBytesCap = 24u << 20;
  }
  void setup(CaseCtx& c, Rng&, bool, unsigned) override { c.extent = EXT_WHOLE_SLICE; }
  Req next(Rng&, bool) override {
    Req r;
    r.size = PAGE2M; // the full extent of a page-pool page
    return r;
  }
  size_t cost(const Req&) override { return PAGE2M; }
  void alloc(CaseCtx& c, const Req& r, int tid, std::vector<Blk>& out) override {
    void* p = gr::pagePoolAlloc();
    {
      std::lock_guard<std::mutex> lg(m);
      ++pages;
      if (((uintptr_t)p % PAGE2M) == 0)
        ++aligned2m;
    }
    out.push_back(onAlloc(c, p, gr::pagePoolSize(), align, 0, tid, "pagePoolAlloc"));
  }
  void dealloc(CaseCtx& c, Blk& b, int) override {
    beforeFree(c, b);
    gr::pagePoolFree(b.p);
  }
  bool extra(CaseCtx&, Rng& rng, int tid) override {
    // pre-allocation feeds the calling thread's list; at most a few pages per case
    if (prealloc >= 3)
      return false;
    unsigned n = 1 + (unsigned)rng.below(2);
    int before = gr::numPagePoolAllocTotal();
    if (tid < 0 && rng.below(2))
      galois::preAlloc((int)n); // public wrapper: spreads over the active threads
    else
      gr::pagePoolPreAlloc(n);
    int after = gr::numPagePoolAllocTotal();
    prealloc += (uint64_t)(after - before);
    if (after - before < (int)n)
      ++countMismatch; // recorded only
    return true;
  }
  void addObs(J& j) override {
    j.kv("pages_handed_out", pages).kv("pages_2mb_address_aligned", aligned2m).kv("pages_preallocated", prealloc);
  }
  std::string sigPart() override { return std::string("pool|pre") + bucket(prealloc); }
};

// ------------------------------------------------------------------ user-composed fixed-size heaps (mix-in layers)
// BlockHeap / FreeListHeap / SelfLockFreeListHeap / LockedHeap / ThreadPrivateHeap composed the way Mem.h's own
// typedefs do. One element size per instance (FreeListHeap hands any freed block back regardless of size).
template <typename Heap, unsigned Elem>
struct ComposedA : Adapter {
  std::unique_ptr<Heap> heap;
  const char* what;
  explicit ComposedA(const char* w) : what(w) {
    comp         = "BlockHeap";
    threadSafe   = true;
    canClear     = true; // only at quiescent points
    liveBytesCap = 8u << 20;
    liveCap      = 3000;
  }
  void setup(CaseCtx& c, Rng&, bool, unsigned) override {
    c.extent = EXT_WITHIN_SLICE;
    heap.reset(new Heap());
  }
  Req next(Rng&, bool) override {
    Req r;
    r.size = Elem;
    return r;
  }
  void alloc(CaseCtx& c, const Req& r, int tid, std::vector<Blk>& out) override {
    void* p = heap->allocate(Elem);
    out.push_back(onAlloc(c, p, Elem, align, 0, tid, what));
  }
  void dealloc(CaseCtx& c, Blk& b, int) override {
    beforeFree(c, b);
    heap->deallocate(b.p);
  }
  void clear(CaseCtx&, int) override { heap->clear(); }
  void teardown(CaseCtx&) override { heap.reset(); }
  void describe(J& j) override { j.kv("composition", what).kv("elem", Elem); }
  std::string sigPart() override { return std::string(what) + "_" + std::to_string(Elem); }
};
// clear() of the layers above ThreadPrivateHeap / SelfLockFreeListHeap only empties the free lists into the
// BlockHeap (whose deallocate is a no-op); BlockHeap::clear() then returns the pages.
template <unsigned E>
struct TPBlock : gr::ThreadPrivateHeap<gr::FreeListHeap<gr::BlockHeap<E, gr::SystemHeap>>> {};
template <unsigned E>
struct SLBlock : gr::SelfLockFreeListHeap<gr::LockedHeap<gr::BlockHeap<E, gr::SystemHeap>>> {
  void clear() {
    gr::SelfLockFreeListHeap<gr::LockedHeap<gr::BlockHeap<E, gr::SystemHeap>>>::clear();
    gr::BlockHeap<E, gr::SystemHeap>::clear();
  }
};
struct LockedBump : gr::LockedHeap<gr::FreeListHeap<gr::BumpHeap<gr::SystemHeap>>> {
  void clear() {
    gr::FreeListHeap<gr::BumpHeap<gr::SystemHeap>>::clear();
    gr::BumpHeap<gr::SystemHeap>::clear();
  }
};
template <typename Heap, unsigned E>
CaseResult composedWith(Harness& H, long k, Rng& rng, bool storm, const char* what) {
  ComposedA<Heap, E> a(what);
  return storm ? runStorm(H, k, rng, a) : runSerial(H, k, rng, a);
}
CaseResult composedCase(Harness& H, long k, Rng& rng, bool storm) {
  switch (rng.below(6)) {
  case 0: return composedWith<TPBlock<24>, 24>(H, k, rng, storm, "ThreadPrivateHeap<FreeListHeap<BlockHeap>>");
  case 1: return composedWith<TPBlock<520>, 520>(H, k, rng, storm, "ThreadPrivateHeap<FreeListHeap<BlockHeap>>");
  case 2: return composedWith<TPBlock<7>, 7>(H, k, rng, storm, "ThreadPrivateHeap<FreeListHeap<BlockHeap>>");
  case 3: return composedWith<SLBlock<40>, 40>(H, k, rng, storm, "SelfLockFreeListHeap<LockedHeap<BlockHeap>>");
  case 4: return composedWith<SLBlock<4104>, 4104>(H, k, rng, storm, "SelfLockFreeListHeap<LockedHeap<BlockHeap>>");
  default: return composedWith<LockedBump, 72>(H, k, rng, storm, "LockedHeap<FreeListHeap<BumpHeap>>");
  }
}

// ------------------------------------------------------------------ dispatch
template <typename A>
CaseResult runWith(Harness& H, long k, Rng& rng, bool storm) {
  A a;
  return storm ? runStorm(H, k, rng, a) : runSerial(H, k, rng, a);
}

struct VarHeapA : BumpLikeA<VarHeap, PAGE2M> {
  VarHeapA() : BumpLikeA("VariableSizeHeap", true) {}
};
template <typename Src, size_t N>
struct BumpA : BumpLikeA<PlainBump<Src>, N> {
  BumpA() : BumpLikeA<PlainBump<Src>, N>("BumpHeap", false) {}
};

CaseResult bumpCase(Harness& H, long k, Rng& rng, bool storm) {
  switch (rng.below(4)) {
  case 0: return runWith<BumpA<gr::SystemHeap, PAGE2M>>(H, k, rng, storm);
  case 1: return runWith<BumpA<TrackSrc<4096>, 4096>>(H, k, rng, storm);
  case 2: return runWith<BumpA<TrackSrc<65536>, 65536>>(H, k, rng, storm);
  default: return runWith<BumpA<TrackSrc<512>, 512>>(H, k, rng, storm);
  }
}
CaseResult iterBaseCase(Harness& H, long k, Rng& rng, bool storm) {
  switch (rng.below(3)) {
  case 0: return runWith<IterBaseA<gr::SystemHeap, PAGE2M>>(H, k, rng, storm); // == galois::IterAllocBaseTy
  case 1: return runWith<IterBaseA<TrackSrc<4096>, 4096>>(H, k, rng, storm);
  default: return runWith<IterBaseA<TrackSrc<65536>, 65536>>(H, k, rng, storm);
  }
}

static_assert(std::is_same<IterBaseA<gr::SystemHeap, PAGE2M>::Heap, galois::IterAllocBaseTy>::value,
              "the SystemHeap variant is the real per-iteration allocator base");
static_assert(std::is_same<IterBaseA<gr::SystemHeap, PAGE2M>::Alloc, galois::PerIterAllocTy>::value, "");

Register r1("FixedSizeHeap", runWith<FixedHeapA>, 10, 10);
Register r2("FixedSizeAllocator", runWith<FixedAllocA>, 6, 5);
Register r3("Pow_2_BlockAllocator", runWith<Pow2A>, 8, 8);
Register r4("VariableSizeHeap", runWith<VarHeapA>, 8, 5);
Register r5("BumpHeap", bumpCase, 10, 4);
Register r6("BumpWithMallocHeap", iterBaseCase, 8, 4);
Register r7("PageHeap", runWith<PageHeapA>, 5, 4);
Register r8("pagePool", runWith<PagePoolA>, 5, 4);
Register r9("BlockHeap", composedCase, 5, 5);

} // namespace
