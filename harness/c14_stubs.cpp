#include "c14_common.h"
namespace c14 {
#define STUB(n) void run_##n(Case& c) { c.begin(#n, "stub", J()); }
STUB(gslist) STUB(ConcurrentGslist) STUB(InsertBag) STUB(flat_map) STUB(PODResizeableArray) STUB(LazyArray)
STUB(LazyObject) STUB(optional) STUB(LargeArray) STUB(CopyableTuple) STUB(MinHeap) STUB(ThreadSafeMinHeap)
STUB(ThreadSafeOrderedSet) STUB(TwoLevelIterator) STUB(TwoLevelIteratorA)
}
