// C17 part A — serialisation round trips.
//
// One case = one type combination (a record of 1..6 top-level fields) x one
// generated value x a sweep of the receive-buffer start over byte offsets
// 0..15 (plus the plain SerializeBuffer -> DeSerializeBuffer hand-over).
// The record is written once with the real gSerialize overloads; for every
// offset the bytes are placed into a DeSerializeBuffer built exactly like the
// network layer builds them (RecvBuffer(vector&&, start): the message is the
// tail of a bigger aggregated buffer, so the payload starts at an arbitrary
// byte address) and read back with gDeserialize into a fresh or a re-used
// target.
//
// Oracle (demands what the property states, no more):
//   * every field read back equals the value written            -> value-mismatch
//   * every field consumes exactly the bytes it produced        -> consumed-mismatch
//   * nothing of the trailing bytes is touched (r_size at end)  -> consumed-mismatch
//   * ASan / UBSan (alignment, bounds, null) abort on anything the real code
//     does wrong underneath                                      -> crash key by the driver
// gSized() only feeds SerializeBuffer::reserve(); the statement does not
// mention it, and Serialize.h uses sizeof(uintptr_t) estimates for elements
// that are not memory-copyable. It is compared with the bytes produced and
// reported in the evidence (gsized_equal / gsized_differs), never judged.
#define VERIF_MAIN_TU
#include "c17_ser.h"

using namespace c17;

namespace {

// x, <fields serialised into an inner SerializeBuffer, appended as a buffer>, y
struct NestedSerField : Field {
  std::vector<std::unique_ptr<Field>> subs;
  uint32_t x = 0, x2 = 0;
  uint8_t y = 0, y2 = 0;
  void gen(Ctx& c) override {
    x = (uint32_t)c.rng.next();
    y = (uint8_t)c.rng.next();
    for (auto& s : subs)
      s->gen(c);
  }
  void inner(gr::SerializeBuffer& in) {
    for (auto& s : subs)
      s->ser(in);
  }
  void ser(gr::SerializeBuffer& b) override {
    gr::SerializeBuffer in;
    inner(in);
    gr::gSerialize(b, x, in, y);
  }
  size_t sized() override {
    gr::SerializeBuffer in;
    inner(in);
    return gr::gSized(x, in, y);
  }
  void freshTarget(Ctx* dirty) override {
    x2 = 0xdeadbeef;
    y2 = 0xa5;
    for (auto& s : subs)
      s->freshTarget(dirty);
  }
  void deser(gr::DeSerializeBuffer& b) override {
    gr::gDeserialize(b, x2);
    for (auto& s : subs)
      s->deser(b);
    gr::gDeserialize(b, y2);
  }
  bool equal() override {
    if (x != x2 || y != y2)
      return false;
    for (auto& s : subs)
      if (!s->equal())
        return false;
    return true;
  }
  std::string name() override {
    std::string n = "u32+SerializeBuffer{";
    for (size_t i = 0; i < subs.size(); ++i)
      n += (i ? "," : "") + subs[i]->name();
    return n + "}+u8";
  }
  std::string showValue() override {
    std::string s = std::to_string(x) + ",{";
    for (size_t i = 0; i < subs.size(); ++i)
      s += (i ? "," : "") + subs[i]->showValue();
    return trunc(s + "}," + std::to_string(y), 300);
  }
  std::string showGot() override {
    std::string s = std::to_string(x2) + ",{";
    for (size_t i = 0; i < subs.size(); ++i)
      s += (i ? "," : "") + subs[i]->showGot();
    return trunc(s + "}," + std::to_string(y2), 300);
  }
  const char* how() override { return "gSerialize(x, SerializeBuffer, y)"; }
};

// x, <the unread rest of a DeSerializeBuffer>, y
struct NestedDeserField : Field {
  std::vector<std::unique_ptr<Field>> subs;
  uint64_t x = 0, x2 = 0;
  uint16_t y = 0, y2 = 0;
  std::string skipped;
  unsigned variant = 0; // 0: DeSerializeBuffer(SerializeBuffer&&) partly read; 1: (vector&&, start); 2: default-constructed (no storage)
  unsigned startPad = 0;
  void gen(Ctx& c) override {
    x = c.rng.next();
    y = (uint16_t)c.rng.next();
    Ctx sc = c;
    Tr<std::string>::make(sc, skipped);
    startPad = (unsigned)c.rng.below(9);
    if (variant != 2)
      variant = (unsigned)c.rng.below(2);
    for (auto& s : subs)
      s->gen(c);
  }
  void build(gr::DeSerializeBuffer& rb) {
    if (variant == 2)
      return; // empty, never had storage
    gr::SerializeBuffer in;
    if (variant == 1)
      for (unsigned i = 0; i < startPad; ++i)
        in.push((char)(0x70 + i));
    gr::gSerialize(in, skipped);
    for (auto& s : subs)
      s->ser(in);
    if (variant == 1)
      rb = gr::DeSerializeBuffer(std::move(in.getVec()), startPad);
    else
      rb = gr::DeSerializeBuffer(std::move(in));
    std::string sk;
    gr::gDeserialize(rb, sk); // part of the buffer has been read already
  }
  void ser(gr::SerializeBuffer& b) override {
    gr::DeSerializeBuffer rb;
    build(rb);
    gr::gSerialize(b, x, rb, y);
  }
  size_t sized() override {
    gr::DeSerializeBuffer rb;
    build(rb);
    if (variant == 2)
      return sizeof x + sizeof y;
    return gr::gSized(x, rb, y);
  }
  void freshTarget(Ctx* dirty) override {
    x2 = 1;
    y2 = 2;
    for (auto& s : subs)
      s->freshTarget(dirty);
  }
  void deser(gr::DeSerializeBuffer& b) override {
    gr::gDeserialize(b, x2);
    for (auto& s : subs)
      s->deser(b);
    gr::gDeserialize(b, y2);
  }
  bool equal() override {
    if (x != x2 || y != y2)
      return false;
    for (auto& s : subs)
      if (!s->equal())
        return false;
    return true;
  }
  std::string name() override {
    std::string n = variant == 2 ? "u64+DeSerializeBuffer(default-constructed){" : "u64+DeSerializeBuffer(partly read){";
    for (size_t i = 0; i < subs.size(); ++i)
      n += (i ? "," : "") + subs[i]->name();
    return n + "}+u16";
  }
  std::string showValue() override {
    std::string s = std::to_string(x) + ",{";
    for (size_t i = 0; i < subs.size(); ++i)
      s += (i ? "," : "") + subs[i]->showValue();
    return trunc(s + "}," + std::to_string(y), 300);
  }
  std::string showGot() override {
    std::string s = std::to_string(x2) + ",{";
    for (size_t i = 0; i < subs.size(); ++i)
      s += (i ? "," : "") + subs[i]->showGot();
    return trunc(s + "}," + std::to_string(y2), 300);
  }
  const char* how() override { return "gSerialize(x, DeSerializeBuffer, y)"; }
};

const char* FAMILIES[] = {
    "scalar", "pair", "string", "vector<trivially copyable>", "vector<non-trivially copyable>", "std::deque", "gdeque",
    "PODResizeableArray", "DynamicBitSet", "CopyableTuple/CopyableAtomic", "serialize trait", "std::tuple(read)", "LazySeq",
    "nested SerializeBuffer", "nested DeSerializeBuffer", "concatenation",
    // inputs that get a component of their own (each isolates one class of values)
    "string(embedded NUL)", "string(reused target)", "PODResizeableArray(empty)", "DynamicBitSet(empty)",
    "DeSerializeBuffer(default-constructed, nested)"};
constexpr unsigned NFAM = sizeof(FAMILIES) / sizeof(FAMILIES[0]);
constexpr unsigned NREGULAR = 16;

} // namespace

int main(int argc, char** argv) {
  Harness H("C17", argc, argv);
  galois::SharedMemSys G;
  galois::setActiveThreads(1);
  Registry R;
  registerTypes1(R);
  registerTypes2(R);
  registerTypes3(R);
  std::vector<std::string> regular; // families whose types may appear inside records / nested buffers
  for (auto& kv : R.fam)
    regular.push_back(kv.first);
  const long onlyFam       = H.paramInt("family", -1);
  const long specialPeriod = std::max(2L, H.paramInt("special_period", 32));
  size_t ntypes      = 0;
  for (auto& kv : R.fam)
    ntypes += kv.second.size();

  H.note("registry", J().kv("concrete_types", ntypes).kv("families", R.fam.size()).str());

  for (long k = H.firstCase(); k < H.endCase(); ++k) {
    Rng rng(H.caseSeed(k));
    // the regular families in turn; every specialPeriod-th case is one of the special-input components (three of
    // them end in a sanitizer abort on the unchanged tree, i.e. a process restart: keep them few)
    unsigned fam;
    if (onlyFam >= 0)
      fam = (unsigned)onlyFam % NFAM;
    else if (k % specialPeriod == specialPeriod - 1)
      fam = NREGULAR + (unsigned)((k / specialPeriod) % (NFAM - NREGULAR));
    else
      fam = (unsigned)((k - k / specialPeriod) % NREGULAR);
    const std::string family = FAMILIES[fam];
    unsigned budget = (unsigned)rng.pick({6, 40, 40, 300, 300, H.thorough ? 6000 : 2000});
    size_t pool = 0;
    Ctx ctx{rng, budget};
    ctx.pool = &pool;
    auto pickFrom = [&](const std::string& f) { return rng.pick(R.fam.at(f))(); };
    auto pickAny  = [&]() { return pickFrom(rng.pick(regular)); };
    std::vector<std::unique_ptr<Field>> fields;
    bool nulFamily = false;
    if (fam < 13)
      fields.push_back(pickFrom(family));
    else if (family == "nested SerializeBuffer" || family == "nested DeSerializeBuffer" ||
             family == "DeSerializeBuffer(default-constructed, nested)") {
      unsigned nsub = (unsigned)rng.below(4);
      if (family == "nested SerializeBuffer") {
        auto f = std::make_unique<NestedSerField>();
        for (unsigned i = 0; i < nsub; ++i)
          f->subs.push_back(pickAny());
        fields.push_back(std::move(f));
      } else {
        auto f = std::make_unique<NestedDeserField>();
        if (fam >= NREGULAR)
          f->variant = 2;
        else
          for (unsigned i = 0; i < nsub; ++i)
            f->subs.push_back(pickAny());
        fields.push_back(std::move(f));
      }
      if (rng.chance(1, 2))
        fields.push_back(pickAny());
    } else if (family == "concatenation") {
      unsigned n = 2 + (unsigned)rng.below(5);
      for (unsigned i = 0; i < n; ++i)
        fields.push_back(pickAny());
    } else if (family == "string(embedded NUL)") {
      nulFamily = true;
      // top-level strings only: the reader stops at the first NUL, so a string nested in a container would
      // make the library itself parse the rest of the bytes as something else (arbitrary follow-up crashes
      // instead of one clean verdict); here the harness stops at the first field that fails
      if (rng.chance(1, 2))
        fields.push_back(pickFrom("string"));
      else {
        fields.push_back(pickAny());
        fields.push_back(pickFrom("string"));
        fields.push_back(pickAny());
      }
    } else if (family == "string(reused target)") {
      ctx.dirtyStrings = true;
      switch (rng.below(3)) {
      case 0: fields.push_back(pickFrom("string")); break;
      case 1: fields.push_back(std::unique_ptr<Field>(new FieldT<std::tuple<std::string, std::vector<int32_t>, char>>())); break;
      default: fields.push_back(std::unique_ptr<Field>(new FieldT<Ser>())); break;
      }
    } else if (family == "PODResizeableArray(empty)" || family == "DynamicBitSet(empty)") {
      ctx.allowEmptyPod = true;
      bool record       = rng.chance(1, 2);
      if (record)
        fields.push_back(pickFrom("scalar"));
      fields.push_back(pickFrom(family == "PODResizeableArray(empty)" ? "PODResizeableArray" : "DynamicBitSet"));
      if (record)
        fields.push_back(pickFrom("vector<trivially copyable>"));
    }

    std::string typeNames;
    for (size_t i = 0; i < fields.size(); ++i)
      typeNames += (i ? " + " : "") + fields[i]->name();
    for (size_t i = 0; i < fields.size(); ++i) {
      ctx.nulStrings = nulFamily && (fields.size() == 1 || i == 1); // only the designated top-level string
      pool           = (size_t)budget * 12; // elements (of all nesting levels together) per top-level field
      fields[i]->gen(ctx);
    }
    ctx.nulStrings = false;
    std::string values;
    for (size_t i = 0; i < fields.size(); ++i)
      values += (i ? " ; " : "") + fields[i]->showValue();
    values = trunc(values, 500);
    H.begin(k, J().kv("component", family).kv("types", trunc(typeNames, 400)).kv("how", fields[0]->how()).kv("budget", budget)
                   .kv("value", values).str());

    // ---- write once
    gr::SerializeBuffer sb;
    std::vector<size_t> endAt;
    uint64_t gsEq = 0, gsDiff = 0, gsNa = 0;
    for (auto& f : fields) {
      size_t before = sb.size();
      size_t gs     = f->sized();
      f->ser(sb);
      endAt.push_back(sb.size());
      size_t produced = sb.size() - before;
      if (gs == ~size_t(0))
        ++gsNa;
      else if (gs == produced)
        ++gsEq;
      else
        ++gsDiff;
    }
    const size_t L = sb.size();
    std::vector<uint8_t> bytes(sb.linearData(), sb.linearData() + L);

    // ---- read back at every start offset
    bool reported = false;
    uint64_t roundtrips = 0, dirtyTargets = 0;
    unsigned alignMask = 0;
    const unsigned tailLen = (unsigned)rng.below(4);
    uint64_t dirtySeed     = rng.next();
    for (unsigned off = 0; off <= 16 && !reported; ++off) {
      gr::DeSerializeBuffer d;
      unsigned start = 0, tail = 0;
      if (off == 16) {
        // the direct hand-over: DeSerializeBuffer(SerializeBuffer&&)
        gr::SerializeBuffer sb2;
        sb2.insert(bytes.data(), L);
        d = gr::DeSerializeBuffer(std::move(sb2));
      } else {
        start = off;
        tail  = tailLen;
        galois::PODResizeableArray<uint8_t> raw(start + L + tail);
        for (unsigned i = 0; i < start; ++i)
          raw[i] = (uint8_t)(0xE0 + i);
        if (L)
          memcpy(&raw[start], bytes.data(), L);
        for (unsigned i = 0; i < tail; ++i)
          raw[start + L + i] = (uint8_t)(0xC0 + i);
        d = gr::DeSerializeBuffer(std::move(raw), start);
      }
      unsigned align = 0;
      if (L + tail > 0) {
        align = (unsigned)((uintptr_t)d.r_linearData() % 16);
        alignMask |= 1u << align;
      }
      bool dirty = (off % 2) == 1;
      Rng drng(mix(dirtySeed, off));
      size_t dpool = 400;
      Ctx dctx{drng, std::min(budget, 40u)};
      dctx.pool = &dpool;
      dctx.dirtyStrings = ctx.dirtyStrings;
      dctx.allowEmptyPod = ctx.allowEmptyPod;
      dirtyTargets += dirty;
      size_t fieldStart = 0;
      for (size_t i = 0; i < fields.size() && !reported; ++i) {
        Field& f = *fields[i];
        f.freshTarget(dirty ? &dctx : nullptr);
        unsigned o0 = d.getOffset();
        f.deser(d);
        unsigned o1     = d.getOffset();
        size_t produced = endAt[i] - fieldStart;
        ++roundtrips;
        auto witness = [&]() {
          J j;
          j.kv("field", i).kv("type", f.name()).kv("how", f.how()).kv("buffer_start_offset", start)
              .kv("payload_address_mod_16", align).kv("reused_target", dirty)
              .kv("bytes_produced", produced).kv("bytes_consumed", (size_t)(o1 - o0)).kv("written", f.showValue())
              .kv("read_back", f.showGot()).kv("record_bytes", L);
          return j;
        };
        if ((size_t)(o1 - o0) != produced) {
          H.violation("C17:" + family + ":consumed-mismatch", witness().str());
          reported = true;
        } else if (!f.equal()) {
          H.violation("C17:" + family + ":value-mismatch", witness().str());
          reported = true;
        }
        fieldStart = endAt[i];
      }
      if (!reported && d.r_size() != tail) {
        H.violation("C17:" + family + ":consumed-mismatch",
                    J().kv("why", "bytes left in the buffer after the whole record").kv("left", d.r_size()).kv("expected", tail)
                        .kv("types", trunc(typeNames, 300)).str());
        reported = true;
      }
      progress();
    }
    unsigned aligns = (unsigned)__builtin_popcount(alignMask);
    const char* sc  = L == 0 ? "0" : L < 64 ? "<64" : L < 1400 ? "<1400" : L < 65536 ? "<64K" : ">=64K";
    std::string sig = family + "|" + trunc(typeNames, 200) + "|" + sc;
    bool nontrivial = L >= 1 && aligns == 16;
    H.end(k, sig, nontrivial,
          J().kv("roundtrips", roundtrips).kv("fields", fields.size()).kv("record_bytes", L).kv("offset_sweeps", 1)
              .kv("alignments_covered", aligns).kv("reused_target_reads", dirtyTargets).kv("gsized_equal", gsEq)
              .kv("gsized_differs", gsDiff).kv("gsized_not_available", gsNa).str());
  }
  return 0;
}
