// C01 / C02 (and the conservation half of C07/C08): generated operator programs
// run through galois::for_each on every worklist policy, with oracles that are
// independent of the schedule (a-priori work closure, attempt tags, commit-point
// stamps, ticket-order serial replay).
#pragma once

#include "verif.h"

#include "galois/Galois.h"
#include "galois/worklists/WorkList.h"
#include "galois/worklists/ExternalReference.h"
#include "galois/runtime/Context.h"

#include <algorithm>
#include <cstdarg>

namespace c01 {
using namespace verif;

struct Item {
  uint32_t id;
  uint32_t tag;   // tag of the parent's attempt that pushed this item (0 = initial)
  uint64_t check; // integrity word
};

constexpr unsigned MAXNH = 16;
constexpr uint32_t NONE  = ~0u;

struct Prog {
  uint32_t childBegin = 0, childCount = 0;
  uint32_t parent     = NONE;
  uint32_t depth      = 0;
  uint32_t prio       = 0;
  uint32_t owner      = 0;
  uint16_t pushBefore = 0;
  uint32_t allocBytes = 0;
  uint8_t vaborts     = 0;
  uint8_t nn          = 0;
  uint8_t delayKind   = 0; // 0 none, 1 busy (short), 2 sleep, 3 busy (long)
  uint8_t unprotected = 0; // bitmask over nhood entries acquired with UNPROTECTED (never touched)
  uint16_t nhood[MAXNH];
};

struct alignas(64) Obj : public galois::runtime::Lockable {
  std::atomic<uint64_t> stamp{0};
  uint64_t value   = 0;
  uint64_t version = 0;
  std::vector<uint32_t> log;
};

struct Commit {
  uint64_t ticket;
  uint32_t id;
};

struct PerItem {
  std::atomic<uint32_t> starts{0};
  std::atomic<uint32_t> commits{0};
  std::atomic<uint32_t> commitTag{0};
  std::atomic<uint64_t> firstStartTicket{0};
  std::atomic<uint64_t> commitTicket{0};
  std::atomic<uint64_t> pushedMask{~0ull}; // which of the first 64 children the committing attempt pushed
};

// access to the protected owner accessors
struct Probe : public galois::runtime::LockManagerBase {
  static galois::runtime::LockManagerBase* ownerOf(galois::runtime::Lockable* l) {
    return galois::runtime::LockManagerBase::getOwner(l);
  }
  // true iff the lockable was free (and leaves it free)
  bool isFree(galois::runtime::Lockable* l) {
    if (tryAcquire(l) != NEW_OWNER)
      return false;
    release(l);
    return true;
  }
};

struct alignas(128) TL {
  uint16_t owned[MAXNH];
  uint64_t ver[MAXNH];
  unsigned nOwned = 0;
  uint16_t prev[MAXNH];
  unsigned nPrev = 0;
  std::vector<Commit> commits;
  uint64_t aborted_seen = 0; // attempts that did not reach the commit point (inferred at next entry)
  uint32_t inflightId   = NONE;
  uint64_t conflictAborts = 0, voluntaryAborts = 0;
  uint64_t itemsHere = 0;
};

struct Viol {
  std::atomic<int> set{0};
  char key[128];
  char detail[600];
};

struct Case {
  // parameters
  std::string wlName, family;
  bool conflicts = true, pia = false;
  unsigned threads = 1, sockets = 1;
  uint64_t salt = 0;
  // program
  std::vector<Prog> prog;
  std::vector<Item> initial;
  unsigned nObjs = 0;
  // oracle state
  std::unique_ptr<PerItem[]> items;
  std::unique_ptr<Obj[]> objs;
  // C06 worklist push -> pop edge: plain word written by the pusher before ctx.push(child), read by
  // whoever pops the child (registered as TSan payload in the tsan build)
  std::unique_ptr<uint64_t[]> itemPayload;
  TL tls[64];
  std::atomic<int> loopActive{0};
  std::atomic<uint64_t> sinceCommit{0};
  std::atomic<uint32_t> nextTag{0};
  Viol viols[12];
  std::atomic<uint64_t> maxSinceCommit{0};
  bool recordLevels = false; // C08: start/commit tickets per item
  bool anyPrioChildren = false; // barrier worklists: children at any priority, also more urgent than the level being run (C01 only)
  bool deterministic = false; // C07: cautious operator for worklists::Deterministic (cautiousPoint after the acquires)
  bool dynamicPush   = false; // C07: which children are pushed depends on the state read at the commit point

  uint64_t chk(uint32_t id, uint32_t tag) const { return mix(salt ^ id, tag); }
  Item mk(uint32_t id, uint32_t tag) const { return Item{id, tag, chk(id, tag)}; }

  void report(const std::string& key, const char* fmt, ...) {
    for (auto& v : viols) {
      int s = v.set.load(std::memory_order_relaxed);
      if (s == 2 && key == v.key)
        return; // already have one of this kind
      if (s == 0) {
        int exp = 0;
        if (v.set.compare_exchange_strong(exp, 1, std::memory_order_relaxed)) {
          strncpy(v.key, key.c_str(), sizeof v.key - 1);
          v.key[sizeof v.key - 1] = 0;
          va_list ap;
          va_start(ap, fmt);
          vsnprintf(v.detail, sizeof v.detail, fmt, ap);
          va_end(ap);
          v.set.store(2, std::memory_order_relaxed);
          return;
        }
      }
    }
  }

  std::string cd() const { return conflicts ? "cd" : "nocd"; }
  std::string key(const char* prop, const char* kind) const {
    std::string k = std::string(prop) + ":" + family + ":" + kind + ":" + cd();
    if (sockets > 1)
      k += ":multi-socket";
    return k;
  }

  // distinct owned set of an item's program, in order of first occurrence
  unsigned ownedSet(const Prog& p, uint16_t* out) const {
    unsigned n = 0;
    for (unsigned i = 0; i < p.nn; ++i) {
      if (p.unprotected & (1u << (i & 7)) && i < 8)
        continue;
      bool dup = false;
      for (unsigned j = 0; j < n; ++j)
        dup |= out[j] == p.nhood[i];
      if (!dup)
        out[n++] = p.nhood[i];
    }
    return n;
  }

  template <typename Ctx>
  void run(Item& it, Ctx& ctx) {
    unsigned tid = galois::substrate::ThreadPool::getTID();
    TL& tl       = tls[tid];
    if (!loopActive.load(std::memory_order_relaxed))
      report(key("C01", "operator-outside-loop"), "tid %u item %u", tid, it.id);
    if (it.id >= prog.size() || it.check != chk(it.id, it.tag)) {
      report(key("C01", "fabricated-item"), "tid %u got item id=%u tag=%u check=%" PRIx64, tid, it.id,
             it.tag, it.check);
      return;
    }
    const Prog& p = prog[it.id];
    PerItem& pi   = items[it.id];
    if (itemPayload[it.id] != it.tag)
      report(key("C06", "stale-payload-after-pop"), "item %u popped with tag %u but the word written before its push reads %" PRIu64,
             it.id, it.tag, itemPayload[it.id]);
    // (c) the item must carry the tag of the parent's committing attempt
    if (p.parent != NONE) {
      uint32_t ct = items[p.parent].commitTag.load(std::memory_order_relaxed);
      if (ct != it.tag)
        report(key("C01", "aborted-push-became-work"),
               "item %u carries tag %u but its parent %u committed with tag %u (0 = not committed)", it.id,
               it.tag, p.parent, ct);
    } else if (it.tag != 0) {
      report(key("C01", "fabricated-item"), "initial item %u with tag %u", it.id, it.tag);
    }
    // previous attempt on this thread that never reached its commit point was an abort
    if (tl.inflightId != NONE)
      tl.aborted_seen++;
    tl.inflightId    = it.id;
    unsigned attempt = pi.starts.fetch_add(1, std::memory_order_relaxed) + 1;
    if (recordLevels && attempt == 1)
      pi.firstStartTicket.store(ticket(), std::memory_order_relaxed);
    uint64_t sc = sinceCommit.fetch_add(1, std::memory_order_relaxed) + 1;
    if (sc > maxSinceCommit.load(std::memory_order_relaxed))
      maxSinceCommit.store(sc, std::memory_order_relaxed);
    if (sc > 10000000ull) {
      report(key("C01", "livelock"), "%" PRIu64 " consecutive attempts process-wide without a commit", sc);
      flushAndExit();
    }
    uint32_t tag = nextTag.fetch_add(1, std::memory_order_relaxed) + 1;
    galois::runtime::LockManagerBase* myctx = galois::runtime::getThreadContext();
    bool cdActive                            = myctx != nullptr;
    // without an abort-capable executor (no conflict detection, or one thread)
    // pushes may reach the worklist while the operator is still running
    // (fast push-back); the attempt cannot abort, so it is committed on entry
    uint64_t entryTicket = 0;
    if (!cdActive) {
      pi.commitTag.store(tag, std::memory_order_relaxed);
      if (recordLevels) {
        entryTicket = ticket();
        pi.commitTicket.store(entryTicket, std::memory_order_relaxed);
      }
    }
    // C02(c): nothing acquired by the previous attempt on this thread may still be ours
    // (not under the deterministic executor: there the inspect pass's acquisitions legitimately persist
    // into the execute pass of the same item)
    if (cdActive && !deterministic) {
      for (unsigned j = 0; j < tl.nPrev; ++j)
        if (Probe::ownerOf(&objs[tl.prev[j]]) == myctx)
          report(key("C02", "lock-not-released"), "tid %u still owns object %u at the start of item %u", tid,
                 tl.prev[j], it.id);
    }
    tl.nPrev  = 0;
    tl.nOwned = 0;

    // pushes before the acquires (discarded if this attempt aborts)
    for (unsigned i = 0; i < p.pushBefore && i < p.childCount; ++i) {
      itemPayload[p.childBegin + i] = tag;
      ctx.push(mk(p.childBegin + i, tag));
    }

    // per-iteration allocation with canary
    char* pia_mem = nullptr;
    if (pia && p.allocBytes) {
      pia_mem = ctx.getPerIterAlloc().allocate(p.allocBytes);
      memset(pia_mem, (int)(tag & 0xff), p.allocBytes);
    }

    // acquires
    if (conflicts) {
      for (unsigned i = 0; i < p.nn; ++i) {
        uint16_t o = p.nhood[i];
        if (i < 8 && (p.unprotected & (1u << i))) {
          galois::runtime::acquire(&objs[o], galois::MethodFlag::UNPROTECTED);
          continue; // never touched
        }
        galois::runtime::acquire(&objs[o], (i & 1) ? galois::MethodFlag::READ : galois::MethodFlag::WRITE);
        bool dup = false;
        for (unsigned j = 0; j < tl.nOwned; ++j)
          dup |= tl.owned[j] == o;
        if (!dup) {
          tl.owned[tl.nOwned] = o;
          tl.prev[tl.nPrev++] = o;
          tl.ver[tl.nOwned]   = objs[o].version;
          tl.nOwned++;
        }
        if (p.delayKind == 3 && i + 1 < p.nn && !(deterministic && ctx.isFirstPass()))
          busy_delay_ns(2000);
      }
      if (deterministic && ctx.isFirstPass()) {
        // the inspect pass runs once per round for every pending item: keep it cheap
      } else if (p.delayKind == 1)
        busy_delay_ns(500 + (it.id % 7) * 300);
      else if (p.delayKind == 2)
        sleep_us(100 + (it.id % 5) * 100);
      else if (p.delayKind == 3)
        busy_delay_ns(20000);
    }

    // deterministic executor contract: everything is acquired, nothing written yet
    if (deterministic)
      ctx.cautiousPoint();

    // voluntary abort (only meaningful when the executor can abort)
    if (cdActive && attempt <= p.vaborts) {
      tl.voluntaryAborts++;
      ctx.abort();
    }

    // ------------------------------------------------------------ commit point
    uint64_t tk       = 0;
    uint64_t pushMask = ~0ull;
    if (tl.nOwned) {
      uint64_t mystamp = ((uint64_t)(tid + 1) << 32) | tag;
      for (unsigned j = 0; j < tl.nOwned; ++j) {
        Obj& ob = objs[tl.owned[j]];
        if (ob.version != tl.ver[j])
          report(key("C02", "version-changed-while-owned"),
                 "item %u (tid %u): object %u version %" PRIu64 " at acquire, %" PRIu64 " at commit point", it.id,
                 tid, tl.owned[j], tl.ver[j], ob.version);
        uint64_t s = ob.stamp.load(std::memory_order_relaxed);
        if (s)
          report(key("C02", "double-owner"),
                 "item %u (tid %u tag %u) owns object %u which carries the live stamp of tid %u tag %u", it.id, tid,
                 tag, tl.owned[j], (unsigned)(s >> 32) - 1, (unsigned)s);
        ob.stamp.store(mystamp, std::memory_order_relaxed);
      }
      busy_delay_ns(200 + (it.id % 4) * 400);
      for (unsigned j = 0; j < tl.nOwned; ++j) {
        uint64_t s = objs[tl.owned[j]].stamp.load(std::memory_order_relaxed);
        if (s != mystamp)
          report(key("C02", "double-owner"),
                 "item %u (tid %u tag %u): stamp on object %u overwritten by tid %u tag %u while owned", it.id, tid,
                 tag, tl.owned[j], (unsigned)(s >> 32) - 1, (unsigned)s);
      }
      tk           = ticket();
      uint64_t acc = it.id;
      for (unsigned j = 0; j < tl.nOwned; ++j)
        acc = mix(acc, objs[tl.owned[j]].value);
      if (dynamicPush)
        pushMask = mix(acc, 77) | mix(acc, 78); // ~3/4 of the children, decided by the state that was read
      for (unsigned j = 0; j < tl.nOwned; ++j) {
        Obj& ob  = objs[tl.owned[j]];
        ob.value = ob.value * 1000003ull + acc + j;
        ob.version++;
        ob.log.push_back(it.id);
      }
      for (unsigned j = 0; j < tl.nOwned; ++j)
        objs[tl.owned[j]].stamp.store(0, std::memory_order_relaxed);
    } else {
      tk = ticket();
    }
    if (pia_mem) {
      for (unsigned i = 0; i < p.allocBytes; ++i)
        if ((unsigned char)pia_mem[i] != (tag & 0xff)) {
          report(key("C02", "per-iter-alloc-corrupted"), "item %u: byte %u of %u changed before commit", it.id, i,
                 p.allocBytes);
          break;
        }
    }
    tl.commits.push_back(Commit{tk, it.id});
    if (recordLevels && cdActive)
      pi.commitTicket.store(tk, std::memory_order_relaxed);
    pi.pushedMask.store(pushMask, std::memory_order_relaxed);
    pi.commitTag.store(tag, std::memory_order_relaxed);
    pi.commits.fetch_add(1, std::memory_order_relaxed);
    sinceCommit.store(0, std::memory_order_relaxed);
    tl.inflightId = NONE;
    tl.itemsHere++;
    if (!loopActive.load(std::memory_order_relaxed))
      report(key("C01", "operator-outside-loop"), "tid %u item %u at commit point", tid, it.id);

    // pushes after the commit point
    for (unsigned i = p.pushBefore; i < p.childCount; ++i) {
      if (i < 64 && !((pushMask >> i) & 1))
        continue;
      itemPayload[p.childBegin + i] = tag;
      ctx.push(mk(p.childBegin + i, tag));
    }
    progress();
  }

  [[noreturn]] void flushAndExit();
};

struct Op {
  Case* c;
  template <typename Ctx>
  void operator()(Item& it, Ctx& ctx) const {
    c->run(it, ctx);
  }
};

inline Case* g_case = nullptr;

struct PrioIndexer {
  unsigned operator()(const Item& i) const {
    return i.id < g_case->prog.size() ? g_case->prog[i.id].prio : 0;
  }
};
struct OwnerFn {
  unsigned operator()(const Item& i) const {
    return i.id < g_case->prog.size() ? g_case->prog[i.id].owner % g_case->threads : 0;
  }
};
struct PrioLess {
  bool operator()(const Item& a, const Item& b) const { return PrioIndexer()(a) < PrioIndexer()(b); }
};

// ---------------------------------------------------------------- worklist registry
enum WLFlags : unsigned {
  F_PRIO      = 1,  // scheduling uses priorities
  F_MONOTONE  = 2,  // children must have strictly larger priority
  F_OWNER     = 4,  // uses OwnerFn
  F_QUICK     = 8,  // part of the quick subset
  F_NOPUSH_OK = 16, // may be run with galois::no_pushes when the program has no children
  F_BARRIER   = 32, // level-synchronous (C08 oracle applies): OBIM with barrier
  F_BSP       = 64, // BulkSynchronous (C08 round oracle applies)
  F_DESC      = 128,
};
struct WLEntry {
  const char* name;
  const char* family;
  unsigned flags;
  void (*run)(Case&, bool conflicts, bool pia);
};
inline std::vector<WLEntry>& registry() {
  static std::vector<WLEntry> r;
  return r;
}
struct Registrar {
  Registrar(const char* n, const char* f, unsigned fl, void (*run)(Case&, bool, bool)) {
    registry().push_back(WLEntry{n, f, fl, run});
  }
};

template <typename WL, typename... WArgs>
void runLoop(Case& c, bool conflicts, bool pia, WArgs&&... wargs) {
  Op op{&c};
  auto range = galois::iterate(c.initial);
  if (conflicts && pia)
    galois::for_each(range, op, galois::wl<WL>(std::forward<WArgs>(wargs)...), galois::per_iter_alloc(),
                     galois::no_stats());
  else if (conflicts)
    galois::for_each(range, op, galois::wl<WL>(std::forward<WArgs>(wargs)...), galois::no_stats());
  else
    galois::for_each(range, op, galois::wl<WL>(std::forward<WArgs>(wargs)...),
                     galois::disable_conflict_detection(), galois::no_stats());
}

inline Harness* gH = nullptr;

inline void Case::flushAndExit() {
  for (auto& v : viols)
    if (v.set.load() == 2)
      gH->violation(v.key, J().kv("detail", v.detail).str());
  gH->line(J().kv("ev", "fatal_exit").kv("case", gH->curCase).str());
  _exit(4);
}

#define C01_WL(NAME, FAMILY, FLAGS, ...)                                                            \
  static void run_##NAME(c01::Case& c, bool cd, bool pia) { c01::runLoop<__VA_ARGS__>(c, cd, pia); } \
  static c01::Registrar reg_##NAME(#NAME, FAMILY, FLAGS, &run_##NAME);

} // namespace c01
