// C10 flavours: HasNoLockable MorphGraphs, driven with explicit UNPROTECTED flags under harness-side partition locks.
#include "galois/graphs/MorphGraph.h"
#include "c10_graph.h"
using namespace c10;
typedef galois::graphs::MorphGraph<ND, uint64_t, false, false, true, false> GUndirNL;
typedef galois::graphs::MorphGraph<ND, uint64_t, true, true, true, false> GInOutNL;
typedef galois::graphs::MorphGraph<ND, uint64_t, true, false, true, true> GDirSortedNL;
C10_FLAVOUR(undirnl, "undirected-nolock", "undirected", F_UNDIRECTED | F_NOLOCK, GUndirNL)
C10_FLAVOUR(inoutnl, "inout-nolock", "inout", F_INOUT | F_NOLOCK, GInOutNL)
C10_FLAVOUR(dirsnl, "directed-sorted-nolock", "directed", F_DIRECTED | F_SORTED | F_NOLOCK, GDirSortedNL)
