// worklist instantiations, part B: per-socket chunked
#include "c01_common.h"
using namespace c01;
using namespace galois::worklists;

C01_WL(PerSocketChunkFIFO_1, "PerSocketChunk", 0, PerSocketChunkFIFO<1>)
C01_WL(PerSocketChunkFIFO_4, "PerSocketChunk", F_QUICK, PerSocketChunkFIFO<4>)
C01_WL(PerSocketChunkFIFO_64, "PerSocketChunk", 0, PerSocketChunkFIFO<64>)
C01_WL(PerSocketChunkLIFO_1, "PerSocketChunk", 0, PerSocketChunkLIFO<1>)
C01_WL(PerSocketChunkLIFO_4, "PerSocketChunk", F_QUICK, PerSocketChunkLIFO<4>)
C01_WL(PerSocketChunkLIFO_64, "PerSocketChunk", 0, PerSocketChunkLIFO<64>)
C01_WL(PerSocketChunkBag_1, "PerSocketChunk", 0, PerSocketChunkBag<1>)
C01_WL(PerSocketChunkBag_4, "PerSocketChunk", 0, PerSocketChunkBag<4>)
C01_WL(PerSocketChunkBag_64, "PerSocketChunk", F_QUICK, PerSocketChunkBag<64>)
C01_WL(defaultWL, "PerSocketChunk", F_QUICK, galois::defaultWL)
