// C17 part B — tagged messages over the buffered network layer: exactly once,
// intact, in order per (source, destination, tag, sender thread), never in the
// wrong phase; host barriers separate phases.
//
// Runs under mpirun -np N (N = 1..4). The harness uses ONLY
//   net.sendTagged / net.recieveTagged / net.flush / getHostBarrier().wait()
// the way Gluon (GluonSubstrate.h syncNetSend/syncNetRecv, exchangeProxyInfo),
// CuSP (NewGeneric.h edge loading: sends and receive polls from several
// threads inside one parallel region) and libdist/src/Barrier.cpp do: one tag
// per phase (galois::runtime::evilPhase, advanced on every host between
// phases exactly like incrementEvilPhase()), optionally the second tag
// evilPhase+1 through the `type` argument (Gluon's async reduce/broadcast
// pair), receives polled until a quota known a priori is reached.
//
// Everything a host sends in a phase is a pure function of the case seed
// (which streams exist, how many messages each carries, every byte of every
// message), so every receiver knows what it must get without any extra
// communication and re-generates the expected bytes of each message locally.
// A stream is (src, dst, tag index, sender thread); its messages are numbered.
//
// Oracle (receiver side, every message):
//   * bytes identical to the planned message              -> payload-corrupted
//   * each planned message at most once                   -> duplicate-delivery
//   * stream sequence numbers arrive in increasing order  -> out-of-order
//     (order between different sender threads / different tags is NOT demanded)
//   * the tag embedded in the message is the tag polled   -> wrong-tag-delivered
//   * src/dst embedded = reported source / this host      -> wrong-source / wrong-destination
//   * nothing outside the plan                            -> unexpected-message
//   * every planned message arrives                       -> message-lost (see below)
//   * barrier: stamp published in /dev/shm before wait(); after wait() every
//     host's stamp must be there                          -> HostBarrier:early-release
//
// message-lost is a liveness verdict. It is declared only when (a) every host
// that owes this receiver messages has published "all my sendTagged calls of
// this phase returned and I called flush()", (b) the receiver keeps polling,
// (c) no host anywhere received any message for the whole patience window.
// The process set then stops (exit code 3 like the in-process hang monitor).
//
// Judging is local to each receiver; findings of ranks != 0 travel to rank 0
// with plain MPI_Gather(v) at the end of the case (fatal ones through a small
// /dev/shm block, which also carries the barrier stamps and progress counters
// and is independent of the layer under test).
#define VERIF_MAIN_TU
#include "verif.h"

#include "galois/DistGalois.h"
#include "galois/Galois.h"
#include "galois/runtime/Network.h"

#include <mpi.h>

#include <algorithm>
#include <cmath>
#include <limits>

#include <fcntl.h>
#include <sys/mman.h>
#include <sys/stat.h>

using namespace verif;
namespace gr = galois::runtime;

static constexpr unsigned MAXH = 4; // hosts
static constexpr unsigned MAXS = 4; // sender threads
static constexpr unsigned MAXR = 2; // receiver threads
static constexpr uint32_t MAGIC = 0xC17A11CEu;

// ------------------------------------------------------------------ shared block
struct Shm {
  std::atomic<uint64_t> barrierEntered[MAXH];
  std::atomic<uint64_t> sendsDone[MAXH]; // serial of the last phase whose sends were all handed over and flushed
  std::atomic<uint64_t> curPhase[MAXH];  // serial of the phase the host is executing
  std::atomic<uint64_t> received[MAXH];  // messages received so far (global progress)
  std::atomic<uint32_t> abortFlag;
  std::atomic<uint32_t> abortAck;
  std::atomic<uint32_t> fatalSet[MAXH];
  char fatalKey[MAXH][160];
  char fatalDetail[MAXH][3800];
};
static Shm* g_shm    = nullptr;
static unsigned g_me = 0, g_np = 1;
static Harness* g_H  = nullptr;

static void watcherLoop() {
  for (;;) {
    usleep(20000);
    if (!g_shm->abortFlag.load())
      continue;
    if (g_me == 0) {
      usleep(200000); // let every rank that has something fatal write it down
      for (unsigned r = 0; r < g_np; ++r)
        if (g_shm->fatalSet[r].load()) {
          g_H->violation(g_shm->fatalKey[r], g_shm->fatalDetail[r]);
        }
      g_H->line(J().kv("ev", "hang_exit").kv("case", g_H->curCase.load()).str());
      if (g_H->out && g_H->out != stdout)
        fflush(g_H->out);
      g_shm->abortAck.store(1);
      usleep(100000);
      _exit(3);
    } else if (g_shm->abortAck.load()) {
      _exit(3);
    }
  }
}

[[noreturn]] static void fatal(const std::string& key, const std::string& detail) {
  strncpy(g_shm->fatalKey[g_me], key.c_str(), sizeof(g_shm->fatalKey[0]) - 1);
  std::string d = detail;
  if (d.size() >= sizeof(g_shm->fatalDetail[0]))
    d = J().kv("truncated", d.substr(0, 3000)).str();
  strncpy(g_shm->fatalDetail[g_me], d.c_str(), sizeof(g_shm->fatalDetail[0]) - 1);
  g_shm->fatalSet[g_me].store(1);
  g_shm->abortFlag.store(1);
  for (;;)
    usleep(100000); // the watcher thread ends the process
}

// ------------------------------------------------------------------ plan
struct Hdr {
  uint32_t magic;
  uint16_t src, dst;
  uint32_t tag; // effective MPI/queue tag of the phase (evilPhase + tag index)
  uint16_t thread, tagIdx;
  uint32_t seq;
  uint32_t len; // total message length
  uint64_t seed;
};
static_assert(sizeof(Hdr) == 32, "header layout");

enum SizeClass { TINY = 0, THRESH, SMALLMIX, MEDIUM, LARGE, MIXED, NCLASS };
static const char* CLASS_NAMES[] = {"tiny", "threshold", "smallmix", "medium", "large", "mixed"};
static const char* RECV_NAMES[]  = {"bulk-sync", "overlap", "delayed"};

struct Phase {
  uint64_t seed = 0, serial = 0;
  unsigned T = 1, R = 1;
  bool useRlg = false, twoTag = false, barrierAfter = false;
  unsigned recvMode = 0, sizeClass = 0, flushMode = 0, burst = 8;
  unsigned minLen = 1;
  bool identByArrival = true;
  uint32_t count[MAXH][MAXH][2][MAXS] = {};
  unsigned skewUs[MAXH]               = {};
  unsigned recvDelayUs[MAXH]          = {};
  uint32_t tag                        = 0; // evilPhase of the phase
};

static uint64_t streamSeed(const Phase& P, unsigned src, unsigned dst, unsigned g, unsigned t) {
  return mix(P.seed, ((uint64_t)src << 24) | ((uint64_t)dst << 16) | ((uint64_t)g << 8) | t);
}

static uint32_t logUniform(Rng& r, uint32_t lo, uint32_t hi) {
  double a = std::log((double)lo), b = std::log((double)hi + 1.0);
  double x = std::exp(a + (b - a) * r.unit());
  uint32_t v = (uint32_t)x;
  return std::min(std::max(v, lo), hi);
}

static uint32_t msgLen(const Phase& P, uint64_t mseed, unsigned thread) {
  Rng r(mseed ^ 0x51ED270B);
  uint32_t len;
  unsigned cls = P.sizeClass;
  if (cls == MIXED) {
    unsigned k = (unsigned)r.below(100);
    cls        = k < 70 ? SMALLMIX : k < 85 ? THRESH : k < 93 ? TINY : MEDIUM;
  }
  switch (cls) {
  case TINY: len = 1 + (uint32_t)r.below(64); break;
  case THRESH: // the aggregation threshold COMM_MIN = 1400 counts payload bytes without the 4-byte length prefix
    len = r.chance(1, 2) ? 1390 + (uint32_t)r.below(21) : (r.chance(1, 2) ? 690 + (uint32_t)r.below(21) : 1300 + (uint32_t)r.below(200));
    break;
  case SMALLMIX: len = logUniform(r, 1, 8192); break;
  case MEDIUM: len = logUniform(r, 4096, 256 * 1024); break;
  case LARGE: len = thread == 0 ? logUniform(r, 1 << 20, 8 << 20) : logUniform(r, 1024, 64 * 1024); break;
  default: len = 100; break;
  }
  return std::max<uint32_t>(len, P.minLen);
}

static void fillBytes(uint8_t* p, size_t n, uint64_t seed) {
  uint64_t s = seed ? seed : 1;
  size_t i   = 0;
  for (; i + 8 <= n; i += 8) {
    uint64_t v = splitmix64(s);
    memcpy(p + i, &v, 8);
  }
  if (i < n) {
    uint64_t v = splitmix64(s);
    memcpy(p + i, &v, n - i);
  }
}

// the planned bytes of message `seq` of a stream
static void genMessage(const Phase& P, unsigned src, unsigned dst, unsigned g, unsigned t, uint32_t seq,
                       std::vector<uint8_t>& out) {
  uint64_t ms  = mix(streamSeed(P, src, dst, g, t), seq);
  uint32_t len = msgLen(P, ms, t);
  out.resize(len);
  if (len >= sizeof(Hdr)) {
    Hdr h{MAGIC, (uint16_t)src, (uint16_t)dst, P.tag + g, (uint16_t)t, (uint16_t)g, seq, len, ms};
    memcpy(out.data(), &h, sizeof h);
    fillBytes(out.data() + sizeof h, len - sizeof h, ms ^ 0xB0D7);
  } else
    fillBytes(out.data(), len, ms ^ 0xB0D7);
}

static void makePhase(Phase& P, Rng& rng, unsigned np, unsigned maxT, uint32_t maxCount, unsigned mode, bool thorough) {
  P.seed = rng.next();
  // sender / receiver threads
  P.T = 1 + (unsigned)rng.below(maxT);
  if (rng.chance(1, 3))
    P.T = 1;
  if (mode == 3) // "mt" component: always several sender threads when allowed
    P.T = std::max(P.T, std::min(maxT, 2u + (unsigned)rng.below(3)));
  P.R        = (maxT >= 2 && rng.chance(1, 3)) ? 2 : 1;
  P.useRlg   = P.R > 1 ? rng.chance(1, 2) : rng.chance(1, 4);
  P.twoTag   = mode == 2 ? true : rng.chance(1, 6);
  P.recvMode = mode == 1 ? 1 : (unsigned)rng.pick({0, 0, 1, 2});
  P.sizeClass = (unsigned)rng.pick({(int)TINY, (int)THRESH, (int)THRESH, (int)SMALLMIX, (int)SMALLMIX, (int)MEDIUM, (int)MIXED, (int)MIXED});
  if (mode == 4)
    P.sizeClass = LARGE;
  P.flushMode      = (unsigned)rng.below(3);
  P.burst          = (unsigned)rng.pick({1, 4, 16, 64});
  P.barrierAfter   = rng.chance(1, 2);
  P.identByArrival = P.T == 1 && (P.R == 1 || P.useRlg);
  P.minLen         = P.identByArrival ? 1 : (unsigned)sizeof(Hdr);
  // which pairs talk
  unsigned pattern = (unsigned)rng.below(6); // 0 all-to-all+self 1 all-to-all no self 2 ring 3 star->0 4 random sparse 5 self only / single pair
  uint32_t cap;
  switch (P.sizeClass) {
  case TINY: cap = maxCount; break;
  case THRESH: cap = std::min<uint32_t>(maxCount, 2500); break;
  case SMALLMIX: cap = maxCount; break;
  case MEDIUM: cap = thorough ? 60 : 30; break;
  case LARGE: cap = 2; break;
  default: cap = std::min<uint32_t>(maxCount, 3000); break;
  }
  // keep the total of one phase bounded: many pairs x many threads -> smaller streams
  unsigned streams = np * np * P.T * (P.twoTag ? 2 : 1);
  uint32_t perStreamCap = std::max<uint32_t>(1, (uint32_t)((uint64_t)cap * 4 / std::max(4u, streams)));
  if (P.sizeClass == LARGE)
    perStreamCap = np >= 3 ? 1 : 2;
  bool bigOne = rng.chance(1, 4); // one pair carries the full count (up to 1e4 per pair)
  unsigned bigS = (unsigned)rng.below(np), bigD = (unsigned)rng.below(np);
  for (unsigned s = 0; s < np; ++s)
    for (unsigned d = 0; d < np; ++d) {
      bool on;
      switch (pattern) {
      case 0: on = true; break;
      case 1: on = s != d || np == 1; break;
      case 2: on = d == (s + 1) % np; break;
      case 3: on = d == 0; break;
      case 4: on = rng.chance(1, 2); break;
      default: on = (s == bigS && d == bigD); break;
      }
      for (unsigned g = 0; g < (P.twoTag ? 2u : 1u); ++g)
        for (unsigned t = 0; t < P.T; ++t) {
          uint32_t c = 0;
          if (on && !rng.chance(1, 8)) {
            uint32_t lim = perStreamCap;
            if (bigOne && s == bigS && d == bigD && P.sizeClass != LARGE && P.sizeClass != MEDIUM)
              lim = std::max<uint32_t>(1, cap / (P.T * (P.twoTag ? 2 : 1)));
            unsigned how = (unsigned)rng.below(20);
            c = how < 3 ? 1 + (uint32_t)rng.below(3) : how < 12 ? logUniform(rng, 1, lim) : lim / 2 + (uint32_t)rng.below(lim / 2 + 1);
            c = std::max<uint32_t>(c, 1);
            if (P.sizeClass == LARGE && t > 0)
              c = std::min<uint32_t>(c, 8);
          }
          P.count[s][d][g][t] = c;
        }
    }
  for (unsigned h = 0; h < np; ++h) {
    P.skewUs[h]      = rng.chance(1, 3) ? (unsigned)rng.below(3000) : 0;
    P.recvDelayUs[h] = P.recvMode == 2 ? 500 + (unsigned)rng.below(20000) : 0;
  }
}

// ------------------------------------------------------------------ local findings
struct Findings {
  std::mutex m;
  std::vector<std::pair<std::string, std::string>> v;
  std::map<std::string, unsigned> perKey;
  void add(const std::string& key, const std::string& detail) {
    std::lock_guard<std::mutex> lg(m);
    if (perKey[key]++ < 3)
      v.emplace_back(key, detail);
  }
  bool any() {
    std::lock_guard<std::mutex> lg(m);
    return !v.empty();
  }
};
static Findings g_find;
static const char* COMP = "NetworkBuffered";
static std::string key(const char* kind) { return std::string("C17:") + COMP + ":" + kind; }

// ------------------------------------------------------------------ per-phase receive state
struct StreamState {
  std::vector<std::atomic<uint8_t>> seen;
  uint32_t next = 0;                            // next expected seq (exact-order modes; protected by single receiver or recvLock)
  std::atomic<int64_t> lastByRecv[MAXR];        // weak mode: last seq this receiver thread saw
  uint32_t planned = 0;
  std::atomic<uint32_t> got{0};
};
struct RecvState {
  StreamState st[MAXH][2][MAXS];
  uint32_t arrivals[MAXH][2] = {}; // arrival index per (src, tag index) in identByArrival mode
  std::atomic<uint64_t> got{0};
  uint64_t quota = 0;
};

struct Counters {
  std::atomic<uint64_t> sent{0}, recvd{0}, bytesSent{0}, bytesRecvd{0}, tiny{0}, thresh{0}, big{0}, selfMsgs{0}, emptyPolls{0},
      hdrDeser{0};
};
static Counters g_cnt;

static std::string phaseJson(const Phase& P) {
  return J().kv("serial", P.serial).kv("tag", P.tag).kv("T", P.T).kv("R", P.R).kv("rlg", P.useRlg).kv("twoTag", P.twoTag)
      .kv("recvMode", RECV_NAMES[P.recvMode]).kv("sizeClass", CLASS_NAMES[P.sizeClass]).kv("flushMode", P.flushMode)
      .kv("burst", P.burst).kv("byArrival", P.identByArrival).str();
}

static std::string hexHead(const uint8_t* p, size_t n, size_t maxn = 24) {
  static const char* d = "0123456789abcdef";
  std::string s;
  for (size_t i = 0; i < n && i < maxn; ++i) {
    s += d[p[i] >> 4];
    s += d[p[i] & 15];
  }
  if (n > maxn)
    s += "..";
  return s;
}

// judge one received message; `lk` (if non-null and owning) is the per-source receive lock handed out by recieveTagged
static void judge(const Phase& P, RecvState& RS, unsigned rthread, unsigned g, uint32_t src, gr::RecvBuffer& rb,
                  std::unique_lock<galois::substrate::SimpleLock>* lk, std::vector<uint8_t>& scratch) {
  const uint8_t* data = rb.r_linearData();
  size_t len          = rb.r_size();
  uint32_t effTag     = P.tag + g;
  auto base           = [&] {
    J j;
    j.kv("host", g_me).kv("hosts", g_np).kv("from", src).kv("polled_tag", effTag).kv("tagIdx", g).kv("recv_thread", rthread)
        .kv("len", len).kv("head", hexHead(data, len)).raw("phase", phaseJson(P));
    return j;
  };
  auto release = [&] {
    if (lk && lk->owns_lock())
      lk->unlock();
  };
  if (src >= g_np) {
    release();
    g_find.add(key("wrong-source"), base().kv("why", "source id out of range").str());
    return;
  }
  bool haveHdr = false;
  Hdr h{};
  if (len >= sizeof(Hdr)) {
    // read the header the way applications do (gDeserialize of a trivially copyable struct at whatever
    // alignment the receive buffer has); leaves the buffer offset after the header
    unsigned off0 = rb.getOffset();
    gr::gDeserialize(rb, h);
    rb.setOffset(off0);
    g_cnt.hdrDeser.fetch_add(1, std::memory_order_relaxed);
    haveHdr = h.magic == MAGIC;
  }
  unsigned thread;
  uint32_t seq;
  if (P.identByArrival) {
    thread = 0;
    seq    = RS.arrivals[src][g]++; // single receiver thread, or under recvLock[src]
  } else {
    if (!haveHdr) {
      release();
      g_find.add(key("payload-corrupted"), base().kv("why", "no valid header in a phase where every message carries one").str());
      return;
    }
    thread = h.thread;
    seq    = h.seq;
  }
  // header fields (when there is one) against what the receiver knows
  if (haveHdr && h.tag != effTag) {
    release();
    g_find.add(key("wrong-tag-delivered"),
               base().kv("embedded_tag", h.tag).kv("embedded_seq", h.seq).kv("embedded_thread", h.thread)
                   .kv("why", "a message sent with another tag (another phase) was returned by recieveTagged").str());
    return;
  }
  if (haveHdr && h.dst != g_me) {
    release();
    g_find.add(key("wrong-destination"), base().kv("embedded_dst", h.dst).kv("embedded_src", h.src).str());
    return;
  }
  if (haveHdr && h.src != src) {
    release();
    g_find.add(key("wrong-source"), base().kv("embedded_src", h.src).str());
    return;
  }
  if (thread >= P.T || (haveHdr && h.tagIdx != g) || seq >= RS.st[src][g][thread].planned) {
    release();
    g_find.add(key("unexpected-message"),
               base().kv("thread", thread).kv("seq", seq).kv("planned_in_stream", thread < P.T ? RS.st[src][g][thread].planned : 0)
                   .kv("why", "not part of the plan of this phase").str());
    return;
  }
  StreamState& S = RS.st[src][g][thread];
  // order
  bool orderBad   = false;
  int64_t prevSeq = -1;
  if (!P.identByArrival) {
    if (P.R == 1 || P.useRlg) { // total order of pops from this source is observed
      if (seq != S.next) {
        orderBad = true;
        prevSeq  = (int64_t)S.next - 1;
      }
      S.next = std::max(S.next, seq + 1);
    } else { // weak: pops of one receiver thread are ordered
      int64_t last = S.lastByRecv[rthread].load(std::memory_order_relaxed);
      if ((int64_t)seq <= last) {
        orderBad = true;
        prevSeq  = last;
      }
      S.lastByRecv[rthread].store(std::max<int64_t>(last, seq), std::memory_order_relaxed);
    }
  }
  release();
  // exactly once
  uint8_t was = S.seen[seq].exchange(1, std::memory_order_relaxed);
  if (was) {
    g_find.add(key("duplicate-delivery"), base().kv("thread", thread).kv("seq", seq).str());
    return;
  }
  S.got.fetch_add(1, std::memory_order_relaxed);
  if (orderBad) {
    g_find.add(key("out-of-order"),
               base().kv("thread", thread).kv("seq", seq).kv("previous_seq_of_stream", prevSeq)
                   .kv("why", "sequence numbers of one (src,dst,tag,sender thread) stream must arrive increasing without gaps").str());
  }
  // content
  genMessage(P, src, g_me, g, thread, seq, scratch);
  if (scratch.size() != len || memcmp(scratch.data(), data, len) != 0) {
    size_t firstDiff = 0;
    size_t n         = std::min(len, scratch.size());
    while (firstDiff < n && scratch[firstDiff] == data[firstDiff])
      ++firstDiff;
    std::string kind = "payload-corrupted";
    J j              = base();
    j.kv("thread", thread).kv("seq", seq).kv("expected_len", scratch.size()).kv("first_diff_at", firstDiff)
        .kv("expected_head", hexHead(scratch.data(), scratch.size()));
    if (P.identByArrival && haveHdr && (h.seq != seq || h.thread != 0)) {
      // arrival-index identity: the message is a planned one but not the next of its stream
      bool dup = h.seq < S.planned && h.seq < seq;
      kind     = dup ? "duplicate-delivery" : "out-of-order";
      j.kv("embedded_seq", h.seq).kv("expected_seq", seq);
    }
    g_find.add(key(kind.c_str()), j.str());
  }
  if (len < 32)
    g_cnt.tiny.fetch_add(1, std::memory_order_relaxed);
  else if (len >= 1380 && len <= 1420)
    g_cnt.thresh.fetch_add(1, std::memory_order_relaxed);
  else if (len >= (1u << 20))
    g_cnt.big.fetch_add(1, std::memory_order_relaxed);
  g_cnt.bytesRecvd.fetch_add(len, std::memory_order_relaxed);
}

// one poll of every tag of the phase; returns number of messages received
static unsigned pollOnce(gr::NetworkInterface& net, const Phase& P, RecvState& RS, unsigned rthread, std::vector<uint8_t>& scratch) {
  unsigned n = 0;
  for (unsigned g = 0; g < (P.twoTag ? 2u : 1u); ++g) {
    std::unique_lock<galois::substrate::SimpleLock> lk;
    auto p = net.recieveTagged(P.tag, P.useRlg ? &lk : nullptr, (int)g);
    if (!p)
      continue;
    ++n;
    judge(P, RS, rthread, g, p->first, p->second, P.useRlg ? &lk : nullptr, scratch);
    RS.got.fetch_add(1, std::memory_order_relaxed);
    g_cnt.recvd.fetch_add(1, std::memory_order_relaxed);
    g_shm->received[g_me].fetch_add(1, std::memory_order_relaxed);
  }
  return n;
}

static uint64_t globalReceived() {
  uint64_t s = 0;
  for (unsigned r = 0; r < g_np; ++r)
    s += g_shm->received[r].load(std::memory_order_relaxed);
  return s;
}

static std::string missingJson(const Phase& P, RecvState& RS) {
  std::string s = "[";
  unsigned n    = 0;
  for (unsigned src = 0; src < g_np; ++src)
    for (unsigned g = 0; g < 2; ++g)
      for (unsigned t = 0; t < P.T; ++t) {
        StreamState& S = RS.st[src][g][t];
        uint32_t got   = S.got.load();
        if (got < S.planned && n < 12) {
          uint32_t firstMissing = 0;
          while (firstMissing < S.planned && S.seen[firstMissing].load())
            ++firstMissing;
          if (n++)
            s += ",";
          s += J().kv("from", src).kv("tagIdx", g).kv("thread", t).kv("planned", S.planned).kv("received", got)
                   .kv("first_missing_seq", firstMissing).str();
        }
      }
  return s + "]";
}

// ------------------------------------------------------------------ main
int main(int argc, char** argv) {
  const char* rk = getenv("OMPI_COMM_WORLD_RANK");
  if (!rk)
    rk = getenv("PMI_RANK");
  int envRank = rk ? atoi(rk) : 0;
  if (envRank != 0)
    setenv("VERIF_NO_HANG_MONITOR", "1", 1);
  std::vector<char*> args(argv, argv + argc);
  static char devnull[] = "/dev/null";
  if (envRank != 0)
    for (int i = 1; i + 1 < argc; ++i)
      if (std::string(args[i]) == "--out")
        args[i + 1] = devnull;
  Harness H("C17", argc, args.data());
  g_H = &H;
  galois::DistMemSys G;
  auto& net = gr::getSystemNetworkInterface();
  g_me      = net.ID;
  g_np      = net.Num;
  if (g_np > MAXH) {
    fprintf(stderr, "c17_net: at most %u hosts\n", MAXH);
    return 2;
  }
  auto& bar = gr::getHostBarrier();

  // shared block: rank 0 names it, everybody maps it, then it is unlinked (no leftovers after a crash)
  {
    char name[64] = {0};
    if (g_me == 0)
      snprintf(name, sizeof name, "/verif-c17-%ld-%ld", (long)getpid(), (long)time(nullptr));
    MPI_Bcast(name, sizeof name, MPI_CHAR, 0, MPI_COMM_WORLD);
    int fd = shm_open(name, O_CREAT | O_RDWR, 0600);
    if (fd < 0 || ftruncate(fd, sizeof(Shm)) != 0) {
      perror("c17_net: shm");
      return 2;
    }
    void* p = mmap(nullptr, sizeof(Shm), PROT_READ | PROT_WRITE, MAP_SHARED, fd, 0);
    if (p == MAP_FAILED) {
      perror("c17_net: mmap");
      return 2;
    }
    close(fd);
    g_shm = (Shm*)p;
    MPI_Barrier(MPI_COMM_WORLD);
    if (g_me == 0)
      shm_unlink(name);
  }
  std::thread(watcherLoop).detach();

  const unsigned poolMax  = galois::substrate::getThreadPool().getMaxThreads();
  const unsigned maxT     = std::min<unsigned>({(unsigned)H.paramInt("maxthreads", 2), MAXS, poolMax});
  const uint32_t maxCount = (uint32_t)H.paramInt("maxcount", H.thorough ? 10000 : 2000);
  // VERIF_C17_PATIENCE: development aid for mutation trials (a tree that loses messages costs one window per case)
  const double patience = getenv("VERIF_C17_PATIENCE") ? atof(getenv("VERIF_C17_PATIENCE")) : (double)H.paramInt("patience", 40);
  const long selftest     = H.paramInt("selftest", 0);
  static const char* MODES[] = {"mixed", "overlap", "two-tag", "multi-thread", "large"};
  uint64_t phaseSerial = 0, barrierSerial = 0;
  std::vector<std::vector<uint8_t>> scratch(MAXS + MAXR + 1);

  for (long k = H.firstCase(); k < H.endCase(); ++k) {
    Rng rng(H.caseSeed(k));
    unsigned mode = (unsigned)(k % 5);
    if (mode == 3 && maxT < 2)
      mode = 0;
    unsigned nph = 2 + (unsigned)rng.below(4);
    if (mode == 4)
      nph = 1 + (unsigned)rng.below(2);
    bool wrap = rng.chance(1, 6);
    // every host sets the same starting tag (tags 1..32766 are what Gluon uses; 0 is the sendMsg channel)
    if (wrap)
      gr::evilPhase = 32767 - 1 - (uint32_t)rng.below(nph + 1);
    std::vector<Phase> phases(nph);
    for (auto& P : phases)
      makePhase(P, rng, g_np, maxT, maxCount, mode, H.thorough);
    uint64_t noiseSeed = rng.next();
    unsigned spinProb  = (unsigned)rng.pick({0, 0, 4096, 65535}); // yields inside Galois' lock spin loops (asmPause hook)
    H.hangKey = key("hang");
    H.begin(k, J().kv("component", COMP).kv("mode", MODES[mode]).kv("hosts", g_np).kv("phases", nph).kv("maxT", maxT)
                   .kv("start_tag", gr::evilPhase).kv("wrap", wrap).str());
    perturb_case(noiseSeed, 0, spinProb, 30);
    uint64_t c0sent = g_cnt.sent, c0recvd = g_cnt.recvd, c0bs = g_cnt.bytesSent, c0br = g_cnt.bytesRecvd, c0tiny = g_cnt.tiny,
             c0th = g_cnt.thresh, c0big = g_cnt.big, c0self = g_cnt.selfMsgs, c0hd = g_cnt.hdrDeser;
    auto extra0      = net.reportExtraNamed();
    uint64_t skewObs = 0, barriers = 0, mtPhases = 0, mrPhases = 0, twoTagPhases = 0, plannedHere = 0, maxLenSeen = 0;
    std::vector<uint32_t> usedTags;
    std::string classes;

    for (unsigned pi = 0; pi < nph; ++pi) {
      Phase& P  = phases[pi];
      P.serial  = ++phaseSerial;
      P.tag     = gr::evilPhase;
      usedTags.push_back(P.tag);
      if (P.twoTag)
        usedTags.push_back(P.tag + 1);
      g_shm->curPhase[g_me].store(P.serial);
      mtPhases += P.T > 1;
      mrPhases += P.R > 1;
      twoTagPhases += P.twoTag;
      classes += CLASS_NAMES[P.sizeClass][0];
      classes += P.sizeClass == MIXED ? "x" : "";
      // receive state
      auto RSp      = std::make_unique<RecvState>();
      RecvState& RS = *RSp;
      for (unsigned src = 0; src < g_np; ++src)
        for (unsigned g = 0; g < 2; ++g)
          for (unsigned t = 0; t < MAXS; ++t) {
            StreamState& S = RS.st[src][g][t];
            S.planned      = t < P.T ? P.count[src][g_me][g][t] : 0;
            S.seen         = std::vector<std::atomic<uint8_t>>(S.planned);
            for (auto& a : S.lastByRecv)
              a.store(-1, std::memory_order_relaxed);
            RS.quota += S.planned;
          }
      plannedHere += RS.quota;
      const unsigned nthreads = std::max(P.T, P.R);
      galois::setActiveThreads(nthreads);
      std::atomic<unsigned> sendersLeft{P.T};
      std::atomic<bool> sendsFlushed{false};

      if (P.skewUs[g_me])
        sleep_us(P.skewUs[g_me]);

      auto receiveUntilQuota = [&](unsigned rthread, std::vector<uint8_t>& scr) {
        uint64_t idle     = 0;
        double stuckSince = -1;
        uint64_t lastGlobal = 0;
        while (RS.got.load(std::memory_order_relaxed) < RS.quota) {
          if (pollOnce(net, P, RS, rthread, scr)) {
            idle = 0;
            stuckSince = -1;
            progress();
            continue;
          }
          ++idle;
          g_cnt.emptyPolls.fetch_add(1, std::memory_order_relaxed);
          if ((idle & 63) == 0)
            sched_yield();
          if (idle > 50000 && (idle & 15) == 0)
            usleep(100);
          if ((idle & 1023) == 0) {
            if (g_shm->abortFlag.load())
              for (;;)
                usleep(100000); // watcher ends the process
            // lost-message verdict (see the header comment)
            bool allDone = true;
            for (unsigned src = 0; src < g_np; ++src) {
              bool owes = false;
              for (unsigned g = 0; g < 2; ++g)
                for (unsigned t = 0; t < P.T; ++t)
                  owes |= RS.st[src][g][t].planned > 0;
              if (owes && g_shm->sendsDone[src].load() < P.serial)
                allDone = false;
            }
            uint64_t gl = globalReceived();
            double now  = now_s();
            if (!allDone || gl != lastGlobal || stuckSince < 0) {
              stuckSince = now;
              lastGlobal = gl;
            } else if (now - stuckSince > patience && rthread == 0) {
              // what sits at the head of the queues instead? (destructive, but the run ends here)
              std::string heads = "[";
              for (int d = -3; d <= 3; ++d) {
                int64_t tg = (int64_t)P.tag + d;
                if (tg < 0 || (uint32_t)tg == P.tag || (P.twoTag && (uint32_t)tg == P.tag + 1))
                  continue;
                auto p = net.recieveTagged((uint32_t)tg, nullptr, 0);
                if (p)
                  heads += (heads.size() > 1 ? "," : "") +
                           J().kv("tag", tg).kv("from", p->first).kv("len", p->second.r_size())
                               .kv("head", hexHead(p->second.r_linearData(), p->second.r_size())).str();
              }
              heads += "]";
              fatal(key("message-lost"),
                    J().kv("host", g_me).kv("hosts", g_np).kv("received", RS.got.load()).kv("quota", RS.quota)
                        .raw("missing_streams", missingJson(P, RS)).kv("patience_s", patience)
                        .kv("anyPendingSends", net.anyPendingSends()).kv("anyPendingReceives", net.anyPendingReceives())
                        .raw("messages_found_under_neighbouring_tags", heads).raw("phase", phaseJson(P))
                        .kv("why", "every sender finished sendTagged+flush of this phase, the receiver kept polling, and no host "
                                   "received anything for the whole patience window")
                        .str());
            }
          }
        }
      };

      galois::on_each(
          [&](unsigned tid, unsigned) {
            std::vector<uint8_t>& scr = scratch[tid];
            std::vector<uint8_t> msg;
            Rng lr(mix(noiseSeed, P.serial * 131 + g_me * 17 + tid));
            if (tid < P.T) {
              // order in which this thread serves its streams: seeded shuffle of (dst, tag index) slots
              std::vector<uint16_t> slots;
              for (unsigned d = 0; d < g_np; ++d)
                for (unsigned g = 0; g < (P.twoTag ? 2u : 1u); ++g)
                  for (uint32_t i = 0; i < P.count[g_me][d][g][tid]; ++i)
                    slots.push_back((uint16_t)(d * 2 + g));
              Rng sr(mix(P.seed, 0xABC000 + g_me * 16 + tid));
              unsigned orderMode = (unsigned)sr.below(3); // 0 shuffled, 1 destination after destination, 2 round robin
              if (orderMode == 0)
                for (size_t i = slots.size(); i > 1; --i)
                  std::swap(slots[i - 1], slots[sr.below(i)]);
              else if (orderMode == 2) {
                std::vector<uint16_t> rr;
                uint32_t left[MAXH * 2] = {};
                for (auto s : slots)
                  left[s]++;
                size_t total = slots.size();
                while (rr.size() < total)
                  for (unsigned s = 0; s < g_np * 2; ++s)
                    if (left[s]) {
                      rr.push_back((uint16_t)s);
                      left[s]--;
                    }
                slots.swap(rr);
              }
              uint32_t nextSeq[MAXH * 2] = {};
              gr::SendBuffer b; // reused after sendTagged moved its storage away (Gluon's static buffer, CuSP's per-thread buffers)
              unsigned sinceFlush = 0, sincePoll = 0;
              for (uint16_t s : slots) {
                unsigned d = s / 2, g = s % 2;
                uint32_t seq = nextSeq[s]++;
                genMessage(P, g_me, d, g, tid, seq, msg);
                // harness self-test only (never set by the spec): a planned message is not sent (2: one owed to host 1)
                if (P.serial == 2 && tid == 0 && seq == 0 && (selftest == 1 || (selftest == 2 && d == 1)))
                  continue;
                if (msg.size() >= sizeof(Hdr) && (seq & 1)) {
                  Hdr h;
                  memcpy(&h, msg.data(), sizeof h);
                  gr::gSerialize(b, h);
                  b.insert(msg.data() + sizeof h, msg.size() - sizeof h);
                } else
                  b.insert(msg.data(), msg.size());
                net.sendTagged(d, P.tag, b, (int)g);
                if (b.size() != 0) { // "buf is invalidated by this operation"
                  b.getVec().clear();
                }
                g_cnt.sent.fetch_add(1, std::memory_order_relaxed);
                g_cnt.bytesSent.fetch_add(msg.size(), std::memory_order_relaxed);
                if (d == g_me)
                  g_cnt.selfMsgs.fetch_add(1, std::memory_order_relaxed);
                if (P.flushMode == 2 && ++sinceFlush >= 37) {
                  sinceFlush = 0;
                  net.flush();
                }
                if (P.recvMode == 1 && tid < P.R && ++sincePoll >= P.burst) {
                  sincePoll = 0;
                  pollOnce(net, P, RS, tid, scr);
                }
                if ((lr.next() & 0x3ff) == 0)
                  sched_yield();
                progress();
              }
              if (P.flushMode >= 1)
                net.flush();
              if (sendersLeft.fetch_sub(1) == 1) {
                net.flush(); // Gluon: flush after the send loop
                g_shm->sendsDone[g_me].store(P.serial);
                sendsFlushed.store(true);
              }
            }
            if (tid < P.R) {
              if (P.recvMode != 1) // bulk-synchronous use: nothing is received before the local sends are flushed
                while (!sendsFlushed.load()) {
                  sched_yield();
                  if (g_shm->abortFlag.load())
                    for (;;)
                      usleep(100000);
                }
              if (P.recvDelayUs[g_me])
                sleep_us(P.recvDelayUs[g_me]);
              receiveUntilQuota(tid, scr);
            }
          },
          galois::no_stats());

      // every planned message of every stream must have been seen (quota reached by count: a duplicate could mask a loss)
      for (unsigned src = 0; src < g_np; ++src)
        for (unsigned g = 0; g < 2; ++g)
          for (unsigned t = 0; t < P.T; ++t) {
            StreamState& S = RS.st[src][g][t];
            if (S.got.load() != S.planned && !g_find.any())
              g_find.add(key("message-lost"), J().kv("host", g_me).raw("missing_streams", missingJson(P, RS)).raw("phase", phaseJson(P)).str());
          }
      // did some host run in another phase while we finished this one?
      for (unsigned r = 0; r < g_np; ++r)
        if (r != g_me && g_shm->curPhase[r].load() != P.serial)
          ++skewObs;
      if (P.barrierAfter) {
        uint64_t b = ++barrierSerial;
        g_shm->barrierEntered[g_me].store(b);
        bar.wait();
        ++barriers;
        for (unsigned r = 0; r < g_np; ++r) {
          uint64_t e = g_shm->barrierEntered[r].load();
          if (e < b)
            g_find.add("C17:HostBarrier:early-release",
                       J().kv("host", g_me).kv("returned_from_barrier", b).kv("but_host", r).kv("had_entered_only", e).str());
        }
      }
      // advance the tag exactly like incrementEvilPhase() (twice after a phase that used evilPhase+1 as well)
      for (unsigned i = 0; i < (P.twoTag ? 2u : 1u); ++i) {
        ++gr::evilPhase;
        if (gr::evilPhase >= static_cast<uint32_t>(std::numeric_limits<int16_t>::max()))
          gr::evilPhase = 1;
      }
    }

    // end of case: everybody has received its quota of every phase; nothing carrying a tag of this case may still arrive
    {
      uint64_t b = ++barrierSerial;
      g_shm->barrierEntered[g_me].store(b);
      bar.wait();
      ++barriers;
      for (unsigned r = 0; r < g_np; ++r)
        if (g_shm->barrierEntered[r].load() < b)
          g_find.add("C17:HostBarrier:early-release", J().kv("host", g_me).kv("returned_from_barrier", b).kv("but_host", r).str());
      for (int rep = 0; rep < 3; ++rep)
        for (uint32_t tg : usedTags) {
          auto p = net.recieveTagged(tg, nullptr, 0);
          if (p)
            g_find.add(key("unexpected-message"),
                       J().kv("host", g_me).kv("from", p->first).kv("tag", tg).kv("len", p->second.r_size())
                           .kv("head", hexHead(p->second.r_linearData(), p->second.r_size()))
                           .kv("why", "left over after every planned message of the case had been received (duplicate or spurious)").str());
        }
    }

    // nobody starts the next case (which may re-use tag values after a wrap-around) while a host is still looking for
    // left-overs of this one; harness-level synchronisation, not a judged barrier
    MPI_Barrier(MPI_COMM_WORLD);

    // ---- gather findings and counters on rank 0 (plain MPI, independent of the layer under test)
    std::string mine;
    {
      std::lock_guard<std::mutex> lg(g_find.m);
      for (auto& f : g_find.v)
        mine += f.first + "\t" + f.second + "\n";
      g_find.v.clear();
      g_find.perKey.clear();
    }
    int mylen = (int)mine.size();
    std::vector<int> lens(g_np), displs(g_np);
    MPI_Gather(&mylen, 1, MPI_INT, lens.data(), 1, MPI_INT, 0, MPI_COMM_WORLD);
    int total = 0;
    for (unsigned r = 0; r < g_np; ++r) {
      displs[r] = total;
      total += g_me == 0 ? lens[r] : 0;
    }
    std::string all((size_t)total, '\0');
    MPI_Gatherv(mine.data(), mylen, MPI_CHAR, all.data(), lens.data(), displs.data(), MPI_CHAR, 0, MPI_COMM_WORLD);
    auto extra1      = net.reportExtraNamed();
    uint64_t loc[16] = {g_cnt.sent - c0sent,
                        g_cnt.recvd - c0recvd,
                        g_cnt.bytesSent - c0bs,
                        g_cnt.bytesRecvd - c0br,
                        g_cnt.tiny - c0tiny,
                        g_cnt.thresh - c0th,
                        g_cnt.big - c0big,
                        g_cnt.selfMsgs - c0self,
                        skewObs,
                        plannedHere,
                        extra1[3].second - extra0[3].second, // network buffers handed to MPI (SendEnqueued)
                        extra1[1].second - extra0[1].second, // sent because over the size threshold
                        extra1[0].second - extra0[0].second, // sent because of the timeout
                        extra1[2].second - extra0[2].second, // sent because flushed
                        g_cnt.hdrDeser - c0hd,
                        0};
    uint64_t sum[16] = {};
    MPI_Reduce(loc, sum, 16, MPI_UINT64_T, MPI_SUM, 0, MPI_COMM_WORLD);
    if (g_me == 0) {
      size_t pos = 0;
      while (pos < all.size()) {
        size_t nl  = all.find('\n', pos);
        size_t tab = all.find('\t', pos);
        if (nl == std::string::npos || tab == std::string::npos || tab > nl)
          break;
        H.violation(all.substr(pos, tab - pos), all.substr(tab + 1, nl - tab - 1));
        pos = nl + 1;
      }
      if (sum[0] != sum[9]) { // the harness did not send what the plan says: broken harness, not a verdict
        fprintf(stderr, "c17_net: sent %lu messages but the plan has %lu\n", (unsigned long)sum[0], (unsigned long)sum[9]);
        H.line(J().kv("ev", "note").kv("what", "harness-broken").str());
        _exit(2);
      }
    }
    bool aggregated = sum[10] > 0 && sum[0] > sum[10];
    std::string sig = std::string(MODES[mode]) + "|np" + std::to_string(g_np) + "|" + classes + "|mt" + std::to_string(mtPhases) + "|mr" +
                      std::to_string(mrPhases) + "|tt" + std::to_string(twoTagPhases) + "|w" + (wrap ? "1" : "0") + "|a" +
                      (aggregated ? "1" : "0") + "|s" + (sum[8] ? "1" : "0");
    bool nontrivial = sum[1] >= 2 && nph >= 2;
    H.end(k, sig, nontrivial,
          J().kv("msgs_sent", sum[0]).kv("msgs_received", sum[1]).kv("bytes_sent", sum[2]).kv("bytes_received", sum[3])
              .kv("msgs_under_32B", sum[4]).kv("msgs_at_threshold", sum[5]).kv("msgs_1MB_or_more", sum[6]).kv("self_msgs", sum[7])
              .kv("phase_skew_observed", sum[8]).kv("phases", nph).kv("host_barriers", barriers).kv("mt_send_phases", mtPhases)
              .kv("mt_recv_phases", mrPhases).kv("two_tag_phases", twoTagPhases).kv("tag_wrap_cases", (int)wrap)
              .kv("network_buffers", sum[10]).kv("buffers_sent_over_threshold", sum[11]).kv("buffers_sent_on_timeout", sum[12])
              .kv("buffers_sent_on_flush", sum[13]).kv("aggregating_cases", (int)aggregated).kv("headers_deserialised", sum[14])
              .kv(("net_cases_np" + std::to_string(g_np)).c_str(), 1).str());
  }
  // leave the tag where every host agrees (teardown of the distributed statistics uses it)
  MPI_Barrier(MPI_COMM_WORLD);
  return 0;
}
