// C19 — instantiation of cuspPartitionGraph<NoCommunication, char, void|uint32_t> (see c19_extract.h)
#include "c19_extract.h"
void c19::run_nocomm(const CaseArgs& a, std::vector<uint64_t>& out) { runCusp<NoCommunication>(a, out); }
