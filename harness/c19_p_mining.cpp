// C19 — MiningGraph<char, void, MiningPolicyDegrees|MiningPolicyNaive> (libcusp MiningPartitioner.h; constructed
// directly as lonestar/libdistbench MiningStart.h does, it does not go through cuspPartitionGraph)
#include "c19_extract.h"
#include "galois/graphs/MiningPartitioner.h"

namespace {
template <typename Policy>
void runMining(const c19::CaseArgs& a, std::vector<uint64_t>& out) {
  auto& net = galois::runtime::getSystemNetworkInterface();
  using Graph = galois::graphs::MiningGraph<char, void, Policy>;
  std::unique_ptr<Graph> g;
  if (a.defaults)
    g = std::make_unique<Graph>(a.graphFile, net.ID, net.Num, true, false);
  else
    g = std::make_unique<Graph>(a.graphFile, net.ID, net.Num, true, a.miningSort,
                                (galois::graphs::MASTERS_DISTRIBUTION)a.readPolicy, a.nodeWeight, a.edgeWeight);
  c19::extract(*g, true, out);
}
} // namespace

void c19::run_mining(const CaseArgs& a, std::vector<uint64_t>& out) {
  if (a.miningDegrees)
    runMining<MiningPolicyDegrees>(a, out);
  else
    runMining<MiningPolicyNaive>(a, out);
}
