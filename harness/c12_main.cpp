// C12 -- graph files round-trip (library side): case generation and dispatch.
// One component per case; graphs come from the shared reference generator (ref/gr_codec.h, the
// C11 shapes: empty, single node, isolated nodes, self loops, parallel edges, last node with/without
// edges, power law, ...), edge data of every width the harness instantiates (0,1,2,4,8,12,16 bytes),
// edge-count parity forced both ways, format version 1 and (where the reader supports it) 2.
#define VERIF_MAIN_TU
#include "c12_common.h"

#include "galois/Galois.h"

#include <dirent.h>
#include <signal.h>
#include <sys/stat.h>

using namespace c12;
using verif::J;

namespace {

struct CompDesc {
  const char* name;
  void (*run)(Case&);
  std::vector<unsigned> widths;
  bool v2;          // reader/writer handles version 2
  unsigned weight;  // relative frequency
  unsigned variants;
};

const std::vector<CompDesc>& comps() {
  static const std::vector<CompDesc> v = {
      {"FileGraphWriter", run_writer, {0, 1, 2, 4, 8, 12, 16}, false, 5, 12},
      {"FileGraph.copy", run_copy, {0, 1, 2, 4, 8, 12, 16}, true, 3, 6},
      {"FileGraph.fromGraph", run_fromgraph, {1, 2, 4, 8, 12, 16}, true, 3, 4},
      {"FileGraph.fromFile", run_fromfile, {0, 1, 2, 4, 8, 12, 16}, true, 3, 1},
      {"FileGraph.fromFileInterleaved", run_fromfile, {0, 1, 2, 4, 8, 12, 16}, true, 2, 1},
      {"FileGraph.partFromFile", run_partfromfile, {0, 1, 2, 4, 8, 12, 16}, true, 5, 2},
      {"FileGraph.v2layout", run_v2layout, {1, 2, 4, 8, 12, 16}, true, 1, 1},
      {"OCFileGraph", run_ocfile, {0, 1, 2, 4, 8, 12, 16}, false, 3, 1},
      {"OCImmutableEdgeGraph", run_ocgraph, {0, 4, 8, 12}, false, 3, 4},
      {"OfflineGraph", run_offline, {0, 1, 2, 4, 8, 12, 16}, true, 3, 2},
      {"BufferedGraph.loadGraph", run_buffered, {0, 1, 2, 4, 8}, false, 2, 1},
      {"BufferedGraph.loadPartialGraph", run_buffered, {0, 1, 2, 4, 8}, false, 3, 2},
  };
  return v;
}

void rmTree(const std::string& d) {
  if (DIR* dp = opendir(d.c_str())) {
    while (dirent* e = readdir(dp)) {
      std::string n = e->d_name;
      if (n != "." && n != "..")
        unlink((d + "/" + n).c_str());
    }
    closedir(dp);
  }
  rmdir(d.c_str());
}

// remove scratch directories left behind by crashed harness processes (their pid is dead)
void reapStale(const std::string& root) {
  if (DIR* dp = opendir(root.c_str())) {
    while (dirent* e = readdir(dp)) {
      std::string n = e->d_name;
      if (n.rfind("h", 0) == 0 && n.size() > 1 && isdigit((unsigned char)n[1])) {
        int pid = atoi(n.c_str() + 1);
        if (pid > 0 && kill(pid, 0) != 0)
          rmTree(root + "/" + n);
      }
    }
    closedir(dp);
  }
}

const char* sizeClass(uint64_t n) { return n == 0 ? "0" : n <= 2 ? "1-2" : n <= 16 ? "3-16" : n <= 256 ? "17-256" : ">256"; }

} // namespace

int main(int argc, char** argv) {
  verif::Harness H("C12", argc, argv);
  galois::SharedMemSys G;
  const std::string root = "/var/tmp/c12";
  mkdir(root.c_str(), 0755);
  reapStale(root);
  const std::string dir = root + "/h" + std::to_string((long)getpid());
  mkdir(dir.c_str(), 0755);
  const std::string onlyComp = H.param("comp", "");
  const long maxNodesParam   = H.paramInt("maxnodes", H.thorough ? 20000 : 2500);
  unsigned maxT              = galois::substrate::getThreadPool().getMaxThreads();

  unsigned totalWeight = 0;
  for (auto& cd : comps())
    totalWeight += cd.weight;

  for (long k = H.firstCase(); k < H.endCase(); ++k) {
    verif::Rng rng(H.caseSeed(k));
    // ---- component
    const CompDesc* cd = nullptr;
    {
      unsigned pickw = (unsigned)rng.below(totalWeight);
      for (auto& x : comps()) {
        if (pickw < x.weight) {
          cd = &x;
          break;
        }
        pickw -= x.weight;
      }
      if (!onlyComp.empty())
        for (auto& x : comps())
          if (onlyComp == x.name)
            cd = &x;
    }
    Case c;
    c.H       = &H;
    c.k       = k;
    c.dir     = dir;
    c.comp    = cd->name;
    c.width   = cd->widths[rng.below(cd->widths.size())];
    c.version = (cd->v2 && rng.below(2)) ? 2 : 1;
    c.odd     = rng.below(2);
    c.variant = (unsigned)rng.below(cd->variants);
    const bool isLayout = std::string(cd->name) == "FileGraph.v2layout";
    if (isLayout) {
      c.version = 2;
      c.odd     = true;
    }
    if (std::string(cd->name) == "FileGraph.fromFileInterleaved")
      c.variant = 1;
    // ---- graph
    uint64_t maxNodes;
    switch (rng.below(8)) {
    case 0:
    case 1:
    case 2: maxNodes = 10; break; // exhaustive split points
    case 3:
    case 4: maxNodes = 60; break;
    case 5:
    case 6: maxNodes = 400; break;
    default: maxNodes = (uint64_t)maxNodesParam; break;
    }
    ref::DataMode mode;
    ref::RefGraph g = ref::gen_graph(rng.next(), maxNodes, c.width, &mode);
    // force the edge-count parity (add one edge; an empty node set cannot have edges)
    if (g.numNodes && (g.numEdges() % 2) != (c.odd ? 1u : 0u))
      g.addEdge(rng.below(g.numNodes), rng.below(g.numNodes));
    // every so often: file length an exact multiple of the page size (the end of the file mapping is
    // the end of a page; a reader or copy that touches one byte too many faults). Edge pairs keep the
    // parity; isolated nodes at the end supply the remaining multiples of 8 bytes.
    bool pageAligned = false;
    if (g.numNodes && rng.below(10) == 0) {
      auto sizeOf = [&](uint64_t nn, uint64_t mm) {
        return 32 + 8 * nn + (c.version == 1 ? 4 * (mm + mm % 2) : 8 * mm) + c.width * mm;
      };
      uint64_t n0 = g.numNodes, m0 = g.numEdges();
      for (uint64_t k = 0; k <= 1024 && !pageAligned; k += 2) {
        uint64_t sz = sizeOf(n0, m0 + k), target = (sz + 4095) / 4096 * 4096;
        if ((target - sz) % 8 == 0 && (target - sz) / 8 <= 600) {
          for (uint64_t i = 0; i < k; ++i)
            g.addEdge(rng.below(n0), rng.below(n0));
          for (uint64_t j = 0; j < (target - sz) / 8; ++j) {
            g.numNodes++;
            g.adj.emplace_back();
          }
          pageAligned = true;
        }
      }
    }
    ref::assign_data(g, rng.next(), mode == ref::DataMode::Zero ? ref::DataMode::Unique : mode, c.width);
    c.odd = g.numEdges() % 2;
    if (isLayout && !c.odd) { // empty node set: nothing to disagree about
      c.comp = "FileGraph.fromFile";
      cd     = &comps()[3];
    }
    c.g   = std::move(g);
    c.rng = verif::Rng(rng.next());
    const uint64_t n = c.g.numNodes, m = c.g.numEdges();
    unsigned threads = 1 + (unsigned)rng.below(maxT);
    galois::setActiveThreads(threads);

    H.hangKey = "C12:" + c.comp + ":hang";
    H.begin(k, J().kv("component", c.comp).kv("version", c.version).kv("edge_size", c.width).kv("nodes", n)
                   .kv("edges", m).kv("shape", c.g.kind).kv("variant", c.variant).kv("threads", threads).str());
    cd->run(c);
    verif::progress();

    for (auto& f : c.files)
      unlink(f.c_str());
    bool nontrivial = n >= 2 && m >= 2;
    std::string sig = c.comp + "|v" + std::to_string(c.version) + "|w" + std::to_string(c.width) + (c.odd ? "|odd" : "|even") +
                      "|" + c.g.kind + "|" + sizeClass(n) + "|var" + std::to_string(c.variant) + (pageAligned ? "|page" : "") + c.sigExtra;
    H.end(k, sig, nontrivial,
          J().kv("edges_compared", c.edgesCompared).kv("nodes_compared", c.nodesCompared).kv("files_decoded_by_reference", c.filesDecoded)
              .kv("files_written_by_library", c.filesWrittenByLib).kv("library_reads", c.libReads).kv("sub_ranges_read", c.partRanges)
              .kv("oc_segments_loaded", c.segments).kv("nodes_same_order", c.orderSame).kv("nodes_other_order", c.orderDiff)
              .kv("v2_cases", (int)(c.version == 2)).kv("v2_odd_edge_count_with_data_cases", (int)(c.version == 2 && c.odd && c.width))
              .kv("odd_edge_count_with_data_cases", (int)(c.odd && c.width)).kv("page_aligned_file_cases", (int)pageAligned).kv("oracle_violations", (uint64_t)c.fired.size()).str());
  }
  rmTree(dir);
  return 0;
}
