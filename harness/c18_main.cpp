// C18 — Gluon synchronisation makes every proxy agree with the reduced value.
//
// MPI program (mpirun -np 1..4, every rank runs the same case sequence from the same seed; rank 0 judges):
//   generated graph -> .gr (+ transpose) written by rank 0 -> partitioned by the library through the very call
//   DistBench/Input.h makes (cuspPartitionGraph<Policy, NodeData, void>) -> GluonSubstrate constructed as
//   DistBench/Start.h does -> a sequence of rounds on the same substrate; in each round a field (declared with
//   the library's GALOIS_SYNC_STRUCTURE_* macros, c18_f_*.cpp) is brought into the pre-state the sync structures
//   assume, every host writes generated values at generated proxies ELIGIBLE for the write location and marks the
//   bitset exactly as the apps do, sync<W, R, Reduce, Bitset, async> is called (asynchronous rounds: the apps'
//   DGTerminator loop), and (pre, contribution, post) of every proxy of every host is gathered with plain MPI on
//   a private communicator. Reference on rank 0: expected(gid) = reduce(master pre-value, all contributions);
//   the master and every mirror readable at the read location must hold it.
//
// Eligibility / readability are derived from the LOCAL graph each host got, which is what the substrate's
// partition-aware skipping (sync_src_to_dst..., nothingToSend/Recv, isNotCommPartnerCVC) relies on:
//   source      = proxy with local outgoing edges, destination = proxy with local incoming edges,
//   masters are always eligible writers and always checked (their value is the canonical one).
#define VERIF_MAIN_TU
#include "verif.h"

#include "c18_common.h"
#include "c18_field.h"
#include "gr_codec.h"

#include "galois/DTerminationDetector.h"
#include "galois/runtime/Network.h"

#include <mpi.h>
#include <signal.h>
#include <sys/stat.h>
#include <unistd.h>

using namespace verif;
using namespace c18;

namespace {

// ------------------------------------------------------------------ proxy table (identical on every rank)
enum : uint32_t { PF_MASTER = 1, PF_OUT = 2, PF_IN = 4 };
struct Proxy {
  uint64_t gid;
  uint32_t flags;
};
struct ProxyTable {
  unsigned np = 0;
  uint64_t numGlobal = 0;
  std::vector<std::vector<Proxy>> host;                           // [h][lid]
  std::vector<std::vector<std::pair<uint16_t, uint32_t>>> byGid; // gid -> (host, lid), master first
  std::vector<int> counts;                                        // proxies per host
  uint64_t totalProxies = 0, totalMirrors = 0;
};

MPI_Comm g_comm;
int g_rank = 0, g_np = 1;

void die(const std::string& what) {
  fprintf(stderr, "c18 harness error (rank %d): %s\n", g_rank, what.c_str());
  fflush(stderr);
  _exit(2);
}

void buildTable(Graph& g, ProxyTable& T) {
  T.np        = (unsigned)g_np;
  T.numGlobal = g.globalSize();
  uint32_t n  = (uint32_t)g.size();
  std::vector<uint64_t> mine(2 * (size_t)n);
  std::vector<uint8_t> hasIn(n, 0);
  for (uint32_t l = 0; l < n; ++l)
    for (auto e = g.edge_begin(l); e != g.edge_end(l); ++e)
      hasIn[g.getEdgeDst(e)] = 1;
  for (uint32_t l = 0; l < n; ++l) {
    uint64_t gid = g.getGID(l);
    uint32_t f   = 0;
    if (l < g.numMasters())
      f |= PF_MASTER;
    if (g.edge_begin(l) != g.edge_end(l))
      f |= PF_OUT;
    if (hasIn[l])
      f |= PF_IN;
    mine[2 * l]     = gid;
    mine[2 * l + 1] = f;
  }
  int myCount = (int)mine.size();
  std::vector<int> cnt(g_np), dis(g_np);
  MPI_Allgather(&myCount, 1, MPI_INT, cnt.data(), 1, MPI_INT, g_comm);
  size_t tot = 0;
  for (int h = 0; h < g_np; ++h) {
    dis[h] = (int)tot;
    tot += cnt[h];
  }
  std::vector<uint64_t> all(tot);
  MPI_Allgatherv(mine.data(), myCount, MPI_UINT64_T, all.data(), cnt.data(), dis.data(), MPI_UINT64_T, g_comm);
  T.host.assign(g_np, {});
  T.counts.assign(g_np, 0);
  T.byGid.assign(T.numGlobal, {});
  T.totalProxies = T.totalMirrors = 0;
  for (int h = 0; h < g_np; ++h) {
    size_t k = cnt[h] / 2;
    T.host[h].resize(k);
    T.counts[h] = (int)k;
    for (size_t l = 0; l < k; ++l) {
      Proxy p{all[dis[h] + 2 * l], (uint32_t)all[dis[h] + 2 * l + 1]};
      T.host[h][l] = p;
      if (p.gid >= T.numGlobal)
        die("proxy with gid >= globalSize()");
      auto& v = T.byGid[p.gid];
      if (p.flags & PF_MASTER)
        v.insert(v.begin(), {(uint16_t)h, (uint32_t)l});
      else
        v.push_back({(uint16_t)h, (uint32_t)l});
      ++T.totalProxies;
      if (!(p.flags & PF_MASTER))
        ++T.totalMirrors;
    }
  }
}

inline bool eligible(uint32_t flags, unsigned W) {
  if (flags & PF_MASTER)
    return true;
  return W == 0 ? (flags & PF_OUT) != 0 : W == 1 ? (flags & PF_IN) != 0 : true;
}
inline bool readable(uint32_t flags, unsigned R) {
  if (flags & PF_MASTER)
    return true;
  return R == 0 ? (flags & PF_OUT) != 0 : R == 1 ? (flags & PF_IN) != 0 : true;
}

// ------------------------------------------------------------------ value domains (harness-side arithmetic)
struct Val {
  uint64_t w[C18_VECLEN] = {0, 0, 0};
  bool eq(const Val& o, unsigned words) const {
    for (unsigned i = 0; i < words; ++i)
      if (w[i] != o.w[i])
        return false;
    return true;
  }
};
std::string valStr(const Val& v, const FieldVT& F) {
  std::string s;
  for (unsigned i = 0; i < F.words; ++i) {
    if (i)
      s += ";";
    if (F.kind == K_F64) {
      char b[48];
      snprintf(b, sizeof b, "%.17g", w2d(v.w[i]));
      s += b;
    } else
      s += std::to_string(v.w[i]);
  }
  return s;
}
// a (+) b in the field's domain
Val combine(const FieldVT& F, const Val& a, const Val& b) {
  Val r;
  for (unsigned i = 0; i < F.words; ++i) {
    switch (F.red) {
    case R_MIN: r.w[i] = std::min(a.w[i], b.w[i]); break;
    case R_MAX: r.w[i] = std::max(a.w[i], b.w[i]); break;
    case R_ADD:
      if (F.kind == K_F64)
        r.w[i] = d2w(w2d(a.w[i]) + w2d(b.w[i]));
      else if (F.kind == K_U32)
        r.w[i] = (uint32_t)(a.w[i] + b.w[i]);
      else
        r.w[i] = a.w[i] + b.w[i];
      break;
    default: r.w[i] = b.w[i]; break; // set
    }
  }
  return r;
}
Val identityOf(const FieldVT& F) { // what mirrors hold between rounds under the add protocol
  Val r;
  for (unsigned i = 0; i < F.words; ++i)
    r.w[i] = F.kind == K_F64 ? d2w(0.0) : 0;
  return r;
}

// ------------------------------------------------------------------ round configuration and write plan
enum Density : unsigned {
  DN_NONE = 0, DN_ONE, DN_SPARSE, DN_HALF, DN_MOST, DN_ALL, DN_HOSTSKEW, DN_MIRRORS, DN_MASTERS, DN_NODES, NUM_DN
};
const char* dnName(unsigned d) {
  static const char* n[] = {"none", "one", "sparse", "half", "most", "all", "hostskew", "mirrors", "masters", "nodes"};
  return d < NUM_DN ? n[d] : "?";
}
struct RoundCfg {
  unsigned field = 0, W = 0, R = 0;
  bool bitset = true, async = false, cont = false;
  bool denseSet = false; // Reduce_set while every proxy's value travels: identical values at all proxies only
  unsigned density = 0, waves = 1;
  bool consume = false;  // add continuation: the app consumed the values it read (kcore) instead of reset_mirrorField (pagerank)
  uint64_t seed = 0;
};

// candidate decision for one proxy, pure function of (seed, host, gid, flags)
bool candidate(const RoundCfg& c, const ProxyTable& T, unsigned h, const Proxy& p, unsigned skewHost,
               const std::pair<uint16_t, uint32_t>& theOne) {
  if (!eligible(p.flags, c.W))
    return false;
  uint64_t r = mix(mix(c.seed, 0xC18 + h), p.gid);
  switch (c.density) {
  case DN_NONE: return false;
  case DN_ONE: return theOne.first == h && T.host[h][theOne.second].gid == p.gid;
  case DN_SPARSE: return r % 16 == 0;
  case DN_HALF: return r % 2 == 0;
  case DN_MOST: return r % 16 != 0;
  case DN_ALL: return true;
  case DN_HOSTSKEW: return h == skewHost ? true : r % 32 == 0;
  case DN_MIRRORS: return !(p.flags & PF_MASTER);
  case DN_MASTERS: return (p.flags & PF_MASTER) != 0;
  case DN_NODES: return mix(c.seed, p.gid * 31 + 7) % 8 == 0; // per node: all its eligible proxies
  }
  return false;
}

struct LocalWrite {
  uint32_t lid;
  unsigned wave;
  unsigned k; // number of values
  uint64_t vseed;
};

// per-proxy record exchanged after the round
struct Rec {
  Val pre, agg, post;
  uint32_t nwrites = 0, flagged = 0;
};

struct Ctx {
  Harness* H;
  Graph* g;
  Substrate* sub;
  ProxyTable T;
  unsigned threads;
};

// value to write, relative to the proxy's current value `cur` (monotone for min/max so that improvements and
// non-improvements both occur), j-th write of that proxy
Val genValue(const FieldVT& F, const Val& cur, uint64_t vs, unsigned j) {
  Val v;
  for (unsigned i = 0; i < F.words; ++i) {
    uint64_t r = mix(vs, 1000 * j + i);
    switch (F.red) {
    case R_MIN: {
      uint64_t c = cur.w[i];
      if (r % 4 == 0)
        v.w[i] = std::min<uint64_t>(c + (r >> 8) % 3, 0xffffffffu); // equal or worse
      else {
        uint64_t d = 1 + (r >> 8) % 100;
        v.w[i]     = c > d ? c - d : 0;
      }
      break;
    }
    case R_MAX: {
      uint64_t c = cur.w[i];
      if (r % 4 == 0)
        v.w[i] = c - std::min<uint64_t>(c, (r >> 8) % 3);
      else
        v.w[i] = c + 1 + (r >> 8) % 100;
      break;
    }
    case R_ADD:
      if (F.kind == K_F64)
        v.w[i] = d2w((double)((int64_t)((r >> 8) % (1u << 21)) - (1 << 20)));
      else if (F.kind == K_U32)
        v.w[i] = (r >> 8) % 7 == 0 ? 0 : (uint32_t)(r >> 16);
      else
        v.w[i] = (r >> 8) % 7 == 0 ? 0 : (r >> 3);
      break;
    default: v.w[i] = (uint32_t)(r >> 16); break;
    }
  }
  return v;
}

Val genPre(const FieldVT& F, uint64_t seed, uint64_t gid) {
  Val v;
  for (unsigned i = 0; i < F.words; ++i) {
    uint64_t r = mix(mix(seed, 0x9e0 + i), gid);
    switch (F.red) {
    case R_MIN: v.w[i] = r % 4 == 0 ? 0x3fffffffu : 1000 + (r >> 8) % 1000000; break;
    case R_MAX: v.w[i] = r % 4 == 0 ? 0 : (r >> 8) % (1ull << 40); break;
    case R_ADD:
      if (F.kind == K_F64)
        v.w[i] = d2w((double)((int64_t)((r >> 8) % (1u << 31)) - (1 << 30)));
      else if (F.kind == K_U32)
        v.w[i] = (uint32_t)(r >> 8);
      else
        v.w[i] = r;
      break;
    default: v.w[i] = (uint32_t)(r >> 8); break;
    }
  }
  return v;
}

// stale scratch files of dead runs
void sweepScratch(const std::string& dir) {
  DIR* d = opendir(dir.c_str());
  if (!d)
    return;
  while (dirent* e = readdir(d)) {
    long pid = 0;
    if (sscanf(e->d_name, "c18-%ld-", &pid) == 1 && pid > 0 && kill((pid_t)pid, 0) != 0)
      unlink((dir + "/" + e->d_name).c_str());
  }
  closedir(d);
}

PartCall planPartition(unsigned scheme, unsigned dir, unsigned np) {
  // lonestar/libdistbench/include/DistBench/Input.h: constructGraph<iterateOut>, constructSymmetricGraph
  PartCall c{P_NOCOMM, false, false, false};
  if (dir == D_SYM) {
    c.symmetric = true;
    switch (scheme) {
    case S_OEC: case S_IEC: c.policy = P_NOCOMM; break;
    case S_HOVC: case S_HIVC: c.policy = P_HVC; break;
    case S_CVC: case S_CVC_IEC: c.policy = P_CVC; break;
    case S_GINGER_O: case S_GINGER_I: c.policy = P_GINGER; break;
    case S_FENNEL_O: case S_FENNEL_I: c.policy = P_FENNEL; break;
    default: c.policy = P_SUGAR; break;
    }
    return c;
  }
  bool out = dir == D_OUT;
  c.outCSC = !out;
  if (np == 1) { // "1 host = no concept of cut; just load from edgeCut"
    c.policy = P_NOCOMM;
    c.inCSC  = !out; // iterate-in with a transpose file: CSC -> CSC
    return c;
  }
  switch (scheme) {
  case S_OEC: c.policy = P_NOCOMM; c.inCSC = false; break;
  case S_IEC: c.policy = P_NOCOMM; c.inCSC = true; break;
  case S_HOVC: c.policy = P_HVC; c.inCSC = false; break;
  case S_HIVC: c.policy = P_HVC; c.inCSC = true; break;
  case S_CVC: c.policy = out ? P_CVC : P_CVCFLIP; c.inCSC = false; break;
  case S_CVC_IEC: c.policy = out ? P_CVC : P_CVCFLIP; c.inCSC = true; break;
  case S_GINGER_O: c.policy = P_GINGER; c.inCSC = false; break;
  case S_GINGER_I: c.policy = P_GINGER; c.inCSC = true; break;
  case S_FENNEL_O: c.policy = P_FENNEL; c.inCSC = false; break;
  case S_FENNEL_I: c.policy = P_FENNEL; c.inCSC = true; break;
  default: c.policy = out ? P_SUGAR : P_SUGARFLIP; c.inCSC = false; break;
  }
  return c;
}

GraphPtr doPartition(const std::string& f, const std::string& ft, const PartCall& c) {
  switch (c.policy) {
  case P_NOCOMM: return part_nocomm(f, ft, c);
  case P_HVC: return part_hvc(f, ft, c);
  case P_CVC: return part_cvc(f, ft, c);
  case P_CVCFLIP: return part_cvcflip(f, ft, c);
  case P_GINGER: return part_ginger(f, ft, c);
  case P_FENNEL: return part_fennel(f, ft, c);
  case P_SUGAR: return part_sugar(f, ft, c);
  default: return part_sugarflip(f, ft, c);
  }
}

const char* modeName(unsigned m) {
  static const char* n[] = {"auto", "bitset", "offsets", "gids", "dense"};
  return m < 5 ? n[m] : "?";
}

struct Obs {
  uint64_t async_rounds_enforced = 0;
  uint64_t rounds = 0, syncs = 0, async_rounds = 0, async_sync_calls = 0, cont_rounds = 0, nobitset_rounds = 0;
  uint64_t proxies_checked = 0, mirrors_checked = 0, masters_checked = 0, mirrors_not_readable = 0;
  uint64_t writes = 0, written_proxies = 0, written_mirrors = 0, nodes_written = 0, multi_contrib_nodes = 0;
  uint64_t cross_host_updates = 0, unflagged_writes = 0;
  uint64_t net_msgs = 0, net_bytes = 0;
  uint64_t lists[5] = {0, 0, 0, 0, 0}; // mirror lists by the mode the automatic choice selects for their flagged share
  uint64_t reset_mirror_calls = 0, untouched_add_mirrors = 0, consume_rounds = 0, delayed_syncs = 0;
};

} // namespace

int main(int argc, char** argv) {
  Harness H("C18", argc, argv);
  std::string statPath;
  // the end event of the last case is written after the runtime is torn down: Gluon's own MetadataMode statistics
  // (which wire encoding each extracted message used) only become readable then
  long pendingCase = -1;
  std::string pendingSig;
  bool pendingNontrivial = false;
  J pendingObs;
  {
    galois::DistMemSys G;
    auto& net = galois::runtime::getSystemNetworkInterface();
    g_rank    = (int)net.ID;
    g_np      = (int)net.Num;
    if (g_rank != H.mpiRank)
      die("rank of the Galois network differs from OMPI_COMM_WORLD_RANK");
    MPI_Comm_dup(MPI_COMM_WORLD, &g_comm);
    const bool log    = g_rank == 0;
    const unsigned np = (unsigned)g_np;
    const unsigned maxT = galois::substrate::getThreadPool().getMaxThreads();
    const std::string dir = "/var/tmp/c18";
    if (log) {
      mkdir(dir.c_str(), 0777);
      sweepScratch(dir);
    }
    const long ppid        = (long)getppid(); // mpirun: the same on every rank
    statPath               = dir + "/c18-" + std::to_string(ppid) + "-stats.txt";
    galois::runtime::setStatFile(statPath);
    const long onlyScheme  = H.paramInt("scheme", -1);
    const long onlyDir     = H.paramInt("dir", -1);
    const long onlyMode    = H.paramInt("mode", -1);
    const long onlyField   = H.paramInt("field", -1);
    const long onlyAsync   = H.paramInt("async", -1);
    const long maxNodes    = H.paramInt("maxnodes", H.thorough ? 6000 : 2500);
    const long salt        = H.paramInt("salt", 0);
    const long onlyShape   = H.paramInt("shape", -1);
    const long onlyN       = H.paramInt("n", -1);
    const bool streaming   = H.paramInt("streaming", 1) != 0; // ginger/fennel/sugar policies

    for (long k = H.firstCase(); k < H.endCase(); ++k) {
      Rng rng(mix(H.caseSeed(k), (uint64_t)salt));
      // ---------------------------------------------------------------- case parameters (same on all ranks)
      // the six schemes with structure-specific skipping in Gluon; the streaming policies (slow master assignment:
      // 100 state rounds) get one case in six
      unsigned scheme = (unsigned)rng.below(S_GINGER_O);
      if (streaming && rng.chance(1, 6))
        scheme = (unsigned)rng.pick({(int)S_GINGER_O, (int)S_GINGER_I, (int)S_FENNEL_O, (int)S_FENNEL_I, (int)S_SUGAR_O, (int)S_SUGAR_O});
      if (onlyScheme >= 0)
        scheme = (unsigned)onlyScheme;
      unsigned gdir = (unsigned)rng.pick({(int)D_OUT, (int)D_OUT, (int)D_IN, (int)D_IN, (int)D_SYM});
      if (onlyDir >= 0)
        gdir = (unsigned)onlyDir;
      unsigned threads = 1 + (unsigned)rng.below(std::min(maxT, 2u));
      unsigned mode    = rng.chance(2, 5) ? 0u : 1 + (unsigned)rng.below(4); // enforced DataCommMode (0 = automatic)
      if (onlyMode >= 0)
        mode = (unsigned)onlyMode;
      bool agnostic = rng.chance(1, 8);
      // graph
      ref::Shape shape;
      do
        shape = (ref::Shape)rng.below((unsigned)ref::Shape::NumShapes);
      while (shape == ref::Shape::Empty);
      uint64_t n;
      switch (rng.below(8)) {
      case 0: n = np + rng.below(8); break;
      case 1: case 2: n = np + rng.below(64); break;
      case 3: case 4: case 5: n = 16 + rng.below(600); break;
      default: n = 1100 + rng.below((uint64_t)std::max<long>(maxNodes - 1100, 1)); break; // > GenericHVC's 1000-edge threshold possible
      }
      uint64_t gseed = rng.next();
      if (onlyShape >= 0)
        shape = (ref::Shape)onlyShape;
      if (onlyN >= 0)
        n = (uint64_t)onlyN;
      unsigned nrounds = 3 + (unsigned)rng.below(H.thorough ? 10 : 6);
      uint64_t rseed   = rng.next();

      ref::RefGraph G0 = ref::gen_shape(gseed, shape, n);
      // fewer nodes than hosts is C19's subject, not ours
      if (G0.numNodes < np) {
        G0    = ref::gen_shape(gseed, ref::Shape::Cycle, std::max<uint64_t>(np + 1, std::min<uint64_t>(n, 300)));
        shape = ref::Shape::Cycle;
      }
      if (gdir == D_SYM) {
        ref::RefGraph t = ref::transpose(G0);
        for (uint64_t s = 0; s < G0.numNodes; ++s)
          for (auto& e : t.adj[s])
            G0.adj[s].push_back(e);
      }
      const uint64_t N = G0.numNodes, M = G0.numEdges();
      PartCall pc = planPartition(scheme, gdir, np);
      DataCommMode enforced = mode == 0 ? noData : mode == 1 ? bitsetData : mode == 2 ? offsetsData : mode == 3 ? gidsData : onlyData;

      std::string comp = std::string("sync/") + schemeName(scheme) + "-" + dirName(gdir);
      H.hangKey        = "C18:" + comp + ":hang";
      if (log)
        H.begin(k, J().kv("component", comp).kv("scheme", schemeName(scheme)).kv("iterate", dirName(gdir))
                       .kv("policy", policyName(pc.policy)).kv("inCSC", pc.inCSC).kv("outCSC", pc.outCSC)
                       .kv("symmetric", pc.symmetric).kv("hosts", np).kv("threads", threads)
                       .kv("enforcedMode", modeName(mode)).kv("partitionAgnostic", agnostic)
                       .kv("shape", ref::shapeName(shape)).kv("nodes", N).kv("edges", M).kv("gseed", gseed)
                       .kv("rounds", nrounds).str());
      // ---------------------------------------------------------------- files
      std::string fG  = dir + "/c18-" + std::to_string(ppid) + "-" + std::to_string(k) + ".gr";
      std::string fGT = dir + "/c18-" + std::to_string(ppid) + "-" + std::to_string(k) + ".tgr";
      if (log) {
        ref::write_gr(fG, G0, 1, 0);
        ref::write_gr(fGT, ref::transpose(G0), 1, 0);
      }
      MPI_Barrier(g_comm);
      galois::setActiveThreads(threads);

      Obs O;
      std::string roundSig;
      bool vertexCut = false, transposed = false;
      std::pair<unsigned, unsigned> grid{0, 0};
      uint64_t totalMirrors = 0;
      double tPart = 0, tSub = 0, tRounds = 0;
      {
        // ---------------------------------------------------------------- partition + substrate (Start.h)
        double t0  = now_s();
        GraphPtr g = doPartition(fG, fGT, pc);
        progress();
        double t1 = now_s();
        Substrate sub(*g, net.ID, net.Num, g->isTransposed(), g->cartesianGrid(), agnostic, enforced);
        progress();
        double t2 = now_s();
        tPart = t1 - t0;
        tSub  = t2 - t1;
        vertexCut  = g->is_vertex_cut();
        transposed = g->isTransposed();
        grid       = g->cartesianGrid();
        ProxyTable T;
        buildTable(*g, T);
        totalMirrors     = T.totalMirrors;
        const uint32_t nl = (uint32_t)g->size();
        // every node must have exactly one master (else the reference below is meaningless: C19's subject)
        bool structureOK = true;
        for (uint64_t gid = 0; gid < T.numGlobal && structureOK; ++gid) {
          auto& v = T.byGid[gid];
          if (v.empty() || !(T.host[v[0].first][v[0].second].flags & PF_MASTER) ||
              (v.size() > 1 && (T.host[v[1].first][v[1].second].flags & PF_MASTER)))
            structureOK = false;
        }
        if (T.numGlobal != N)
          structureOK = false;
        // bitsets / external arrays sized like the apps do after graph construction
        for (unsigned f = 0; f < NUM_FIELDS; ++f)
          fieldVT(f).bitset->resize(nl);
        a_min.assign(nl, 0);
        a_add.assign(nl, 0);
        a_set.assign(nl, 0);
        {
          uint64_t z[C18_VECLEN] = {d2w(0.0), d2w(0.0), d2w(0.0)};
          for (uint32_t l = 0; l < nl; ++l)
            vt_f_vec.store(*g, l, z);
        }

        // mirror lists (local ids after substrate construction), for the automatic-mode prediction
        auto& mirrorLists = g->getMirrorNodes();

        RoundCfg prev;
        bool prevOK = false;
        std::vector<uint64_t> lastExpected; // [gid * words + i] of the previous round (all ranks)
        double t3   = now_s();
        for (unsigned rd = 0; rd < nrounds && structureOK; ++rd) {
          // -------------------------------------------------------------- round configuration
          Rng rr(mix(rseed, rd));
          RoundCfg c;
          c.seed = rr.next();
          c.cont = rd > 0 && prevOK && rr.chance(2, 5);
          if (c.cont) {
            c        = prev;
            c.cont   = true;
            c.seed   = rr.next();
          } else {
            c.field = (unsigned)rr.below(NUM_FIELDS);
            if (onlyField >= 0)
              c.field = (unsigned)onlyField;
            c.W      = (unsigned)rr.below(3);
            c.R      = (unsigned)rr.below(3);
            c.bitset = !rr.chance(1, 4);
            c.async  = false;
          }
          const FieldVT& F = fieldVT(c.field);
          if (!c.cont) {
            // asynchronous execution: bitset, idempotent reductions; automatic or enforced bitset/offsets/gids metadata
            // (enforced onlyData sends every value on every call by design: such a phase is never quiescent)
            const bool modeOK = mode != 4;
            if (c.bitset && F.asyncOK && modeOK && rr.chance(1, 3))
              c.async = true;
            if (onlyAsync >= 0)
              c.async = onlyAsync && c.bitset && F.asyncOK && modeOK;
          }
          c.density = (unsigned)rr.below(NUM_DN);
          if (rr.chance(1, 6))
            c.density = DN_ALL;
          c.waves    = c.async ? 1 + (unsigned)rr.below(3) : 1;
          c.denseSet = F.red == R_SET && (!c.bitset || mode == 4);
          if (c.denseSet)
            c.W = 2; // identical value at ALL proxies of a node: only writeAny makes every proxy an eligible writer
          if (F.red == R_SET && c.async)
            c.waves = 1;
          const unsigned words = F.words;
          const std::string loop = std::string("c18_") + F.name;

          // -------------------------------------------------------------- pre-state
          std::vector<Rec> rec(nl);
          if (!c.cont) {
            // re-initialisation as between the runs of an app: every proxy computes the same initial value
            // (add protocol: mirrors hold the identity); bitsets reset
            for (unsigned f = 0; f < NUM_FIELDS; ++f)
              fieldVT(f).bitset->reset();
            Val id = identityOf(F);
            for (uint32_t l = 0; l < nl; ++l) {
              const Proxy& p = T.host[g_rank][l];
              Val v          = (F.red == R_ADD && !(p.flags & PF_MASTER)) ? id : genPre(F, c.seed, p.gid);
              F.store(*g, l, v.w);
            }
          } else if (F.red == R_ADD) {
            c.consume = rr.chance(1, 2);
            if (!c.consume) {
              // what pagerank does every round: mirrors back to the reduction identity
              F.resetMirrors(sub);
              ++O.reset_mirror_calls;
            } else {
              // what kcore does: the operator consumes (zeroes) the value at every proxy it reads; mirrors it does
              // not read are at the identity because the reduce extraction reset them (SyncStructures reset()).
              // A mirror that is not readable but got the broadcast holds the reduced value: vertex-cut apps iterate
              // it too, so it is consumed as well. Anything else is left as the library left it.
              Val id = identityOf(F);
              for (uint32_t l = 0; l < nl; ++l) {
                const Proxy& p = T.host[g_rank][l];
                Val cur, ex;
                F.load(*g, l, cur.w);
                for (unsigned i = 0; i < F.words; ++i)
                  ex.w[i] = lastExpected[p.gid * F.words + i];
                if ((p.flags & PF_MASTER) || readable(p.flags, c.R) || cur.eq(ex, F.words))
                  F.store(*g, l, id.w);
              }
              ++O.consume_rounds;
            }
          }
          for (uint32_t l = 0; l < nl; ++l)
            F.load(*g, l, rec[l].pre.w);

          // -------------------------------------------------------------- write plan (deterministic, global view)
          unsigned skewHost = (unsigned)(mix(c.seed, 77) % np);
          std::pair<uint16_t, uint32_t> theOne{0xffff, 0};
          if (c.density == DN_ONE) {
            uint64_t best = ~0ull;
            for (unsigned h = 0; h < np; ++h)
              for (uint32_t l = 0; l < T.host[h].size(); ++l)
                if (eligible(T.host[h][l].flags, c.W)) {
                  uint64_t r = mix(mix(c.seed, 0x0e1 + h), T.host[h][l].gid);
                  if (r < best) {
                    best   = r;
                    theOne = {(uint16_t)h, l};
                  }
                }
          }
          auto isCand = [&](unsigned h, uint32_t l) { return candidate(c, T, h, T.host[h][l], skewHost, theOne); };
          std::vector<LocalWrite> plan;
          for (uint32_t l = 0; l < nl; ++l) {
            const Proxy& p = T.host[g_rank][l];
            bool w;
            if (c.denseSet) {
              // node-level choice, every proxy of the node writes the same value
              uint64_t r = mix(c.seed, p.gid * 131 + 5);
              w = c.density == DN_NONE ? false : c.density == DN_ALL ? true : c.density == DN_ONE ? p.gid == (c.seed % N) : r % 3 == 0;
            } else {
              w = isCand((unsigned)g_rank, l);
              if (w && F.red == R_SET) {
                // single writer per node: the candidate proxy with the smallest hash
                uint64_t mineH = mix(mix(c.seed, 0x5e7 + g_rank), p.gid);
                for (auto& hl : T.byGid[p.gid]) {
                  if (hl.first == g_rank)
                    continue;
                  if (isCand(hl.first, hl.second)) {
                    uint64_t o = mix(mix(c.seed, 0x5e7 + hl.first), p.gid);
                    if (o < mineH || (o == mineH && hl.first < (unsigned)g_rank))
                      w = false;
                  }
                }
              }
            }
            if (!w)
              continue;
            LocalWrite lw;
            lw.lid   = l;
            uint64_t r = mix(mix(c.seed, 0xabc + g_rank), p.gid);
            lw.wave  = (unsigned)(r % c.waves);
            lw.k     = (F.red == R_SET) ? 1 : ((r >> 8) % 4 == 0 ? 2 + (unsigned)((r >> 16) % 2) : 1);
            lw.vseed = c.denseSet ? mix(c.seed, p.gid) : mix(r, 0x77);
            plan.push_back(lw);
          }

          // automatic-mode prediction for the reduce messages: per non-empty mirror list, flagged share
          auto doWrites = [&](unsigned wave) {
            // like an operator: parallel over the proxies to update; values relative to the current local value
            galois::do_all(
                galois::iterate(size_t{0}, plan.size()),
                [&](size_t i) {
                  const LocalWrite& lw = plan[i];
                  if (lw.wave != wave)
                    return;
                  Rec& r = rec[lw.lid];
                  for (unsigned j = 0; j < lw.k; ++j) {
                    Val cur;
                    F.load(*g, lw.lid, cur.w);
                    Val v   = genValue(F, cur, lw.vseed, j);
                    bool fl = F.write(*g, lw.lid, v.w, c.bitset);
                    r.agg   = r.nwrites == 0 ? v : combine(F, r.agg, v);
                    ++r.nwrites;
                    if (fl)
                      r.flagged = 1;
                  }
                },
                galois::no_stats());
          };

          // message arrival order between hosts: one host enters the sync late
          unsigned delayUs = rr.chance(1, 3) ? (unsigned)rr.pick({200, 1000, 3000}) : 0, delayHost = (unsigned)rr.below(np);
          if (delayUs)
            ++O.delayed_syncs;
          unsigned long msgs0 = net.reportSendMsgs(), bytes0 = net.reportSendBytes();
          unsigned iterations = 0;
          int verdictAsync    = 1;
          if (!c.async) {
            doWrites(0);
            if (c.bitset && mode == 0) {
              for (unsigned x = 0; x < np; ++x) {
                auto& lst = mirrorLists[x];
                if (x == (unsigned)g_rank || lst.empty())
                  continue;
                size_t sel = 0;
                for (size_t lid : lst)
                  if (F.bitset->test(lid))
                    ++sel;
                DataCommMode dm = get_data_mode<uint32_t>(sel, lst.size());
                ++O.lists[dm == noData ? 0 : dm == bitsetData ? 1 : dm == offsetsData ? 2 : dm == gidsData ? 3 : 4];
              }
            }
            progress();
            if (delayUs && (unsigned)g_rank == delayHost)
              sleep_us(delayUs);
            F.sync(sub, c.W, c.R, c.bitset, false, loop);
            ++O.syncs;
          } else {
            // the apps' bulk-asynchronous loop (bfs_push.cpp BFS<async>::go): work, sync<..., async>, until the
            // distributed terminator reports global quiescence
            galois::DGTerminator<unsigned int> dga;
            // Logical bound on this host's sends in one asynchronous phase: a call only sends when a bit is set; bits
            // are set by the harness' writes (<= 3 per proxy) and by a reduce that strictly improves a master (at most
            // once per value ever written to that node; set: once per marked mirror) and are cleared by the send. So
            // the calls that send are <= 6 x all proxies, each sends <= 2 x (hosts-1) messages. Far beyond that the
            // substrate re-sends without any update: the phase can never become quiescent.
            const unsigned long sendBound = 64ul * np * (T.totalProxies + 64);
            unsigned notices = 0;
            bool resendReported = false;
            do {
              dga.reset();
              if (iterations < c.waves) {
                doWrites(iterations);
                dga += 1;
              }
              if (delayUs && (unsigned)g_rank == delayHost && (iterations & 1))
                sleep_us(delayUs / 4);
              F.sync(sub, c.W, c.R, true, true, loop);
              ++iterations;
              ++O.async_sync_calls;
              progress();
              // ---- logical liveness verdict (no wall clock): see sendBound above. Every rank tells rank 0 (plain MPI,
              // private communicator) when it passes the bound and again at 8 x the bound; rank 0 records the
              // violation at the first notice and gives the phase up at the second (exit code 3 = liveness
              // violation already recorded, the driver goes on with the next case).
              {
                unsigned long sent = net.reportSendMsgs() - msgs0;
                unsigned long note[3] = {0, sent, (unsigned long)iterations};
                if (notices < 1 && sent > sendBound)
                  note[0] = 1;
                else if (notices < 2 && sent > 8 * sendBound)
                  note[0] = 2;
                int who = g_rank;
                if (note[0] && !log) {
                  MPI_Send(note, 3, MPI_UNSIGNED_LONG, 0, 18, g_comm);
                  ++notices;
                  note[0] = 0;
                }
                if (log) {
                  if (note[0])
                    ++notices;
                  else {
                    int flag = 0;
                    MPI_Status st;
                    MPI_Iprobe(MPI_ANY_SOURCE, 18, g_comm, &flag, &st);
                    if (flag) {
                      MPI_Recv(note, 3, MPI_UNSIGNED_LONG, st.MPI_SOURCE, 18, g_comm, MPI_STATUS_IGNORE);
                      who = st.MPI_SOURCE;
                    }
                  }
                  if (note[0] >= 1 && !resendReported) {
                    resendReported = true;
                    verdictAsync   = 0;
                    H.violation(std::string("C18:sync:async-resends-without-updates:") + (mode == 0 ? "auto" : "enforced-metadata-mode"),
                                J().kv("round", rd).kv("field", F.name).kv("reduction", redName(F.red)).kv("enforcedMode", modeName(mode))
                                    .kv("write", wlocName(c.W)).kv("read", rlocName(c.R)).kv("host", who).kv("messages_sent", (uint64_t)note[1]).kv("bound", (uint64_t)sendBound)
                                    .kv("sync_calls", (uint64_t)note[2])
                                    .kv("what", "asynchronous sync keeps sending messages although no value can change any more: "
                                                "the phase cannot become quiescent").str());
                  }
                  if (note[0] >= 2) {
                    fflush(H.out);
                    fprintf(stderr, "c18_gluon: giving up the asynchronous phase of case %ld round %u (rank %d sent %lu messages, bound %lu)\n",
                            k, rd, who, note[1], sendBound);
                    _exit(3);
                  }
                }
              }
            } while (dga.reduce(sub.get_run_identifier()));
            ++O.async_rounds;
            if (mode != 0)
              ++O.async_rounds_enforced;
            MPI_Barrier(g_comm); // DTerminationDetector.h: "caller will call getHostBarrier().wait() if required"
            if (log) { // notices that arrived after rank 0 left the loop
              int flag = 1;
              while (flag) {
                MPI_Status st;
                MPI_Iprobe(MPI_ANY_SOURCE, 18, g_comm, &flag, &st);
                if (flag) {
                  unsigned long note[3];
                  MPI_Recv(note, 3, MPI_UNSIGNED_LONG, st.MPI_SOURCE, 18, g_comm, MPI_STATUS_IGNORE);
                  if (!resendReported) {
                    resendReported = true;
                    verdictAsync   = 0;
                    H.violation(std::string("C18:sync:async-resends-without-updates:") + (mode == 0 ? "auto" : "enforced-metadata-mode"),
                                J().kv("round", rd).kv("field", F.name).kv("host", (int)st.MPI_SOURCE)
                                    .kv("messages_sent", (uint64_t)note[1]).kv("bound", (uint64_t)sendBound)
                                    .kv("what", "asynchronous sync sent far more messages than updates existed").str());
                  }
                }
              }
            }
          }
          progress();
          O.net_msgs += net.reportSendMsgs() - msgs0;
          O.net_bytes += net.reportSendBytes() - bytes0;
          for (uint32_t l = 0; l < nl; ++l)
            F.load(*g, l, rec[l].post.w);

          // -------------------------------------------------------------- gather
          const unsigned RW = 3 * words + 1;
          std::vector<uint64_t> mine((size_t)nl * RW);
          for (uint32_t l = 0; l < nl; ++l) {
            uint64_t* q = &mine[(size_t)l * RW];
            for (unsigned i = 0; i < words; ++i) {
              q[i]             = rec[l].pre.w[i];
              q[words + i]     = rec[l].agg.w[i];
              q[2 * words + i] = rec[l].post.w[i];
            }
            q[3 * words] = ((uint64_t)rec[l].nwrites << 1) | rec[l].flagged;
          }
          std::vector<int> cnt(np), dis(np);
          size_t tot = 0;
          for (unsigned h = 0; h < np; ++h) {
            cnt[h] = T.counts[h] * (int)RW;
            dis[h] = (int)tot;
            tot += cnt[h];
          }
          std::vector<uint64_t> all(log ? tot : 0);
          MPI_Gatherv(mine.data(), (int)mine.size(), MPI_UINT64_T, all.data(), cnt.data(), dis.data(), MPI_UINT64_T, 0, g_comm);

          // -------------------------------------------------------------- reference oracle (rank 0)
          int verdict = 1;
          lastExpected.assign((size_t)N * words, 0);
          if (log) {
            auto recOf = [&](unsigned h, uint32_t l) {
              Rec r;
              const uint64_t* q = &all[dis[h] + (size_t)l * RW];
              for (unsigned i = 0; i < words; ++i) {
                r.pre.w[i]  = q[i];
                r.agg.w[i]  = q[words + i];
                r.post.w[i] = q[2 * words + i];
              }
              r.nwrites = (uint32_t)(q[3 * words] >> 1);
              r.flagged = (uint32_t)(q[3 * words] & 1);
              return r;
            };
            unsigned reported = 0, resetReported = 0;
            for (uint64_t gid = 0; gid < N; ++gid) {
              auto& px  = T.byGid[gid];
              Rec mrec  = recOf(px[0].first, px[0].second);
              Val expected = mrec.pre;
              unsigned contributors = 0;
              bool mirrorContribution = false;
              uint64_t nw = 0;
              for (size_t i = 0; i < px.size(); ++i) {
                Rec r         = i == 0 ? mrec : recOf(px[i].first, px[i].second);
                uint32_t fl   = T.host[px[i].first][px[i].second].flags;
                // harness self-check of the protocol pre-state
                if (!c.cont) {
                  bool okPre = (F.red == R_ADD && i > 0) ? r.pre.eq(identityOf(F), words) : r.pre.eq(genPre(F, c.seed, gid), words);
                  if (!okPre)
                    die("pre-state not established at gid " + std::to_string(gid));
                } else if (i > 0 && F.red == R_ADD) {
                  if (!c.consume && !r.pre.eq(identityOf(F), words)) { // reset_mirrorField<Reduce_add_...>() did not do what its name says
                    verdict = 0;
                    if (resetReported++ == 0)
                      H.violation("C18:reset_mirrorField:mirror-not-identity",
                                  J().kv("round", rd).kv("field", F.name).kv("gid", gid).kv("host", (unsigned)px[i].first)
                                      .kv("found", valStr(r.pre, F)).str());
                  }
                } else if (i > 0 && readable(fl, c.R) && !r.pre.eq(mrec.pre, words))
                  die("continuation round: readable proxy of gid " + std::to_string(gid) + " disagrees with its master before the round");
                if (r.nwrites) {
                  if (!eligible(fl, c.W))
                    die("plan wrote a proxy that is not eligible");
                  expected = combine(F, expected, r.agg);
                  ++contributors;
                  nw += r.nwrites;
                  if (i > 0) {
                    mirrorContribution = true;
                    ++O.written_mirrors;
                  }
                  ++O.written_proxies;
                  if (!r.flagged)
                    ++O.unflagged_writes;
                }
              }
              for (unsigned i = 0; i < words; ++i)
                lastExpected[gid * words + i] = expected.w[i];
              O.writes += nw;
              if (contributors) {
                ++O.nodes_written;
                if (contributors > 1)
                  ++O.multi_contrib_nodes;
              }
              for (size_t i = 0; i < px.size(); ++i) {
                Rec r       = i == 0 ? mrec : recOf(px[i].first, px[i].second);
                uint32_t fl = T.host[px[i].first][px[i].second].flags;
                if (i > 0 && !readable(fl, c.R)) {
                  ++O.mirrors_not_readable;
                  continue;
                }
                ++O.proxies_checked;
                if (i == 0)
                  ++O.masters_checked;
                else
                  ++O.mirrors_checked;
                // an update that crossed hosts and is visible here
                if (i == 0 ? mirrorContribution && !expected.eq(r.pre, words)
                           : contributors > (r.nwrites ? 1u : 0u) && !r.post.eq(r.pre, words))
                  ++O.cross_host_updates;
                if (r.post.eq(expected, words))
                  continue;
                // add protocol: the mirrors of a node nobody touched hold the identity; nothing about that node is
                // flagged, so nothing travels unless every value does. Such a mirror may keep the identity.
                if (i > 0 && F.red == R_ADD && contributors == 0 && r.post.eq(r.pre, words)) {
                  ++O.untouched_add_mirrors;
                  continue;
                }
                verdict = 0;
                if (reported++ >= 3)
                  continue;
                // witness: all proxies of the node
                std::string pxs = "[";
                for (size_t j = 0; j < px.size(); ++j) {
                  Rec q       = recOf(px[j].first, px[j].second);
                  uint32_t f2 = T.host[px[j].first][px[j].second].flags;
                  if (j)
                    pxs += ",";
                  pxs += J().kv("host", (unsigned)px[j].first).kv("lid", px[j].second).kv("master", (f2 & PF_MASTER) != 0)
                             .kv("hasOut", (f2 & PF_OUT) != 0).kv("hasIn", (f2 & PF_IN) != 0)
                             .kv("eligibleWriter", eligible(f2, c.W)).kv("readable", readable(f2, c.R))
                             .kv("pre", valStr(q.pre, F)).kv("writes", q.nwrites).kv("marked", q.flagged != 0)
                             .kv("contribution", q.nwrites ? valStr(q.agg, F) : std::string("-"))
                             .kv("post", valStr(q.post, F)).str();
                }
                pxs += "]";
                std::string cls = vertexCut ? (grid.first ? "cartesian-vertex-cut" : "vertex-cut") : "edge-cut";
                std::string enc = !c.bitset ? "nobitset" : modeName(mode);
                std::string key = std::string("C18:sync:") + (i == 0 ? "master-not-reduced" : "mirror-disagrees") + ":" +
                                  redName(F.red) + ":" + cls + (transposed ? "-transposed" : "") + ":" + enc +
                                  (c.async ? ":async" : "") + (agnostic ? ":agnostic" : "");
                H.violation(key, J().kv("round", rd).kv("field", F.name).kv("structure", F.structure)
                                     .kv("write", wlocName(c.W)).kv("read", rlocName(c.R)).kv("bitset", c.bitset)
                                     .kv("async", c.async).kv("continuation", c.cont).kv("density", dnName(c.density))
                                     .kv("gid", gid).kv("bad_host", (unsigned)px[i].first).kv("bad_is_master", i == 0)
                                     .kv("expected", valStr(expected, F)).kv("found", valStr(r.post, F))
                                     .kv("is_vertex_cut", vertexCut).kv("transposed", transposed)
                                     .kv("grid_rows", grid.first).kv("grid_cols", grid.second)
                                     .raw("proxies", pxs).str());
              }
            }
          }
          if (!verdictAsync)
            verdict = 0;
          MPI_Bcast(&verdict, 1, MPI_INT, 0, g_comm);
          MPI_Bcast(lastExpected.data(), (int)lastExpected.size(), MPI_UINT64_T, 0, g_comm);
          ++O.rounds;
          if (c.cont)
            ++O.cont_rounds;
          if (!c.bitset)
            ++O.nobitset_rounds;
          prev   = c;
          prevOK = verdict == 1;
          roundSig += std::string(rd ? "," : "") + F.name + "." + "sda"[c.W] + "sda"[c.R] + (c.bitset ? "b" : "n") +
                      (c.async ? "A" : "") + (c.cont ? (c.consume ? "k" : "c") : "") + "." + dnName(c.density);
          progress();
        }
        tRounds = now_s() - t3;
        if (!structureOK && log)
          H.note("skipped", J().kv("why", "partition without exactly one master per node (C19's subject)").str());
        MPI_Barrier(g_comm);
      } // substrate, graph destroyed
      MPI_Barrier(g_comm);
      if (log) {
        unlink(fG.c_str());
        unlink(fGT.c_str());
        std::string cls = vertexCut ? (grid.first ? "cvc" : "vc") : "ec";
        std::string sig = std::string(schemeName(scheme)) + "|" + dirName(gdir) + "|np" + std::to_string(np) + "|t" +
                          std::to_string(threads) + "|" + modeName(mode) + (agnostic ? "|ag" : "") + "|" + roundSig;
        bool nontrivial = np >= 2 && O.cross_host_updates > 0;
        J o;
        o.kv("rounds", O.rounds).kv("bsp_syncs", O.syncs).kv("async_rounds", O.async_rounds).kv("async_rounds_enforced_mode", O.async_rounds_enforced)
            .kv("async_sync_calls", O.async_sync_calls).kv("continuation_rounds", O.cont_rounds)
            .kv("nobitset_rounds", O.nobitset_rounds).kv("proxies_checked", O.proxies_checked)
            .kv("masters_checked", O.masters_checked).kv("mirrors_checked", O.mirrors_checked)
            .kv("mirrors_not_readable", O.mirrors_not_readable).kv("writes", O.writes)
            .kv("written_proxies", O.written_proxies).kv("written_mirrors", O.written_mirrors)
            .kv("unmarked_writes", O.unflagged_writes).kv("nodes_written", O.nodes_written)
            .kv("multi_contribution_nodes", O.multi_contrib_nodes).kv("cross_host_updates", O.cross_host_updates)
            .kv("rank0_net_msgs", O.net_msgs).kv("rank0_net_bytes", O.net_bytes)
            .kv("reset_mirrorField_calls", O.reset_mirror_calls).kv("add_consume_rounds", O.consume_rounds).kv("delayed_host_syncs", O.delayed_syncs).kv("untouched_add_mirrors_at_identity", O.untouched_add_mirrors).kv("mirror_proxies", totalMirrors)
            .kv(("rounds_mode_" + std::string(modeName(mode))).c_str(), O.rounds)
            .kv("rank0_auto_lists_none", O.lists[0]).kv("rank0_auto_lists_bitset", O.lists[1])
            .kv("rank0_auto_lists_offsets", O.lists[2]).kv("rank0_auto_lists_dense", O.lists[4])
            .kv((std::string("cases_") + cls + (transposed ? "_transposed" : "")).c_str(), 1)
            .kv((std::string("cases_np") + std::to_string(np)).c_str(), 1)
            .kv((std::string("cases_policy_") + policyName(pc.policy)).c_str(), 1)
            .kv("cases_agnostic", (int)agnostic).kv("cases_edgeless_streaming_policy", (int)(M == 0 && scheme >= S_GINGER_O))
            .kv(("async_rounds_mode_" + std::string(modeName(mode))).c_str(), O.async_rounds).kv("partition_wall_s", tPart).kv("substrate_wall_s", tSub)
            .kv("rounds_wall_s", tRounds);
        if (k + 1 == H.endCase()) {
          pendingCase       = k;
          pendingSig        = sig;
          pendingNontrivial = nontrivial;
          pendingObs        = o;
        } else
          H.end(k, sig, nontrivial, o.str());
      }
    }
    MPI_Barrier(g_comm);
    MPI_Comm_free(&g_comm);
  }
  if (pendingCase >= 0) {
    // STAT, 0, Gluon, ReduceMetadataMode_<DataCommMode>_c18_<field>_0, HOST_0, <messages extracted by host 0>
    uint64_t built[2][5] = {{0, 0, 0, 0, 0}, {0, 0, 0, 0, 0}};
    if (FILE* f = fopen(statPath.c_str(), "r")) {
      char line[1024];
      while (fgets(line, sizeof line, f)) {
        const char* p;
        int ph = 0;
        if ((p = strstr(line, "ReduceMetadataMode_")))
          p += 19;
        else if ((p = strstr(line, "BroadcastMetadataMode_"))) {
          p += 22;
          ph = 1;
        } else
          continue;
        int m            = atoi(p);
        const char* last = strrchr(line, ',');
        if (m >= 0 && m < 5 && last)
          built[ph][m] += strtoull(last + 1, nullptr, 10);
      }
      fclose(f);
      unlink(statPath.c_str());
    }
    static const char* mn[] = {"none", "bitset", "offsets", "gids", "dense"};
    for (int ph = 0; ph < 2; ++ph)
      for (int m = 0; m < 5; ++m)
        pendingObs.kv((std::string("rank0_built_") + (ph ? "broadcast_" : "reduce_") + mn[m]).c_str(), built[ph][m]);
    H.end(pendingCase, pendingSig, pendingNontrivial, pendingObs.str());
  }
  return 0;
}
