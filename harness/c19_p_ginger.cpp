// C19 — instantiation of cuspPartitionGraph<GingerP, char, void|uint32_t> (see c19_extract.h)
#include "c19_extract.h"
void c19::run_ginger(const CaseArgs& a, std::vector<uint64_t>& out) { runCusp<GingerP>(a, out); }
