// C11: inline family, representative subset of the template matrix (quick + thorough)
#include "c11_fam_inline.h"

namespace c11 {

void registerInline() {
  regInl<Inl<void>>("lock");
  regInl<Inl<void, false, false, false, true>>("lock+compressed");
  regInl<Inl<uint32_t>>("lock");
  regInl<Inl<uint32_t, false, false, false, true>>("lock+compressed");
  regInl<Inl<uint64_t, true, true>>("nolock+numa");
  regInl<Inl<E12, false, true, true, true>>("ool+numa+compressed");
  regInl<Inl<float, false, false, true>>("ool");
  regInl<Inl<void, true, true, false, true, void>>("nolock+numa+compressed+voidnode");
}

} // namespace c11
