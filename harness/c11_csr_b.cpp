// C11: LC_CSR_Graph, edge data uint64 / float / 12-byte struct
#include "c11_csr_ops.h"
namespace c11 {
void registerCsrB() {
  regCsr<Csr<uint64_t, false, false, false>>("lock", O_READ | O_TRANSPOSE | O_SORTDATA | O_VECTORS | O_UNWEIGHTED);
  regCsr<Csr<float, false, false, false>>("lock", O_READ | O_TRANSPOSE | O_SORTDATA | O_GRFILE | O_PODVEC);
  regCsr<Csr<E12, false, false, false>>("lock", O_READ | O_TRANSPOSE | O_SORTDST | O_SORTDATA | O_MANUAL | O_GRFILE | O_FIND);
  regCsr<Csr<E12, false, true, true>>("ool+numa", O_CORE);
}
} // namespace c11
