// C18 — cuspPartitionGraph<GenericCVCColumnFlip, NodeData, void> (see c18_part.h)
#include "c18_part.h"
c18::GraphPtr c18::part_cvcflip(const std::string& f, const std::string& ft, const c18::PartCall& c) {
  return c18_partition<GenericCVCColumnFlip>(f, ft, c);
}
