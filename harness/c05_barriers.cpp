// C05 — barriers separate phases, never deadlock, are reusable and re-initialisable.
//
// Oracle: thread i stores entered[i]=k (relaxed) before its k-th wait(); after
// wait() returns it reads every entered[j] and demands >= k. Liveness: hang
// monitor (logical: no progress + every thread blocked or spinning).
#define VERIF_MAIN_TU
#include "verif.h"

#include "galois/Galois.h"
#include "galois/substrate/Barrier.h"
#include "galois/runtime/Substrate.h"

using namespace verif;
namespace gs = galois::substrate;

struct alignas(128) Slot {
  std::atomic<uint64_t> entered{0};
  uint64_t aheadSeen   = 0; // observed entered[j] > k (j already in a later phase)
  uint64_t firstEarly  = 0; // phase of first violation seen by this thread (0 = none)
  unsigned earlyOther  = 0;
  uint64_t earlyValue  = 0;
  // plain payload for the TSan pass (C06 edge "barrier arrival -> departure")
  uint64_t payload     = 0;
  uint64_t payloadBad  = 0;
};

static const char* IMPLS[] = {"Topo", "Counting", "MCS", "Dissemination", "Pthread", "Simple", "System"};

static std::unique_ptr<gs::Barrier> make(unsigned impl, unsigned n) {
  switch (impl) {
  case 0: return gs::createTopoBarrier(n);
  case 1: return gs::createCountingBarrier(n);
  case 2: return gs::createMCSBarrier(n);
  case 3: return gs::createDisseminationBarrier(n);
  case 4: return gs::createPthreadBarrier(n);
  case 5: return gs::createSimpleBarrier(n);
  }
  return nullptr;
}

int main(int argc, char** argv) {
  Harness H("C05", argc, argv);
  galois::SharedMemSys G;
  auto& tp       = gs::getThreadPool();
  unsigned maxT  = tp.getMaxThreads();
  unsigned nsock = tp.getMaxSockets();
  long onlyImpl  = H.paramInt("impl", -1);
  std::vector<Slot> slots(maxT);
#if VERIF_TSAN
  register_payload(slots.data(), slots.size() * sizeof(Slot), "barrier-payload");
#endif

  for (long k = H.firstCase(); k < H.endCase(); ++k) {
    Rng rng(H.caseSeed(k));
    unsigned impl = onlyImpl >= 0 ? (unsigned)onlyImpl : (unsigned)rng.below(7);
    // participant counts for up to three consecutive regions (reinit between)
    unsigned nregions = 1 + (unsigned)rng.below(3);
    std::vector<unsigned> ns;
    for (unsigned r = 0; r < nregions; ++r) {
      unsigned n;
      switch (rng.below(6)) {
      case 0: n = maxT; break;
      case 1: n = 1 + (unsigned)rng.below(std::min(maxT, 3u)); break;
      case 2: n = maxT > 1 ? maxT - 1 : 1; break;
      default: n = 1 + (unsigned)rng.below(maxT); break;
      }
      ns.push_back(n);
    }
    unsigned phases     = H.thorough ? (unsigned)rng.pick({50, 500, 3000, 10000}) : (unsigned)rng.pick({50, 400, 2500});
    phases += (unsigned)rng.below(4); // odd and even phase counts (sense-reversing state differs at reinit)
    if (VERIF_TSAN) phases = std::min(phases, 400u + (unsigned)rng.below(2));
    phases = std::min<unsigned>(phases, (unsigned)H.paramInt("maxphases", 1000000) + (unsigned)rng.below(2));
    // short regions: a quarter of the cases run 4-6 regions of 1-3 phases each (re-initialisation after exactly one phase,
    // after two, ...: state that survives a reinit shows in the first phase of the next region)
    std::vector<unsigned> phasesOf(ns.size(), phases);
    {
      Rng sr(mix(H.caseSeed(k), 0x51a7));
      if (sr.below(4) == 0) {
        unsigned regions = 4 + (unsigned)sr.below(3);
        while (ns.size() < regions)
          ns.push_back(1 + (unsigned)sr.below(maxT));
        phasesOf.assign(ns.size(), 1);
        for (auto& p : phasesOf)
          p = (unsigned)sr.pick({1, 1, 2, 3});
        phases = 3;
      }
    }
    unsigned delayMode  = (unsigned)rng.below(5); // 0 none,1 one slow thread,2 random,3 alternate fast/slow,4 slow after leave
    unsigned delayProb  = (unsigned)rng.pick({0, 1, 4, 16});  // per-256
    unsigned pointProb  = (unsigned)rng.pick({0, 0, 256, 2048, 8192});
    unsigned spinProb   = (unsigned)rng.pick({0, 0, 512, 8192});
    if (H.paramInt("oversub", 0)) // more threads than CPUs: spinners must yield to let holders run
      spinProb = 65535;
    uint64_t dseed      = rng.next();
    unsigned slowTid    = (unsigned)rng.below(maxT);
    H.hangKey = std::string("C05:") + IMPLS[impl] + "Barrier:hang";
    H.begin(k, J().kv("component", std::string(IMPLS[impl]) + "Barrier").kv("impl", IMPLS[impl])
                   .raw("threads", jarr(ns)).kv("phases", phases).kv("delayMode", delayMode)
                   .kv("delayProb", delayProb).kv("pointProb", pointProb).kv("spinProb", spinProb)
                   .kv("sockets", nsock).kv("maxT", maxT).str());
    perturb_case(dseed, pointProb, spinProb, 30);

    std::unique_ptr<gs::Barrier> own;
    uint64_t totalAhead = 0, totalWaits = 0;
    bool bad            = false;
    nregions = (unsigned)ns.size();
    for (unsigned r = 0; r < nregions && !bad; ++r) {
      unsigned n = ns[r];
      galois::setActiveThreads(n);
      gs::Barrier* bar;
      if (impl == 6) {
        bar = &galois::runtime::getBarrier(n); // system barrier; reinit inside when n changes
      } else {
        if (!own)
          own = make(impl, n);
        else
          own->reinit(n);
        bar = own.get();
      }
      if (!bar) { // implementation not available on this platform
        break;
      }
      for (auto& s : slots) {
        s.entered.store(0, std::memory_order_relaxed);
        s.aheadSeen = s.firstEarly = 0;
        s.payload = s.payloadBad = 0;
      }
      galois::on_each([&](unsigned tid, unsigned numT) {
        Slot& me = slots[tid];
        Rng lr(mix(dseed, tid * 7919 + r));
        const uint64_t phasesHere = phasesOf[r];
        for (uint64_t ph = 1; ph <= phasesHere; ++ph) {
          // delay before entering
          bool slow = false;
          switch (delayMode) {
          case 1: slow = (tid == slowTid % numT); break;
          case 2: slow = lr.below(256) < delayProb; break;
          case 3: slow = ((tid + ph) & 1) && lr.below(256) < delayProb * 4; break;
          default: break;
          }
          if (slow && lr.below(256) < std::max(delayProb, 1u) * 8) {
            if (lr.below(4) == 0)
              sleep_us(20 + (unsigned)lr.below(200));
            else
              busy_delay_ns(200 + lr.below(20000));
          }
          me.payload = ph; // plain write before arrival
          me.entered.store(ph, std::memory_order_relaxed);
          bar->wait();
          for (unsigned j = 0; j < numT; ++j) {
            uint64_t e = slots[j].entered.load(std::memory_order_relaxed);
            if (e < ph) {
              if (!me.firstEarly) {
                me.firstEarly = ph;
                me.earlyOther = j;
                me.earlyValue = e;
              }
            } else if (e > ph)
              me.aheadSeen++;
#if VERIF_TSAN
            // plain read after departure: must be ordered after j's write of
            // phase ph and before its write of phase ph+1 only if we add a
            // second barrier; so read only the value of a thread we know is
            // not yet past the next barrier: ourselves' left neighbour at even
            // phases protected by the extra wait below
#endif
          }
#if VERIF_TSAN
          // second barrier keeps writers of phase ph+1 away while we read plain
          // payloads of phase ph
          {
            unsigned j = (tid + 1) % numT;
            if (slots[j].payload != ph)
              me.payloadBad++;
            bar->wait();
          }
#endif
          if (delayMode == 4 && lr.below(256) < delayProb * 4)
            busy_delay_ns(200 + lr.below(30000));
          progress();
        }
      });
      for (unsigned t = 0; t < n; ++t) {
        totalAhead += slots[t].aheadSeen;
        totalWaits += phasesOf[r];
        if (slots[t].firstEarly) {
          bad = true;
          H.violation(std::string("C05:") + IMPLS[impl] + "Barrier:early-release",
                      J().kv("region", r).kv("participants", n).kv("thread", t)
                          .kv("returned_from_phase", slots[t].firstEarly)
                          .kv("but_thread", slots[t].earlyOther)
                          .kv("had_entered_only", slots[t].earlyValue).str());
          break;
        }
        if (slots[t].payloadBad) {
          bad = true;
          H.violation(std::string("C05:") + IMPLS[impl] + "Barrier:stale-payload",
                      J().kv("region", r).kv("thread", t).kv("count", slots[t].payloadBad).str());
          break;
        }
      }
    }
#if VERIF_TSAN
    uint64_t pr = g_tsanPayloadReports.exchange(0);
    if (pr) {
      H.violation(std::string("C06:") + IMPLS[impl] + "Barrier:no-happens-before",
                  J().kv("tsan_payload_reports", pr).str());
    }
#endif
    unsigned maxn = 0;
    for (unsigned n : ns) maxn = std::max(maxn, n);
    bool nontrivial = maxn >= 2 && (phases >= 2 || ns.size() >= 2);
    std::string sig = std::string(IMPLS[impl]) + "|" + jarr(ns) + "|" + std::to_string(nsock) + "|d" +
                      std::to_string(delayMode) + "|p" + std::to_string(pointProb) + "|a" +
                      (totalAhead ? "1" : "0");
    H.end(k, sig, nontrivial,
          J().kv("waits", totalWaits).kv("ahead_observed", totalAhead).kv("regions", nregions)
              .kv("multi_socket_cases", (int)(nsock > 1 && maxn > 1)).str());
  }
  return 0;
}
