// C03 — do_all / on_each / ThreadPool::run: each element / thread id exactly once, join, no interference
#define VERIF_MAIN_TU
#include "c03_inst.h"
#include <set>

using namespace c03;
namespace gs = galois::substrate;

namespace c03 {
RunFn lookup(unsigned kind, bool steal, unsigned ci) {
  if (RunFn f = lookupA(kind, steal, ci))
    return f;
  if (RunFn f = lookupB(kind, steal, ci))
    return f;
  return lookupC(kind, steal, ci);
}
} // namespace c03

static const unsigned CHUNKS[] = {1, 2, 3, 64, 4096};

struct RegionResult {
  uint64_t calls = 0, stolen = 0, threadsUsed = 0;
  bool bad = false;
};

// home thread of index i under block_range over [0,n) with T threads
static unsigned homeOf(uint32_t i, uint32_t n, unsigned T) {
  for (unsigned t = 0; t < T; ++t) {
    auto r = galois::block_range((uint32_t)0, n, t, T);
    if (i >= r.first && i < r.second)
      return t;
  }
  return 0;
}

int main(int argc, char** argv) {
  Harness H("C03", argc, argv);
  galois::SharedMemSys G;
  auto& tp       = gs::getThreadPool();
  unsigned maxT  = std::min(64u, tp.getMaxThreads());
  unsigned nsock = tp.getMaxSockets();
  long oversub   = H.paramInt("oversub", 0);
  long maxN      = H.paramInt("maxn", H.thorough ? 100000 : 20000);

  for (long k = H.firstCase(); k < H.endCase(); ++k) {
    Rng rng(H.caseSeed(k));
    unsigned mode = (unsigned)rng.below(10); // 0 on_each sequence, 1 ThreadPool::run, else do_all
    unsigned pointProb = (unsigned)rng.pick({0, 0, 256, 2048, 8192});
    unsigned spinProb  = oversub ? 65535u : (unsigned)rng.pick({0, 0, 512, 8192});
    uint64_t pseed     = rng.next();

    if (mode <= 1) {
      // ------------------------------------------------ on_each / ThreadPool::run sequences
      unsigned nreg = 2 + (unsigned)rng.below(6);
      std::vector<unsigned> ns;
      for (unsigned r = 0; r < nreg; ++r)
        ns.push_back(rng.below(4) == 0 ? maxT : 1 + (unsigned)rng.below(maxT));
      const char* comp = mode == 0 ? "on_each" : "ThreadPool::run";
      H.hangKey        = std::string("C03:") + comp + ":hang";
      H.begin(k, J().kv("component", comp).raw("threads", jarr(ns)).kv("sockets", nsock)
                     .kv("pointProb", pointProb).kv("spinProb", spinProb).str());
      perturb_case(pseed, pointProb, spinProb, 30);
      uint64_t calls = 0;
      bool bad       = false;
      // busy-wait (burnPower) mode across regions with changing thread counts, without beKind() in between
      bool fastSeq = rng.below(3) == 0;
      std::atomic<uint32_t> cnt[64];
      std::atomic<uint32_t> wrongTid{0}, wrongNum{0}, outside{0};
      std::atomic<int> active{0};
      for (unsigned r = 0; r < nreg && !bad; ++r) {
        unsigned n = ns[r];
        for (auto& c : cnt)
          c.store(0);
        galois::setActiveThreads(n);
        if (fastSeq)
          tp.burnPower(n);
        bool slowOne = rng.below(3) == 0;
        unsigned slowTid = (unsigned)rng.below(n);
        active.store(1);
        auto body = [&](unsigned tid, unsigned numT) {
          if (!active.load(std::memory_order_relaxed))
            outside.fetch_add(1);
          if (tid != gs::ThreadPool::getTID())
            wrongTid.fetch_add(1);
          if (numT != n)
            wrongNum.fetch_add(1);
          if (tid < 64)
            cnt[tid].fetch_add(1, std::memory_order_relaxed);
          if (slowOne && tid == slowTid)
            sleep_us(300);
          progress();
        };
        if (mode == 0)
          galois::on_each(body, galois::no_stats());
        else
          tp.run(n, [&] { body(gs::ThreadPool::getTID(), n); });
        active.store(0);
        calls += n;
        for (unsigned t = 0; t < 64; ++t) {
          uint32_t c = cnt[t].load();
          if ((t < n && c != 1) || (t >= n && c != 0)) {
            H.violation(std::string("C03:") + comp + ":wrong-invocation-count",
                        J().kv("region", r).kv("active_threads", n).kv("thread_id", t).kv("invocations", c).str());
            bad = true;
            break;
          }
        }
        if (wrongTid.load() || wrongNum.load() || outside.load()) {
          H.violation(std::string("C03:") + comp + ":wrong-arguments",
                      J().kv("region", r).kv("wrong_tid", wrongTid.load()).kv("wrong_numT", wrongNum.load())
                          .kv("ran_outside_region", outside.load()).str());
          bad = true;
        }
      }
      if (fastSeq)
        tp.beKind();
      unsigned mx = *std::max_element(ns.begin(), ns.end());
      H.end(k, std::string(comp) + (fastSeq ? ":burnPower" : "") + "|" + jarr(ns) + "|s" + std::to_string(nsock), mx >= 2 && nreg >= 2,
            J().kv("invocations", calls).kv("regions", nreg).kv("burnpower_sequences", (int)fastSeq)
                .kv("multi_socket_cases", (int)(nsock > 1 && mx > 1)).str());
      continue;
    }

    // -------------------------------------------------- do_all
    unsigned nreg = 1 + (unsigned)rng.below(3);
    // describe all regions up front
    bool fastDoAll = rng.below(6) == 0; // burnPower mode across the regions of this case
    struct Reg {
      unsigned fillMode; // InsertBag: 0 blocks over all fill threads, 1 thread 0 inserts nothing, 2 only the last thread, 3 random owner
      unsigned kind, threads, ci, fillThreads;
      bool steal;
      uint32_t n, extra, base;
      unsigned delayMode;
    };
    std::vector<Reg> regs;
    for (unsigned r = 0; r < nreg; ++r) {
      Reg g;
      g.kind    = (unsigned)rng.below(K_NUM);
      g.threads = rng.below(4) == 0 ? maxT : 1 + (unsigned)rng.below(maxT);
      g.steal   = rng.below(3) != 0;
      g.ci      = (unsigned)rng.below(5);
      unsigned T = g.threads;
      uint32_t sizes[] = {0, 1, 2, T - 1, T, T + 1, 2 * T + 1, 97, 1021, 4099, (uint32_t)rng.range(0, 300),
                          (uint32_t)rng.range(300, 5000), (uint32_t)maxN};
      g.n = sizes[rng.below(sizeof sizes / sizeof *sizes)];
      if (g.n > (uint32_t)maxN)
        g.n = (uint32_t)maxN;
      if (g.kind == K_LIST || g.kind == K_FWDLIST)
        g.n = std::min<uint32_t>(g.n, 20000);
      g.base = (g.kind == K_COUNT_U32 || g.kind == K_COUNT_I64) ? (uint32_t)rng.pick({0, 0, 1, 1000}) : 0;
      if (g.kind == K_COUNT_U16) {
        g.n    = std::min<uint32_t>(g.n, 60000);
        g.base = (uint32_t)rng.pick({0, 5});
      }
      g.extra       = (g.kind == K_SUBRANGE || g.kind == K_SPECIFIC) ? (uint32_t)rng.range(0, 40) : 0;
      g.delayMode   = (unsigned)rng.below(4); // 0 none, 1 one thread's block slow, 2 random sparse, 3 last elements slow
      g.fillMode    = (unsigned)rng.below(4);
      g.fillThreads = g.threads;
      if (g.kind == K_INSERTBAG && rng.below(3) == 0)
        g.fillThreads = 1 + (unsigned)rng.below(maxT); // filled by a different number of threads
      regs.push_back(g);
    }
    std::string desc = "[";
    for (auto& g : regs) {
      if (desc.size() > 1)
        desc += ",";
      desc += J().kv("range", kindName(g.kind)).kv("n", g.n).kv("threads", g.threads).kv("steal", g.steal)
                  .kv("chunk", CHUNKS[g.ci]).kv("delay", g.delayMode).kv("fill_threads", g.fillThreads).kv("fill_mode", g.fillMode).str();
    }
    desc += "]";
    H.hangKey = "C03:do_all:hang";
    H.begin(k, J().kv("component", "do_all").raw("regions", desc).kv("sockets", nsock).kv("pointProb", pointProb)
                   .kv("spinProb", spinProb).str());
    perturb_case(pseed, pointProb, spinProb, 30);
    uint64_t calls = 0, stolen = 0, msCases = 0;
    std::string sig = "do_all|s" + std::to_string(nsock);
    bool nontrivial = false;
    for (auto& g : regs) {
      Case c;
      Data d;
      c.threads = g.threads;
      c.base    = g.base;
      c.init(g.n, g.extra);
      galois::setActiveThreads(g.threads);
      // containers hold the values base..base+n-1
      uint32_t lead = 0;
      if (g.kind == K_SUBRANGE) {
        lead = (uint32_t)rng.below(g.extra + 1);
        // vec = [outside lead elements][n inside][extra-lead outside]; outside values map to counters >= n
        for (uint32_t i = 0; i < lead; ++i)
          d.vec.push_back(g.n + i);
        for (uint32_t i = 0; i < g.n; ++i)
          d.vec.push_back(i);
        for (uint32_t i = lead; i < g.extra; ++i)
          d.vec.push_back(g.n + i);
        d.subBegin = lead;
        d.subEnd   = lead + g.n;
      } else {
        for (uint32_t i = 0; i < g.n; ++i)
          d.vec.push_back(g.base + i);
      }
      if (g.kind == K_DEQUE)
        d.deq.assign(d.vec.begin(), d.vec.end());
      if (g.kind == K_LIST)
        d.lst.assign(d.vec.begin(), d.vec.end());
      if (g.kind == K_FWDLIST)
        d.fwd.assign(d.vec.begin(), d.vec.end());
      galois::InsertBag<uint32_t> bag;
      if (g.kind == K_INSERTBAG) {
        d.bag = &bag;
        galois::setActiveThreads(g.fillThreads);
        if (fastDoAll) // in busy-wait mode every region must run with the thread count burnPower was given
          tp.burnPower(g.fillThreads);
        unsigned FT = g.fillThreads;
        uint32_t n  = g.n;
        unsigned fm = g.fillMode;
        uint64_t fseed = rng.next();
        galois::on_each([&](unsigned tid, unsigned numT) {
          if (fm == 0 || numT == 1) {
            auto r = galois::block_range((uint32_t)0, n, tid, numT);
            for (uint32_t i = r.first; i < r.second; ++i)
              bag.push(i);
          } else if (fm == 1) { // thread 0's list stays empty
            if (tid == 0)
              return;
            auto r = galois::block_range((uint32_t)0, n, tid - 1, numT - 1);
            for (uint32_t i = r.first; i < r.second; ++i)
              bag.push(i);
          } else if (fm == 2) { // everything in the last thread's list
            if (tid + 1 == numT)
              for (uint32_t i = 0; i < n; ++i)
                bag.push(i);
          } else { // random owner per element
            for (uint32_t i = 0; i < n; ++i)
              if (mix(fseed, i) % numT == tid)
                bag.push(i);
          }
        }, galois::no_stats());
        galois::setActiveThreads(g.threads);
      }
      uint32_t specLo = 0, specHi = g.n;
      if (g.kind == K_SPECIFIC) {
        // thread ranges over the node space [0, N) with N = n + extra; global range clips to [lo, lo+n)
        uint32_t N = g.n + g.extra;
        specLo     = (uint32_t)rng.below(g.extra + 1);
        specHi     = specLo + g.n;
        if (rng.below(2) == 0) { // the common case: the global range is the whole node space
          N      = g.n;
          specLo = 0;
          specHi = g.n;
          c.init(g.n, 0);
        }
        d.threadRanges.assign(g.threads + 1, 0);
        std::vector<uint32_t> cuts;
        for (unsigned t = 1; t < g.threads; ++t)
          cuts.push_back((uint32_t)rng.below(N + 1));
        std::sort(cuts.begin(), cuts.end());
        for (unsigned t = 1; t < g.threads; ++t)
          d.threadRanges[t] = cuts[t - 1];
        d.threadRanges[g.threads] = N;
        d.specBegin = specLo;
        d.specEnd   = specHi;
        // counters: index = node id - specLo for nodes inside; outside nodes would hit >= n or wrap (detected)
        c.base = specLo;
      }
      // delays
      c.delay.assign(g.n, 0);
      if (g.n) {
        if (g.delayMode == 1) {
          auto r = galois::block_range((uint32_t)0, g.n, (unsigned)rng.below(g.threads), g.threads);
          for (uint32_t i = r.first; i < r.second && i < r.first + 400; ++i)
            c.delay[i] = rng.below(20) == 0 ? 2 : 1;
        } else if (g.delayMode == 2) {
          for (unsigned j = 0; j < 30; ++j)
            c.delay[rng.below(g.n)] = rng.below(8) == 0 ? 2 : 1;
        } else if (g.delayMode == 3) {
          for (uint32_t i = g.n > 20 ? g.n - 20 : 0; i < g.n; ++i)
            c.delay[i] = 1;
        }
      }
      RunFn f = lookup(g.kind, g.steal, g.ci);
      if (fastDoAll)
        tp.burnPower(g.threads);
      c.active.store(1);
      f(c, &d);
      c.active.store(0);
      // oracle
      uint64_t lost = 0, dup = 0, outside = 0;
      uint32_t firstBad = ~0u;
      std::set<unsigned> used;
      for (uint32_t i = 0; i < c.total; ++i) {
        uint32_t v = c.count[i].load();
        if (i < g.n) {
          if (v == 0)
            lost++;
          else if (v > 1)
            dup++;
          if (v != 1 && firstBad == ~0u)
            firstBad = i;
          if (v) {
            unsigned by = c.execBy[i].load() - 1;
            used.insert(by);
            if (g.kind != K_INSERTBAG && g.kind != K_SPECIFIC && g.kind != K_LIST && g.kind != K_FWDLIST && g.n < 30000 &&
                by != homeOf(i, g.n, g.threads))
              stolen++;
          }
        } else if (v) {
          outside++;
          if (firstBad == ~0u)
            firstBad = i;
        }
      }
      calls += g.n;
      std::string cls = kindName(g.kind);
      if (g.kind == K_INSERTBAG && g.fillThreads != g.threads)
        cls += g.fillThreads > g.threads ? ":filled-by-more-threads" : ":filled-by-fewer-threads";
      if (lost || dup || outside || c.bad.load()) {
        const char* what = lost ? "element-not-visited" : dup ? "element-visited-twice" : outside ? "element-outside-range-visited"
                                                                                                  : "function-misuse";
        H.violation("C03:do_all:" + std::string(what) + ":" + cls + (g.steal ? ":steal" : ":nosteal"),
                    J().kv("range", kindName(g.kind)).kv("n", g.n).kv("threads", g.threads).kv("steal", g.steal)
                        .kv("chunk", CHUNKS[g.ci]).kv("not_visited", lost).kv("visited_more_than_once", dup)
                        .kv("outside_range_visited", outside).kv("first_bad_index", firstBad)
                        .kv("fill_threads", g.fillThreads).kv("bad_calls", c.bad.load()).kv("bad_kind", c.badKind.load())
                        .str());
      }
      if (nsock > 1 && g.threads > 1)
        msCases = 1;
      if (used.size() >= 2)
        nontrivial = true;
      sig += std::string("|") + kindName(g.kind) + "," + std::to_string(g.n) + "," + std::to_string(g.threads) + "," +
             (g.steal ? "s" : "n") + std::to_string(CHUNKS[g.ci]) + ",u" + std::to_string(used.size());
    }
    if (fastDoAll)
      tp.beKind();
    if (fastDoAll)
      sig += "|burnPower";
    H.end(k, sig, nontrivial,
          J().kv("invocations", calls).kv("regions", nreg).kv("stolen_elements", stolen).kv("burnpower_sequences", (int)fastDoAll)
              .kv("multi_socket_cases", msCases).str());
  }
  return 0;
}
