// C16: galois::ParallelSTL::count_if, accumulate, map_reduce
#include "c16_common.h"

namespace c16 {

// ------------------------------------------------------------------ count_if
template <class T>
static void count_if_T(const CaseCfg& c, Rng& rng, Outcome& o) {
  std::vector<uint32_t> keys = keys_for_pred(c, rng);
  size_t expect = (size_t)std::count_if(keys.begin(), keys.end(), [&](uint32_t k) { return predPure(c.pred, k); });
  size_t got    = 0;
  if (c.iter == IT_COUNTING) {
    PredByIndex pred{c.pred, keys.data(), keys.size()};
    got = galois::ParallelSTL::count_if(boost::counting_iterator<uint32_t>(0),
                                        boost::counting_iterator<uint32_t>((uint32_t)c.n), pred);
  } else {
    std::vector<T> input = make_input_from_keys<T>(keys), out;
    Pred<T> pred{c.pred};
    with_any_range<T>(c, input, out,
                      [&](auto first, auto last) { got = galois::ParallelSTL::count_if(first, last, pred); });
    if (!(out == input))
      o.violation("C16:count_if:input-modified", J().kv("n", c.n).kv("threads", c.threads).str());
  }
  Monitor& m = g_mon;
  if (got != expect)
    o.violation("C16:count_if:wrong-count", J().kv("n", c.n).kv("threads", c.threads).kv("threads_used", m.threadsUsed())
                                                .kv("expected", expect).kv("returned", got)
                                                .kv("pred_calls", m.totalCalls()).str());
  o.cls = got == expect ? "ok" : "bad";
  o.add("count_if_true_elements", expect);
}

void run_count_if(const CaseCfg& c, Rng& rng, Outcome& o) {
  if (c.elem == 1)
    count_if_T<Elem>(c, rng, o);
  else
    count_if_T<uint32_t>(c, rng, o);
}

// ------------------------------------------------------------------ accumulate
static const uint64_t MODP = 1000003;
struct ModMul {
  uint64_t operator()(const uint64_t& a, const uint64_t& b) const { return (a % MODP) * (b % MODP) % MODP; }
};

// the binary operation as a user-supplied function object that also observes who applies it
template <class T, class Op>
struct ObsOp {
  Op op;
  T operator()(const T& a, const T& b) const {
    observe_value((uint32_t)(uint64_t)b);
    return op(a, b);
  }
};

template <class T, class In, class Op>
static void accumulate_with(const CaseCfg& c, const std::vector<In>& input, T identity, Op op, Outcome& o) {
  T expect = std::accumulate(input.begin(), input.end(), identity, [&](T a, const In& b) { return op(a, (T)b); });
  T got    = identity;
  std::vector<In> out;
  with_any_range<In>(c, input, out, [&](auto first, auto last) {
    // (the three-argument overload cannot be exercised: it does not compile -- its unqualified inner call is
    //  ambiguous with std::accumulate through ADL on std::plus<T>; reported, see lib/specs/c16.py)
    got = galois::ParallelSTL::accumulate(first, last, identity, ObsOp<T, Op>{op});
  });
  if (!(out == input))
    o.violation("C16:accumulate:input-modified", J().kv("n", c.n).kv("threads", c.threads).str());
  if (!(got == expect))
    o.violation("C16:accumulate:wrong-value", J().kv("n", c.n).kv("threads", c.threads).kv("op", c.opKind)
                                                  .kv("expected", expect).kv("returned", got).str());
  o.cls = got == expect ? "ok" : "bad";
}

void run_accumulate(const CaseCfg& c, Rng& rng, Outcome& o) {
  if (c.iter == IT_COUNTING) { // sum of the positions themselves
    uint64_t got = galois::ParallelSTL::accumulate(boost::counting_iterator<uint32_t>(0),
                                                   boost::counting_iterator<uint32_t>((uint32_t)c.n), (uint64_t)0,
                                                   std::plus<uint64_t>());
    uint64_t expect = c.n ? (uint64_t)c.n * (c.n - 1) / 2 : 0;
    if (got != expect)
      o.violation("C16:accumulate:wrong-value",
                  J().kv("n", c.n).kv("threads", c.threads).kv("op", "plus over counting_iterator")
                      .kv("expected", expect).kv("returned", got).str());
    o.cls = got == expect ? "ok" : "bad";
    return;
  }
  std::vector<uint32_t> keys = gen_keys(rng, c.keyPat, c.n);
  if (c.elem == 2) { // doubles holding small integers: every partial sum is exact in any order
    std::vector<double> in(c.n);
    for (size_t i = 0; i < c.n; ++i)
      in[i] = (double)(keys[i] % 100000);
    accumulate_with<double>(c, in, 0.0, std::plus<double>(), o);
    return;
  }
  switch (c.opKind) {
  case 0: accumulate_with<uint32_t>(c, keys, (uint32_t)0, std::plus<uint32_t>(), o); break; // wraps mod 2^32
  case 1: accumulate_with<uint64_t>(c, keys, (uint64_t)0, std::plus<uint64_t>(), o); break;
  case 2: accumulate_with<uint64_t>(c, keys, (uint64_t)0, galois::gmax<uint64_t>(), o); break;
  case 3: accumulate_with<uint64_t>(c, keys, ~(uint64_t)0, galois::gmin<uint64_t>(), o); break;
  case 4: accumulate_with<uint32_t>(c, keys, (uint32_t)0, std::bit_xor<uint32_t>(), o); break;
  default: accumulate_with<uint64_t>(c, keys, (uint64_t)1, ModMul(), o); break;
  }
}

// ------------------------------------------------------------------ map_reduce
struct MinMax {
  uint64_t lo, hi;
  bool operator==(const MinMax& b) const { return lo == b.lo && hi == b.hi; }
};
struct MinMaxMerge {
  MinMax operator()(const MinMax& a, const MinMax& b) const { return MinMax{std::min(a.lo, b.lo), std::max(a.hi, b.hi)}; }
};
using Hist = std::vector<uint64_t>;
struct HistMerge { // the "moving" merge signature Reduction.h recommends for expensive T
  Hist& operator()(Hist& lhs, Hist&& rhs) const {
    for (size_t i = 0; i < lhs.size() && i < rhs.size(); ++i)
      lhs[i] += rhs[i];
    return lhs;
  }
};
static inline uint64_t mapA(uint32_t key) { return (uint64_t)key * 3 + 1; }
static inline uint64_t mapB(uint32_t key) { return (uint64_t)(key ^ 0x5bd1e995u); }

template <class R>
static std::string showR(const R&) {
  return "?";
}
static std::string showR(const uint64_t& v) { return std::to_string(v); }
static std::string showR(const MinMax& v) { return "[" + std::to_string(v.lo) + "," + std::to_string(v.hi) + "]"; }
static std::string showR(const Hist& v) { return verif::jarr(v); }

template <class T, class R, class MapKey, class Reduce>
static void map_reduce_with(const CaseCfg& c, const std::vector<uint32_t>& keys, MapKey mapKey, Reduce red, R identity,
                            R expect, Outcome& o) {
  R got = identity;
  if (c.iter == IT_COUNTING) {
    const uint32_t* kp = keys.data();
    size_t n           = keys.size();
    auto map_fn        = [=](const uint32_t& i) {
      if (i >= n)
        on_oob((long)i);
      observe_value(kp[i]);
      return mapKey(kp[i]);
    };
    got = galois::ParallelSTL::map_reduce(boost::counting_iterator<uint32_t>(0),
                                          boost::counting_iterator<uint32_t>((uint32_t)c.n), map_fn, red, identity);
  } else {
    std::vector<T> input = make_input_from_keys<T>(keys), out;
    auto map_fn          = [=](const T& v) { return mapKey(observe_element(v)); };
    with_any_range<T>(c, input, out, [&](auto first, auto last) {
      got = galois::ParallelSTL::map_reduce(first, last, map_fn, red, identity);
    });
    if (!(out == input))
      o.violation("C16:map_reduce:input-modified", J().kv("n", c.n).kv("threads", c.threads).str());
  }
  if (!(got == expect))
    o.violation("C16:map_reduce:wrong-value",
                J().kv("n", c.n).kv("threads", c.threads).kv("threads_used", g_mon.threadsUsed()).kv("op", c.opKind)
                    .kv("expected", showR(expect)).kv("returned", showR(got)).kv("map_calls", g_mon.totalCalls()).str());
  o.cls = got == expect ? "ok" : "bad";
}

template <class T>
static void map_reduce_T(const CaseCfg& c, Rng& rng, Outcome& o) {
  std::vector<uint32_t> keys = gen_keys(rng, c.keyPat, c.n);
  switch (c.opKind % 4) {
  case 0: {
    uint64_t e = 0;
    for (uint32_t k : keys)
      e += mapA(k);
    map_reduce_with<T, uint64_t>(c, keys, [](uint32_t k) { return mapA(k); }, std::plus<uint64_t>(), (uint64_t)0, e, o);
    break;
  }
  case 1: {
    uint64_t e = 0;
    for (uint32_t k : keys)
      e = std::max(e, mapB(k));
    map_reduce_with<T, uint64_t>(c, keys, [](uint32_t k) { return mapB(k); }, galois::gmax<uint64_t>(), (uint64_t)0, e, o);
    break;
  }
  case 2: {
    MinMax id{~(uint64_t)0, 0}, e = id;
    for (uint32_t k : keys)
      e = MinMaxMerge()(e, MinMax{k, k});
    map_reduce_with<T, MinMax>(c, keys, [](uint32_t k) { return MinMax{k, k}; }, MinMaxMerge(), id, e, o);
    break;
  }
  default: {
    Hist id(8, 0), e(8, 0);
    for (uint32_t k : keys)
      e[k % 8] += 1 + (k >> 28);
    map_reduce_with<T, Hist>(c, keys,
                             [](uint32_t k) {
                               Hist h(8, 0);
                               h[k % 8] = 1 + (k >> 28);
                               return h;
                             },
                             HistMerge(), id, e, o);
    break;
  }
  }
}

void run_map_reduce(const CaseCfg& c, Rng& rng, Outcome& o) {
  if (c.elem == 1)
    map_reduce_T<Elem>(c, rng, o);
  else
    map_reduce_T<uint32_t>(c, rng, o);
}

} // namespace c16
