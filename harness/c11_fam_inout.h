#pragma once
// C11: LC_InOut_Graph over LC_CSR_Graph and LC_Linear_Graph. Symmetric mode
// (one file; the caller promises a symmetric graph, in-edges alias the
// out-edges) and asymmetric mode (graph file + transpose file; in-edges are a
// second graph whose node handles are mapped through ids).
// Not covered because they do not compile: readGraph(g, FileGraph&, FileGraph&); LC_InOut_Graph over
// LC_InlineEdge_Graph (readGraph passes a 4th constructFrom argument),
// over LC_Morph_Graph (no getId/getNode), and sortInEdges* over
// LC_Linear_Graph (no edge_sort_begin).
#include "c11_csr.h"
#include "c11_ptr.h"

namespace c11 {

template <class G>
void observeInIO(G& g, const Indexer<G>& ix, Obs& o, galois::MethodFlag flag, uint64_t edgeLimit) {
  o.adj.assign(ix.nodes.size(), {});
  for (size_t i = 0; i < ix.nodes.size(); ++i) {
    auto n = ix.nodes[i];
    auto b = g.in_edge_begin(n, flag);
    auto e = g.in_edge_end(n, flag);
    auto& a = o.adj[i];
    for (auto it = b; it != e; ++it) {
      if (a.size() > edgeLimit) {
        if (o.err.empty())
          o.err = "node " + std::to_string(i) + ": in-edge iteration does not terminate";
        break;
      }
      int64_t src = ix.ix(g.getInEdgeDst(it));
      if ((src < 0 || (uint64_t)src >= ix.nodes.size())) {
        if (o.err.empty())
          o.err = "node " + std::to_string(i) + ": in-edge source is not a node of the graph";
        src = (int64_t)ix.nodes.size();
      }
      ref::RefEdge r((uint64_t)src);
      if constexpr (graphHasEdgeData<G>)
        toRef<typename G::edge_data_type>(g.getInEdgeData(it), r);
      a.push_back(std::move(r));
    }
    // the range form denotes the same sequence
    uint64_t k = 0;
    for (auto ii : g.in_edges(n, galois::MethodFlag::UNPROTECTED)) {
      (void)ii;
      if (++k > a.size() + 4)
        break;
    }
    if (k != a.size() && o.err.empty())
      o.err = "node " + std::to_string(i) + ": in_edges() yields " + std::to_string(k) + " edges, in_edge_begin/end " +
              std::to_string(a.size());
  }
}

template <class G, bool IsCsr>
bool loadAndVerifyOut(Ctx& c, G& g, bool asym, Indexer<G>& ix) {
  if (asym) {
    // (the FileGraph,FileGraph overload of readGraph is not a friend of
    // LC_InOut_Graph and does not compile; only the two-filename form exists)
    gg::readGraph(g, c.file(), c.fileT());
    c.builds += 2;
  } else {
    if (c.rng.below(2)) {
      gg::readGraph(g, c.file());
    } else {
      gg::FileGraph f1;
      loadFileGraph(c, f1, c.file(), c.rng.below(2), c.esz);
      gg::readGraph(g, f1);
    }
    ++c.builds;
  }
  c.parallelBuilds += c.threads > 1;
  bool ok;
  if constexpr (IsCsr) {
    ok = verifyCsr<G, CsrFam>(c, g, c.X, true, "read");
    if (ok)
      ix.build(g, c.X.numNodes + 8);
  } else {
    ok = verifyPtr<G>(c, g, c.X, true, "read", &ix);
  }
  if (!ok)
    return false;
  // ids are the input's node numbers
  for (uint64_t i : sampleNodes(c, c.X.numNodes, 64))
    if (g.idFromNode(ix.nodes[i]) != i || g.nodeFromId(i) != ix.nodes[i]) {
      c.fail("read-node-id", J().kv("position", i).kv("idFromNode", (uint64_t)g.idFromNode(ix.nodes[i])).str());
      return false;
    }
  return true;
}

template <class G, bool IsCsr, bool Asym>
void opIORead(Ctx& c) {
  G g;
  Indexer<G> ix;
  if (!loadAndVerifyOut<G, IsCsr>(c, g, Asym, ix))
    return;
  Obs in;
  observeInIO(g, ix, in, c.rng.below(2) ? galois::MethodFlag::UNPROTECTED : galois::MethodFlag::WRITE, c.X.numEdges() + 4);
  // asymmetric over a CSR layout: the in-graph is the transpose file, in file order
  if (Asym && IsCsr)
    checkOrdered(c, in, c.XT(), "in-edges");
  else
    checkMultiset(c, in, c.XT(), "in-edges", true);
  if (Asym && IsCsr && !c.failed)
    c.inEdgesChecked += c.X.numEdges();
}

template <class G, bool Asym, bool ByData>
void opIOSortIn(Ctx& c) {
  using E = typename G::edge_data_type;
  G g;
  Indexer<G> ix;
  if (!loadAndVerifyOut<G, true>(c, g, Asym, ix))
    return;
  if constexpr (ByData) {
    for (uint64_t n = 0; n < c.X.numNodes; ++n)
      g.sortInEdgesByEdgeData((uint32_t)n, std::less<E>());
  } else {
    if (c.rng.below(2))
      g.sortAllInEdgesByDst();
    else
      for (uint64_t n = 0; n < c.X.numNodes; ++n)
        g.sortInEdgesByDst((uint32_t)n);
  }
  Obs in;
  observeInIO(g, ix, in, galois::MethodFlag::UNPROTECTED, c.X.numEdges() + 4);
  if (!checkMultiset(c, in, c.XT(), "in-edges", true))
    return;
  if (!(ByData ? checkSortedBy(c, in, c.less, "in-edges") : checkSortedByDst(c, in, "in-edges")))
    return;
  // out-edges: untouched when the in-edges are a separate graph, the same (sorted) lists otherwise
  Obs o;
  observeOut(g, ix, o, galois::MethodFlag::UNPROTECTED);
  if (Asym)
    checkOrdered(c, o, c.X, "read");
  else
    checkMultiset(c, o, c.X, "read");
}

template <class G>
void regIOCsr(const std::string& cfg, bool sorts) {
  using E           = typename G::edge_data_type;
  const char* fam   = "LC_InOut_Graph.CSR";
  auto& R           = registry();
  R.push_back(mkEntry<E>(fam, cfg, "symmetric", &opIORead<G, true, false>, F_SYMMETRIC, 2));
  R.push_back(mkEntry<E>(fam, cfg, "asymmetric", &opIORead<G, true, true>, 0, 2));
  if (sorts) {
    R.push_back(mkEntry<E>(fam, cfg, "sortInEdgesByDst-symmetric", &opIOSortIn<G, false, false>, F_SYMMETRIC));
    R.push_back(mkEntry<E>(fam, cfg, "sortInEdgesByDst-asymmetric", &opIOSortIn<G, true, false>));
    if constexpr (!std::is_void_v<E>)
      R.push_back(mkEntry<E>(fam, cfg, "sortInEdgesByEdgeData", &opIOSortIn<G, true, true>));
  }
}

template <class G>
void regIOLin(const std::string& cfg) {
  using E         = typename G::edge_data_type;
  const char* fam = "LC_InOut_Graph.Linear";
  auto& R         = registry();
  R.push_back(mkEntry<E>(fam, cfg, "symmetric", &opIORead<G, false, false>, F_SYMMETRIC, 2));
  R.push_back(mkEntry<E>(fam, cfg, "asymmetric", &opIORead<G, false, true>, 0, 2));
}

template <class E, bool NL = false, bool NU = false, bool OOL = false>
using IOCsr = gg::LC_InOut_Graph<gg::LC_CSR_Graph<uint32_t, E, NL, NU, OOL>>;
template <class E, bool NL = false, bool NU = false, bool OOL = false>
using IOLin = gg::LC_InOut_Graph<gg::LC_Linear_Graph<uint32_t, E, NL, NU, OOL>>;

template <class E>
void regIOFull() {
  regIOCsr<IOCsr<E>>("lock", true);
  regIOCsr<IOCsr<E, true>>("nolock", false);
  regIOCsr<IOCsr<E, false, true>>("lock+numa", true);
  regIOCsr<IOCsr<E, false, false, true>>("ool", false);
  regIOCsr<IOCsr<E, true, true>>("nolock+numa", false);
  regIOCsr<IOCsr<E, false, true, true>>("ool+numa", false);
  regIOLin<IOLin<E>>("lock");
  regIOLin<IOLin<E, true>>("nolock");
  regIOLin<IOLin<E, false, true>>("lock+numa");
  regIOLin<IOLin<E, false, false, true>>("ool");
  regIOLin<IOLin<E, false, true, true>>("ool+numa");
}


} // namespace c11
