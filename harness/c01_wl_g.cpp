// worklist instantiations, part G: other kinds of initial range (containers with local iterators, deque)
#include "c01_common.h"
#include "galois/Bag.h"
#include <deque>
using namespace c01;
using namespace galois::worklists;

template <typename WL>
static void runBag(Case& c, bool cd, bool pia) {
  // the initial items live in an InsertBag filled by all active threads: for_each then uses the
  // bag's per-thread local ranges in push_initial
  galois::InsertBag<Item> bag;
  const std::vector<Item>& init = c.initial;
  galois::on_each([&](unsigned tid, unsigned numT) {
    auto r = galois::block_range(init.begin(), init.end(), tid, numT);
    for (auto it = r.first; it != r.second; ++it)
      bag.push(*it);
  }, galois::no_stats());
  Op op{&c};
  auto range = galois::iterate(bag);
  if (cd && pia)
    galois::for_each(range, op, galois::wl<WL>(), galois::per_iter_alloc(), galois::no_stats());
  else if (cd)
    galois::for_each(range, op, galois::wl<WL>(), galois::no_stats());
  else
    galois::for_each(range, op, galois::wl<WL>(), galois::disable_conflict_detection(), galois::no_stats());
}
template <typename WL>
static void runDeque(Case& c, bool cd, bool pia) {
  std::deque<Item> dq(c.initial.begin(), c.initial.end());
  Op op{&c};
  auto range = galois::iterate(dq);
  if (cd && pia) // the operator uses the per-iteration allocator: the loop must declare it, or nothing ever resets it
    galois::for_each(range, op, galois::wl<WL>(), galois::per_iter_alloc(), galois::no_stats());
  else if (cd)
    galois::for_each(range, op, galois::wl<WL>(), galois::no_stats());
  else
    galois::for_each(range, op, galois::wl<WL>(), galois::disable_conflict_detection(), galois::no_stats());
}

typedef OrderedByIntegerMetric<PrioIndexer, PerSocketChunkFIFO<8>> OBIM;
static Registrar r1("PerSocketChunkFIFO_4_bagrange", "PerSocketChunk", F_QUICK, &runBag<PerSocketChunkFIFO<4>>);
static Registrar r2("StableIterator_steal_bagrange", "StableIterator", F_QUICK, &runBag<StableIterator<true>>);
static Registrar r3("OBIM_default_bagrange", "OBIM", F_PRIO, &runBag<OBIM>);
static Registrar r4("FIFO_bagrange", "Simple", 0, &runBag<FIFO<>>);
static Registrar r5("PerThreadChunkLIFO_4_bagrange", "PerThreadChunk", 0, &runBag<PerThreadChunkLIFO<4>>);
static Registrar r6("ChunkLIFO_8_dequerange", "Chunk", F_QUICK, &runDeque<ChunkLIFO<8>>);
static Registrar r7("StableIterator_steal_dequerange", "StableIterator", 0, &runDeque<StableIterator<true>>);
static Registrar r8("BulkSynchronous_bagrange", "BulkSynchronous", F_BSP, &runBag<BulkSynchronous<>>);
