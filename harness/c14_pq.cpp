// C14 — the priority-queue family: MinHeap, ThreadSafeMinHeap (vs std::multiset
// ordered by the comparator) and ThreadSafeOrderedSet (vs std::set), used from
// one thread.
#include "c14_common.h"

#include "galois/Galois.h"
#include "galois/PriorityQueue.h"

#include <memory>
#include <set>

namespace c14 {
namespace {

enum Kind { MINHEAP, TSMINHEAP, TSSET };

template <typename Q, typename Model>
void checkQ(Case& c, Q& q, const Model& m, Kind kind, bool tracked) {
  if (!c.regOk())
    return;
  const Q& cq = q;
  c.eq("size", cq.size(), m.size());
  c.eq("empty", cq.empty(), m.empty());
  if (c.bad)
    return;
  if (!m.empty())
    c.eq("top", val(cq.top()), *m.begin());
  std::vector<int> exp(m.begin(), m.end());
  if (kind == TSSET) {
    // ordered traversal, forwards and (the iterators are std::set's) backwards
    checkSeq(c, "forward-traversal", cq.begin(), cq.end(), exp);
    typedef std::reverse_iterator<typename Q::const_iterator> RI;
    std::vector<int> bwd(exp.rbegin(), exp.rend());
    checkSeq(c, "backward-traversal", RI(cq.end()), RI(cq.begin()), bwd);
  } else {
    // heap order is an implementation detail: contents as a multiset
    checkBag(c, "forward-traversal", cq.begin(), cq.end(), exp);
  }
  c.lifetimesOk(tracked ? (long)m.size() : -1);
  c.sawSize(m.size(), 0);
}

template <typename T, typename MCmp, typename Q, Kind KIND>
void pqT(Case& c, bool rangeInit, bool removeOnEmpty, unsigned keyRange, unsigned nops) {
  constexpr bool tracked = ElemName<T>::tracked;
  constexpr bool isSet   = KIND == TSSET;
  typedef typename std::conditional<isSet, std::set<int, MCmp>, std::multiset<int, MCmp>>::type Model;
  Rng& rng = c.rng;
  Model m;
  {
    std::unique_ptr<Q> qp;
    if (rangeInit) {
      unsigned n = (unsigned)rng.below(12);
      std::vector<T> init;
      for (unsigned i = 0; i < n; ++i) {
        int v = (int)rng.below(keyRange);
        init.emplace_back(v);
        m.insert(v);
      }
      c.op("range-construct", n);
      qp.reset(new Q(init.begin(), init.end()));
    } else
      qp.reset(new Q());
    checkQ(c, *qp, m, KIND, tracked);
    unsigned grow = 60;
    for (unsigned step = 0; step < nops && !c.bad; ++step) {
      Q& q        = *qp;
      const Q& cq = q;
      if (rng.below(12) == 0)
        grow = (unsigned)rng.pick({30, 50, 60, 85});
      int v      = (int)rng.below(keyRange);
      unsigned x = (unsigned)rng.below(100);
      if (x < 2) {
        c.op("clear");
        q.clear();
        m.clear();
      } else if (x < 12) {
        c.op("find", v);
        T key(v);
        c.eq("result-found", cq.find(key), m.count(v) != 0);
      } else if (x < 24 && (removeOnEmpty || !m.empty())) {
        c.op(m.empty() ? "remove-on-empty" : "remove", v);
        size_t had = m.count(v);
        bool r;
        {
          T key(v);
          c.checking("result-removed");
          r = q.remove(key);
        }
        c.eq("result-removed", r, had != 0);
        if (!c.bad && had) {
          // remove(x) takes out one copy when x is the top and every copy otherwise;
          // either is accepted: at least one copy went, nothing else changed
          size_t now = 0, n = 0;
          for (auto it = cq.begin(); !(it == cq.end()) && n <= m.size(); ++it, ++n)
            now += val(*it) == v;
          if (now >= had)
            c.fail("removed-element-still-present", J().kv("value", v).kv("copies_before", (uint64_t)had).kv("copies_after", (uint64_t)now));
          else {
            if (had - now > 1)
              c.count("remove_took_several_copies");
            m.erase(v);
            for (size_t i = 0; i < now; ++i)
              m.insert(v);
          }
        }
      } else if (x < 24 + grow * 76 / 100 || m.empty()) {
        bool fresh = m.count(v) == 0;
        T key(v);
        if constexpr (isSet) {
          switch (rng.below(3)) {
          case 0: {
            c.op("push", v);
            bool r = q.push(key);
            c.eq("result-inserted", r, fresh);
            break;
          }
          case 1:
            c.op("push_back", v);
            q.push_back(key);
            break;
          default:
            c.op("insert", v);
            q.insert(key);
            break;
          }
        } else {
          switch (rng.below(3)) {
          case 0:
            c.op("push", v);
            q.push(key);
            break;
          case 1:
            c.op("push_back", v);
            q.push_back(key);
            break;
          default:
            c.op("insert", v);
            q.insert(key);
            break;
          }
        }
        m.insert(v);
      } else if (x < 97) {
        c.op("pop");
        int exp = *m.begin();
        int got;
        {
          T t = q.pop();
          got = val(t);
        }
        c.eq("result-value", got, exp);
        m.erase(m.begin());
      } else {
        if constexpr (KIND != TSSET) {
          size_t n = rng.below(64);
          c.op("reserve", (long)n);
          q.reserve(n);
        }
        if constexpr (KIND == MINHEAP) {
          c.op("copy-construct");
          std::unique_ptr<Q> np(new Q(cq));
          checkQ(c, *np, m, KIND, false);
          c.lifetimesOk(tracked ? 2 * (long)m.size() : -1);
          if (!c.bad)
            qp = std::move(np);
        }
      }
      checkQ(c, *qp, m, KIND, tracked);
    }
    c.phase("destructor");
  }
  c.lifetimesOk(tracked ? 0 : -1);
}

template <typename T, typename Cmp, typename MCmp>
void pqKind(Case& c, Kind kind, bool rangeInit, bool roe, unsigned keyRange, unsigned nops) {
  switch (kind) {
  case MINHEAP: return pqT<T, MCmp, galois::MinHeap<T, Cmp>, MINHEAP>(c, rangeInit, roe, keyRange, nops);
  case TSMINHEAP: return pqT<T, MCmp, galois::ThreadSafeMinHeap<T, Cmp>, TSMINHEAP>(c, rangeInit, roe, keyRange, nops);
  default: return pqT<T, MCmp, galois::ThreadSafeOrderedSet<T, Cmp>, TSSET>(c, rangeInit, roe, keyRange, nops);
  }
}

void runPQ(Case& c, Kind kind, const char* name) {
  bool tracked      = c.rng.below(2) == 0;
  bool greater      = c.rng.below(3) == 0;
  bool rangeInit    = c.rng.below(4) == 0;
  bool roe          = c.rng.below(32) == 0; // remove() may be called on an empty queue
  unsigned keyRange = c.rng.pick({4u, 16u, 16u, 1000u});
  unsigned nops     = c.pickOps();
  std::string cfg   = std::string(tracked ? "tracked" : "int") + (greater ? "|greater" : "|less") +
                    (rangeInit ? "|range" : "") + (roe ? "|roe" : "") + "|k" + std::to_string(keyRange);
  if (!c.begin(name, cfg,
          J().kv("elem", tracked ? "tracked" : "int").kv("cmp", greater ? "greater" : "less")
              .kv("range_constructed", rangeInit).kv("remove_on_empty_allowed", roe).kv("key_range", keyRange)
              .kv("nops", nops),
               roe ? "remove-on-empty" : ""))
    return;
  if (tracked) {
    if (greater)
      pqKind<Tracked, std::greater<Tracked>, std::greater<int>>(c, kind, rangeInit, roe, keyRange, nops);
    else
      pqKind<Tracked, std::less<Tracked>, std::less<int>>(c, kind, rangeInit, roe, keyRange, nops);
  } else {
    if (greater)
      pqKind<int, std::greater<int>, std::greater<int>>(c, kind, rangeInit, roe, keyRange, nops);
    else
      pqKind<int, std::less<int>, std::less<int>>(c, kind, rangeInit, roe, keyRange, nops);
  }
}

} // namespace

void run_MinHeap(Case& c) { runPQ(c, MINHEAP, "MinHeap"); }
void run_ThreadSafeMinHeap(Case& c) { runPQ(c, TSMINHEAP, "ThreadSafeMinHeap"); }
void run_ThreadSafeOrderedSet(Case& c) { runPQ(c, TSSET, "ThreadSafeOrderedSet"); }

} // namespace c14
