// C14 — the priority-queue family: MinHeap, ThreadSafeMinHeap (vs std::multiset
// ordered by the comparator) and ThreadSafeOrderedSet (vs std::set), used from
// one thread.
#include "c14_common.h"

#include "galois/Galois.h"
#include "galois/PriorityQueue.h"

#include <memory>
#include <set>

namespace c14 {
namespace {

enum Kind { MINHEAP, TSMINHEAP, TSSET };

template <typename Q, typename Model>
void checkQ(Case& c, Q& q, const Model& m, Kind kind, bool tracked) {
  if (!c.regOk())
    return;
  const Q& cq = q;
  c.eq("size", cq.size(), m.size());
  c.eq("empty", cq.empty(), m.empty());
  if (c.bad)
    return;
  if (!m.empty())
    c.eq("top", val(cq.top()), *m.begin());
  std::vector<int> exp(m.begin(), m.end());
  if (kind == TSSET) {
    // ordered traversal, forwards and (the iterators are std::set's) backwards
    checkSeq(c, "forward-traversal", cq.begin(), cq.end(), exp);
    typedef std::reverse_iterator<typename Q::const_iterator> RI;
    std::vector<int> bwd(exp.rbegin(), exp.rend());
    checkSeq(c, "backward-traversal", RI(cq.end()), RI(cq.begin()), bwd);
  } else {
    // heap order is an implementation detail: contents as a multiset
    checkBag(c, "forward-traversal", cq.begin(), cq.end(), exp);
  }
  c.lifetimesOk(tracked ? (long)m.size() : -1);
  c.sawSize(m.size(), 0);
}

template <typename T, typename MCmp, typename Q, Kind KIND>
void pqT(Case& c, bool rangeInit, unsigned keyRange, unsigned nops) {
  constexpr bool tracked = ElemName<T>::tracked;
  constexpr bool isSet   = KIND == TSSET;
  typedef typename std::conditional<isSet, std::set<int, MCmp>, std::multiset<int, MCmp>>::type Model;
  Rng& rng = c.rng;
  Model m;
  {
    std::unique_ptr<Q> qp;
    // range construction from 0..~200 elements: few distinct values, ascending, descending or random input
    auto rangeBuild = [&](Model& nm) {
      unsigned n = (unsigned)rng.below(rng.pick({4u, 17u, 40u, 201u}));
      unsigned pattern = (unsigned)rng.below(4), kr = 1 + (unsigned)rng.below(6);
      std::vector<T> init;
      nm.clear();
      for (unsigned i = 0; i < n; ++i) {
        int v = pattern == 0 ? (int)rng.below(kr) : pattern == 1 ? (int)i / 2 : pattern == 2 ? (int)(n - i) / 2
                                                                                                : (int)rng.below(keyRange);
        init.emplace_back(v);
        nm.insert(v);
      }
      c.op("range-construct", n);
      return new Q(init.begin(), init.end());
    };
    if (rangeInit)
      qp.reset(rangeBuild(m));
    else
      qp.reset(new Q());
    checkQ(c, *qp, m, KIND, tracked);
    unsigned grow = 60;
    for (unsigned step = 0; step < nops && !c.bad; ++step) {
      Q& q        = *qp;
      const Q& cq = q;
      if (rng.below(12) == 0)
        grow = (unsigned)rng.pick({30, 50, 60, 85});
      int v      = (int)rng.below(keyRange);
      unsigned x = (unsigned)rng.below(100);
      if (x < 2) {
        c.op("clear");
        q.clear();
        m.clear();
      } else if (x < 12) {
        c.op("find", v);
        T key(v);
        c.eq("result-found", cq.find(key), m.count(v) != 0);
      } else if (x < 24) {
        c.op(m.empty() ? "remove-on-empty" : "remove", v);
        size_t had = m.count(v);
        bool r;
        {
          T key(v);
          c.checking("result-removed");
          r = q.remove(key);
        }
        c.eq("result-removed", r, had != 0);
        if (!c.bad && had) {
          // remove(x) takes out one copy when x is the top and every copy otherwise;
          // either is accepted: at least one copy went, nothing else changed
          size_t now = 0, n = 0;
          for (auto it = cq.begin(); !(it == cq.end()) && n <= m.size(); ++it, ++n)
            now += val(*it) == v;
          if (now >= had)
            c.fail("removed-element-still-present", J().kv("value", v).kv("copies_before", (uint64_t)had).kv("copies_after", (uint64_t)now));
          else {
            if (had - now > 1)
              c.count("remove_took_several_copies");
            m.erase(v);
            for (size_t i = 0; i < now; ++i)
              m.insert(v);
          }
        }
      } else if (x < 24 + grow * 76 / 100 || m.empty()) {
        bool fresh = m.count(v) == 0;
        T key(v);
        if constexpr (isSet) {
          switch (rng.below(3)) {
          case 0: {
            c.op("push", v);
            bool r = q.push(key);
            c.eq("result-inserted", r, fresh);
            break;
          }
          case 1:
            c.op("push_back", v);
            q.push_back(key);
            break;
          default:
            c.op("insert", v);
            q.insert(key);
            break;
          }
        } else {
          switch (rng.below(3)) {
          case 0:
            c.op("push", v);
            q.push(key);
            break;
          case 1:
            c.op("push_back", v);
            q.push_back(key);
            break;
          default:
            c.op("insert", v);
            q.insert(key);
            break;
          }
        }
        m.insert(v);
      } else if (x < 94) {
        c.op("pop");
        int exp = *m.begin();
        int got;
        {
          T t = q.pop();
          got = val(t);
        }
        c.eq("result-value", got, exp);
        m.erase(m.begin());
      } else {
        switch (rng.below(4)) {
        case 0:
          if constexpr (KIND != TSSET) {
            size_t n = rng.below(rng.below(2) ? 64 : 600);
            c.op("reserve", (long)n);
            q.reserve(n);
          }
          break;
        case 1:
          if constexpr (KIND == MINHEAP) {
            c.op("copy-construct");
            std::unique_ptr<Q> np(new Q(cq));
            checkQ(c, *np, m, KIND, false);
            c.lifetimesOk(tracked ? 2 * (long)m.size() : -1);
            if (!c.bad)
              qp = std::move(np);
          }
          break;
        case 2: {
          // a freshly range-constructed queue replaces the current one
          Model nm;
          std::unique_ptr<Q> np(rangeBuild(nm));
          m.swap(nm);
          qp = std::move(np);
          break;
        }
        default: {
          // pop everything: the complete order
          c.op("drain", (long)m.size());
          while (!m.empty() && !c.bad) {
            int got;
            {
              T t = qp->pop();
              got = val(t);
            }
            c.eq("result-value", got, *m.begin());
            m.erase(m.begin());
            c.eq("size", cq.size(), m.size());
          }
          break;
        }
        }
      }
      checkQ(c, *qp, m, KIND, tracked);
    }
    c.phase("destructor");
  }
  c.lifetimesOk(tracked ? 0 : -1);
}

template <typename T, typename Cmp, typename MCmp>
void pqKind(Case& c, Kind kind, bool rangeInit, unsigned keyRange, unsigned nops) {
  switch (kind) {
  case MINHEAP: return pqT<T, MCmp, galois::MinHeap<T, Cmp>, MINHEAP>(c, rangeInit, keyRange, nops);
  case TSMINHEAP: return pqT<T, MCmp, galois::ThreadSafeMinHeap<T, Cmp>, TSMINHEAP>(c, rangeInit, keyRange, nops);
  default: return pqT<T, MCmp, galois::ThreadSafeOrderedSet<T, Cmp>, TSSET>(c, rangeInit, keyRange, nops);
  }
}

void runPQ(Case& c, Kind kind, const char* name) {
  bool tracked      = c.rng.below(2) == 0;
  bool greater      = c.rng.below(3) == 0;
  bool rangeInit    = c.rng.below(3) == 0;
  unsigned keyRange = c.rng.pick({4u, 16u, 16u, 1000u});
  unsigned nops     = c.pickOps();
  std::string cfg   = std::string(tracked ? "tracked" : "int") + (greater ? "|greater" : "|less") +
                    (rangeInit ? "|range" : "") + "|k" + std::to_string(keyRange);
  if (!c.begin(name, cfg,
          J().kv("elem", tracked ? "tracked" : "int").kv("cmp", greater ? "greater" : "less")
              .kv("range_constructed", rangeInit).kv("key_range", keyRange)
              .kv("nops", nops)))
    return;
  if (tracked) {
    if (greater)
      pqKind<Tracked, std::greater<Tracked>, std::greater<int>>(c, kind, rangeInit, keyRange, nops);
    else
      pqKind<Tracked, std::less<Tracked>, std::less<int>>(c, kind, rangeInit, keyRange, nops);
  } else {
    if (greater)
      pqKind<int, std::greater<int>, std::greater<int>>(c, kind, rangeInit, keyRange, nops);
    else
      pqKind<int, std::less<int>, std::less<int>>(c, kind, rangeInit, keyRange, nops);
  }
}

} // namespace

void run_MinHeap(Case& c) { runPQ(c, MINHEAP, "MinHeap"); }
void run_ThreadSafeMinHeap(Case& c) { runPQ(c, TSMINHEAP, "ThreadSafeMinHeap"); }
void run_ThreadSafeOrderedSet(Case& c) { runPQ(c, TSSET, "ThreadSafeOrderedSet"); }

} // namespace c14
