// C11 full template matrix (c11_graphs_full only): LC_Linear_Graph x options (float, struct)
#include "c11_fam_linear.h"

namespace c11 {
void registerX_linear_b() {
  regLinFull<float>();
  regLinFull<E12>();
}
} // namespace c11
