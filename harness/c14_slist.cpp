// C14 — galois::gslist (chunked singly linked list, std::forward_list-like: push_front /
// pop_front / front / forward iteration newest-first) and concurrent_gslist
// used from one thread (iteration order documented as unspecified: bag model).
#include "c14_common.h"

#include "galois/gslist.h"
#include "galois/runtime/Mem.h"

#include <deque>
#include <memory>

namespace c14 {
namespace {

template <typename L, bool Conc>
void checkList(Case& c, L& l, const std::deque<int>& m, unsigned CS, bool tracked, bool useFront) {
  if (!c.regOk())
    return;
  const L& cl = l;
  c.eq("empty", l.empty(), m.empty());
  if (c.bad)
    return;
  std::vector<int> exp = toVec(m);
  if (Conc) {
    std::vector<int> a, b;
    checkBag(c, "forward-traversal", l.begin(), l.end(), exp, &a);
    checkBag(c, "const-forward-traversal", cl.begin(), cl.end(), exp, &b);
    if (!c.bad && a != b)
      c.fail("const-traversal-differs", J().raw("forward", jarr(a, 48)).raw("const_forward", jarr(b, 48)));
  } else {
    checkSeq(c, "forward-traversal", l.begin(), l.end(), exp);
    checkSeq(c, "const-forward-traversal", cl.begin(), cl.end(), exp);
  }
  if (useFront && !m.empty() && !c.bad) {
    // (the model's front is the most recently pushed element; single-threaded
    // use of the concurrent list pushes and pops at the same end as well, but
    // only "front() is an element" is demanded there)
    ++c.resultChecks;
    c.checking("front");
    int f = val(l.front());
    c.checking(nullptr);
    if (Conc) {
      if (std::find(m.begin(), m.end(), f) == m.end())
        c.fail("front-not-an-element", J().kv("front", f));
    } else {
      c.eq("front", f, m.front());
      c.eq("const-front", val(cl.front()), m.front());
    }
  }
  c.lifetimesOk(tracked ? (long)m.size() : -1);
  c.sawSize(m.size(), CS);
}

template <typename T, unsigned CS, bool Conc>
void listT(Case& c, bool useFront, unsigned nops) {
  typedef galois::gslist_base<T, (int)CS, Conc> L;
  typedef typename L::promise_to_dealloc Promise;
  constexpr bool tracked = ElemName<T>::tracked;
  Rng& rng               = c.rng;
  galois::runtime::FixedSizeHeap heap(sizeof(typename L::block_type));
  std::deque<int> m; // front = newest
  {
    std::unique_ptr<L> lp(new L());
    checkList<L, Conc>(c, *lp, m, CS, tracked, useFront);
    unsigned grow = 60;
    for (unsigned step = 0; step < nops && !c.bad; ++step) {
      L& l = *lp;
      if (rng.below(12) == 0)
        grow = (unsigned)rng.pick({25, 50, 60, 85});
      unsigned x = (unsigned)rng.below(100);
      if (x < 5) {
        switch (rng.below(4)) {
        case 0:
          c.op("clear(heap)");
          l.clear(heap);
          m.clear();
          break;
        case 1:
          c.op("clear(promise_to_dealloc)");
          l.clear(Promise());
          m.clear();
          break;
        case 2: {
          c.op("move-construct");
          std::unique_ptr<L> np(new L(std::move(l)));
          lp = std::move(np);
          break;
        }
        default: {
          unsigned pre = (unsigned)rng.below(2 * CS + 2);
          c.op("move-assign", pre);
          std::unique_ptr<L> np(new L());
          for (unsigned i = 0; i < pre; ++i) {
            T tmp(c.nextVal());
            np->push_front(heap, tmp);
          }
          *np = std::move(l);
          lp  = std::move(np);
          break;
        }
        }
      } else if (x < 5 + grow * 95 / 100) {
        int v = c.nextVal();
        if constexpr (Conc) {
          T tmp(v);
          c.op("push_front", v);
          l.push_front(heap, tmp);
        } else {
          switch (rng.below(3)) {
          case 0: {
            T tmp(v);
            c.op("push_front-copy", v);
            l.push_front(heap, tmp);
            break;
          }
          case 1:
            c.op("push_front-move", v);
            l.push_front(heap, T(v));
            break;
          default:
            c.op("emplace_front", v);
            l.emplace_front(heap, v);
            break;
          }
        }
        m.push_front(v);
      } else {
        // pop on any state (empty -> false)
        int f = 0;
        bool popped;
        if (Conc && !m.empty() && useFront) {
          c.checking("front");
          f = val(l.front());
          c.checking(nullptr);
        }
        if (rng.below(3)) {
          c.op("pop_front(heap)", NOARG, NOARG, "pop_front");
          popped = l.pop_front(heap);
        } else {
          c.op("pop_front(promise_to_dealloc)", NOARG, NOARG, "pop_front");
          popped = l.pop_front(Promise());
        }
        c.eq("result-popped", popped, !m.empty());
        if (!c.bad && !m.empty()) {
          if (Conc && useFront) {
            auto it = std::find(m.begin(), m.end(), f);
            if (it != m.end())
              m.erase(it);
          } else if (Conc) {
            // which element went is read off the traversal (bag semantics)
            std::multiset<int> left(m.begin(), m.end());
            size_t n = 0;
            for (auto it = l.begin(); !(it == l.end()) && n < m.size(); ++it, ++n) {
              auto li = left.find(val(*it));
              if (li != left.end())
                left.erase(li);
            }
            auto mi = left.size() == 1 ? std::find(m.begin(), m.end(), *left.begin()) : m.begin();
            m.erase(mi);
          } else
            m.pop_front();
        }
      }
      checkList<L, Conc>(c, *lp, m, CS, tracked, useFront);
    }
    // half of the cases release the blocks first, the others leave it to the destructor
    if (!c.bad && rng.below(2)) {
      c.op("clear(heap)");
      lp->clear(heap);
      m.clear();
      checkList<L, Conc>(c, *lp, m, CS, tracked, useFront);
    }
    c.phase("destructor");
  }
  c.lifetimesOk(tracked ? 0 : -1);
}

template <typename T, bool Conc>
void listCS(Case& c, unsigned cs, bool f, unsigned nops) {
  switch (cs) {
  case 1: return listT<T, 1, Conc>(c, f, nops);
  case 2: return listT<T, 2, Conc>(c, f, nops);
  case 3: return listT<T, 3, Conc>(c, f, nops);
  case 4: return listT<T, 4, Conc>(c, f, nops);
  case 16: return listT<T, 16, Conc>(c, f, nops);
  default: return listT<T, 64, Conc>(c, f, nops);
  }
}

template <bool Conc>
void runList(Case& c, const char* name) {
  static const char* EN[] = {"tracked", "pod", "tracked12", "pod20", "tracked24"};
  unsigned elem = c.rng.below(4) ? (c.rng.below(3) != 0 ? 0u : 1u) : 2 + (unsigned)c.rng.below(3);
  // 12-, 20- and 24-byte elements: chunk sizes 3 and 16
  unsigned cs   = elem < 2 ? c.rng.pick({1u, 2u, 2u, 3u, 3u, 4u, 4u, 16u, 64u}) : c.rng.pick({3u, 16u});
  bool useFront = c.rng.below(4) != 0; // front() is part of the per-step checks
  unsigned nops = c.pickOps();
  std::string cfg = "cs" + std::to_string(cs) + "|" + EN[elem] + (useFront ? "|front" : "");
  if (!c.begin(name, cfg, J().kv("chunk", cs).kv("elem", EN[elem]).kv("front_checked", useFront).kv("nops", nops)))
    return;
  switch (elem) {
  case 0: return listCS<Tracked, Conc>(c, cs, useFront, nops);
  case 1: return listCS<Pod, Conc>(c, cs, useFront, nops);
  case 2: return cs == 3 ? listT<Tracked12, 3, Conc>(c, useFront, nops) : listT<Tracked12, 16, Conc>(c, useFront, nops);
  case 3: return cs == 3 ? listT<Pod20, 3, Conc>(c, useFront, nops) : listT<Pod20, 16, Conc>(c, useFront, nops);
  default: return cs == 3 ? listT<Tracked24, 3, Conc>(c, useFront, nops) : listT<Tracked24, 16, Conc>(c, useFront, nops);
  }
}

} // namespace

void run_gslist(Case& c) { runList<false>(c, "gslist"); }
void run_ConcurrentGslist(Case& c) { runList<true>(c, "ConcurrentGslist"); }

} // namespace c14
