// C16: galois::ParallelSTL::partition
#include "c16_common.h"

namespace c16 {

template <class T>
static void partition_T(const CaseCfg& c, Rng& rng, Outcome& o) {
  std::vector<uint32_t> keys = keys_for_pred(c, rng);
  std::vector<T> input       = make_input_from_keys<T>(keys), out;
  Pred<T> pred{c.pred};
  auto pure = [&](const T& v) { return predPure(c.pred, keyOf(v)); };
  long ret = -1, oobIdx = 0;
  bool escaped = false;
  try {
    with_ra_range<T>(c, input, out, [&](auto first, auto last) {
      auto p = galois::ParallelSTL::partition(first, last, pred);
      ret    = (long)std::distance(first, p);
    });
  } catch (const OobEscape& e) {
    escaped = true;
    oobIdx  = e.index;
  }
  Monitor& m       = g_mon;
  const long n     = (long)c.n;
  uint64_t serial  = m.totalSerial();
  bool allExamined = m.allSeen(); // every position was examined inside the parallel phase => nothing left over
  size_t nTrue     = (size_t)std::count_if(input.begin(), input.end(), pure);

  J w; // witness common part
  w.kv("n", c.n).kv("threads", c.threads).kv("threads_used", m.threadsUsed()).kv("expected_true", nTrue)
      .kv("pred_calls_parallel", m.totalCalls() - serial).kv("pred_calls_serial_cleanup", serial)
      .kv("all_positions_examined_in_parallel_phase", allExamined);

  if (escaped) {
    // the caller-side clean-up applied the predicate to an object outside [first,last).
    // Class no-leftover: every position had been examined inside the parallel phase and the very first
    // predicate application of the serial clean-up was already outside the range.
    bool noLeftover = allExamined && serial == 0;
    J ww = w;
    ww.kv("what", "predicate applied outside [first,last) by the serial clean-up after the parallel phase");
    if (m.runs.size() == 1) // contiguous storage: the position is exact (n means *last)
      ww.kv("position", oobIdx);
    o.violation(std::string("C16:partition:oob:") + (noLeftover ? "no-leftover" : "other"), ww.str());
    o.cls = "oob";
  } else {
    auto v = ref16::check_partition(input, out, ret, pure, [](const T& a, const T& b) { return a == b; });
    size_t diff = 0;
    bool perm   = ref16::same_multiset(input, out, TotalLess(), &diff);
    if (!perm)
      o.violation("C16:partition:not-permutation",
                  J(w).kv("what", "output is not a permutation of the input").kv("first_diff_rank", diff).str());
    if (!v.partitioned) {
      // Observable classes of an invalid result (so that different defects get different keys):
      //  leftovers-not-cleaned-up: positions were left unexamined by the parallel phase, yet the caller-side
      //     clean-up did not apply the predicate even once; the result is a block boundary
      //  leftover-span-misses-boundary: output is T* F+ T+ F* and the returned point closes a span that
      //     ends/starts on a block boundary (a serial clean-up that did not reach the low/high meeting point)
      std::string cls;
      bool blockPoint = ret >= 0 && (ret % 1024 == 0 || (n - ret) % 1024 == 0);
      if (c.threads >= 2 && serial == 0 && !allExamined && blockPoint)
        cls = ":leftovers-not-cleaned-up";
      else if (c.threads >= 2 && v.inRange) {
        bool lowSide = false, highSide = false;
        if (v.runs <= 1 || (v.runs == 2 && v.firstRunTrue)) {
          // the output itself is T* F*, only the returned point is off: a clean-up span without a false
          // (below the meeting point) or without a true (above it) element
          long boundary = v.runs == 2 ? (long)v.boundary[0] : (v.firstRunTrue ? n : 0);
          lowSide       = ret < boundary && ret % 1024 == 0;
          highSide      = ret > boundary && (n - ret) % 1024 == 0;
        } else {
          size_t r0 = v.firstRunTrue ? 1 : 0; // index of the first false run
          if (v.runs >= r0 + 2 && v.runs <= r0 + 3) {
            long fStart = r0 ? (long)v.boundary[0] : 0;
            long tStart = (long)v.boundary[r0];
            long tEnd   = v.runs == r0 + 3 ? (long)v.boundary[r0 + 1] : n;
            lowSide     = ret == fStart && tStart % 1024 == 0;
            highSide    = ret == tEnd && (n - tStart) % 1024 == 0;
          }
        }
        if (lowSide || highSide)
          cls = ":leftover-span-misses-boundary";
      }
      o.violation("C16:partition:not-partitioned" + cls,
                  J(w).kv("what", "returned point is not a partition point of the output")
                      .kv("returned", ret).kv("wrong_side_position", v.badIndex).kv("pred_there", v.badValue)
                      .kv("runs", v.runs).kv("first_run_true", v.firstRunTrue)
                      .kv("run_starts_1", v.boundary[0]).kv("run_starts_2", v.boundary[1]).kv("run_starts_3", v.boundary[2])
                      .kv("output_identical_to_input", v.untouched).str());
    }
    o.cls = (perm && v.partitioned) ? "ok" : "bad";
  }
  o.add("partition_serial_cleanup_calls", serial);
  o.add("partition_no_leftover_cases", (c.n > 1024 && allExamined) ? 1 : 0);
  o.add("partition_true_elements", nTrue);
  o.add("partition_cases_2plus_threads_claimed_blocks", m.threadsUsed() >= 2);
  o.add("partition_cases_4plus_threads_claimed_blocks", m.threadsUsed() >= 4);
}

void run_partition(const CaseCfg& c, Rng& rng, Outcome& o) {
  if (c.elem == 1)
    partition_T<Elem>(c, rng, o);
  else
    partition_T<uint32_t>(c, rng, o);
}

} // namespace c16
