// C16 — ParallelSTL algorithms equal their std:: counterparts (driver TU: case generation, logging).
//
// case = one algorithm (component) x one generated input x one thread count on the process' (virtual)
// topology. See c16_common.h for the monitors and ref/c16_ref.h for the oracles.
#define VERIF_MAIN_TU
#if defined(__SANITIZE_THREAD__)
// verif.h declares these inside namespace verif but uses them unqualified from the global __tsan_on_report;
// the same C-linkage entities declared at global scope make that lookup succeed (no behaviour change).
extern "C" {
int __tsan_get_report_data(void* report, const char** description, int* count, int* stack_count, int* mop_count,
                           int* loc_count, int* mutex_count, int* thread_count, int* unique_tid_count,
                           void** sleep_trace, unsigned long trace_size);
int __tsan_get_report_mop(void* report, unsigned long idx, int* tid, void** addr, int* size, int* write, int* atomic,
                          void** trace, unsigned long trace_size);
}
#endif
#include "c16_common.h"

#include <cmath>

namespace c16 {

// ------------------------------------------------------------------ boolean (predicate) patterns
const char* const BOOLPAT_NAME[] = {"all-true",      "all-false",       "FT-halves",        "TF-halves",   "alternating",
                                    "random-half",   "sparse-true",     "sparse-false",     "block-random", "block-random-shifted",
                                    "block-random+flips", "mirrored-complement", "single-true", "single-false", "true-run",
                                    "block-mirrored"};
const unsigned NBOOLPAT = sizeof(BOOLPAT_NAME) / sizeof(BOOLPAT_NAME[0]);

static size_t special_pos(Rng& rng, size_t n) {
  if (!n)
    return 0;
  size_t cand[] = {0, n - 1, 1023, 1024, n / 2, n > 1024 ? n - 1024 : 0, n > 1025 ? n - 1025 : 0, (size_t)rng.below(n),
                   (size_t)rng.below(n)};
  size_t p = cand[rng.below(sizeof(cand) / sizeof(cand[0]))];
  return p < n ? p : n - 1;
}

std::vector<uint8_t> gen_bools(Rng& rng, unsigned pat, size_t n) {
  std::vector<uint8_t> b(n, 0);
  switch (pat) {
  case 0: std::fill(b.begin(), b.end(), 1); break;
  case 1: break;
  case 2:
    for (size_t i = n / 2; i < n; ++i)
      b[i] = 1;
    break;
  case 3:
    for (size_t i = 0; i < n / 2; ++i)
      b[i] = 1;
    break;
  case 4:
    for (size_t i = 0; i < n; ++i)
      b[i] = i & 1;
    break;
  case 5:
    for (size_t i = 0; i < n; ++i)
      b[i] = rng.next() & 1;
    break;
  case 6:
  case 7: {
    uint64_t d = rng.pick<uint64_t>({16, 256, 4096});
    for (size_t i = 0; i < n; ++i)
      b[i] = (rng.below(d) == 0) ^ (pat == 7);
    break;
  }
  case 8:
  case 9:
  case 10: {
    size_t shift = pat == 9 ? 1 + (size_t)rng.below(1023) : 0;
    std::vector<uint8_t> bits((n + shift) / 1024 + 2);
    for (auto& x : bits)
      x = rng.next() & 1;
    for (size_t i = 0; i < n; ++i)
      b[i] = bits[(i + shift) / 1024];
    if (pat == 10 && n) {
      unsigned flips = 1 + (unsigned)rng.below(8);
      for (unsigned f = 0; f < flips; ++f)
        b[special_pos(rng, n)] ^= 1;
    }
    break;
  }
  case 11: // b[n-1-i] = !b[i]: the low and the high side run out together
    for (size_t i = 0; i < n / 2; ++i) {
      b[i]         = rng.next() & 1;
      b[n - 1 - i] = !b[i];
    }
    if (n & 1)
      b[n / 2] = rng.next() & 1;
    break;
  case 12:
    if (n)
      b[special_pos(rng, n)] = 1;
    break;
  case 13:
    std::fill(b.begin(), b.end(), 1);
    if (n)
      b[special_pos(rng, n)] = 0;
    break;
  case 14: {
    if (n) {
      size_t a = rng.below(n), e = a + 1 + rng.below(n - a);
      for (size_t i = a; i < e; ++i)
        b[i] = 1;
    }
    break;
  }
  default: { // whole blocks, block j from the front is the complement of block j from the back
    size_t nb = n / 1024 + 1;
    std::vector<uint8_t> bits(nb);
    for (auto& x : bits)
      x = rng.next() & 1;
    for (size_t i = 0; i < n / 2; ++i) {
      b[i]         = bits[i / 1024];
      b[n - 1 - i] = !b[i];
    }
    if (n & 1)
      b[n / 2] = 1;
    break;
  }
  }
  return b;
}

uint32_t key_for(Rng& rng, const PredSpec& s, bool want) {
  uint32_t r = (uint32_t)rng.next();
  switch (s.kind) {
  case 0: return (r & ~1u) | (want ? 1u : 0u);
  case 1: return (r >> 1) | (want ? 0x80000000u : 0u);
  default: {
    uint32_t base = (r % 500000000u) * 7u;
    return base + (want ? r % 3 : 3 + (r >> 8) % 4);
  }
  }
}

// ------------------------------------------------------------------ key patterns
const char* const KEYPAT_NAME[] = {"random",     "few-distinct", "all-equal",   "sorted",      "reversed",       "nearly-sorted", "organ-pipe",
                                   "sawtooth",   "dup-heavy",    "small-range", "front-outlier", "sorted-blocks", "equal-runs"};
const unsigned NKEYPAT = sizeof(KEYPAT_NAME) / sizeof(KEYPAT_NAME[0]);

std::vector<uint32_t> gen_keys(Rng& rng, unsigned pat, size_t n) {
  std::vector<uint32_t> k(n);
  switch (pat) {
  case 0:
    for (auto& x : k)
      x = (uint32_t)rng.next();
    break;
  case 1: {
    uint64_t d = rng.pick<uint64_t>({2, 3, 16, 100});
    uint32_t base = (uint32_t)rng.next() >> 1;
    for (auto& x : k)
      x = base + (uint32_t)rng.below(d) * 1000;
    break;
  }
  case 2: {
    uint32_t v = (uint32_t)rng.next();
    for (auto& x : k)
      x = v;
    break;
  }
  case 3:
  case 4:
  case 5: {
    uint32_t v = (uint32_t)rng.below(1000);
    for (size_t i = 0; i < n; ++i) {
      v += (uint32_t)rng.below(3); // duplicates included
      k[i] = v;
    }
    if (pat == 4)
      std::reverse(k.begin(), k.end());
    if (pat == 5 && n > 1)
      for (size_t s = 0; s < n / 100 + 1; ++s)
        std::swap(k[rng.below(n)], k[rng.below(n)]);
    break;
  }
  case 6:
    for (size_t i = 0; i < n; ++i)
      k[i] = (uint32_t)(i < n / 2 ? i : n - i);
    break;
  case 7: {
    uint64_t m = rng.pick<uint64_t>({2, 7, 1000, 1024, 1025});
    for (size_t i = 0; i < n; ++i)
      k[i] = (uint32_t)(i % m);
    break;
  }
  case 8: {
    uint32_t v = (uint32_t)rng.next();
    for (auto& x : k)
      x = rng.below(10) ? v : (uint32_t)rng.next();
    break;
  }
  case 9:
    for (auto& x : k)
      x = (uint32_t)rng.below(n / 4 + 1);
    break;
  case 10: {
    for (auto& x : k)
      x = 5;
    if (n) {
      if (rng.next() & 1)
        k[0] = 9;
      else
        k[n - 1] = 1;
    }
    break;
  }
  case 11:
    for (size_t i = 0; i < n; ++i)
      k[i] = (uint32_t)((i % 1024) * 4 + rng.below(4));
    break;
  default: {
    size_t i = 0;
    while (i < n) {
      uint32_t v = (uint32_t)rng.below(64);
      size_t len = 1 + rng.below(2000);
      for (size_t j = 0; j < len && i < n; ++j)
        k[i++] = v;
    }
    break;
  }
  }
  return k;
}

// ------------------------------------------------------------------ sizes
static size_t pick_size(Rng& rng, unsigned comp, size_t cap) {
  size_t n;
  if (comp == PARTITION && rng.below(3) == 0) {
    // many blocks: only then can more than two or three threads claim blocks from both ends
    n = 1024 * (size_t)rng.range(8, 64) + (size_t)rng.pick<int>({0, 0, 1, 1023, (int)rng.range(1, 1023)});
    return std::min(n, cap);
  }
  switch (rng.below(16)) {
  case 0: n = rng.pick<size_t>({0, 1, 2, 3}); break;
  case 1: n = rng.pick<size_t>({1023, 1024, 1025}); break;
  case 2: n = rng.pick<size_t>({2047, 2048, 2049}); break;
  case 3:
  case 4: n = 1024 * (size_t)rng.range(2, 12); break;
  case 5: n = 1024 * (size_t)rng.range(1, 12) + (size_t)rng.pick<int>({1, 1023, 512, (int)rng.range(1, 1023)}); break;
  case 6:
  case 7: n = (size_t)rng.range(1025, 2048); break;
  case 8:
  case 9: n = (size_t)rng.range(2049, 8192); break;
  case 10: n = (size_t)rng.range(1, 1024); break;
  case 11:
  case 12: n = (size_t)rng.range(8193, 32768); break;
  case 13: n = rng.pick<size_t>({65536, 100000, 99999, 65537}); break;
  case 14: n = 1024 * (size_t)rng.range(2, 6); break;
  default: n = (size_t)std::exp(rng.unit() * std::log(100000.0)); break;
  }
  return std::min(n, cap);
}

static const unsigned COMP_WEIGHT[NCOMP] = {18, 30, 8, 12, 8, 10, 10, 4};

} // namespace c16

using namespace c16;

int main(int argc, char** argv) {
  verif::Harness H("C16", argc, argv);
  galois::SharedMemSys G;
  auto& tp         = galois::substrate::getThreadPool();
  unsigned maxT    = tp.getMaxThreads();
  unsigned sockets = tp.getMaxSockets();
  long onlyComp    = H.paramInt("comp", -1);
  size_t sizeCap   = (size_t)H.paramInt("maxn", VERIF_TSAN ? 30000 : 100000);
  double budgetNs  = (double)H.paramInt("delay_budget_us", H.thorough ? 3000 : 1200) * 1000.0;
  uint64_t salt    = (uint64_t)H.paramInt("salt", 0); // different runs of one check explore different cases
  long boost       = H.paramInt("boost", -1);         // component whose weight is multiplied by 6 in this run
  unsigned weight[NCOMP], wsum = 0;
  for (unsigned i = 0; i < NCOMP; ++i) {
    weight[i] = COMP_WEIGHT[i] * ((long)i == boost ? 6 : 1);
    wsum += weight[i];
  }

  for (long k = H.firstCase(); k < H.endCase(); ++k) {
    Rng rng(salt ? verif::mix(H.caseSeed(k), salt) : H.caseSeed(k));
    CaseCfg c;
    c.maxT     = maxT;
    c.sockets  = sockets;
    c.thorough = H.thorough;
    if (onlyComp >= 0)
      c.comp = (unsigned)onlyComp % NCOMP;
    else {
      unsigned w = (unsigned)rng.below(wsum);
      for (c.comp = 0; w >= weight[c.comp]; ++c.comp)
        w -= weight[c.comp];
    }
    switch (rng.below(8)) {
    case 0: c.threads = 1; break;
    case 1: c.threads = std::min(2u, maxT); break;
    case 2:
    case 3: c.threads = maxT; break;
    case 4: c.threads = std::min(maxT, 3u + (unsigned)rng.below(2)); break;
    case 5: c.threads = maxT > 1 ? maxT - 1 : 1; break;
    default: c.threads = 1 + (unsigned)rng.below(maxT); break;
    }
    // iterator kind / element type
    c.elem = (unsigned)rng.below(2);
    switch (c.comp) {
    case SORT:
    case PARTITION:
    case PARTIAL_SUM:
      c.iter = rng.pick<unsigned>({IT_VECTOR, IT_VECTOR, IT_POINTER, IT_POINTER, IT_DEQUE, IT_DEQUE, IT_CHECKED, IT_CHECKED, IT_CHECKED});
      break;
    case DESTROY: c.iter = IT_POINTER; break;
    default:
      c.iter = rng.pick<unsigned>({IT_VECTOR, IT_VECTOR, IT_POINTER, IT_POINTER, IT_DEQUE, IT_LIST, IT_COUNTING, IT_COUNTING, IT_CHECKED});
      break;
    }
    if (c.comp == ACCUMULATE) {
      c.elem = rng.below(5) == 0 && c.iter != IT_COUNTING ? 2 : 0;
    }
    c.n = pick_size(rng, c.comp, c.iter == IT_LIST ? std::min<size_t>(sizeCap, 20000) : sizeCap);
    // partial_sum splits into `threads` blocks of ceil(n/threads): empty trailing blocks exist only when
    // (threads-1)*ceil(n/threads) >= n, i.e. (given the n >= 1024 cut-off) with more than 32 threads and small n
    if (c.comp == PARTIAL_SUM && c.threads > 32 && rng.below(2)) {
      int64_t T = c.threads, q = rng.range((1024 + T - 1) / T, T - 1); // q = block size
      int64_t lo = std::max<int64_t>(1024, (q - 1) * T + 1), hi = q * (T - 1);
      if (lo <= hi)
        c.n = std::min(sizeCap, (size_t)rng.range(lo, hi));
    }
    c.keyPat    = (unsigned)rng.below(NKEYPAT);
    // One dominating key makes ParallelSTL::sort quadratic (the pivot is the minimum of the remaining range
    // again and again and only a short leading run is stripped per O(n) pass: 1.2e10 comparisons for n = 1e5
    // measured). That is a performance matter outside C16; keep these two patterns below 4096 elements.
    if ((c.keyPat == 8 || c.keyPat == 10) && c.n > 4096)
      c.keyPat = 1;
    c.boolPat   = (unsigned)rng.below(NBOOLPAT);
    if (c.comp == PARTITION && rng.below(3) == 0) // extra weight on the whole-block patterns
      c.boolPat = rng.pick<unsigned>({2, 8, 8, 10, 11, 15});
    if (c.comp == FIND_IF && rng.below(3) == 0)
      c.boolPat = rng.pick<unsigned>({1, 12, 12, 6});
    c.pred.kind = (unsigned)rng.below(3);
    c.cmp.kind  = (unsigned)rng.below(5);
    c.cmp.mod   = rng.pick<uint32_t>({2, 3, 10, 1000});
    c.opKind    = (unsigned)rng.below(12);
    if (c.comp == ACCUMULATE)
      c.opKind %= 6;
    c.variant  = (unsigned)rng.below(16);
    c.dataSeed = rng.next();
    // value-/position-/thread-dependent delay inside the function objects
    if (rng.below(2)) {
      bool positional = c.iter != IT_COUNTING &&
                        (c.comp == PARTITION || c.comp == COUNT_IF || c.comp == FIND_IF || c.comp == MAP_REDUCE);
      c.delay.kind = positional ? 1 + (unsigned)rng.below(6) : 4 + (unsigned)rng.below(3);
      switch (c.delay.kind) {
      case 1: c.delay.a = rng.below(c.n / 1024 + 1); break;
      case 2:
      case 3: c.delay.a = rng.pick<uint64_t>({c.n / 2, c.n / 4, c.n - c.n / 4, 1024, c.n > 1024 ? c.n - 1024 : 0}); break;
      case 4: c.delay.a = rng.below(c.threads); break;
      case 5: c.delay.a = rng.below(2); break;
      default: c.delay.a = rng.pick<uint64_t>({1, 4, 32}); break;
      }
      c.delay.ns     = rng.pick<unsigned>({300, 1000, 3000, 10000});
      c.delay.budget = (unsigned)(budgetNs / c.delay.ns);
    }
    // slow operator+ of the user-defined iterator for chosen threads (decides who claims which block)
    if (c.iter == IT_CHECKED && rng.below(4) != 0) {
      c.iterDelay.ns     = rng.pick<unsigned>({1, 2000, 20000, 100000});
      c.iterDelay.budget = rng.pick<unsigned>({1, 1, 2, 3, 8});
      c.iterDelay.who    = (unsigned)rng.below(4);
      c.iterDelay.a      = (unsigned)rng.below(c.threads);
    }
    if (c.comp == PARTITION && c.threads >= 2)
      c.gateK = std::min(c.threads, rng.pick<unsigned>({0, 0, 2, 3, 4, 1000}));
    unsigned pointProb = rng.pick<unsigned>({0, 0, 256, 2048});
    unsigned spinProb  = rng.pick<unsigned>({0, 0, 512, 8192});
    uint64_t noiseSeed = rng.next();

    const char* comp = COMP_NAME[c.comp];
    H.hangKey        = std::string("C16:") + comp + ":hang";
    J p;
    p.kv("component", comp).kv("n", c.n).kv("threads", c.threads).kv("maxT", maxT).kv("sockets", sockets)
        .kv("iter", ITER_NAME[c.iter]).kv("elem", c.elem == 0 ? "u32" : c.elem == 1 ? "key+id" : "double");
    switch (c.comp) {
    case SORT: p.kv("keys", KEYPAT_NAME[c.keyPat]).kv("cmp", c.cmp.kind).kv("cmp_mod", c.cmp.mod); break;
    case PARTITION:
    case COUNT_IF:
    case FIND_IF: p.kv("bools", BOOLPAT_NAME[c.boolPat]).kv("pred", c.pred.kind); break;
    default: p.kv("keys", KEYPAT_NAME[c.keyPat]).kv("op", c.opKind); break;
    }
    p.kv("variant", c.variant).kv("delay_kind", c.delay.kind).kv("delay_a", c.delay.a).kv("delay_ns", c.delay.ns)
        .kv("delay_budget", c.delay.budget).kv("iter_delay_ns", c.iterDelay.ns).kv("iter_delay_budget", c.iterDelay.budget)
        .kv("iter_delay_who", c.iterDelay.who).kv("iter_delay_a", c.iterDelay.a).kv("gate", c.gateK).kv("pointProb", pointProb)
        .kv("spinProb", spinProb);
    H.begin(k, p.str());

    galois::setActiveThreads(c.threads);
    srand((unsigned)c.dataSeed); // ParallelSTL::sort picks pivots with rand()
    g_mon.reset(c);
    verif::perturb_case(noiseSeed, pointProb, spinProb, 20);
    Rng drng(c.dataSeed);
    Outcome o;
    try {
      switch (c.comp) {
      case SORT: run_sort(c, drng, o); break;
      case PARTITION: run_partition(c, drng, o); break;
      case COUNT_IF: run_count_if(c, drng, o); break;
      case FIND_IF: run_find_if(c, drng, o); break;
      case ACCUMULATE: run_accumulate(c, drng, o); break;
      case MAP_REDUCE: run_map_reduce(c, drng, o); break;
      case PARTIAL_SUM: run_partial_sum(c, drng, o); break;
      default: run_destroy(c, drng, o); break;
      }
    } catch (const OobEscape& e) {
      o.violation(std::string("C16:") + comp + ":oob:serial",
                  J().kv("what", "function object applied outside [first,last) on the calling thread").kv("position", e.index)
                      .kv("n", c.n).str());
      o.cls = "oob";
    }
    verif::perturb_off();
    for (auto& v : o.violations)
      H.violation(v.key, v.detail);

    // non-trivial: Galois' own parallel code path ran (input above the component's serial cut-off)
    bool parallelPath;
    switch (c.comp) {
    case SORT:
    case PARTITION: parallelPath = c.n > 1024; break;
    case PARTIAL_SUM: parallelPath = c.n >= 1024; break;
    default: parallelPath = c.n >= 1; break;
    }
    if (c.comp == DESTROY && (c.variant & 4))
      parallelPath = false; // scalar overload is a no-op
    unsigned used = g_mon.threadsUsed();
    std::string sig = std::string(comp) + "|" + ITER_NAME[c.iter] + "|e" + std::to_string(c.elem) + "|n" + std::to_string(c.n) +
                      "|t" + std::to_string(c.threads) + "|s" + std::to_string(sockets) + "|k" +
                      std::to_string(c.comp == SORT || c.comp >= ACCUMULATE ? c.keyPat : c.boolPat) + "|o" +
                      std::to_string(c.comp == SORT ? c.cmp.kind : (c.comp >= ACCUMULATE ? c.opKind : c.pred.kind)) + "|d" +
                      std::to_string(c.delay.kind) + (c.iterDelay.ns ? "i" + std::to_string(c.iterDelay.who) : "") + (c.gateK ? "g" + std::to_string(c.gateK) : "") + "|" + o.cls + "|u" + std::to_string(used);
    J obs;
    obs.kv("elements", c.n).kv("callback_calls", g_mon.totalCalls()).kv("delays_injected", g_mon.totalDelays())
        .kv("parallel_path_cases", (int)parallelPath).kv("multi_thread_cases", (int)(used >= 2))
        .kv("multi_socket_cases", (int)(sockets > 1 && used >= 2)).kv(("cases_" + std::string(comp)).c_str(), 1)
        .kv("oracle_violations", o.violations.size());
    for (auto& kv : o.obs)
      obs.kv(kv.first.c_str(), kv.second);
#if VERIF_TSAN
    // informational: C16 decides values only; Galois-internal races (e.g. the parallel_break flag) are expected
    obs.kv("tsan_internal_reports", verif::g_tsanInternalReports.exchange(0))
        .kv("tsan_reports_on_input_data", verif::g_tsanPayloadReports.exchange(0));
#endif
    H.end(k, sig, parallelPath, obs.str());
  }
  return 0;
}
