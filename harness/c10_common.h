// C10 — concurrent morph-graph mutation is serialisable and structurally consistent.
//
// Shared, graph-type independent part: operation programs, recorded results,
// the independent adjacency model (std::map / std::multiset only), canonical
// dumps, the flavour registry. The graph-type dependent part (running the real
// MorphGraph API) is c10_graph.h, instantiated once per flavour in c10_f_*.cpp.
#pragma once

#include "verif.h"

#include <algorithm>
#include <map>
#include <memory>
#include <set>
#include <string>
#include <tuple>
#include <vector>

namespace c10 {
using namespace verif;

constexpr unsigned MAXOPS = 4;

enum Kind : uint8_t {
  K_ADD_NODE,       // a = new logical id, v = initial value: createNode + addNode
  K_REMOVE_NODE,    // removeNode(a)
  K_ADD_EDGE,       // addEdge(a,b); a fresh edge gets data v, an existing one is returned untouched
  K_ADD_MULTI,      // addMultiEdge(a,b,flag,v)
  K_REMOVE_FIND,    // removeEdge(a, findEdge(a,b))
  K_REMOVE_ENUM,    // enumerate edges(a), pick the a->b edge with the smallest data, removeEdge
  K_REMOVE_VIA_IN,  // at a: remove the in-edge coming from b (undirected: findInEdge+removeEdge; SepInOut: removeInEdge)
  K_FIND,           // findEdge(a,b) (+ findEdgeSortedByDst on sorted flavours)
  K_FIND_IN,        // at a: findInEdge for the edge b->a
  K_UPDATE_NODE,    // getData(a).val = val*31 + v
  K_UPDATE_EDGE,    // a->b edge with the smallest data: data = data*3 + v
  K_UPDATE_EDGE_IN, // at a: edge b->a through the in-edge iterator: data = data*3 + v
  K_ENUM_OUT,       // count + order-insensitive hash of (dst,data) over edges(a)
  K_ENUM_IN,        // same over in_edges(a)
  K_SORT,           // sortEdgesByDst(a), then the enumeration must be sorted
  K_NKINDS
};
inline const char* kindName(unsigned k) {
  static const char* n[] = {"addNode", "removeNode", "addEdge", "addMultiEdge", "removeEdge-find",
                            "removeEdge-enum", "removeEdge-via-in", "findEdge", "findInEdge", "updateNode",
                            "updateEdge", "updateEdge-in", "enumOut", "enumIn", "sortEdgesByDst"};
  return k < K_NKINDS ? n[k] : "?";
}
inline bool isRemoveEdge(unsigned k) { return k == K_REMOVE_FIND || k == K_REMOVE_ENUM || k == K_REMOVE_VIA_IN; }
// ops whose pair is (b -> a) rather than (a -> b)
inline bool isInView(unsigned k) { return k == K_REMOVE_VIA_IN || k == K_FIND_IN || k == K_UPDATE_EDGE_IN; }
inline bool needsB(unsigned k) {
  switch (k) {
  case K_ADD_EDGE: case K_ADD_MULTI: case K_REMOVE_FIND: case K_REMOVE_ENUM: case K_REMOVE_VIA_IN:
  case K_FIND: case K_FIND_IN: case K_UPDATE_EDGE: case K_UPDATE_EDGE_IN:
    return true;
  default:
    return false;
  }
}
// ops that enumerate the out- (in-) adjacency of a in phase C => the neighbourhood is pre-acquired in phase A
inline bool needsOutNhood(unsigned k) { return k == K_REMOVE_ENUM || k == K_UPDATE_EDGE || k == K_ENUM_OUT || k == K_SORT; }
inline bool needsInNhood(unsigned k) { return k == K_ENUM_IN; }

enum FFlags : unsigned {
  F_DIRECTED   = 1,  // directed, out-edges only
  F_INOUT      = 2,  // directed, in-edges tracked (shared data cell)
  F_UNDIRECTED = 4,  // symmetric (shared data cell)
  F_SORTED     = 8,  // SortedNeighbors
  F_NOLOCK     = 16, // HasNoLockable: driven with explicit flags under harness-side partition locks
  F_SEP        = 32, // Morph_SepInOut_Graph
};
inline bool tracksReverse(unsigned f) { return f & (F_INOUT | F_UNDIRECTED); }

struct Op {
  uint8_t kind = 0;
  uint32_t a = 0, b = 0;
  uint64_t v = 0;
};
// immediate inconsistencies noticed while executing one API call
enum Bad : uint8_t {
  B_NONE,
  B_ADD_END,          // addEdge/addMultiEdge returned edge_end
  B_WRONG_DST,        // returned iterator points to another destination
  B_ADD_DUP,          // findEdge found the edge but addEdge created a fresh one
  B_ADD_RETURNED_OLD, // findEdge found nothing but addEdge returned an initialised edge
  B_MULTI_DATA,       // addMultiEdge's edge does not carry the given value
  B_SORTED_FIND,      // findEdgeSortedByDst disagrees with findEdge on a sorted list
  B_UNSORTED,         // enumeration of a sorted-neighbour node / after sortEdgesByDst is not sorted
  B_GUIDE_MISSING,    // serial replay: the edge picked in the recorded run does not exist
  B_ENUM_UNSTABLE,    // two enumerations of an owned neighbourhood inside one item differ
};
inline const char* badName(unsigned b) {
  static const char* n[] = {"none", "addEdge-returned-end", "iterator-wrong-destination", "addEdge-duplicated-existing-edge",
                            "addEdge-returned-initialised-edge-not-found-before", "addMultiEdge-data-not-initialised",
                            "findEdgeSortedByDst-disagrees-with-findEdge", "adjacency-not-sorted",
                            "replay-picked-edge-missing", "enumeration-changed-while-neighbourhood-owned"};
  return b < 10 ? n[b] : "?";
}
struct Res {
  uint8_t st  = 0; // 0 = skipped (an operand is not in the graph), 1 = executed
  uint8_t bad = 0;
  uint8_t nr1 = 0; // r1 was not observed (bare removeEdge: the data of the removed edge cannot be read legally)
  uint64_t r0 = 0, r1 = 0;
};
inline bool sameRes(const Res& x, const Res& y) {
  return x.st == y.st && x.r0 == y.r0 && (x.r1 == y.r1 || x.nr1 || y.nr1);
}

struct Prog {
  uint8_t nops  = 0;
  uint8_t delay = 0; // 0 none, 1 short busy, 2 sleep, 3 long busy between acquires
  Op ops[MAXOPS];
};
struct Commit {
  uint64_t ticket = 0;
  uint32_t item   = 0;
  Res res[MAXOPS];
};

// ------------------------------------------------------------------ canonical dump
struct Dump {
  std::vector<std::pair<uint32_t, uint64_t>> nodes;              // (lid, val)
  std::vector<std::tuple<uint32_t, uint32_t, uint64_t>> out, in; // (src,dst,data) / (dst,src,data)
  void canon() {
    std::sort(nodes.begin(), nodes.end());
    std::sort(out.begin(), out.end());
    std::sort(in.begin(), in.end());
  }
  bool operator==(const Dump& o) const { return nodes == o.nodes && out == o.out && in == o.in; }
  // first difference, human readable (this = "got", o = "expected")
  std::string diff(const Dump& o, const char* gotName, const char* expName) const;
  size_t edges() const { return out.size(); }
};

// ------------------------------------------------------------------ independent model
struct Model {
  bool undirected = false, tracksIn = false;
  struct N {
    bool created = false, live = false;
    uint64_t val = 0;
  };
  std::vector<N> nodes;
  typedef std::pair<uint32_t, uint32_t> Key;
  // out[(a,b)] = data values of the edges a->b (undirected: stored under both (a,b) and (b,a); a self-loop is
  // stored twice under (a,a): it occupies two adjacency entries of a)
  std::map<Key, std::multiset<uint64_t>> out;
  std::map<Key, std::multiset<uint64_t>> in; // in[(b,a)] = edges a->b seen from b (directed graphs)

  void init(unsigned fflags, uint32_t nTotal) {
    undirected = fflags & F_UNDIRECTED;
    tracksIn   = fflags & F_INOUT;
    nodes.assign(nTotal, N());
    out.clear();
    in.clear();
  }
  bool live(uint32_t x) const { return x < nodes.size() && nodes[x].live; }
  size_t parallel(uint32_t a, uint32_t b) const {
    auto it = out.find(Key(a, b));
    if (it == out.end())
      return 0;
    return (undirected && a == b) ? it->second.size() / 2 : it->second.size();
  }
  void ins(uint32_t a, uint32_t b, uint64_t d);
  bool del(uint32_t a, uint32_t b, uint64_t d);
  bool has(uint32_t a, uint32_t b, uint64_t d) const;
  // Applies op. `obs` is what the real graph reported; where the API leaves a choice (which of several
  // parallel edges findEdge/addEdge returns) the observed choice is validated and adopted. Returns the
  // expected result; err is set if the observation is impossible.
  Res apply(const Op& op, const Res& obs, std::string& err);
  void dump(Dump& d) const;
};

// ------------------------------------------------------------------ case description
enum Mode : unsigned { M_SEQ = 0, M_CAUTIOUS = 1, M_BARE = 2, M_READD = 3 };
inline const char* modeName(unsigned m) {
  static const char* n[] = {"sequential", "cautious", "bare", "readd-probe"};
  return n[m & 3];
}

struct CaseSpec {
  unsigned mode = M_SEQ;
  unsigned threads = 1;
  uint32_t n0 = 0, nTotal = 0;
  bool parallelInit = false;  // initial nodes created inside a do_all (spreads them over the per-thread bag segments)
  bool unprotectedC = false;  // phase C passes MethodFlag::UNPROTECTED (explicit flags after a cautious prefix)
  bool multiEdges = false, selfLoops = false, nodeRemoval = false;
  unsigned parts = 1; // no-lockable flavours: number of partitions (lid % parts)
  std::vector<Op> init;    // applied serially before the loop
  std::vector<Prog> progs; // loop items (sequential mode: one op per prog, applied in order)
  uint64_t dseed = 0;
};

struct Viol {
  std::string key, detail;
};
struct CaseResult {
  std::vector<Viol> viols;
  // observed counters
  uint64_t attempts = 0, commits = 0, opsExecuted = 0, opsSkipped = 0, threadsCommitted = 0;
  uint64_t phaseCAborts = 0;
  uint64_t nodesFinal = 0, edgesFinal = 0, nodesCreatedInLoop = 0, nodesRemoved = 0, edgesRemoved = 0;
  uint64_t multiEdgeOps = 0, selfLoopOps = 0;
  uint64_t stepChecks = 0, replayOps = 0, localIterNodes = 0, locksChecked = 0;
  uint64_t readdAsymmetric = 0, readdProbes = 0;
  bool tainted = false; // a sequential defect showed up in the serial replay; serialisability not judged
  uint64_t kindCount[K_NKINDS] = {};
  void add(const std::string& key, const std::string& detail) {
    for (auto& v : viols)
      if (v.key == key)
        return;
    viols.push_back(Viol{key, detail});
  }
};

struct Flavour {
  const char* name;   // e.g. "undirected-sorted"
  const char* family; // component in keys: directed | inout | undirected | sep-inout | sep-undirected
  unsigned flags;
  void (*run)(const CaseSpec&, const Flavour&, CaseResult&);
};
std::vector<Flavour>& registry();
struct Registrar {
  Registrar(const char* n, const char* fam, unsigned fl, void (*run)(const CaseSpec&, const Flavour&, CaseResult&)) {
    registry().push_back(Flavour{n, fam, fl, run});
  }
};

inline std::string opStr(const Op& o) {
  return std::string(kindName(o.kind)) + "(" + std::to_string(o.a) + (needsB(o.kind) ? "," + std::to_string(o.b) : "") +
         ((o.kind == K_ADD_NODE || o.kind == K_ADD_EDGE || o.kind == K_ADD_MULTI || o.kind == K_UPDATE_NODE ||
           o.kind == K_UPDATE_EDGE || o.kind == K_UPDATE_EDGE_IN)
              ? ";v=" + std::to_string(o.v)
              : "") +
         ")";
}
inline std::string resStr(const Res& r) {
  return "{st=" + std::to_string(r.st) + ",r0=" + std::to_string(r.r0) + ",r1=" + std::to_string(r.r1) +
         (r.bad ? std::string(",bad=") + badName(r.bad) : "") + "}";
}
inline uint64_t edgeUpdate(uint64_t old, uint64_t v) {
  uint64_t n = old * 3 + v;
  return n ? n : 1; // 0 is reserved for "freshly created by addEdge"
}

} // namespace c10
