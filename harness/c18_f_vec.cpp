// C18 — field f_vec: std::vector<double> (not memory copyable: gstl::Vector value buffers, element-wise
// serialisation), GALOIS_SYNC_STRUCTURE_REDUCE_PAIR_WISE_ADD_ARRAY as in matrixcompletion, + BITSET
#include "c18_field.h"

galois::DynamicBitSet bitset_f_vec;
GALOIS_SYNC_STRUCTURE_REDUCE_PAIR_WISE_ADD_ARRAY(f_vec, std::vector<double>);
GALOIS_SYNC_STRUCTURE_BITSET(f_vec);

namespace {
using namespace c18;
void store(Graph& g, uint32_t lid, const uint64_t* w) {
  auto& v = g.getData(lid).f_vec;
  v.resize(C18_VECLEN);
  for (unsigned i = 0; i < C18_VECLEN; ++i)
    v[i] = w2d(w[i]);
}
void load(Graph& g, uint32_t lid, uint64_t* w) {
  auto& v = g.getData(lid).f_vec;
  for (unsigned i = 0; i < C18_VECLEN; ++i)
    w[i] = i < v.size() ? d2w(v[i]) : ~0ull;
}
bool write(Graph& g, uint32_t lid, const uint64_t* w, bool mark) {
  auto& v = g.getData(lid).f_vec;
  for (unsigned i = 0; i < C18_VECLEN; ++i)
    v[i] += w2d(w[i]);
  if (mark)
    bitset_f_vec.set(lid);
  return true;
}
void sync(Substrate& s, unsigned W, unsigned R, bool b, bool a, const std::string& l) {
  sync_any<Reduce_pair_wise_add_array_f_vec, Bitset_f_vec, false>(s, W, R, b, a, l);
}
void resetMirrors(Substrate& s) { s.reset_mirrorField<Reduce_pair_wise_add_array_f_vec>(); }
} // namespace
const c18::FieldVT c18::vt_f_vec = {"f_vec", "GALOIS_SYNC_STRUCTURE_REDUCE_PAIR_WISE_ADD_ARRAY(std::vector<double>)", R_ADD,
                                    K_F64, C18_VECLEN, false, false, store, load, write, &bitset_f_vec, sync, resetMirrors};
