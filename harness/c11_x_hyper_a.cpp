// C11 full template matrix (c11_graphs_full only): LC_CSR_Hypergraph x options (void, uint32, uint64)
#include "c11_fam_hyper.h"

namespace c11 {
void registerX_hyper_a() {
  regHyperFull<void>();
  regHyperFull<uint32_t>();
  regHyperFull<uint64_t>();
}
} // namespace c11
