#pragma once
// C11: LC_Linear_Graph — node and edge records interleaved in one array, built
// in two parallel passes (constructNodesFrom / constructEdgesFrom).
#include "c11_ptr.h"

namespace c11 {

static const char* LIN = "LC_Linear_Graph";

template <class G>
void loadLinear(Ctx& c, G& g) {
  if (c.rng.below(2)) {
    gg::readGraph(g, c.file());
  } else {
    gg::FileGraph f;
    loadFileGraph(c, f, c.file(), c.rng.below(2), c.esz);
    gg::readGraph(g, f);
  }
  ++c.builds;
  c.parallelBuilds += c.threads > 1;
}

template <class G>
void opLinRead(Ctx& c) {
  G g;
  loadLinear(c, g);
  verifyPtr<G>(c, g, c.X, true, "read");
}

template <class G>
void opLinSortData(Ctx& c) {
  using E = typename G::edge_data_type;
  G g;
  loadLinear(c, g);
  for (auto n : g)
    g.sortEdgesByEdgeData(n, std::less<E>());
  Indexer<G> ix;
  ix.build(g, c.X.numNodes + 8);
  Obs o;
  observeOut(g, ix, o, galois::MethodFlag::UNPROTECTED);
  if (!checkMultiset(c, o, c.X, "sorted"))
    return;
  checkSortedBy(c, o, c.less, "sorted");
}

// sortEdges with a user comparator over the edge records: by destination handle
template <class G>
void opLinSortCustom(Ctx& c) {
  G g;
  loadLinear(c, g);
  for (auto n : g)
    g.sortEdges(n, [](const auto& a, const auto& b) { return a.dst < b.dst; });
  Indexer<G> ix;
  ix.build(g, c.X.numNodes + 8);
  Obs o;
  observeOut(g, ix, o, galois::MethodFlag::UNPROTECTED);
  if (!checkMultiset(c, o, c.X, "sorted"))
    return;
  // sorted with respect to the comparator that was given (handle order)
  for (size_t i = 0; i < ix.nodes.size(); ++i) {
    auto n = ix.nodes[i];
    auto b = g.edge_begin(n, galois::MethodFlag::UNPROTECTED), e = g.edge_end(n, galois::MethodFlag::UNPROTECTED);
    if (b == e)
      continue;
    bool multi = false;
    for (auto it = b + 1; it != e; ++it) {
      multi = true;
      if (g.getEdgeDst(it) < g.getEdgeDst(it - 1)) {
        c.fail("sorted-not-sorted", J().kv("node", i).kv("position", (uint64_t)(it - b)).str());
        return;
      }
    }
    c.sortedLists += multi;
  }
}

enum LinOps : unsigned { L_READ = 1, L_SORTDATA = 2, L_SORTCUSTOM = 4, L_ALL = 7 };

template <class G>
void regLin(const std::string& cfg, unsigned ops) {
  using E = typename G::edge_data_type;
  auto& R = registry();
  if (ops & L_READ)
    R.push_back(mkEntry<E>(LIN, cfg, "read", &opLinRead<G>, 0, 3));
  if (ops & L_SORTCUSTOM)
    R.push_back(mkEntry<E>(LIN, cfg, "sortEdges", &opLinSortCustom<G>));
  if constexpr (!std::is_void_v<E>)
    if (ops & L_SORTDATA)
      R.push_back(mkEntry<E>(LIN, cfg, "sortEdgesByEdgeData", &opLinSortData<G>));
}

// LC_Linear_Graph<NodeTy, EdgeTy, HasNoLockable, UseNumaAlloc, HasOutOfLineLockable, HasId>
template <class E, bool NL = false, bool NU = false, bool OOL = false, bool ID = false, class N = uint32_t>
using Lin = gg::LC_Linear_Graph<N, E, NL, NU, OOL, ID>;

template <class E>
void regLinFull() {
  regLin<Lin<E>>("lock", L_ALL);
  regLin<Lin<E, true>>("nolock", L_ALL);
  regLin<Lin<E, false, true>>("lock+numa", L_ALL);
  regLin<Lin<E, false, false, true, true>>("ool+id", L_ALL);
  regLin<Lin<E, true, true>>("nolock+numa", L_READ);
  regLin<Lin<E, false, true, true, true>>("ool+id+numa", L_READ | L_SORTCUSTOM);
  regLin<Lin<E, false, false, false, true>>("lock+id", L_READ);
  regLin<Lin<E, true, false, false, false, void>>("nolock+voidnode", L_ALL);
}


} // namespace c11
