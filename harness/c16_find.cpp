// C16: galois::ParallelSTL::find_if
#include "c16_common.h"

namespace c16 {

// position of r in [first,last]; n+1 if r is not an iterator of the range
template <class It>
static long index_of(It first, It last, It r, std::random_access_iterator_tag) {
  long d = (long)(r - first), n = (long)(last - first);
  return (d < 0 || d > n) ? n + 1 : d;
}
template <class It>
static long index_of(It first, It last, It r, std::input_iterator_tag) {
  long i = 0;
  for (It it = first;; ++it, ++i) {
    if (it == r)
      return i;
    if (it == last)
      return i + 1;
  }
}

template <class T>
static void find_if_T(const CaseCfg& c, Rng& rng, Outcome& o) {
  std::vector<uint32_t> keys = keys_for_pred(c, rng);
  const long n               = (long)c.n;
  long nMatch = 0, firstMatch = n;
  for (long i = 0; i < n; ++i)
    if (predPure(c.pred, keys[i])) {
      if (!nMatch)
        firstMatch = i;
      ++nMatch;
    }
  long ret = n + 1;
  if (c.iter == IT_COUNTING) {
    PredByIndex pred{c.pred, keys.data(), keys.size()};
    boost::counting_iterator<uint32_t> b(0), e((uint32_t)c.n);
    auto r = galois::ParallelSTL::find_if(b, e, pred);
    ret    = index_of(b, e, r, std::random_access_iterator_tag());
  } else {
    std::vector<T> input = make_input_from_keys<T>(keys), out;
    Pred<T> pred{c.pred};
    with_any_range<T>(c, input, out, [&](auto first, auto last) {
      auto r = galois::ParallelSTL::find_if(first, last, pred);
      ret    = index_of(first, last, r, typename std::iterator_traits<decltype(first)>::iterator_category());
    });
    if (!(out == input))
      o.violation("C16:find_if:input-modified", J().kv("n", c.n).kv("threads", c.threads).str());
  }
  Monitor& m = g_mon;
  J w;
  w.kv("n", c.n).kv("threads", c.threads).kv("threads_used", m.threadsUsed()).kv("matching_elements", nMatch)
      .kv("first_match", firstMatch).kv("returned_position", ret).kv("pred_calls", m.totalCalls());
  bool ok = true;
  if (ret > n) {
    ok = false;
    o.violation("C16:find_if:bad-iterator", J(w).kv("what", "returned iterator is not in [first,last]").str());
  } else if (ret == n && nMatch > 0) {
    ok = false;
    o.violation("C16:find_if:missed-match", J(w).kv("what", "returned last although an element satisfies the predicate").str());
  } else if (ret < n && !predPure(c.pred, keys[ret])) {
    ok = false;
    o.violation("C16:find_if:false-match", J(w).kv("what", "returned element does not satisfy the predicate")
                                               .kv("key", keys[ret]).str());
  }
  o.cls = !ok ? "bad" : (ret == n ? "none" : (ret == firstMatch ? "first" : "later"));
  o.add("find_if_cases_with_match", nMatch > 0);
  o.add("find_if_cases_without_match", nMatch == 0);
  o.add("find_if_returned_later_match", ok && ret < n && ret != firstMatch); // allowed: any match
  o.add("find_if_stopped_early", n > 0 && m.totalCalls() < (uint64_t)n);
}

void run_find_if(const CaseCfg& c, Rng& rng, Outcome& o) {
  if (c.elem == 1)
    find_if_T<Elem>(c, rng, o);
  else
    find_if_T<uint32_t>(c, rng, o);
}

} // namespace c16
