// Common harness support: RNG, JSON lines, case log, perturbation engine
// (spin/point/region hooks), hang monitor, ticket clock, TSan report
// classifier. Header-only; include from exactly one or several TUs (all state
// is C++17 inline).
#pragma once

#include <atomic>
#include <cinttypes>
#include <cstdarg>
#include <cstdint>
#include <cstdio>
#include <cstdlib>
#include <cstring>
#include <functional>
#include <map>
#include <mutex>
#include <sstream>
#include <string>
#include <thread>
#include <vector>

#include <dirent.h>
#include <sched.h>
#include <sys/syscall.h>
#include <time.h>
#include <unistd.h>

#include "galois/substrate/Verif.h"

#ifndef GALOIS_VERIF
#error "harnesses must be compiled with -DGALOIS_VERIF"
#endif

#if defined(__SANITIZE_THREAD__)
#define VERIF_TSAN 1
#else
#define VERIF_TSAN 0
#endif
#if defined(__SANITIZE_ADDRESS__)
#define VERIF_ASAN 1
#else
#define VERIF_ASAN 0
#endif

#if VERIF_TSAN
extern "C" {
int __tsan_get_report_data(void* report, const char** description, int* count, int* stack_count,
                           int* mop_count, int* loc_count, int* mutex_count, int* thread_count,
                           int* unique_tid_count, void** sleep_trace, unsigned long trace_size);
int __tsan_get_report_mop(void* report, unsigned long idx, int* tid, void** addr, int* size,
                          int* write, int* atomic, void** trace, unsigned long trace_size);
}
#endif

namespace verif {

// ---------------------------------------------------------------- RNG
inline uint64_t splitmix64(uint64_t& x) {
  uint64_t z = (x += 0x9e3779b97f4a7c15ULL);
  z          = (z ^ (z >> 30)) * 0xbf58476d1ce4e5b9ULL;
  z          = (z ^ (z >> 27)) * 0x94d049bb133111ebULL;
  return z ^ (z >> 31);
}
inline uint64_t mix(uint64_t a, uint64_t b) {
  uint64_t x = a * 0x9e3779b97f4a7c15ULL + b + 0x1234567ULL;
  return splitmix64(x);
}
struct Rng {
  uint64_t s;
  explicit Rng(uint64_t seed = 1) : s(seed ? seed : 0x9e3779b9ULL) {}
  uint64_t next() { return splitmix64(s); }
  // uniform in [0,n)
  uint64_t below(uint64_t n) { return n ? next() % n : 0; }
  // uniform in [lo,hi]
  int64_t range(int64_t lo, int64_t hi) {
    return lo + (int64_t)below((uint64_t)(hi - lo + 1));
  }
  bool chance(unsigned num, unsigned den) { return below(den) < num; }
  template <typename T>
  const T& pick(const std::vector<T>& v) {
    return v[below(v.size())];
  }
  template <typename T>
  T pick(std::initializer_list<T> l) {
    auto it = l.begin();
    std::advance(it, below(l.size()));
    return *it;
  }
  double unit() { return (next() >> 11) * (1.0 / 9007199254740992.0); }
};

// ---------------------------------------------------------------- JSON
inline std::string jstr(const std::string& s) {
  std::string o = "\"";
  for (unsigned char c : s) {
    if (c == '"' || c == '\\') {
      o += '\\';
      o += c;
    } else if (c < 0x20) {
      char b[8];
      snprintf(b, sizeof b, "\\u%04x", c);
      o += b;
    } else
      o += c;
  }
  return o + "\"";
}
// a long that may be read by the monitor thread while the main thread writes it
struct RelaxedLong {
  std::atomic<long> v{-1};
  operator long() const { return v.load(std::memory_order_relaxed); }
  RelaxedLong& operator=(long x) {
    v.store(x, std::memory_order_relaxed);
    return *this;
  }
  long load(std::memory_order = std::memory_order_relaxed) const { return v.load(std::memory_order_relaxed); }
  void store(long x, std::memory_order = std::memory_order_relaxed) { v.store(x, std::memory_order_relaxed); }
};

// tiny JSON object builder: J().kv("a",1).kv("b","x").str()
struct J {
  std::string s;
  bool first = true;
  void key(const char* k) {
    s += first ? "{" : ",";
    first = false;
    s += jstr(k);
    s += ":";
  }
  J& kv(const char* k, const std::string& v) {
    key(k);
    s += jstr(v);
    return *this;
  }
  J& kv(const char* k, const char* v) { return kv(k, std::string(v)); }
  J& kv(const char* k, bool v) {
    key(k);
    s += v ? "true" : "false";
    return *this;
  }
  J& kv(const char* k, double v) {
    key(k);
    char b[64];
    snprintf(b, sizeof b, "%.17g", v);
    s += b;
    return *this;
  }
  template <typename T, typename = std::enable_if_t<std::is_integral_v<T> &&
                                                     !std::is_same_v<T, bool>>>
  J& kv(const char* k, T v) {
    key(k);
    s += std::to_string(v);
    return *this;
  }
  J& kv(const char* k, const RelaxedLong& v) { return kv(k, (long)v); }
  J& raw(const char* k, const std::string& json) {
    key(k);
    s += json;
    return *this;
  }
  std::string str() const { return first ? "{}" : s + "}"; }
};
template <typename T>
inline std::string jarr(const std::vector<T>& v, size_t maxn = 64) {
  std::string s = "[";
  for (size_t i = 0; i < v.size() && i < maxn; ++i) {
    if (i)
      s += ",";
    if constexpr (std::is_same_v<T, std::string>)
      s += jstr(v[i]);
    else
      s += std::to_string(v[i]);
  }
  if (v.size() > maxn)
    s += ",\"...\"";
  return s + "]";
}

inline double now_s() {
  timespec ts;
  clock_gettime(CLOCK_MONOTONIC, &ts);
  return ts.tv_sec + ts.tv_nsec * 1e-9;
}

// ---------------------------------------------------------------- per-thread
// state of the perturbation engine / hang monitor
constexpr unsigned MAXT = 256;
struct alignas(128) PerThread {
  std::atomic<uint64_t> spins{0};
  std::atomic<uint64_t> progress{0};
  std::atomic<int> inRegion{0};
  std::atomic<int> ostid{0};
  std::atomic<unsigned> lastPoint{~0u};
  std::atomic<int> poolTid{-1};
  uint64_t pointHits[galois::verif::NUM_POINTS]     = {};
  uint64_t pointInjected[galois::verif::NUM_POINTS] = {};
  Rng rng{1};
  uint64_t epochSeen = 0;
};
inline PerThread g_threads[MAXT];
inline std::atomic<unsigned> g_nthreads{0};
inline thread_local PerThread* t_me = nullptr;

inline PerThread& me() {
  if (!t_me) {
    unsigned i = g_nthreads.fetch_add(1, std::memory_order_relaxed);
    if (i >= MAXT) {
      fprintf(stderr, "verif: too many threads\n");
      abort();
    }
    t_me = &g_threads[i];
    t_me->ostid.store((int)syscall(SYS_gettid), std::memory_order_relaxed);
  }
  return *t_me;
}

// ---------------------------------------------------------------- perturbation
struct Perturb {
  // probability numerator over 65536 of injecting at a point / spin passage
  std::atomic<unsigned> pointProb{0};
  std::atomic<unsigned> spinProb{0};
  std::atomic<uint64_t> epoch{1}; // bumped per case -> per-thread rng reseed
  std::atomic<uint64_t> seed{1};
  std::atomic<unsigned> maxDelayUs{50};
  // targeted stall: at point `id`, on its n-th global passage, sleep for us
  struct Stall {
    std::atomic<unsigned> point{~0u};
    std::atomic<int64_t> countdown{-1};
    std::atomic<unsigned> us{0};
  };
  Stall stalls[8];
  std::atomic<uint64_t> pointMask{~0ull}; // which points may inject noise
};
inline Perturb g_perturb;

inline void busy_delay_ns(uint64_t ns) {
  double t0 = now_s();
  while ((now_s() - t0) * 1e9 < ns) {
    asm volatile("pause");
  }
}
inline void sleep_us(unsigned us) {
  timespec ts{(time_t)(us / 1000000), (long)(us % 1000000) * 1000};
  nanosleep(&ts, nullptr);
}

inline void reseed_if_needed(PerThread& t) {
  uint64_t e = g_perturb.epoch.load(std::memory_order_relaxed);
  if (t.epochSeen != e) {
    t.epochSeen = e;
    t.rng = Rng(mix(g_perturb.seed.load(std::memory_order_relaxed) ^ (e << 20),
                    (uint64_t)(&t - g_threads)));
  }
}

inline void inject_noise(PerThread& t) {
  unsigned k = (unsigned)t.rng.below(8);
  if (k < 3)
    sched_yield();
  else if (k < 7) {
    unsigned maxd = g_perturb.maxDelayUs.load(std::memory_order_relaxed);
    busy_delay_ns(100 + t.rng.below((uint64_t)maxd * 1000 + 1));
  } else
    sleep_us(50 + (unsigned)t.rng.below(450));
}

inline void on_point(unsigned id) {
  PerThread& t = me();
  t.lastPoint.store(id, std::memory_order_relaxed);
  if (id < galois::verif::NUM_POINTS)
    t.pointHits[id]++;
  for (auto& s : g_perturb.stalls) {
    if (s.point.load(std::memory_order_relaxed) == id) {
      int64_t c = s.countdown.fetch_sub(1, std::memory_order_relaxed);
      if (c == 0) {
        if (id < galois::verif::NUM_POINTS)
          t.pointInjected[id]++;
        sleep_us(s.us.load(std::memory_order_relaxed));
      }
    }
  }
  unsigned p = g_perturb.pointProb.load(std::memory_order_relaxed);
  if (p && ((g_perturb.pointMask.load(std::memory_order_relaxed) >> (id & 63)) & 1)) {
    reseed_if_needed(t);
    if ((t.rng.next() & 0xffff) < p) {
      if (id < galois::verif::NUM_POINTS)
        t.pointInjected[id]++;
      inject_noise(t);
    }
  }
}

inline void on_spin() {
  PerThread& t = me();
  uint64_t n   = t.spins.load(std::memory_order_relaxed) + 1;
  t.spins.store(n, std::memory_order_relaxed);
  unsigned p = g_perturb.spinProb.load(std::memory_order_relaxed);
  if (p && (n & 0x3f) == 0) {
    reseed_if_needed(t);
    if ((t.rng.next() & 0xffff) < p)
      sched_yield();
  }
}

inline void on_region(unsigned tid, int delta) {
  PerThread& t = me();
  t.poolTid.store((int)tid, std::memory_order_relaxed);
  t.inRegion.store(delta > 0 ? 1 : 0, std::memory_order_relaxed);
}

inline void progress() {
  PerThread& t = me();
  t.progress.store(t.progress.load(std::memory_order_relaxed) + 1,
                   std::memory_order_relaxed);
}

inline void install_hooks() {
  galois::verif::spinHook.store(&on_spin, std::memory_order_relaxed);
  galois::verif::pointHook.store(&on_point, std::memory_order_relaxed);
  galois::verif::regionHook.store(&on_region, std::memory_order_relaxed);
}

// configure perturbation for a case
inline void perturb_case(uint64_t seed, unsigned pointProb16, unsigned spinProb16,
                         unsigned maxDelayUs = 50) {
  g_perturb.seed.store(seed, std::memory_order_relaxed);
  g_perturb.maxDelayUs.store(maxDelayUs, std::memory_order_relaxed);
  g_perturb.pointProb.store(pointProb16, std::memory_order_relaxed);
  g_perturb.spinProb.store(spinProb16, std::memory_order_relaxed);
  for (auto& s : g_perturb.stalls)
    s.point.store(~0u, std::memory_order_relaxed);
  g_perturb.epoch.fetch_add(1, std::memory_order_relaxed);
}
inline void perturb_stall(unsigned slot, unsigned point, int64_t nth, unsigned us) {
  auto& s = g_perturb.stalls[slot % 8];
  s.us.store(us, std::memory_order_relaxed);
  s.countdown.store(nth, std::memory_order_relaxed);
  s.point.store(point, std::memory_order_relaxed);
}
inline void perturb_off() {
  g_perturb.pointProb.store(0, std::memory_order_relaxed);
  g_perturb.spinProb.store(0, std::memory_order_relaxed);
  for (auto& s : g_perturb.stalls)
    s.point.store(~0u, std::memory_order_relaxed);
}

inline std::string point_stats_json() {
  J j;
  unsigned n = g_nthreads.load();
  for (unsigned p = 0; p < galois::verif::NUM_POINTS; ++p) {
    uint64_t h = 0, inj = 0;
    for (unsigned i = 0; i < n && i < MAXT; ++i) {
      h += g_threads[i].pointHits[p];
      inj += g_threads[i].pointInjected[p];
    }
    if (h)
      j.raw(galois::verif::pointName(p),
            "[" + std::to_string(h) + "," + std::to_string(inj) + "]");
  }
  return j.str();
}

// ---------------------------------------------------------------- ticket clock
inline std::atomic<uint64_t> g_ticket{1};
inline uint64_t ticket() { return g_ticket.fetch_add(1, std::memory_order_relaxed); }

// ---------------------------------------------------------------- case log
struct Harness;
inline Harness* g_harness = nullptr;

struct Harness {
  std::string prop;
  uint64_t seed   = 1;
  long cases      = 10;
  long start      = 0;
  long only       = -1;
  bool thorough   = false;
  std::string outPath;
  FILE* out = nullptr;
  std::map<std::string, std::string> params;
  RelaxedLong curCase;
  std::string curParams;
  // what the monitor thread may read (the harness writes hangKey/curParams without synchronisation)
  std::mutex snapMu;
  std::string hangKeySnap = "hang", paramsSnap;
  double caseT0 = 0;
  std::atomic<bool> monitorStop{false};
  std::thread monitor;
  bool hangMonitorEnabled = true;
#if VERIF_TSAN
  unsigned hangWindow     = 80; // samples of 0.5 s; the sanitizer runtime itself can hold every thread for a while
#else
  unsigned hangWindow     = 20; // samples of 0.5 s
#endif
  long nViolations        = 0;
  int mpiRank             = 0;

  Harness(const char* propId, int argc, char** argv) : prop(propId) {
    for (int i = 1; i < argc; ++i) {
      std::string a = argv[i];
      auto val      = [&]() -> std::string {
        if (i + 1 >= argc) {
          fprintf(stderr, "missing value for %s\n", a.c_str());
          exit(2);
        }
        return argv[++i];
      };
      if (a == "--seed")
        seed = strtoull(val().c_str(), 0, 10);
      else if (a == "--cases")
        cases = atol(val().c_str());
      else if (a == "--start")
        start = atol(val().c_str());
      else if (a == "--only")
        only = atol(val().c_str());
      else if (a == "--tier")
        thorough = (val() == "thorough");
      else if (a == "--out")
        outPath = val();
      else if (a == "--param") {
        std::string kv = val();
        auto p         = kv.find('=');
        params[kv.substr(0, p)] = p == std::string::npos ? "1" : kv.substr(p + 1);
      } else {
        fprintf(stderr, "unknown arg %s\n", a.c_str());
        exit(2);
      }
    }
    // under mpirun every rank gets the same arguments: only rank 0 reports
    // (gather what the other ranks observed with plain MPI before calling
    // begin/end/violation on rank 0)
    const char* rk = getenv("OMPI_COMM_WORLD_RANK");
    mpiRank        = rk ? atoi(rk) : 0;
    if (mpiRank != 0)
      outPath = "/dev/null";
    out = outPath.empty() ? stdout : fopen(outPath.c_str(), "a");
    if (!out) {
      perror("open out");
      exit(2);
    }
    g_harness = this;
    install_hooks();
    const char* hm = getenv("VERIF_NO_HANG_MONITOR");
    if (hm && *hm == '1')
      hangMonitorEnabled = false;
    if (hangMonitorEnabled)
      monitor = std::thread([this] { monitorLoop(); });
  }
  ~Harness() {
    perturb_off();
    monitorStop.store(true);
    if (monitor.joinable())
      monitor.join();
    line(J().kv("ev", "done").kv("violations", nViolations).raw("points", point_stats_json()).str());
    if (out && out != stdout)
      fclose(out);
  }

  std::string param(const std::string& k, const std::string& def = "") const {
    auto it = params.find(k);
    return it == params.end() ? def : it->second;
  }
  long paramInt(const std::string& k, long def) const {
    auto it = params.find(k);
    return it == params.end() ? def : atol(it->second.c_str());
  }

  long firstCase() const { return only >= 0 ? only : start; }
  long endCase() const { return only >= 0 ? only + 1 : cases; }
  uint64_t caseSeed(long k) const { return mix(seed, (uint64_t)k * 2654435761ULL + 17); }

  void line(const std::string& s) {
    static std::mutex m;
    std::lock_guard<std::mutex> lg(m);
    fputs(s.c_str(), out);
    fputc('\n', out);
    fflush(out);
  }

  void begin(long k, const std::string& paramsJson) {
    curCase.store(k, std::memory_order_relaxed);
    curParams = paramsJson;
    {
      std::lock_guard<std::mutex> lg(snapMu);
      hangKeySnap = hangKey;
      paramsSnap  = paramsJson;
    }
    caseT0    = now_s();
    line(J().kv("ev", "begin").kv("case", k).raw("params", paramsJson).str());
  }
  // sig: string identifying the *distinct* behaviour observed; nontrivial per
  // the property's rule
  void end(long k, const std::string& sig, bool nontrivial, const std::string& obsJson) {
    perturb_off();
    line(J().kv("ev", "end").kv("case", k).kv("sig", sig).kv("nontrivial", nontrivial)
             .kv("wall_s", now_s() - caseT0).raw("obs", obsJson).str());
    curCase.store(-1, std::memory_order_relaxed);
  }
  // an oracle violation in the current case (case continues / ends normally)
  void violation(const std::string& key, const std::string& detailJson) {
    ++nViolations;
    line(J().kv("ev", "violation").kv("case", curCase.load(std::memory_order_relaxed)).kv("key", key)
             .raw("params", curParams.empty() ? "{}" : curParams).raw("detail", detailJson).str());
  }
  void note(const std::string& what, const std::string& json) {
    line(J().kv("ev", "note").kv("case", curCase.load(std::memory_order_relaxed)).kv("what", what).raw("data", json).str());
  }

  // ------------------------------------------------------------ hang monitor
  struct TaskStat {
    char state = '?';
    uint64_t vol = 0, nonvol = 0;
  };
  static bool readTask(int tid, TaskStat& ts) {
    char path[128], buf[2048];
    snprintf(path, sizeof path, "/proc/self/task/%d/status", tid);
    FILE* f = fopen(path, "r");
    if (!f)
      return false;
    while (fgets(buf, sizeof buf, f)) {
      if (!strncmp(buf, "State:", 6)) {
        const char* p = buf + 6;
        while (*p == ' ' || *p == '\t')
          ++p;
        ts.state = *p;
      } else if (!strncmp(buf, "voluntary_ctxt_switches:", 24))
        ts.vol = strtoull(buf + 24, 0, 10);
      else if (!strncmp(buf, "nonvoluntary_ctxt_switches:", 27))
        ts.nonvol = strtoull(buf + 27, 0, 10);
    }
    fclose(f);
    return true;
  }

  // application hook: name of what is being waited for, for the witness
  std::function<std::string()> hangDetail;
  // key prefix for hang violations, set by harness per case
  std::string hangKey = "hang";

  void monitorLoop() {
#if VERIF_TSAN
    // No hang verdicts in ThreadSanitizer builds. The runtime's own report path can hold threads for a long time (every
    // thread of a polling loop that touches a benignly racy word goes through stack restoration under global locks), and
    // its background thread wakes every 100 ms; "every thread blocked or spinning without progress" is then either never
    // true or true without a hang in the code under test - both were observed. A real hang in this build is left to the
    // driver's stall watchdog (inconclusive); the same workloads run in the plain and ASan builds with the monitor on.
    return;
#endif
    int myTid = (int)syscall(SYS_gettid);
    struct Snap {
      uint64_t spins = 0, progress = 0;
      TaskStat ts;
    };
    std::map<int, Snap> prev;
    unsigned quiet = 0;
    uint64_t spinAccum[MAXT] = {};
    while (!monitorStop.load(std::memory_order_relaxed)) {
      usleep(500000);
      if (curCase.load(std::memory_order_relaxed) < 0) {
        quiet = 0;
        prev.clear();
        continue;
      }
      unsigned n       = g_nthreads.load(std::memory_order_relaxed);
      bool anyInRegion = false, allStuck = true, anyProgress = false;
      std::map<int, Snap> cur;
      // known threads (with spin counters)
      std::map<int, unsigned> tidToIdx;
      for (unsigned i = 0; i < n && i < MAXT; ++i)
        tidToIdx[g_threads[i].ostid.load(std::memory_order_relaxed)] = i;
      DIR* d = opendir("/proc/self/task");
      if (!d)
        continue;
      while (dirent* e = readdir(d)) {
        int tid = atoi(e->d_name);
        if (tid <= 0 || tid == myTid)
          continue;
        Snap s;
        if (!readTask(tid, s.ts))
          continue;
        auto it = tidToIdx.find(tid);
        if (it != tidToIdx.end()) {
          PerThread& t = g_threads[it->second];
          s.spins      = t.spins.load(std::memory_order_relaxed);
          s.progress   = t.progress.load(std::memory_order_relaxed);
          if (t.inRegion.load(std::memory_order_relaxed))
            anyInRegion = true;
        }
        cur[tid] = s;
        auto pit = prev.find(tid);
        if (pit == prev.end()) {
          allStuck = false;
          continue;
        }
        const Snap& p = pit->second;
        if (s.progress != p.progress)
          anyProgress = true;
        bool blocked = (s.ts.state == 'S' || s.ts.state == 'D') && s.ts.vol == p.ts.vol &&
                       s.ts.nonvol == p.ts.nonvol;
        bool spinning = s.spins > p.spins;
        if (spinning)
          anyInRegion = true; // e.g. the master waiting in decascade() after its own share of the region
        if (it != tidToIdx.end()) {
          if (spinning)
            spinAccum[it->second] += s.spins - p.spins;
        }
        if (!blocked && !spinning)
          allStuck = false;
      }
      closedir(d);
      prev.swap(cur);
      if (anyProgress || !allStuck || !anyInRegion) {
        quiet = 0;
        memset(spinAccum, 0, sizeof spinAccum);
        continue;
      }
      ++quiet;
      if (quiet >= hangWindow) {
        // every spinning thread must have spun a lot over the window
        bool enough = true;
        for (unsigned i = 0; i < n && i < MAXT; ++i) {
          auto& t = g_threads[i];
          if (spinAccum[i] > 0 && spinAccum[i] < 1000000)
            enough = false;
        }
        if (!enough)
          continue;
        reportHang(n);
      }
    }
  }

  void reportHang(unsigned n) {
    std::string thr = "[";
    for (unsigned i = 0; i < n && i < MAXT; ++i) {
      auto& t = g_threads[i];
      if (i)
        thr += ",";
      TaskStat ts;
      readTask(t.ostid.load(), ts);
      unsigned lp = t.lastPoint.load();
      thr += J().kv("pool_tid", t.poolTid.load()).kv("in_region", t.inRegion.load())
                 .kv("state", std::string(1, ts.state)).kv("spins", t.spins.load())
                 .kv("progress", t.progress.load())
                 .kv("last_point", lp == ~0u ? "-" : galois::verif::pointName(lp)).str();
    }
    thr += "]";
    J d;
    d.kv("kind", "HANG: no progress; every thread blocked or spinning for the whole window");
    d.kv("window_s", hangWindow * 0.5);
#if !VERIF_TSAN
    if (hangDetail)
      d.kv("detail", hangDetail());
#endif
    d.raw("threads", thr);
    std::string key, params;
    {
      std::lock_guard<std::mutex> lg(snapMu);
      key    = hangKeySnap;
      params = paramsSnap;
    }
    ++nViolations;
    line(J().kv("ev", "violation").kv("case", curCase.load(std::memory_order_relaxed)).kv("key", key)
             .raw("params", params.empty() ? "{}" : params).raw("detail", d.str()).str());
    line(J().kv("ev", "hang_exit").kv("case", curCase.load(std::memory_order_relaxed)).str());
    if (out && out != stdout)
      fflush(out);
    _exit(3);
  }
};

// ---------------------------------------------------------------- placement
inline void pin_process_to_cpus(unsigned k) {
  cpu_set_t set;
  CPU_ZERO(&set);
  for (unsigned i = 0; i < k; ++i)
    CPU_SET(i, &set);
  sched_setaffinity(0, sizeof set, &set);
}

// ---------------------------------------------------------------- TSan classifier
struct PayloadRegion {
  uintptr_t lo, hi;
  char name[64];
};
inline PayloadRegion g_payload[64];
inline std::atomic<unsigned> g_npayload{0};
inline std::atomic<uint64_t> g_tsanPayloadReports{0};
inline std::atomic<uint64_t> g_tsanInternalReports{0};
inline char g_tsanLastPayload[64];
inline std::atomic<uint64_t> g_tsanInternalSig[32];

inline void register_payload(const void* p, size_t n, const char* name) {
  unsigned i = g_npayload.fetch_add(1);
  if (i >= 64)
    abort();
  g_payload[i].lo = (uintptr_t)p;
  g_payload[i].hi = (uintptr_t)p + n;
  strncpy(g_payload[i].name, name, 63);
}
inline void clear_payloads() { g_npayload.store(0); }

} // namespace verif

#if VERIF_TSAN && defined(VERIF_MAIN_TU)
// called by the TSan runtime for every report (in the reporting thread);
// strong definition, compiled into the TU that defines VERIF_MAIN_TU
// Not instrumented and free of intercepted libc calls: a race detected inside this callback would re-enter the report
// machinery under its own locks and dead-lock the process.
extern "C" __attribute__((no_sanitize("thread"))) void __tsan_on_report(void* report) {
  const char* desc = nullptr;
  int count, stack_count, mop_count = 0, loc_count, mutex_count, thread_count, utc;
  void* sleep_trace[1];
  __tsan_get_report_data(report, &desc, &count, &stack_count, &mop_count, &loc_count,
                         &mutex_count, &thread_count, &utc, sleep_trace, 1);
  bool payload = false;
  unsigned np  = verif::g_npayload.load();
  uint64_t sig = 0;
  for (int i = 0; i < mop_count; ++i) {
    int tid, size, write, atomic;
    void* addr;
    void* trace[4] = {0, 0, 0, 0};
    __tsan_get_report_mop(report, i, &tid, &addr, &size, &write, &atomic, trace, 4);
    for (unsigned k = 0; k < np && k < 64; ++k)
      if ((uintptr_t)addr >= verif::g_payload[k].lo && (uintptr_t)addr < verif::g_payload[k].hi) {
        payload = true;
        for (unsigned c = 0; c < 63; ++c)
          if (!(verif::g_tsanLastPayload[c] = verif::g_payload[k].name[c]))
            break;
      }
    sig = sig * 1000003u + (uintptr_t)trace[0];
  }
  if (payload)
    verif::g_tsanPayloadReports.fetch_add(1);
  else {
    uint64_t n = verif::g_tsanInternalReports.fetch_add(1);
    verif::g_tsanInternalSig[n % 32].store(sig);
  }
}
#endif
