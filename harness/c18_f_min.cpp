// C18 — field f_min: std::atomic<uint32_t>, GALOIS_SYNC_STRUCTURE_REDUCE_MIN + BITSET (bfs/sssp/cc style)
#include "c18_field.h"

galois::DynamicBitSet bitset_f_min;
GALOIS_SYNC_STRUCTURE_REDUCE_MIN(f_min, uint32_t);
GALOIS_SYNC_STRUCTURE_BITSET(f_min);

namespace {
using namespace c18;
void store(Graph& g, uint32_t lid, const uint64_t* w) { g.getData(lid).f_min.store((uint32_t)w[0], std::memory_order_relaxed); }
void load(Graph& g, uint32_t lid, uint64_t* w) { w[0] = g.getData(lid).f_min.load(std::memory_order_relaxed); }
bool write(Graph& g, uint32_t lid, const uint64_t* w, bool mark) {
  uint32_t nv  = (uint32_t)w[0];
  uint32_t old = galois::atomicMin(g.getData(lid).f_min, nv);
  if (old > nv) {
    if (mark)
      bitset_f_min.set(lid);
    return true;
  }
  return false;
}
void sync(Substrate& s, unsigned W, unsigned R, bool b, bool a, const std::string& l) {
  sync_any<Reduce_min_f_min, Bitset_f_min, true>(s, W, R, b, a, l);
}
void resetMirrors(Substrate& s) { s.reset_mirrorField<Reduce_min_f_min>(); }
} // namespace
const c18::FieldVT c18::vt_f_min = {"f_min", "GALOIS_SYNC_STRUCTURE_REDUCE_MIN(atomic<uint32_t>)", R_MIN, K_U32, 1, true, true,
                                    store, load, write, &bitset_f_min, sync, resetMirrors};
