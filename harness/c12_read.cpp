// C12 part (b), FileGraph readers: reference-written files through fromFile,
// fromFileInterleaved and partFromFile (node split points), plus the cross-reader check of the
// version-2 padding question.
//
// Version 2, odd edge count, edge data present: the documented layout leaves no pad after the
// 64-bit destinations, some readers skip one 8-byte word. The reference therefore writes the file
// under BOTH conventions and a reader is judged correct if it reads the source graph from at least
// one of them (convention-free verdict); the v2layout component then demands that the library's own
// readers agree on ONE convention (otherwise no v2 file with an odd edge count can be read both
// whole and by sub-range).
#include "c12_common.h"

#include "galois/Galois.h"
#include "galois/graphs/FileGraph.h"
#include "galois/graphs/OfflineGraph.h"

using namespace c12;
using verif::J;
namespace gg = galois::graphs;

namespace {

struct PeekGraph : gg::FileGraph {
  const char* rawEdgeData() const { return edgeData; }
};

struct Conv {
  ref::V2Pad pad;
  const char* name;
  std::string path;
  bool ok = true;
  std::string witness;
};

// files to read for this case: one, or two when the padding convention matters
std::vector<Conv> writeInputs(Case& c) {
  std::vector<Conv> v;
  if (c.version == 2 && c.odd && c.width) {
    v.push_back({ref::V2Pad::None, "none", c.path("n")});
    v.push_back({ref::V2Pad::Odd8, "odd8", c.path("p")});
    c.v2BothConventions++;
  } else
    v.push_back({ref::V2Pad::None, "-", c.path("f")});
  for (auto& x : v)
    ref::write_gr(x.path, c.g, c.version, c.width, x.pad);
  return v;
}

std::string bothWitness(const std::vector<Conv>& v) {
  J j;
  for (auto& x : v)
    j.raw((std::string("pad_") + x.name).c_str(), x.witness.empty() ? "\"ok\"" : x.witness);
  return j.str();
}

void noteAccepted(Case& c, const std::vector<Conv>& v) {
  if (v.size() == 2) {
    c.sigExtra += std::string("|acc:") + (v[0].ok ? "N" : "") + (v[1].ok ? "P" : "");
  }
}

// ------------------------------------------------------------------ whole-file readers
template <typename T>
std::string readWhole(Case& c, const std::string& path, bool interleaved, bool& dataMissing) {
  PeekGraph r;
  if (interleaved) {
    // fromFileInterleaved = fromFile + paging in the arrays; if fromFile presents no edge data for
    // this file (judged below as "not read correctly") the page-in pass would dereference the null
    // pointer, so that combination is not run
    if constexpr (!std::is_void<T>::value) {
      PeekGraph probe;
      probe.fromFile(path);
      if (probe.sizeEdges() && !probe.rawEdgeData()) {
        dataMissing = true;
        return J().kv("what", "edgeData == nullptr although the file has edge data").str();
      }
    }
    r.template fromFileInterleaved<T>(path);
  } else
    r.fromFile(path);
  c.libReads++;
  const ref::RefGraph& g = c.g;
  constexpr uint64_t W   = std::is_void<T>::value ? 0 : sizeof(std::conditional_t<std::is_void<T>::value, char, T>);
  if (r.size() != g.numNodes || r.sizeEdges() != g.numEdges() || r.edgeSize() != W)
    return J().kv("what", "sizes").kv("nodes", (uint64_t)r.size()).kv("edges", (uint64_t)r.sizeEdges())
        .kv("edge_size", (uint64_t)r.edgeSize()).str();
  if constexpr (!std::is_void<T>::value)
    if (r.sizeEdges() && !r.rawEdgeData()) {
      dataMissing = true;
      return J().kv("what", "edgeData == nullptr although the file has edge data").str();
    }
  return diffWhole(c, g, enumerateFileGraph<T>(r));
}

template <typename T>
void fromfile_t(Case& c) {
  const bool interleaved = c.variant & 1;
  auto in                = writeInputs(c);
  bool any = false, dataMissing = false;
  for (auto& x : in) {
    x.witness = readWhole<T>(c, x.path, interleaved, dataMissing);
    x.ok      = x.witness.empty();
    any |= x.ok;
  }
  noteAccepted(c, in);
  if (any)
    return;
  if (dataMissing) {
    if constexpr (!std::is_void<T>::value)
      c.violation("C12:FileGraph.fromFile:edge-data-missing:width" + std::to_string(sizeof(T)),
                  J().kv("what", "reference-written file has edge data, the reader presents none (edgeData == nullptr)")
                      .kv("file_bytes", fileSize(in[0].path)).kv("edges", c.g.numEdges())
                      .kv("edge_size", (uint64_t)c.width).kv("version", c.version).str());
    return;
  }
  c.violation(c.key("content", c.v2class()), bothWitness(in));
}

// ------------------------------------------------------------------ partFromFile
struct Range {
  uint64_t a, b;
};

std::vector<Range> pickRanges(Case& c, uint64_t n, bool allowEmpty) {
  std::vector<Range> r;
  const uint64_t exhaustive = c.H->thorough ? 16 : 12;
  if (n <= exhaustive) {
    for (uint64_t a = 0; a <= n; ++a)
      for (uint64_t b = a; b <= n; ++b)
        if (allowEmpty || a < b)
          r.push_back({a, b});
  } else {
    r.push_back({0, n});
    r.push_back({0, 1});
    r.push_back({n - 1, n});
    r.push_back({1, n});
    r.push_back({0, n - 1});
    if (allowEmpty) {
      r.push_back({0, 0});
      r.push_back({n, n});
    }
    unsigned k = c.H->thorough ? 60 : 24;
    for (unsigned i = 0; i < k; ++i) {
      uint64_t a = c.rng.below(n + 1), b = c.rng.below(n + 1);
      if (a > b)
        std::swap(a, b);
      if (i % 3 == 0) // consecutive split: [a,b) and [b, b') as a partitioner would produce
        a = r.back().b <= b ? r.back().b : a;
      if (a < b || allowEmpty)
        r.push_back({a, b});
    }
  }
  return r;
}

std::vector<uint64_t> edgeStarts(const ref::RefGraph& g) {
  std::vector<uint64_t> E(g.numNodes + 1, 0);
  for (uint64_t s = 0; s < g.numNodes; ++s)
    E[s + 1] = E[s] + g.adj[s].size();
  return E;
}

template <typename T>
std::string readPart(Case& c, const std::string& path, const std::vector<uint64_t>& E, Range rg, bool numa) {
  using FG = gg::FileGraph;
  FG p;
  p.partFromFile(path, FG::NodeRange(FG::iterator(rg.a), FG::iterator(rg.b)),
                 FG::EdgeRange(FG::edge_iterator(E[rg.a]), FG::edge_iterator(E[rg.b])), numa);
  c.partRanges++;
  if (p.size() != rg.b - rg.a || p.sizeEdges() != E[rg.b] - E[rg.a])
    return J().kv("what", "sizes of part").kv("nodes", (uint64_t)p.size()).kv("edges", (uint64_t)p.sizeEdges()).str();
  if (rg.a == rg.b)
    return "";
  if (*p.begin() != rg.a || *p.end() != rg.b)
    return J().kv("what", "begin()/end() of part").kv("begin", (uint64_t)*p.begin()).kv("end", (uint64_t)*p.end()).str();
  return diffRange(c, c.g, rg.a, rg.b, enumerateFileGraph<T>(p));
}

template <typename T>
void part_t(Case& c) {
  auto in     = writeInputs(c);
  auto E      = edgeStarts(c.g);
  auto ranges = pickRanges(c, c.g.numNodes, true);
  const bool numaSometimes = c.variant & 1;
  bool any                 = false;
  for (auto& x : in) {
    for (auto& rg : ranges) {
      bool numa     = numaSometimes && c.rng.below(3) == 0;
      std::string w = readPart<T>(c, x.path, E, rg, numa);
      if (!w.empty()) {
        x.ok      = false;
        x.witness = J().kv("node_begin", rg.a).kv("node_end", rg.b).kv("edge_begin", E[rg.a]).kv("edge_end", E[rg.b])
                        .kv("numaMap", numa).raw("diff", w).str();
        break;
      }
    }
    any |= x.ok;
  }
  noteAccepted(c, in);
  if (!any)
    c.violation(c.key("content", c.v2class()), bothWitness(in));
}

// ------------------------------------------------------------------ OfflineGraph (used by v2layout)
template <typename T>
std::string readOffline(Case& c, const std::string& path) {
  try {
    gg::OfflineGraph og(path);
    c.libReads++;
    if (og.size() != c.g.numNodes || og.sizeEdges() != c.g.numEdges() || og.edgeSize() != c.width)
      return J().kv("what", "sizes").kv("nodes", (uint64_t)og.size()).kv("edges", (uint64_t)og.sizeEdges())
          .kv("edge_size", (uint64_t)og.edgeSize()).str();
    Adj obs(c.g.numNodes);
    for (uint64_t n = 0; n < c.g.numNodes; ++n)
      for (auto e = og.edge_begin(n), ee = og.edge_end(n); e != ee; ++e) {
        uint64_t dst = og.getEdgeDst(e);
        if constexpr (std::is_void<T>::value)
          obs[n].emplace_back(dst, 0);
        else
          obs[n].push_back(edgeOf<T>(dst, og.template getEdgeData<T>(e)));
      }
    return diffWhole(c, c.g, obs);
  } catch (const char* msg) {
    return J().kv("what", "OfflineGraph threw").kv("message", msg).str();
  } catch (const std::exception& e) {
    return J().kv("what", "OfflineGraph threw").kv("message", e.what()).str();
  }
}

// ------------------------------------------------------------------ v2 layout: do the readers agree?
template <typename T>
void v2layout_t(Case& c) {
  if constexpr (std::is_void<T>::value) {
    return;
  } else {
    auto in = writeInputs(c); // two files (version 2, odd, data) by construction of the case
    if (in.size() != 2)
      return;
    c.v2OddDataFiles++;
    auto E = edgeStarts(c.g);
    const uint64_t n = c.g.numNodes;
    struct Reader {
      const char* name;
      bool acc[2];
      std::string wit[2];
    };
    std::vector<Reader> rs = {{"fromFile", {}, {}}, {"fromFileInterleaved", {}, {}}, {"partFromFile", {}, {}}, {"OfflineGraph", {}, {}}};
    for (int k = 0; k < 2; ++k) {
      bool dm    = false;
      rs[0].wit[k] = readWhole<T>(c, in[k].path, false, dm);
      rs[1].wit[k] = readWhole<T>(c, in[k].path, true, dm);
      // the whole graph as one part, then as two consecutive parts
      std::string w = readPart<T>(c, in[k].path, E, Range{0, n}, false);
      uint64_t mid  = c.rng.below(n + 1);
      if (w.empty())
        w = readPart<T>(c, in[k].path, E, Range{0, mid}, false);
      if (w.empty())
        w = readPart<T>(c, in[k].path, E, Range{mid, n}, false);
      rs[2].wit[k] = w;
      rs[3].wit[k] = readOffline<T>(c, in[k].path);
      for (auto& r : rs)
        r.acc[k] = r.wit[k].empty();
    }
    bool common[2] = {true, true};
    std::string table = "{";
    for (size_t i = 0; i < rs.size(); ++i) {
      auto& r = rs[i];
      common[0] &= r.acc[0];
      common[1] &= r.acc[1];
      table += (i ? "," : "") + verif::jstr(r.name) + ":" +
               verif::jstr(std::string(r.acc[0] ? "no-pad " : "") + (r.acc[1] ? "8-byte-pad" : ""));
      c.sigExtra += std::string("|") + (r.acc[0] ? "N" : "") + (r.acc[1] ? "P" : "");
      if (!r.acc[0] && !r.acc[1])
        c.violation("C12:FileGraph." + std::string(r.name) + ":content:v2-odd",
                    J().raw("pad_none", r.wit[0]).raw("pad_odd8", r.wit[1]).str());
    }
    table += "}";
    if (!common[0] && !common[1])
      c.violation(c.key("readers-disagree", "v2-odd"),
                  J().kv("what", "version 2, odd edge count, edge data: no placement of the edge data is read correctly by "
                                 "all of the library's own readers, so no such file can be read both whole and by sub-range")
                      .raw("reader_accepts", table).kv("nodes", n).kv("edges", c.g.numEdges()).kv("edge_size", c.width)
                      .raw("example_fromFile_on_no_pad", rs[0].wit[0].empty() ? "\"ok\"" : rs[0].wit[0])
                      .raw("example_partFromFile_on_8_byte_pad", rs[2].wit[1].empty() ? "\"ok\"" : rs[2].wit[1]).str());
  }
}

} // namespace

namespace c12 {
void run_fromfile(Case& c) { C12_WIDTH_SWITCH(c.width, fromfile_t, c); }
void run_partfromfile(Case& c) { C12_WIDTH_SWITCH(c.width, part_t, c); }
void run_v2layout(Case& c) { C12_WIDTH_SWITCH(c.width, v2layout_t, c); }
} // namespace c12
