// C12 part (b), FileGraph readers: reference-written files through fromFile,
// fromFileInterleaved and partFromFile (node split points), plus the cross-reader check of the
// version-2 padding question.
//
// Version 2 has one layout everywhere: no pad word after the 64-bit destinations (the format
// comment, rawBlockSize, FileGraphWriter::phase1, partFromFile, OfflineGraph and -- since the fix of
// the reader/writer disagreement -- fromMem/fromArrays). Reference files are written that way only;
// the v2layout component runs every version-2 capable reader on the SAME file with an odd edge
// count and edge data, the corner where the readers used to disagree.
#include "c12_common.h"

#include "galois/Galois.h"
#include "galois/graphs/FileGraph.h"
#include "galois/graphs/OfflineGraph.h"

using namespace c12;
using verif::J;
namespace gg = galois::graphs;

namespace {

struct PeekGraph : gg::FileGraph {
  const char* rawEdgeData() const { return edgeData; }
};

// the reference-written input of this case (version 2: documented layout, no pad word)
std::string writeInput(Case& c) {
  std::string p = c.path("f");
  ref::write_gr(p, c.g, c.version, c.width, ref::V2Pad::None);
  return p;
}

// ------------------------------------------------------------------ whole-file readers
template <typename T>
std::string readWhole(Case& c, const std::string& path, bool interleaved, bool& dataMissing) {
  PeekGraph r;
  if (interleaved)
    r.template fromFileInterleaved<T>(path);
  else
    r.fromFile(path);
  c.libReads++;
  const ref::RefGraph& g = c.g;
  constexpr uint64_t W   = std::is_void<T>::value ? 0 : sizeof(std::conditional_t<std::is_void<T>::value, char, T>);
  if (r.size() != g.numNodes || r.sizeEdges() != g.numEdges() || r.edgeSize() != W)
    return J().kv("what", "sizes").kv("nodes", (uint64_t)r.size()).kv("edges", (uint64_t)r.sizeEdges())
        .kv("edge_size", (uint64_t)r.edgeSize()).str();
  if constexpr (!std::is_void<T>::value)
    if (r.sizeEdges() && !r.rawEdgeData()) {
      dataMissing = true;
      return J().kv("what", "edgeData == nullptr although the file has edge data").str();
    }
  return diffWhole(c, g, enumerateFileGraph<T>(r));
}

template <typename T>
void fromfile_t(Case& c) {
  const bool interleaved = c.variant & 1;
  std::string in         = writeInput(c);
  bool dataMissing       = false;
  std::string w          = readWhole<T>(c, in, interleaved, dataMissing);
  if (w.empty())
    return;
  if (dataMissing) {
    if constexpr (!std::is_void<T>::value)
      c.violation("C12:FileGraph.fromFile:edge-data-missing:width" + std::to_string(sizeof(T)),
                  J().kv("what", "reference-written file has edge data, the reader presents none (edgeData == nullptr)")
                      .kv("file_bytes", fileSize(in)).kv("edges", c.g.numEdges())
                      .kv("edge_size", (uint64_t)c.width).kv("version", c.version).str());
    return;
  }
  c.violation(c.key("content", c.v2class()), J().kv("file_bytes", fileSize(in)).raw("diff", w).str());
}

// ------------------------------------------------------------------ partFromFile
struct Range {
  uint64_t a, b;
};

std::vector<Range> pickRanges(Case& c, uint64_t n, bool allowEmpty) {
  std::vector<Range> r;
  const uint64_t exhaustive = c.H->thorough ? 16 : 12;
  if (n <= exhaustive) {
    for (uint64_t a = 0; a <= n; ++a)
      for (uint64_t b = a; b <= n; ++b)
        if (allowEmpty || a < b)
          r.push_back({a, b});
  } else {
    r.push_back({0, n});
    r.push_back({0, 1});
    r.push_back({n - 1, n});
    r.push_back({1, n});
    r.push_back({0, n - 1});
    if (allowEmpty) {
      r.push_back({0, 0});
      r.push_back({n, n});
    }
    unsigned k = c.H->thorough ? 60 : 24;
    for (unsigned i = 0; i < k; ++i) {
      uint64_t a = c.rng.below(n + 1), b = c.rng.below(n + 1);
      if (a > b)
        std::swap(a, b);
      if (i % 3 == 0) // consecutive split: [a,b) and [b, b') as a partitioner would produce
        a = r.back().b <= b ? r.back().b : a;
      if (a < b || allowEmpty)
        r.push_back({a, b});
    }
  }
  return r;
}

std::vector<uint64_t> edgeStarts(const ref::RefGraph& g) {
  std::vector<uint64_t> E(g.numNodes + 1, 0);
  for (uint64_t s = 0; s < g.numNodes; ++s)
    E[s + 1] = E[s] + g.adj[s].size();
  return E;
}

template <typename T>
std::string readPart(Case& c, const std::string& path, const std::vector<uint64_t>& E, Range rg, bool numa) {
  using FG = gg::FileGraph;
  FG p;
  p.partFromFile(path, FG::NodeRange(FG::iterator(rg.a), FG::iterator(rg.b)),
                 FG::EdgeRange(FG::edge_iterator(E[rg.a]), FG::edge_iterator(E[rg.b])), numa);
  c.partRanges++;
  if (p.size() != rg.b - rg.a || p.sizeEdges() != E[rg.b] - E[rg.a])
    return J().kv("what", "sizes of part").kv("nodes", (uint64_t)p.size()).kv("edges", (uint64_t)p.sizeEdges()).str();
  if (rg.a == rg.b)
    return "";
  if (*p.begin() != rg.a || *p.end() != rg.b)
    return J().kv("what", "begin()/end() of part").kv("begin", (uint64_t)*p.begin()).kv("end", (uint64_t)*p.end()).str();
  return diffRange(c, c.g, rg.a, rg.b, enumerateFileGraph<T>(p));
}

template <typename T>
void part_t(Case& c) {
  std::string in = writeInput(c);
  auto E         = edgeStarts(c.g);
  auto ranges    = pickRanges(c, c.g.numNodes, true);
  const bool numaSometimes = c.variant & 1;
  for (auto& rg : ranges) {
    bool numa     = numaSometimes && c.rng.below(3) == 0;
    std::string w = readPart<T>(c, in, E, rg, numa);
    if (!w.empty()) {
      c.violation(c.key("content", c.v2class()),
                  J().kv("node_begin", rg.a).kv("node_end", rg.b).kv("edge_begin", E[rg.a]).kv("edge_end", E[rg.b])
                      .kv("numaMap", numa).kv("file_bytes", fileSize(in)).raw("diff", w).str());
      return;
    }
  }
}

// ------------------------------------------------------------------ OfflineGraph (used by v2layout)
template <typename T>
std::string readOffline(Case& c, const std::string& path) {
  try {
    gg::OfflineGraph og(path);
    c.libReads++;
    if (og.size() != c.g.numNodes || og.sizeEdges() != c.g.numEdges() || og.edgeSize() != c.width)
      return J().kv("what", "sizes").kv("nodes", (uint64_t)og.size()).kv("edges", (uint64_t)og.sizeEdges())
          .kv("edge_size", (uint64_t)og.edgeSize()).str();
    Adj obs(c.g.numNodes);
    for (uint64_t n = 0; n < c.g.numNodes; ++n)
      for (auto e = og.edge_begin(n), ee = og.edge_end(n); e != ee; ++e) {
        uint64_t dst = og.getEdgeDst(e);
        if constexpr (std::is_void<T>::value)
          obs[n].emplace_back(dst, 0);
        else
          obs[n].push_back(edgeOf<T>(dst, og.template getEdgeData<T>(e)));
      }
    return diffWhole(c, c.g, obs);
  } catch (const char* msg) {
    return J().kv("what", "OfflineGraph threw").kv("message", msg).str();
  } catch (const std::exception& e) {
    return J().kv("what", "OfflineGraph threw").kv("message", e.what()).str();
  }
}

// ------------------------------------------------------------------ v2 layout: every reader, one file
template <typename T>
void v2layout_t(Case& c) {
  if constexpr (std::is_void<T>::value) {
    return;
  } else {
    // version 2, odd edge count, edge data (by construction of the case); one file, documented layout
    std::string in = writeInput(c);
    c.v2OddDataFiles++;
    auto E           = edgeStarts(c.g);
    const uint64_t n = c.g.numNodes;
    bool dm          = false;
    std::string w[4];
    w[0] = readWhole<T>(c, in, false, dm);
    w[1] = readWhole<T>(c, in, true, dm);
    // the whole graph as one part, then as two consecutive parts
    w[2]         = readPart<T>(c, in, E, Range{0, n}, false);
    uint64_t mid = c.rng.below(n + 1);
    if (w[2].empty())
      w[2] = readPart<T>(c, in, E, Range{0, mid}, false);
    if (w[2].empty())
      w[2] = readPart<T>(c, in, E, Range{mid, n}, false);
    w[3] = readOffline<T>(c, in);
    const char* names[4] = {"fromFile", "fromFileInterleaved", "partFromFile", "OfflineGraph"};
    for (int i = 0; i < 4; ++i)
      if (!w[i].empty())
        c.violation("C12:FileGraph." + std::string(names[i]) + ":content:v2-odd",
                    J().kv("what", "version 2 file (no pad word), odd edge count, edge data").kv("file_bytes", fileSize(in))
                        .kv("nodes", n).kv("edges", c.g.numEdges()).kv("edge_size", c.width).raw("diff", w[i]).str());
  }
}

} // namespace

namespace c12 {
void run_fromfile(Case& c) { C12_WIDTH_SWITCH(c.width, fromfile_t, c); }
void run_partfromfile(Case& c) { C12_WIDTH_SWITCH(c.width, part_t, c); }
void run_v2layout(Case& c) { C12_WIDTH_SWITCH(c.width, v2layout_t, c); }
} // namespace c12
