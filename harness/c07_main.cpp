// C07 — deterministic scheduling: the same generated cautious program is run
// several times through worklists::Deterministic with different thread counts,
// injected delays and placements; committed item set, per-object commit
// sequences and final values must be bit-identical; C01/C02 oracles run inside
// every run.
#define VERIF_MAIN_TU
#include "c01_oracle.h"

using namespace c01;
namespace gs = galois::substrate;

struct DetId {
  uintptr_t operator()(const Item& i) const { return i.id; }
};
struct LocalState {
  uint64_t scratch[4];
  LocalState() { scratch[0] = scratch[1] = scratch[2] = scratch[3] = 0; }
};

enum Variant { V_DEFAULT = 0, V_DETID, V_DETID_PIA, V_LOCALSTATE, V_NOPUSH, V_NUM };
static const char* VN[] = {"default", "det_id", "det_id+per_iter_alloc", "local_state", "no_pushes+det_id"};

typedef galois::worklists::Deterministic<> DWL;

static void runDet(Case& c, unsigned variant) {
  Op op{&c};
  auto range = galois::iterate(c.initial);
  switch (variant) {
  case V_DEFAULT:
    galois::for_each(range, op, galois::wl<DWL>(), galois::no_stats());
    break;
  case V_DETID:
    galois::for_each(range, op, galois::wl<DWL>(), galois::det_id<DetId>(DetId()), galois::no_stats());
    break;
  case V_DETID_PIA:
    galois::for_each(range, op, galois::wl<DWL>(), galois::det_id<DetId>(DetId()), galois::per_iter_alloc(),
                     galois::no_stats());
    break;
  case V_LOCALSTATE:
    galois::for_each(range, op, galois::wl<DWL>(), galois::local_state<LocalState>(), galois::no_stats());
    break;
  case V_NOPUSH:
    galois::for_each(range, op, galois::wl<DWL>(), galois::det_id<DetId>(DetId()), galois::no_pushes(),
                     galois::no_stats());
    break;
  }
}

struct Snapshot {
  std::vector<uint8_t> committed;
  std::vector<uint64_t> value, version;
  std::vector<std::vector<uint32_t>> log;
  unsigned threads = 0;
};

int main(int argc, char** argv) {
  Harness H("C07", argc, argv);
  gH = &H;
  galois::SharedMemSys G;
  auto& tp       = gs::getThreadPool();
  unsigned maxT  = std::min(64u, tp.getMaxThreads());
  unsigned nsock = tp.getMaxSockets();
  long oversub   = H.paramInt("oversub", 0);
  long maxItemsParam = H.paramInt("maxitems", 0);
  WLEntry fake{"Deterministic", "Deterministic", 0, nullptr};

  for (long k = H.firstCase(); k < H.endCase(); ++k) {
    Rng rng(H.caseSeed(k));
    unsigned variant = (unsigned)rng.below(V_NUM);
    unsigned R       = 2 + (unsigned)rng.below(3);
    std::vector<unsigned> threadCounts;
    static const unsigned TC[] = {1, 2, 3, 4, 8, 16, 24};
    for (unsigned r = 0; r < R; ++r) {
      unsigned t = TC[rng.below(7)];
      if (rng.below(4) == 0)
        t = 1 + (unsigned)rng.below(maxT);
      threadCounts.push_back(std::min(t, maxT));
    }
    uint64_t progSeed = rng.next();
    bool shuffleInit  = (variant == V_DETID || variant == V_DETID_PIA || variant == V_NOPUSH) && rng.below(2);
    bool dynamicPush  = variant != V_NOPUSH && rng.below(2);
    // big generations: more initial items than the executor's minimum window (1280), so that the window
    // adaptation (calculateWindow / nextWindow, per-thread commit statistics) decides round membership
    bool bigGen = H.paramInt("biggen", 0) && rng.below(3) == 0;
    std::string comp  = std::string("Deterministic:") + VN[variant];
    H.hangKey         = "C07:" + comp + ":hang";
    Snapshot first;
    bool bad = false;
    uint64_t totalCommitted = 0, totalAttempts = 0, totalObjCommits = 0, threadsMax = 0;
    std::string beginJson;
    for (unsigned r = 0; r < R && !bad; ++r) {
      auto cp = std::make_unique<Case>();
      Case& c = *cp;
      g_case  = &c;
      c.wlName = comp;
      c.family = "Deterministic";
      c.sockets = nsock;
      c.conflicts = true;
      c.deterministic = true;
      c.dynamicPush   = dynamicPush;
      c.pia           = variant == V_DETID_PIA;
      c.threads       = threadCounts[r];
      {
        // identical program in every run: same generator seed
        Rng prng(progSeed);
        c.salt = prng.next();
        c.threads = 2; // generation must not depend on the thread count of this run
        if (bigGen) {
          for (unsigned tries = 0; tries < 8; ++tries) {
            generate(c, prng, fake, true, 6000);
            if (c.initial.size() >= 2000 && c.nObjs >= 16)
              break;
          }
          for (auto& p : c.prog)
            p.delayKind = 0;
        } else
          generate(c, prng, fake, H.thorough, maxItemsParam > 0 ? maxItemsParam : 400);
        c.threads = threadCounts[r];
        for (auto& p : c.prog) { // deterministic-executor contract
          p.pushBefore = 0;
          p.vaborts    = 0;
          if (variant == V_NOPUSH)
            p.childCount = 0;
        }
        if (variant == V_NOPUSH) {
          c.prog.resize(c.initial.size());
          for (auto& p : c.prog)
            p.childCount = 0;
        }
        if (shuffleInit) { // with det_id the order of the initial range must not matter
          Rng srng(mix(progSeed, r + 1));
          for (size_t i = c.initial.size(); i > 1; --i)
            std::swap(c.initial[i - 1], c.initial[srng.below(i)]);
        }
      }
      if (r == 0) {
        beginJson = J().kv("component", comp).kv("variant", VN[variant]).raw("threads_per_run", jarr(threadCounts))
                        .kv("items", (uint64_t)c.prog.size()).kv("initial", (uint64_t)c.initial.size())
                        .kv("objects", c.nObjs).kv("dynamic_push", dynamicPush).kv("shuffled_initial", shuffleInit)
                        .kv("big_generation", bigGen).kv("sockets", nsock).str();
        H.begin(k, beginJson);
      }
      // the executor runs several barriers per round and one round per few items: keep the noise light
      unsigned pointProb = (unsigned)rng.pick({0, 0, 16, 128, 1024});
      unsigned spinProb  = oversub ? 65535u : (unsigned)rng.pick({0, 0, 128, 2048});
      galois::setActiveThreads(c.threads);
      perturb_case(rng.next(), pointProb, spinProb, 40);
      if (bigGen) { // desynchronise the threads right where they read each other's commit statistics
        g_perturb.pointMask.store(1ull << (galois::verif::DET_ROUND & 63), std::memory_order_relaxed);
        g_perturb.maxDelayUs.store(400, std::memory_order_relaxed);
        g_perturb.pointProb.store(30000, std::memory_order_relaxed);
      } else
        g_perturb.pointMask.store(~0ull, std::memory_order_relaxed);
      c.loopActive.store(1);
      runDet(c, variant);
      c.loopActive.store(0);
      perturb_off();
      for (auto& v : c.viols)
        if (v.set.load() == 2) {
          H.violation(v.key, J().kv("run", r).kv("threads", c.threads).kv("detail", v.detail).str());
          bad = true;
        }
      Counts cnt = checkAfter(c, H);
      if (cnt.lost || cnt.dup)
        bad = true;
      totalCommitted += cnt.committed;
      totalAttempts += cnt.starts;
      totalObjCommits += cnt.objCommits;
      threadsMax = std::max<uint64_t>(threadsMax, cnt.threadsUsed);
      // snapshot
      Snapshot s;
      s.threads = c.threads;
      s.committed.resize(c.prog.size());
      for (size_t i = 0; i < c.prog.size(); ++i)
        s.committed[i] = c.items[i].commits.load() ? 1 : 0;
      for (unsigned o = 0; o < c.nObjs; ++o) {
        s.value.push_back(c.objs[o].value);
        s.version.push_back(c.objs[o].version);
        s.log.push_back(c.objs[o].log);
      }
      if (r == 0)
        first = std::move(s);
      else if (!bad) {
        if (s.committed != first.committed) {
          size_t i = 0;
          while (i < s.committed.size() && s.committed[i] == first.committed[i])
            ++i;
          H.violation("C07:" + comp + ":created-work-differs-across-runs",
                      J().kv("run_a_threads", first.threads).kv("run_b_threads", s.threads)
                          .kv("first_item_committed_in_only_one_run", (uint64_t)i).str());
          bad = true;
        } else if (s.log != first.log || s.value != first.value || s.version != first.version) {
          unsigned o = 0;
          while (o < s.log.size() && s.log[o] == first.log[o] && s.value[o] == first.value[o])
            ++o;
          size_t pos = 0;
          if (o < s.log.size())
            while (pos < s.log[o].size() && pos < first.log[o].size() && s.log[o][pos] == first.log[o][pos])
              ++pos;
          H.violation("C07:" + comp + ":commit-order-differs-across-runs",
                      J().kv("run_a_threads", first.threads).kv("run_b_threads", s.threads).kv("object", o)
                          .kv("first_differing_position_in_commit_sequence", (uint64_t)pos)
                          .kv("shuffled_initial", shuffleInit).str());
          bad = true;
        }
      }
      g_case = nullptr;
    }
    std::set<unsigned> distinctT(threadCounts.begin(), threadCounts.end());
    bool nontrivial = distinctT.size() >= 2 && totalObjCommits > 0 && threadsMax >= 2;
    std::string sig = comp + "|" + jarr(threadCounts) + "|s" + std::to_string(nsock) + "|n" +
                      std::to_string(first.committed.size()) + "|o" + std::to_string(first.value.size()) +
                      (dynamicPush ? "|dyn" : "") + (shuffleInit ? "|shuf" : "") + (bigGen ? "|big" : "");
    H.end(k, sig, nontrivial,
          J().kv("runs_compared", R).kv("items_committed", totalCommitted).kv("attempts", totalAttempts)
              .kv("commits_with_objects_replayed", totalObjCommits).kv("big_generation_cases", (int)bigGen)
              .kv("multi_socket_cases", (int)(nsock > 1 && threadsMax > 1)).str());
  }
  return 0;
}
