// C04 — termination detection is sound and live, and can be re-armed.
//
// The harness plays a work-passing game directly on the detector inside
// on_each, calling it exactly as ForEachExecutor::go() does. `pending` counts
// work units that exist (incremented before a unit becomes visible,
// decremented after its processing incl. its sends finished).
//   soundness: whoever observes globalTermination()==true must see pending==0
//   liveness (logical steps): in lock-step games every round is one idle/busy
//     report per thread between two harness barriers (so a token handed over
//     in round r is visible in round r+1 and moves at least one hop per
//     round); once no work exists termination must reach every thread within
//     4n + 8 + 8*ceil(log2(n+1)) rounds. Free-running games (no harness
//     barrier, natural timing) are covered by the hang monitor instead: the
//     number of reports per hop there depends on cache latency, not on logic.
//   reuse: games are played back to back with different n, and re-armed in the
//     middle of a region (initializeThread + barrier) like the executor does
#define VERIF_MAIN_TU
#include "verif.h"

#include "galois/Galois.h"
#include "galois/substrate/Termination.h"
#include "galois/substrate/Barrier.h"

using namespace verif;
namespace gs = galois::substrate;

struct Tree : public gs::internal::TreeTerminationDetection<> {
  void arm(unsigned n) { init(n); }
};
struct Ring : public gs::internal::LocalTerminationDetection<> {
  void arm(unsigned n) { init(n); }
};

struct Unit {
  uint32_t childBegin, childCount;
  uint8_t target; // thread that receives this unit
  uint8_t delay;  // 0 none, 1 busy, 2 sleep (while processing)
};

struct alignas(128) Mailbox {
  std::mutex m;
  std::vector<uint32_t> q;
  std::atomic<uint32_t> size{0};
};

struct alignas(128) PerT {
  std::atomic<uint64_t> idle{0}; // consecutive idle reports since this thread last saw work exist
  uint64_t calls = 0, processed = 0;
  uint64_t sawTermWithPending = 0;
  int64_t pendingSeen         = 0;
  uint64_t maxMinIdle         = 0;
};

struct LSBarrier {
  std::atomic<unsigned> count{0};
  std::atomic<unsigned> gen{0};
  unsigned n = 1;
  void wait() {
    unsigned g = gen.load(std::memory_order_acquire);
    if (count.fetch_add(1, std::memory_order_acq_rel) + 1 == n) {
      count.store(0, std::memory_order_relaxed);
      gen.store(g + 1, std::memory_order_release);
    } else {
      unsigned spins = 0;
      while (gen.load(std::memory_order_acquire) == g) {
        if (++spins % 32 == 0)
          sched_yield();
        else
          asm volatile("pause");
      }
    }
  }
};

static const char* DET[] = {"RingSystem", "Ring", "Tree"};

int main(int argc, char** argv) {
  Harness H("C04", argc, argv);
  galois::SharedMemSys G;
  auto& tp       = gs::getThreadPool();
  unsigned maxT  = std::min(64u, tp.getMaxThreads());
  unsigned nsock = tp.getMaxSockets();
  long oversub   = H.paramInt("oversub", 0);
  long onlyDet   = H.paramInt("det", -1);
  Ring ring;
  Tree tree;
  std::vector<Mailbox> mbox(64);
  std::vector<PerT> pt(64);

  for (long k = H.firstCase(); k < H.endCase(); ++k) {
    Rng rng(H.caseSeed(k));
    unsigned det = onlyDet >= 0 ? (unsigned)onlyDet : (unsigned)rng.below(3);
    unsigned n;
    switch (rng.below(6)) {
    case 0: n = maxT; break;
    case 1: n = 1; break;
    case 2: n = 2; break;
    default: n = 1 + (unsigned)rng.below(maxT); break;
    }
    unsigned phases    = 1 + (unsigned)rng.below(3); // re-arms inside one region
    unsigned pointProb = (unsigned)rng.pick({0, 0, 1024, 8192, 30000});
    unsigned spinProb  = oversub ? 65535u : (unsigned)rng.pick({0, 0, 512, 8192});
    unsigned shape     = (unsigned)rng.below(6); // 0 no work,1 single long-busy thread,2 ping-pong,3 bursts,4 random tree,5 late transfers
    unsigned maxUnits  = H.thorough ? (unsigned)rng.pick({10, 200, 3000}) : (unsigned)rng.pick({10, 100, 800});
    unsigned delayPct  = (unsigned)rng.pick({0, 2, 10, 40});
    unsigned idleDelayPct = (unsigned)rng.pick({0, 0, 5, 30}); // delay before an idle report
    uint64_t pseed        = rng.next();
    bool lockstep         = rng.below(2) == 0;

    // generate the unit forest per phase (a-priori, pure function of the id)
    std::vector<std::vector<Unit>> units(phases);
    std::vector<std::vector<uint32_t>> initial(phases);
    for (unsigned ph = 0; ph < phases; ++ph) {
      auto& U      = units[ph];
      unsigned nInit = shape == 0 ? 0 : (unsigned)rng.pick({1, 1, 2, 5, 20});
      if (shape == 0 && rng.below(2))
        nInit = 0;
      for (unsigned i = 0; i < nInit; ++i) {
        Unit u{0, 0, (uint8_t)rng.below(n), 0};
        if (shape == 1)
          u.target = 0;
        U.push_back(u);
        initial[ph].push_back(i);
      }
      for (uint32_t id = 0; id < U.size(); ++id) {
        unsigned want = 0;
        switch (shape) {
        case 1: want = 1; break;                                   // chain on one thread
        case 2: want = 1; break;                                   // ping-pong between two threads
        case 3: want = rng.below(8) == 0 ? (unsigned)rng.range(5, 30) : 0; break;
        case 4: want = (unsigned)rng.below(3); break;
        case 5: want = rng.below(3) ? 1 : 2; break;
        }
        want              = (unsigned)std::min<size_t>(want, maxUnits > U.size() ? maxUnits - U.size() : 0);
        U[id].childBegin  = (uint32_t)U.size();
        U[id].childCount  = want;
        U[id].delay       = rng.below(100) < delayPct ? (uint8_t)rng.range(1, 2) : 0;
        for (unsigned c = 0; c < want; ++c) {
          Unit ch{0, 0, 0, 0};
          uint8_t pt_ = U[id].target;
          switch (shape) {
          case 1: ch.target = pt_; break;
          case 2: ch.target = (uint8_t)((pt_ + 1) % std::min(n, 2u)); break;
          case 5: ch.target = (uint8_t)((pt_ + n - 1) % n); break; // send "backwards" (behind the token)
          default: ch.target = (uint8_t)rng.below(n); break;
          }
          U.push_back(ch);
        }
      }
    }
    uint64_t totalUnits = 0;
    for (auto& U : units)
      totalUnits += U.size();
    std::string comp = std::string(DET[det]) + "TerminationDetection";
    H.hangKey        = "C04:" + comp + ":hang";
    H.begin(k, J().kv("component", comp).kv("threads", n).kv("phases", phases).kv("shape", shape)
                   .kv("units", totalUnits).kv("pointProb", pointProb).kv("spinProb", spinProb)
                   .kv("delayPct", delayPct).kv("lockstep", lockstep).kv("sockets", nsock).str());
    galois::setActiveThreads(n);
    gs::TerminationDetection* term;
    if (det == 0)
      term = &gs::getSystemTermination(n);
    else if (det == 1) {
      ring.arm(n);
      term = &ring;
    } else {
      tree.arm(n);
      term = &tree;
    }
    gs::Barrier& barrier = galois::runtime::getBarrier(n);
    std::atomic<int64_t> pending{0};
    std::atomic<uint64_t> workEpoch{0};
    std::atomic<uint32_t> livenessViolation{0};
    std::atomic<uint64_t> quietRounds{0}, maxQuietRounds{0};
    std::atomic<unsigned> doneCount{0};
    std::atomic<int> exitFlag{0};
    for (unsigned t = 0; t < 64; ++t) {
      mbox[t].q.clear();
      mbox[t].size.store(0);
      pt[t].calls = pt[t].processed = pt[t].sawTermWithPending = 0;
    }
    unsigned lg = 0;
    while ((1u << lg) < n + 1)
      ++lg;
    const uint64_t BOUND = 4ull * n + 8 + 8ull * lg;
    LSBarrier ls;
    ls.n = n;
    perturb_case(pseed, pointProb, spinProb, 40);

    auto send = [&](unsigned ph, uint32_t id) {
      pending.fetch_add(1, std::memory_order_seq_cst);
      workEpoch.fetch_add(1, std::memory_order_relaxed);
      Mailbox& mb = mbox[units[ph][id].target];
      std::lock_guard<std::mutex> lg(mb.m);
      mb.q.push_back(id);
      mb.size.store((uint32_t)mb.q.size(), std::memory_order_relaxed);
    };

    galois::on_each([&](unsigned tid, unsigned numT) {
      PerT& me_ = pt[tid];
      Rng lr(mix(pseed, tid));
      std::vector<uint32_t> local;
      // one step of the executor's loop body: drain, report; returns true when termination was observed
      auto step = [&](unsigned ph) -> bool {
        bool didWork = false;
        Mailbox& mb  = mbox[tid];
        while (mb.size.load(std::memory_order_relaxed)) {
          {
            std::lock_guard<std::mutex> lg(mb.m);
            local.swap(mb.q);
            mb.size.store(0, std::memory_order_relaxed);
          }
          for (uint32_t id : local) {
            didWork       = true;
            const Unit& u = units[ph][id];
            if (u.delay == 1)
              busy_delay_ns(1000 + (id % 7) * 2000);
            else if (u.delay == 2)
              sleep_us(50 + (id % 5) * 60);
            for (uint32_t c = 0; c < u.childCount; ++c)
              send(ph, u.childBegin + c);
            me_.processed++;
            progress();
            pending.fetch_sub(1, std::memory_order_seq_cst);
          }
          local.clear();
        }
        if (!didWork && lr.below(100) < idleDelayPct)
          busy_delay_ns(500 + lr.below(20000));
        term->localTermination(didWork);
        gs::asmPause();
        me_.calls++;
        if (term->globalTermination()) {
          int64_t p     = pending.load(std::memory_order_seq_cst);
          bool nonEmpty = false;
          for (unsigned j = 0; j < numT; ++j)
            nonEmpty |= mbox[j].size.load(std::memory_order_relaxed) != 0;
          if (p != 0 || nonEmpty) {
            me_.sawTermWithPending++;
            me_.pendingSeen = p;
          }
          return true;
        }
        return false;
      };
      for (unsigned ph = 0; ph < phases; ++ph) {
        // like ForEachExecutor::initThread: push initial work, arm, barrier
        if (tid == 0) {
          for (uint32_t id : initial[ph])
            send(ph, id);
          doneCount.store(0);
          quietRounds.store(0);
        }
        term->initializeThread();
        barrier.wait();
        if (!lockstep) {
          // Free-running mode has no logical step bound: how many calls the other threads make while one thread is
          // descheduled or delayed says nothing (a bound on per-thread call counts was tried and raised false alarms on the
          // unchanged tree under machine load). Liveness is left to the logical hang monitor: idle polling does not count as
          // progress, so a detector that never announces termination ends as "every thread spinning, no progress".
          while (!step(ph)) {
          }
        } else {
          bool done          = false;
          uint64_t lastEpoch = ~0ull;
          while (true) {
            ls.wait();
            if (tid == 0) { // decide quiescence for this round before anybody acts
              uint64_t ep = workEpoch.load(std::memory_order_relaxed);
              if (pending.load(std::memory_order_seq_cst) == 0 && ep == lastEpoch) {
                uint64_t q = quietRounds.load(std::memory_order_relaxed) + 1;
                quietRounds.store(q, std::memory_order_relaxed);
                if (q > maxQuietRounds.load(std::memory_order_relaxed))
                  maxQuietRounds.store(q, std::memory_order_relaxed);
              } else
                quietRounds.store(0, std::memory_order_relaxed);
              lastEpoch = ep;
            }
            if (!done && step(ph)) {
              done = true;
              doneCount.fetch_add(1, std::memory_order_relaxed);
            }
            progress();
            ls.wait();
            // consistent view for everybody after the second barrier
            if (tid == 0) {
              if (doneCount.load(std::memory_order_relaxed) == numT)
                exitFlag.store(1, std::memory_order_relaxed);
              else if (quietRounds.load(std::memory_order_relaxed) > BOUND) {
                livenessViolation.store(1);
                exitFlag.store(2, std::memory_order_relaxed);
              } else
                exitFlag.store(0, std::memory_order_relaxed);
            }
            ls.wait();
            if (exitFlag.load(std::memory_order_relaxed))
              break;
          }
        }
        if (livenessViolation.load())
          break;
        // every thread has observed termination before anybody re-arms (the executor has the same barrier)
        barrier.wait();
      }
    }, galois::no_stats());
    perturb_off();

    uint64_t calls = 0, processed = 0;
    bool bad = false;
    for (unsigned t = 0; t < n; ++t) {
      calls += pt[t].calls;
      processed += pt[t].processed;
      if (pt[t].sawTermWithPending && !bad) {
        bad = true;
        H.violation("C04:" + comp + ":terminated-with-work-pending",
                    J().kv("threads", n).kv("observer", t).kv("pending_units", pt[t].pendingSeen)
                        .kv("shape", shape).kv("lockstep", lockstep).str());
      }
    }
    if (livenessViolation.load()) {
      H.violation("C04:" + comp + ":not-announced-within-bound",
                  J().kv("threads", n).kv("bound_rounds", BOUND).kv("quiet_rounds", quietRounds.load())
                      .kv("threads_that_observed_termination", doneCount.load()).kv("shape", shape).str());
    } else if (processed != totalUnits && !bad) {
      H.violation("C04:" + comp + ":units-unprocessed-at-termination",
                  J().kv("threads", n).kv("processed", processed).kv("units", totalUnits).str());
    }
    uint64_t maxMinIdle = maxQuietRounds.load();
    bool nontrivial = n >= 2 && totalUnits > 0;
    std::string sig = comp + "|n" + std::to_string(n) + "|s" + std::to_string(nsock) + "|sh" + std::to_string(shape) +
                      "|ph" + std::to_string(phases) + "|u" + std::to_string(totalUnits) + "|p" + std::to_string(pointProb) +
                      (lockstep ? "|L" : "|F");
    H.end(k, sig, nontrivial,
          J().kv("games", phases).kv("units_processed", processed).kv("idle_or_busy_reports", calls)
              .kv("lockstep_games", (int)lockstep * phases).kv("max_quiet_rounds_before_termination", maxMinIdle).kv("multi_socket_cases", (int)(nsock > 1 && n > 1)).str());
  }
  return 0;
}
