// C17 part A: concrete types, group 3 (Galois containers, copyable tuples/atomics, serialize trait, tuples, lazy sequences)
#include "c17_ser.h"
namespace c17 {
void registerTypes3(Registry& R) {
  const char* PA = "PODResizeableArray";
  R.add<galois::PODResizeableArray<uint8_t>>(PA);
  R.add<galois::PODResizeableArray<int32_t>>(PA);
  R.add<galois::PODResizeableArray<double>>(PA);
  R.add<galois::PODResizeableArray<uint64_t>>(PA);
  R.add<galois::PODResizeableArray<Pod>>(PA);
  R.add<galois::PODResizeableArray<Rgb>>(PA);
  R.add<galois::PODResizeableArray<galois::Pair<int32_t, double>>>(PA);
  R.addCross<galois::PODResizeableArray<int32_t>, std::vector<int32_t>>(PA);
  R.addCross<std::vector<uint64_t>, galois::PODResizeableArray<uint64_t>>(PA);

  R.add<galois::DynamicBitSet>("DynamicBitSet");

  const char* CT = "CopyableTuple/CopyableAtomic";
  R.add<galois::Pair<int32_t, double>>(CT);
  R.add<galois::Pair<uint8_t, uint16_t>>(CT);
  R.add<galois::Pair<Pod, char>>(CT);
  R.add<galois::TupleOfThree<int32_t, char, double>>(CT);
  R.add<galois::TupleOfThree<uint8_t, uint8_t, uint8_t>>(CT);
  R.add<galois::TupleOfThree<double, Rgb, uint64_t>>(CT);
  R.add<std::vector<galois::Pair<int32_t, double>>>(CT);
  R.add<std::vector<galois::TupleOfThree<int32_t, char, double>>>(CT);
  R.add<std::vector<galois::CopyableAtomic<int32_t>>>(CT);
  R.add<std::vector<galois::CopyableAtomic<uint64_t>>>(CT);
  R.add<std::vector<galois::CopyableAtomic<uint8_t>>>(CT);
  R.add<galois::PODResizeableArray<galois::CopyableAtomic<uint32_t>>>(CT);
  R.add<galois::CopyableArray<int32_t, 4>>(CT);
  R.add<galois::CopyableArray<Rgb, 3>>(CT);
  R.add<std::vector<galois::CopyableArray<uint16_t, 3>>>(CT);
  R.add<galois::gdeque<galois::CopyableAtomic<int32_t>>>(CT);

  R.add<Ser>("serialize trait");
  R.add<std::vector<Ser>>("serialize trait");
  R.add<std::vector<std::vector<Ser>>>("serialize trait");
  R.add<galois::gdeque<Ser, 4>>("serialize trait");
  R.add<std::vector<std::pair<int32_t, Ser>>>("serialize trait");

  const char* TU = "std::tuple(read)";
  R.add<std::tuple<int32_t, double>>(TU);
  R.add<std::tuple<uint8_t, uint64_t, uint16_t>>(TU);
  R.add<std::tuple<std::string, std::vector<int32_t>, char>>(TU);
  R.add<std::tuple<char>>(TU);
  R.add<std::tuple<int32_t, std::tuple<char, double>, uint8_t>>(TU);
  R.add<std::tuple<std::vector<std::string>, Pod, std::pair<int32_t, double>, std::vector<uint64_t>>>(TU);
  R.add<std::tuple<galois::DynamicBitSet, uint32_t, galois::PODResizeableArray<int32_t>>>(TU);
  R.add<std::tuple<uint8_t, std::vector<double>, uint8_t, std::vector<uint32_t>>>(TU);

  R.addLazy<int32_t>("LazySeq");
  R.addLazy<uint8_t>("LazySeq");
  R.addLazy<double>("LazySeq");
  R.addLazy<Pod>("LazySeq");
  R.addLazy<Rgb>("LazySeq");
}
} // namespace c17
