// C18 — cuspPartitionGraph<NoCommunication, NodeData, void> (see c18_part.h)
#include "c18_part.h"
c18::GraphPtr c18::part_nocomm(const std::string& f, const std::string& ft, const c18::PartCall& c) {
  return c18_partition<NoCommunication>(f, ft, c);
}
