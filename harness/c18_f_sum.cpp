// C18 — field f_sum: plain double, GALOIS_SYNC_STRUCTURE_REDUCE_ADD + BITSET (pagerank residual style;
// the harness only adds integers of magnitude < 2^40, so every order of summation is exact)
#include "c18_field.h"

galois::DynamicBitSet bitset_f_sum;
GALOIS_SYNC_STRUCTURE_REDUCE_ADD(f_sum, double);
GALOIS_SYNC_STRUCTURE_BITSET(f_sum);

namespace {
using namespace c18;
void store(Graph& g, uint32_t lid, const uint64_t* w) { g.getData(lid).f_sum = w2d(w[0]); }
void load(Graph& g, uint32_t lid, uint64_t* w) { w[0] = d2w(g.getData(lid).f_sum); }
bool write(Graph& g, uint32_t lid, const uint64_t* w, bool mark) {
  galois::add(g.getData(lid).f_sum, w2d(w[0]));
  if (mark)
    bitset_f_sum.set(lid);
  return true;
}
void sync(Substrate& s, unsigned W, unsigned R, bool b, bool a, const std::string& l) {
  sync_any<Reduce_add_f_sum, Bitset_f_sum, false>(s, W, R, b, a, l);
}
void resetMirrors(Substrate& s) { s.reset_mirrorField<Reduce_add_f_sum>(); }
} // namespace
const c18::FieldVT c18::vt_f_sum = {"f_sum", "GALOIS_SYNC_STRUCTURE_REDUCE_ADD(double)", R_ADD, K_F64, 1, true, false,
                                    store, load, write, &bitset_f_sum, sync, resetMirrors};
