// C09 - allocators hand out disjoint, aligned, sufficiently large live blocks.
// Main TU of the c09_alloc harness: case dispatch over the registered
// components (c09_heaps.cpp, c09_pts.cpp, c09_large.cpp, c09_gstl.cpp,
// c09_iter.cpp) and the mmap/munmap recorder.
#define VERIF_MAIN_TU
#include "c09_common.h"

#include <dlfcn.h>
#include <sys/mman.h>

namespace c09 {

std::vector<Component>& registry() {
  static std::vector<Component> r;
  return r;
}

// ------------------------------------------------------------------ OS mapping recorder
namespace {
constexpr unsigned OS_MAX = 1u << 15;
struct OsEntry {
  std::atomic<uintptr_t> lo{0}, hi{0};
};
OsEntry g_os[OS_MAX];
std::atomic<unsigned> g_osN{0};
std::atomic<uint64_t> g_osSeen{0};
std::atomic_flag g_osLock = ATOMIC_FLAG_INIT;

void osRecord(void* p, size_t len) {
  while (g_osLock.test_and_set(std::memory_order_acquire)) {
  }
  unsigned n = g_osN.load(std::memory_order_relaxed), slot = n;
  for (unsigned i = 0; i < n; ++i)
    if (g_os[i].lo.load(std::memory_order_relaxed) == 0) {
      slot = i;
      break;
    }
  if (slot < OS_MAX) {
    g_os[slot].hi.store((uintptr_t)p + len, std::memory_order_relaxed);
    g_os[slot].lo.store((uintptr_t)p, std::memory_order_release);
    if (slot == n)
      g_osN.store(n + 1, std::memory_order_release);
    g_osSeen.fetch_add(1, std::memory_order_relaxed);
  }
  g_osLock.clear(std::memory_order_release);
}
void osForget(void* p, size_t len) {
  while (g_osLock.test_and_set(std::memory_order_acquire)) {
  }
  unsigned n = g_osN.load(std::memory_order_relaxed);
  for (unsigned i = 0; i < n; ++i)
    if (g_os[i].lo.load(std::memory_order_relaxed) == (uintptr_t)p) {
      uintptr_t hi = g_os[i].hi.load(std::memory_order_relaxed);
      if (hi == (uintptr_t)p + len)
        g_os[i].lo.store(0, std::memory_order_release);
      else if (hi > (uintptr_t)p + len) // front part unmapped
        g_os[i].lo.store((uintptr_t)p + len, std::memory_order_release);
      break;
    }
  g_osLock.clear(std::memory_order_release);
}
} // namespace

bool osFind(const void* p, OsHit* hit) {
  static thread_local unsigned last = 0;
  uintptr_t a = (uintptr_t)p;
  unsigned n  = g_osN.load(std::memory_order_acquire);
  auto test   = [&](unsigned i) {
    uintptr_t lo = g_os[i].lo.load(std::memory_order_acquire);
    if (!lo || a < lo)
      return false;
    uintptr_t hi = g_os[i].hi.load(std::memory_order_relaxed);
    if (a >= hi)
      return false;
    hit->lo = lo;
    hit->hi = hi;
    last    = i;
    return true;
  };
  if (last < n && test(last))
    return true;
  for (unsigned i = 0; i < n; ++i)
    if (test(i))
      return true;
  return false;
}
uint64_t osMappingsSeen() { return g_osSeen.load(std::memory_order_relaxed); }

} // namespace c09

// Interposed in the executable: libgalois (static) binds to these. Only
// anonymous mappings with a length that is a multiple of 2 MB are recorded.
using MmapFn   = void* (*)(void*, size_t, int, int, int, off_t);
using MunmapFn = int (*)(void*, size_t);
static MmapFn realMmap() {
  static MmapFn f = (MmapFn)dlsym(RTLD_NEXT, "mmap");
  return f;
}
extern "C" void* mmap(void* addr, size_t len, int prot, int flags, int fd, off_t off) {
  void* p = realMmap()(addr, len, prot, flags, fd, off);
  if (p != MAP_FAILED && (flags & MAP_ANONYMOUS) && len && (len % c09::PAGE2M) == 0)
    c09::osRecord(p, len);
  return p;
}
extern "C" void* mmap64(void* addr, size_t len, int prot, int flags, int fd, off_t off) {
  return mmap(addr, len, prot, flags, fd, off);
}
extern "C" int munmap(void* addr, size_t len) {
  static MunmapFn f = (MunmapFn)dlsym(RTLD_NEXT, "munmap");
  if (len && (len % c09::PAGE2M) == 0)
    c09::osForget(addr, len);
  return f(addr, len);
}

using namespace c09;

int main(int argc, char** argv) {
  Harness H("C09", argc, argv);
  galois::SharedMemSys G;
  // --param mode=serial|storm|mix   --param comp=<name>[,<name>...] (exact component names)
  std::string mode = H.param("mode", "serial");
  std::string only = H.param("comp", "");
  std::vector<const Component*> pool;
  {
    std::set<std::string> want;
    std::stringstream ss(only);
    std::string tok;
    while (std::getline(ss, tok, ','))
      if (!tok.empty())
        want.insert(tok);
    for (auto& c : registry()) {
      if (want.empty() ? !c.mainRunOnly : want.count(c.name) > 0)
        pool.push_back(&c);
    }
    for (auto& w : want) {
      bool found = false;
      for (auto& c : registry())
        found |= (w == c.name);
      if (!found) {
        fprintf(stderr, "c09_alloc: unknown component '%s'\n", w.c_str());
        return 2;
      }
    }
  }
  if (pool.empty()) {
    fprintf(stderr, "c09_alloc: no component selected\n");
    return 2;
  }
  for (long k = H.firstCase(); k < H.endCase(); ++k) {
    Rng rng(H.caseSeed(k));
    bool storm = mode == "storm" || (mode == "mix" && rng.below(3) == 0);
    uint64_t total = 0;
    for (auto* c : pool)
      total += storm ? c->weightStorm : c->weightSerial;
    if (!total) {
      fprintf(stderr, "c09_alloc: selected components have no %s mode\n", storm ? "storm" : "serial");
      return 2;
    }
    uint64_t x          = rng.below(total);
    const Component* cc = nullptr;
    for (auto* c : pool) {
      uint64_t w = storm ? c->weightStorm : c->weightSerial;
      if (x < w) {
        cc = c;
        break;
      }
      x -= w;
    }
    H.hangKey    = std::string("C09:") + cc->name + ":hang";
    CaseResult r = cc->fn(H, k, rng, storm);
    H.end(k, r.sig, r.nontrivial, r.obs);
    galois::setActiveThreads(1);
  }
  return 0;
}
