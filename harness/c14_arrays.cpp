// C14 — PODResizeableArray (vs std::vector), LazyArray / LazyObject / optional
// (vs arrays of std::optional), LargeArray (vs std::vector), CopyableTuple.
#include "c14_common.h"

#include "galois/CopyableTuple.h"
#include "galois/LargeArray.h"
#include "galois/LazyArray.h"
#include "galois/LazyObject.h"
#include "galois/PODResizeableArray.h"
#include "galois/optional.h"

#include <cstddef>
#include <cstring>
#include <memory>
#include <optional>
#include <stdexcept>
#include <tuple>

namespace c14 {
namespace {

// ------------------------------------------------------------------ PODResizeableArray
template <typename T>
T mk(int v) {
  return T(v);
}

template <typename A>
void checkPod(Case& c, A& a, const std::vector<int>& m) {
  const A& ca = a;
  c.eq("size", a.size(), m.size());
  c.eq("empty", a.empty(), m.empty());
  if (c.bad)
    return;
  c.eq("iterator-distance", (long)(a.end() - a.begin()), (long)m.size());
  if (!m.empty()) {
    c.eq("front", val(a.front()), m.front());
    c.eq("back", val(a.back()), m.back());
    c.eq("const-front", val(ca.front()), m.front());
    c.eq("const-back", val(ca.back()), m.back());
    c.eq("data-is-first-element", a.data() == &a[0], true);
    size_t i = c.rng.below(m.size());
    c.eq("subscript", val(a[i]), m[i]);
    c.eq("const-subscript", val(ca[i]), m[i]);
    c.eq("at", val(a.at(i)), m[i]);
  }
  std::vector<int> bwd = toRevVec(m);
  checkSeq(c, "forward-traversal", a.begin(), a.end(), m);
  checkSeq(c, "backward-traversal", a.rbegin(), a.rend(), bwd);
  checkSeq(c, "const-forward-traversal", ca.begin(), ca.end(), m);
  checkSeq(c, "const-backward-traversal", ca.rbegin(), ca.rend(), bwd);
  checkSeq(c, "cbegin-traversal", ca.cbegin(), ca.cend(), m);
  checkSeq(c, "crbegin-traversal", ca.crbegin(), ca.crend(), bwd);
  c.sawSize(m.size(), 0);
}

template <typename T>
void podT(Case& c, unsigned nops) {
  typedef galois::PODResizeableArray<T> A;
  Rng& rng = c.rng;
  std::vector<int> m;
  // source ranges of 0..~200 elements (across several capacity doublings)
  auto other = [&](std::vector<int>& om) {
    unsigned n = (unsigned)rng.below(rng.pick({3u, 10u, 40u, 200u}));
    std::vector<T> v;
    for (unsigned i = 0; i < n; ++i) {
      int x = c.nextVal();
      v.push_back(mk<T>(x));
      om.push_back(x);
    }
    return v;
  };
  std::unique_ptr<A> ap;
  switch (rng.below(4)) {
  case 0: {
    std::vector<T> src = other(m);
    c.op("range-construct", (long)src.size());
    ap.reset(new A(src.begin(), src.end()));
    break;
  }
  case 1: {
    unsigned n = (unsigned)rng.below(rng.pick({10u, 130u}));
    c.op("size-construct", n);
    ap.reset(new A((size_t)n));
    c.eq("size", ap->size(), (size_t)n);
    for (unsigned i = 0; i < n && !c.bad; ++i) { // elements are uninitialised by contract: give them values
      int x    = c.nextVal();
      (*ap)[i] = mk<T>(x);
      m.push_back(x);
    }
    break;
  }
  default: ap.reset(new A()); break;
  }
  checkPod(c, *ap, m);
  unsigned grow = 65;
  for (unsigned step = 0; step < nops && !c.bad; ++step) {
    A& a = *ap;
    if (rng.below(12) == 0)
      grow = (unsigned)rng.pick({30, 55, 65, 90});
    unsigned x = (unsigned)rng.below(100);
    if (x < 40) {
      if (!m.empty() && rng.below(5) == 0) {
        size_t i = rng.below(m.size());
        c.op("push_back-own-element", (long)i);
        c.checking("pushed-value");
        a.push_back(a[i]); // std::vector::push_back(v[i]) is well defined
        m.push_back(m[i]);
        c.eq("pushed-value", val(a[m.size() - 1]), m.back());
      } else {
        int v = c.nextVal();
        c.op("push_back", v);
        a.push_back(mk<T>(v));
        m.push_back(v);
      }
    } else if (x < 52) {
      size_t n = rng.below(100) < grow ? m.size() + rng.below(rng.below(6) ? 9 : 150) : rng.below(m.size() + 1);
      c.op("resize", (long)n);
      size_t old = m.size();
      a.resize(n);
      c.eq("size", a.size(), n);
      m.resize(n);
      for (size_t i = old; i < n && !c.bad; ++i) { // new elements are uninitialised by contract
        int v = c.nextVal();
        a[i]  = mk<T>(v);
        m[i]  = v;
      }
    } else if (x < 58) {
      size_t n = rng.below(3 * m.size() + 8);
      c.op("reserve", (long)n);
      a.reserve(n);
    } else if (x < 61) {
      c.op("clear");
      a.clear();
      m.clear();
    } else if (x < 68 && !m.empty()) {
      size_t i = rng.below(m.size());
      int v    = c.nextVal();
      c.op("subscript-assign", (long)i, v);
      a[i] = mk<T>(v);
      m[i] = v;
    } else if (x < 74) {
      size_t i = rng.below(m.size() + 3);
      bool cv  = rng.below(2);
      c.op(cv ? "const-at" : "at", (long)i);
      bool threw = false;
      int got    = 0;
      try {
        got = cv ? val(const_cast<const A&>(a).at(i)) : val(a.at(i));
      } catch (const std::out_of_range&) {
        threw = true;
      }
      c.eq("result-throws-out_of_range", threw, i >= m.size());
      if (!c.bad && i < m.size())
        c.eq("result-value", got, m[i]);
    } else if (x < 80) {
      std::vector<int> om;
      std::vector<T> src = other(om);
      c.op("assign", (long)src.size());
      a.assign(src.data(), src.data() + src.size());
      m = om;
    } else if (x < 88) {
      std::vector<int> om;
      std::vector<T> src = other(om);
      c.op("insert-at-end", (long)src.size());
      a.insert(a.end(), src.begin(), src.end());
      m.insert(m.end(), om.begin(), om.end());
    } else {
      std::vector<int> om;
      std::vector<T> src = other(om);
      std::unique_ptr<A> np(new A(src.begin(), src.end()));
      switch (rng.below(3)) {
      case 0:
        c.op("swap", (long)om.size());
        np->swap(a);
        checkPod(c, a, om);
        break;
      case 1:
        c.op("move-assign", (long)om.size());
        *np = std::move(a);
        break;
      default:
        c.op("move-construct");
        np.reset(new A(std::move(a)));
        break;
      }
      if (!c.bad)
        ap = std::move(np);
    }
    checkPod(c, *ap, m);
  }
}

// ------------------------------------------------------------------ LazyArray
template <typename T, unsigned N>
void lazyArrayT(Case& c, unsigned nops) {
  typedef galois::LazyArray<T, N> A;
  constexpr bool tracked = ElemName<T>::tracked;
  Rng& rng               = c.rng;
  std::vector<std::optional<int>> m(N);
  A a; // no element is constructed (or destroyed) by the array itself
  const A& ca = a;
  auto check = [&]() {
    size_t n = 0;
    for (auto& o : m)
      n += o.has_value();
    c.eq("size", a.size(), (size_t)N);
    c.eq("max_size", a.max_size(), (size_t)N);
    c.eq("empty", a.empty(), N == 0);
    c.eq("iterator-distance", (long)(a.end() - a.begin()), (long)N);
    c.eq("const-iterator-distance", (long)(ca.cend() - ca.cbegin()), (long)N);
    if (c.bad)
      return;
    ++c.checks;
    // positions by address (slots may be unconstructed), values of constructed slots
    auto it = a.begin();
    auto ci = ca.begin();
    auto ri = a.rbegin();
    auto cri = ca.crbegin();
    for (unsigned i = 0; i < N && !c.bad; ++i, ++it, ++ci, ++ri, ++cri) {
      c.eq("forward-iterator-address", &*it == &a[i], true);
      c.eq("const-iterator-address", &*ci == &ca[i], true);
      c.eq("reverse-iterator-address", &*ri == &a[N - 1 - i], true);
      c.eq("const-reverse-iterator-address", &*cri == &ca[N - 1 - i], true);
      if (m[i]) {
        c.eq("subscript", val(a[i]), *m[i]);
        c.eq("const-subscript", val(ca[i]), *m[i]);
        c.eq("iterator-value", val(*it), *m[i]);
        ++c.visited;
      }
    }
    if (N > 0 && !c.bad) {
      c.eq("data-is-first-slot", a.data() == &a[0], true);
      c.eq("front-is-first-slot", &a.front() == &a[0], true);
      c.eq("back-is-last-slot", &a.back() == &a[N - 1], true);
      c.eq("const-front-is-first-slot", &ca.front() == &ca[0], true);
      c.eq("const-back-is-last-slot", &ca.back() == &ca[N - 1], true);
    }
    c.eq("rend-reached", a.rend().base() == a.begin(), true);
    c.lifetimesOk(tracked ? (long)n : -1);
    c.sawSize(n, 0);
  };
  check();
  for (unsigned step = 0; step < nops && !c.bad && N > 0; ++step) {
    unsigned i = (unsigned)rng.below(N);
    if (!m[i]) {
      int v = c.nextVal();
      T* p;
      switch (rng.below(3)) {
      case 0:
        c.op("emplace", i, v);
        p = a.emplace(i, v);
        break;
      case 1: {
        T tmp(v);
        c.op("construct-copy", i, v);
        p = a.construct(i, tmp);
        break;
      }
      default:
        c.op("construct-move", i, v);
        p = a.construct(i, T(v));
        break;
      }
      m[i] = v;
      c.eq("result-address", p == &a[i], true);
    } else if (rng.below(2)) {
      c.op("destroy", i);
      a.destroy(i);
      m[i].reset();
    } else {
      int v = c.nextVal();
      c.op("subscript-assign", i, v);
      a[i] = T(v);
      m[i] = v;
    }
    check();
  }
  // the user owns the element lifetimes
  for (unsigned i = 0; i < N; ++i)
    if (m[i]) {
      a.destroy(i);
      m[i].reset();
    }
  c.phase("final-destroy");
  c.lifetimesOk(tracked ? 0 : -1);
}

template <typename T>
void lazyArrayN(Case& c, unsigned n, unsigned nops) {
  switch (n) {
  case 0: return lazyArrayT<T, 0>(c, nops);
  case 1: return lazyArrayT<T, 1>(c, nops);
  case 2: return lazyArrayT<T, 2>(c, nops);
  case 3: return lazyArrayT<T, 3>(c, nops);
  case 4: return lazyArrayT<T, 4>(c, nops);
  default: return lazyArrayT<T, 64>(c, nops);
  }
}

// ------------------------------------------------------------------ LazyObject
template <typename T>
void lazyObjectT(Case& c, unsigned nops) {
  constexpr bool tracked = ElemName<T>::tracked;
  Rng& rng               = c.rng;
  galois::LazyObject<T> o;
  const galois::LazyObject<T>& co = o;
  std::optional<int> m;
  static_assert(galois::LazyObject<T>::has_value, "");
  static_assert(galois::LazyObject<T>::size_of::value == sizeof(T), "");
  static_assert(sizeof(galois::LazyObject<T>) == sizeof(T), "no space overhead");
  for (unsigned step = 0; step < nops && !c.bad; ++step) {
    if (!m) {
      int v = c.nextVal();
      if (rng.below(2)) {
        T tmp(v);
        c.op("construct-copy", v);
        o.construct(tmp);
      } else {
        c.op("construct-args", v);
        o.construct(v);
      }
      m = v;
    } else if (rng.below(3) == 0) {
      c.op("destroy");
      o.destroy();
      m.reset();
    } else {
      int v = c.nextVal();
      c.op("assign-through-get", v);
      o.get() = T(v);
      m       = v;
    }
    if (m) {
      c.eq("get", val(o.get()), *m);
      c.eq("const-get", val(co.get()), *m);
      c.eq("get-address", (const void*)&o.get() == (const void*)&o, true);
    }
    c.lifetimesOk(tracked ? (long)m.has_value() : -1);
    c.sawSize(m.has_value() ? 2 : 1, 0);
  }
  if (m)
    o.destroy();
  c.phase("final-destroy");
  c.lifetimesOk(tracked ? 0 : -1);
  // void specialisation and StrictObject
  galois::LazyObject<void> lv;
  lv.construct(nullptr);
  c.eq("void-get", lv.get() == nullptr, true);
  lv.destroy();
  static_assert(!galois::LazyObject<void>::has_value && galois::LazyObject<void>::size_of::value == 0, "");
  galois::StrictObject<int> so(41);
  so.get() += 1;
  c.eq("StrictObject-get", so.get(), 42);
  galois::StrictObject<void> sv;
  c.eq("StrictObject-void-get", sv.get() == nullptr, true);
}

// ------------------------------------------------------------------ optional
template <typename T>
void optionalT(Case& c, unsigned nops) {
  typedef galois::optional<T> O;
  constexpr bool tracked = ElemName<T>::tracked;
  Rng& rng               = c.rng;
  std::optional<int> m;
  {
    std::unique_ptr<O> op;
    if (rng.below(2)) {
      int v = c.nextVal();
      T tmp(v);
      c.op("value-construct", v);
      op.reset(new O(tmp));
      m = v;
    } else
      op.reset(new O());
    auto check = [&](O& o, const std::optional<int>& mm, long live) {
      const O& co = o;
      c.eq("is_initialized", o.is_initialized(), mm.has_value());
      c.eq("bool-conversion", (bool)co, mm.has_value());
      if (mm && !c.bad) {
        c.eq("get", val(o.get()), *mm);
        c.eq("const-get", val(co.get()), *mm);
        c.eq("dereference", val(*o), *mm);
        c.eq("const-dereference", val(*co), *mm);
        c.eq("arrow", o.operator->()->get(), *mm);
        c.eq("const-arrow", co.operator->()->get(), *mm);
      }
      c.lifetimesOk(tracked ? live : -1);
    };
    check(*op, m, m.has_value());
    for (unsigned step = 0; step < nops && !c.bad; ++step) {
      O& o = *op;
      // right-hand sides
      std::optional<int> rm;
      if (rng.below(3))
        rm = c.nextVal();
      switch (rng.below(7)) {
      case 0: {
        int v = c.nextVal();
        T tmp(v);
        c.op("assign-value", v);
        o = tmp;
        m = v;
        break;
      }
      case 1: {
        int v = c.nextVal();
        T tmp(v);
        c.op("assign()-value", v);
        o.assign(tmp);
        m = v;
        break;
      }
      case 2: {
        O rhs;
        if (rm)
          rhs = T(*rm);
        c.op(rm ? "assign-engaged-optional" : "assign-empty-optional");
        if (rng.below(2))
          o = rhs;
        else
          o.assign(rhs);
        m = rm;
        check(rhs, rm, (long)rm.has_value() + (long)m.has_value());
        break;
      }
      case 3: {
        c.op("copy-construct");
        O cp(o);
        check(cp, m, 2 * (long)m.has_value());
        // the copy is independent
        if (m && !c.bad) {
          *cp = T(-5);
          c.eq("copy-independent", val(*o), *m);
        }
        break;
      }
      case 4: {
        c.op("copy-construct-and-replace");
        std::unique_ptr<O> np(new O(o));
        op = std::move(np);
        break;
      }
      case 5:
        if (m) {
          int v = c.nextVal();
          c.op("assign-through-dereference", v);
          *o = T(v);
          m  = v;
          break;
        }
        // fallthrough
      default:
        c.op("reset-by-assigning-empty");
        o = O();
        m.reset();
        break;
      }
      check(*op, m, m.has_value());
      c.sawSize(m.has_value() ? 2 : 1, 0);
    }
    c.phase("destructor");
  }
  c.lifetimesOk(tracked ? 0 : -1);
}

// ------------------------------------------------------------------ LargeArray
template <typename T>
void largeArrayT(Case& c, unsigned n, unsigned nops) {
  typedef galois::LargeArray<T> A;
  constexpr bool tracked = ElemName<T>::tracked;
  Rng& rng               = c.rng;
  std::vector<int> m;
  auto allocate = [&](A& a, size_t k) {
    switch (rng.below(4)) {
    case 0:
      c.op("allocateInterleaved", (long)k);
      a.allocateInterleaved(k);
      break;
    case 1:
      c.op("allocateBlocked", (long)k);
      a.allocateBlocked(k);
      break;
    case 2:
      c.op("allocateLocal", (long)k);
      a.allocateLocal(k);
      break;
    default:
      c.op("allocateFloating", (long)k);
      a.allocateFloating(k);
      break;
    }
  };
  // every element is constructed before anything else touches the array
  auto build = [&](A& a, size_t k, std::vector<int>& mm) {
    mm.clear();
    switch (rng.below(3)) {
    case 0: {
      int v = c.nextVal();
      c.op("create", (long)k, v);
      a.create(k, v);
      mm.assign(k, v);
      break;
    }
    case 1: {
      allocate(a, k);
      int v = c.nextVal();
      c.op("construct-all", v);
      a.construct(v);
      mm.assign(k, v);
      break;
    }
    default:
      allocate(a, k);
      c.op("constructAt-each", (long)k);
      for (size_t i = 0; i < k; ++i) {
        int v = c.nextVal();
        a.constructAt(i, v);
        mm.push_back(v);
      }
      break;
    }
  };
  auto check = [&](A& a, const std::vector<int>& mm, long live) {
    const A& ca = a;
    c.eq("size", a.size(), mm.size());
    if (c.bad)
      return;
    c.eq("data-is-begin", a.data() == a.begin(), true);
    c.eq("const-data-is-begin", ca.data() == ca.begin(), true);
    c.eq("iterator-distance", (long)(a.end() - a.begin()), (long)mm.size());
    checkSeq(c, "forward-traversal", a.begin(), a.end(), mm);
    checkSeq(c, "const-forward-traversal", ca.begin(), ca.end(), mm);
    if (!mm.empty() && !c.bad) {
      size_t i = rng.below(mm.size());
      c.eq("subscript", val(a[i]), mm[i]);
      c.eq("const-subscript", val(ca[i]), mm[i]);
      c.eq("at", val(a.at((ptrdiff_t)i)), mm[i]);
      c.eq("const-at", val(ca.at((ptrdiff_t)i)), mm[i]);
    }
    c.lifetimesOk(tracked ? live : -1);
    c.sawSize(mm.size(), 0);
  };
  {
    std::unique_ptr<A> ap(new A());
    check(*ap, m, 0);
    build(*ap, n, m);
    check(*ap, m, (long)m.size());
    for (unsigned step = 0; step < nops && !c.bad; ++step) {
      A& a       = *ap;
      unsigned x = (unsigned)rng.below(100);
      if (x < 30 && !m.empty()) {
        size_t i = rng.below(m.size());
        int v    = c.nextVal();
        if (rng.below(2)) {
          c.op("set", (long)i, v);
          a.set((ptrdiff_t)i, T(v));
        } else {
          c.op("subscript-assign", (long)i, v);
          a[i] = T(v);
        }
        m[i] = v;
      } else if (x < 60 && !m.empty()) {
        size_t i = rng.below(m.size());
        int v    = c.nextVal();
        c.op("destroyAt-constructAt", (long)i, v);
        a.destroyAt(i);
        if (tracked && !c.bad && g_reg.isLive(&a[i]))
          c.fail("destroyAt-left-element-alive");
        a.constructAt(i, v);
        m[i] = v;
      } else if (x < 70) {
        int v = c.nextVal();
        c.op("destroy-construct-all", v);
        a.destroy();
        c.lifetimesOk(tracked ? 0 : -1);
        a.construct(v);
        m.assign(m.size(), v);
      } else if (x < 80) {
        size_t k = rng.below(2) ? 1 + rng.below(40) : 1 + rng.below(400);
        c.op("destroy-deallocate");
        a.destroy();
        a.deallocate();
        m.clear();
        check(a, m, 0);
        if (!c.bad)
          build(a, k, m);
      } else {
        std::vector<int> om;
        std::unique_ptr<A> np(new A());
        if (rng.below(2))
          build(*np, 1 + rng.below(20), om);
        switch (rng.below(3)) {
        case 0:
          c.op("swap", (long)om.size());
          swap(*np, a);
          check(a, om, (long)(m.size() + om.size()));
          break;
        case 1:
          c.op("move-assign", (long)om.size());
          *np = std::move(a);
          break;
        default:
          np.reset(); // its elements are destroyed by ~LargeArray
          c.op("move-construct");
          np.reset(new A(std::move(a)));
          break;
        }
        if (!c.bad)
          ap = std::move(np); // ~LargeArray destroys and deallocates what the old object holds
      }
      check(*ap, m, (long)m.size());
    }
    c.phase("destructor");
  }
  c.lifetimesOk(tracked ? 0 : -1);
}

} // namespace

void run_PODResizeableArray(Case& c) {
  bool isInt    = c.rng.below(3) == 0;
  unsigned nops = c.pickOps();
  std::string cfg = std::string(isInt ? "int" : "pod");
  if (!c.begin("PODResizeableArray", cfg, J().kv("elem", isInt ? "int" : "pod").kv("nops", nops)))
    return;
  if (isInt)
    podT<int>(c, nops);
  else
    podT<Pod>(c, nops);
}

void run_LazyArray(Case& c) {
  unsigned n    = c.rng.pick({0u, 1u, 2u, 3u, 4u, 4u, 64u});
  bool tracked  = c.rng.below(3) != 0;
  unsigned nops = c.pickOps();
  std::string cfg = "n" + std::to_string(n) + (tracked ? "|tracked" : "|pod");
  if (!c.begin("LazyArray", cfg, J().kv("size", n).kv("elem", tracked ? "tracked" : "pod").kv("nops", nops)))
    return;
  if (tracked)
    lazyArrayN<Tracked>(c, n, nops);
  else
    lazyArrayN<Pod>(c, n, nops);
}

void run_LazyObject(Case& c) {
  bool tracked  = c.rng.below(3) != 0;
  unsigned nops = c.pickOps();
  if (!c.begin("LazyObject", tracked ? "tracked" : "pod", J().kv("elem", tracked ? "tracked" : "pod").kv("nops", nops)))
    return;
  if (tracked)
    lazyObjectT<Tracked>(c, nops);
  else
    lazyObjectT<Pod>(c, nops);
}

void run_optional(Case& c) {
  bool tracked  = c.rng.below(3) != 0;
  unsigned nops = c.pickOps();
  if (!c.begin("optional", tracked ? "tracked" : "pod", J().kv("elem", tracked ? "tracked" : "pod").kv("nops", nops)))
    return;
  if (tracked)
    optionalT<Tracked>(c, nops);
  else
    optionalT<Pod>(c, nops);
}

void run_LargeArray(Case& c) {
  bool tracked  = c.rng.below(3) != 0;
  unsigned n    = 1 + (unsigned)c.rng.below(c.rng.below(2) ? 12 : 300);
  unsigned nops = std::min(c.pickOps(), 40u);
  std::string cfg = std::string(tracked ? "tracked" : "pod");
  if (!c.begin("LargeArray", cfg, J().kv("elem", tracked ? "tracked" : "pod").kv("initial_size", n).kv("nops", nops)))
    return;
  if (tracked)
    largeArrayT<Tracked>(c, n, nops);
  else
    largeArrayT<Pod>(c, n, nops);
}

void run_CopyableTuple(Case& c) {
  unsigned nops = c.pickOps();
  if (!c.begin("CopyableTuple", "pair+triple", J().kv("nops", nops)))
    return;
  typedef galois::Pair<int, long> P;
  typedef galois::TupleOfThree<short, int, long> T3;
  static_assert(std::is_trivially_copyable<P>::value && std::is_trivially_copyable<T3>::value,
                "copyable tuples are trivially copyable");
  static_assert(std::is_standard_layout<P>::value && std::is_standard_layout<T3>::value, "contiguous members");
  for (unsigned step = 0; step < nops && !c.bad; ++step) {
    int a  = c.nextVal();
    long b = (long)c.rng.next();
    short s = (short)c.rng.next();
    c.op(step & 1 ? "pair" : "triple", a);
    std::pair<int, long> mp(a, b);
    P p(a, b);
    c.eq("pair-first", p.first, mp.first);
    c.eq("pair-second", p.second, mp.second);
    P q;
    q = p; // copy-assign
    P r(q);
    unsigned char buf[sizeof(P)];
    memcpy(buf, &r, sizeof r);
    P back;
    memcpy(&back, buf, sizeof back);
    c.eq("pair-bytewise-copy-first", back.first, a);
    c.eq("pair-bytewise-copy-second", back.second, b);
    c.eq("pair-layout", offsetof(P, first) == 0 && offsetof(P, second) == sizeof(long) && sizeof(P) == 2 * sizeof(long),
         true);
    std::tuple<short, int, long> mt(s, a, b);
    T3 t(s, a, b);
    T3 u(t);
    T3 w;
    w = u;
    c.eq("triple-first", w.first, std::get<0>(mt));
    c.eq("triple-second", w.second, std::get<1>(mt));
    c.eq("triple-third", w.third, std::get<2>(mt));
    c.eq("triple-layout", offsetof(T3, first) == 0 && offsetof(T3, second) == 4 && offsetof(T3, third) == 8, true);
    c.sawSize(3, 0);
    c.kinds.insert("copy");
  }
}

} // namespace c14
