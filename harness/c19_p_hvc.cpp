// C19 — instantiation of cuspPartitionGraph<GenericHVC, char, void|uint32_t> (see c19_extract.h)
#include "c19_extract.h"
void c19::run_hvc(const CaseArgs& a, std::vector<uint64_t>& out) { runCusp<GenericHVC>(a, out); }
