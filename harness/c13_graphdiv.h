// C13 — declarations shared by the two TUs of the c13_graphdiv harness.
#pragma once
#include "c13_common.h"

namespace c13 {

// secondary check of a division already counted (e.g. the edge ranges that
// come with node ranges): only reports, does not count a division
inline void secondaryCheck(Acc& A, Tiling& t, const std::string& cls, const std::function<std::string()>& witness) {
  c13ref::Kind k = t.finish();
  A.extra["secondary_range_checks"]++;
  if (k != c13ref::HELD)
    A.violation(c13ref::kind_name(k), cls, J().kv("what", t.describe()).raw("input", witness()).str());
}

struct Weights {
  size_t node, edge;
};
static const Weights EXH_WEIGHTS[5] = {{0, 1}, {1, 0}, {1, 1}, {2, 3}, {5, 1}};

inline std::string degJson(const std::vector<uint64_t>& deg) { return jarr(deg, 48); }

// class string of a unit-range division (part of the violation key)
inline std::string unitClass(bool sub, uint64_t units, uint64_t elems, uint64_t begin) {
  std::string c = sub ? "sub" : "whole";
  if (units > elems && elems > 0)
    c += ",units>nodes";
  if (sub && begin > 0)
    c += ",begin>0";
  return c;
}
// judge an offset vector r[0..units] against the range [lo,hi) (c13_graphdiv.cpp)
void judgeUnitVector(Acc& A, const std::vector<uint32_t>& r, uint32_t units, uint64_t lo, uint64_t hi, bool exhaustive,
                     const std::string& cls, const std::function<std::string()>& wit);

inline void pickWeights(Rng& rng, uint64_t n, uint64_t m, size_t& nw, size_t& ew) {
  switch (rng.below(6)) {
  case 0: nw = 0; ew = 1; break;
  case 1: nw = 1; ew = 0; break;
  case 2: nw = 1; ew = 1; break;
  case 3: nw = 8 + rng.below(120); ew = 4 + rng.below(16); break; // sizeof-like (constructFrom call sites)
  case 4: nw = (size_t)logUniform(rng, 1 << 20); ew = (size_t)logUniform(rng, 1 << 20); break;
  default: nw = rng.below(4); ew = rng.below(4); break;
  }
  if (nw == 0 && ew == 0)
    ew = 1;
  // keep the total weight far from 2^64 (unsigned wrap-around is outside the domain)
  unsigned __int128 wgt = (unsigned __int128)n * nw + ((unsigned __int128)m + 1) * ew;
  if (wgt >> 62) {
    nw = nw ? 1 : 0;
    ew = 1;
  }
}

inline std::vector<size_t> pickTotals(Rng& rng, uint64_t n, unsigned cnt, size_t cap) {
  std::vector<size_t> t = {1};
  for (unsigned i = 0; i < cnt; ++i) {
    size_t v;
    switch (rng.below(5)) {
    case 0: v = (size_t)std::min<uint64_t>(n + 1 + rng.below(20), cap); break; // more parts than nodes
    case 1: v = (size_t)std::max<uint64_t>(1, std::min<uint64_t>(n, cap)); break;
    case 2: v = 2 + (size_t)rng.below(15); break;
    default: v = 1 + (size_t)rng.below(cap); break;
    }
    t.push_back(std::max<size_t>(1, std::min(v, cap)));
  }
  return t;
}

// graph-object based components (c13_graphobj.cpp)
struct GraphObjCtx {
  Harness& H;
  unsigned maxT;
  std::string tmpdir;
  unsigned scale;
};
// kinds: see c13_graphobj.cpp
void runUnitRangesFromGraph(Acc& A, Rng& rng, GraphObjCtx& C, int graphKind, bool sub, bool exhaustive, int slice);
void runFileGraph(Acc& A, Rng& rng, GraphObjCtx& C, int source /*0 mem 1 file 2 part*/, bool byEdge, bool exhaustive,
                  int slice);
void runOfflineGraph(Acc& A, Rng& rng, GraphObjCtx& C, int version, bool scaleFactor, bool exhaustive, int slice);
void runCsrThreadRanges(Acc& A, Rng& rng, GraphObjCtx& C, int graphKind);
const char* graphKindName(int k);

} // namespace c13
