// C14 — galois::gdeque vs std::deque.
#include "c14_common.h"

#include "galois/gdeque.h"

#include <deque>
#include <memory>

namespace c14 {
namespace {

template <typename D>
void checkAll(Case& c, D& d, const std::deque<int>& m, unsigned CS, bool tracked) {
  if (!c.regOk())
    return;
  const D& cd = d;
  c.eq("size", d.size(), m.size());
  c.eq("empty", d.empty(), m.empty());
  if (c.bad)
    return;
  if (!m.empty()) {
    c.eq("front", val(d.front()), m.front());
    c.eq("back", val(d.back()), m.back());
    c.eq("const-front", val(cd.front()), m.front());
    c.eq("const-back", val(cd.back()), m.back());
  }
  std::vector<int> fwd = toVec(m), bwd = toRevVec(m);
  checkSeq(c, "forward-traversal", d.begin(), d.end(), fwd);
  checkSeq(c, "backward-traversal", d.rbegin(), d.rend(), bwd);
  checkSeq(c, "const-forward-traversal", cd.begin(), cd.end(), fwd);
  checkSeq(c, "const-backward-traversal", cd.rbegin(), cd.rend(), bwd);
  c.lifetimesOk(tracked ? (long)m.size() : -1);
  c.sawSize(m.size(), CS);
}

template <typename T, unsigned CS>
void runT(Case& c, bool mid, unsigned nops) {
  typedef galois::gdeque<T, CS> D;
  constexpr bool tracked = ElemName<T>::tracked;
  Rng& rng               = c.rng;
  std::deque<int> m;
  {
    std::unique_ptr<D> dp(new D());
    checkAll(c, *dp, m, CS, tracked);
    // a phase biases towards growth or shrinkage so that block chains build up and drain
    unsigned grow = 60;
    for (unsigned step = 0; step < nops && !c.bad; ++step) {
      D& d = *dp;
      if (rng.below(16) == 0)
        grow = (unsigned)rng.pick({20, 50, 60, 80});
      unsigned r = (unsigned)rng.below(100);
      if (r < 4) {
        if (rng.below(2)) {
          c.op("clear");
          d.clear();
          m.clear();
        } else if (rng.below(2)) {
          c.op("move-construct");
          std::unique_ptr<D> np(new D(std::move(d)));
          dp = std::move(np); // destroys the moved-from deque
        } else {
          unsigned pre = (unsigned)rng.below(2 * CS + 2);
          c.op("move-assign", pre);
          std::unique_ptr<D> np(new D());
          for (unsigned i = 0; i < pre; ++i)
            np->push_back(T(c.nextVal()));
          *np = std::move(d);
          dp  = std::move(np); // destroys the assigned-from deque (state unspecified, must be destructible)
        }
      } else if (r < 4 + 8 && !m.empty()) {
        size_t idx = rng.below(m.size());
        int v      = c.nextVal();
        c.op("assign-through-iterator", (long)idx, v);
        auto it = d.begin();
        std::advance(it, idx);
        *it    = T(v);
        m[idx] = v;
      } else if (r < 12 + grow * 88 / 100 || m.empty()) {
        int v = c.nextVal();
        switch (rng.below(mid ? 8 : 6)) {
        case 0:
          c.op("push_back", v);
          d.push_back(T(v));
          m.push_back(v);
          break;
        case 1:
          c.op("emplace_back", v);
          d.emplace_back(v);
          m.push_back(v);
          break;
        case 2:
          c.op("push_front", v);
          d.push_front(T(v));
          m.push_front(v);
          break;
        case 3:
          c.op("emplace_front", v);
          d.emplace_front(v);
          m.push_front(v);
          break;
        case 4: {
          c.op("emplace-at-begin", v);
          auto it = d.emplace(d.begin(), v);
          m.push_front(v);
          c.eq("result-value", val(*it), v);
          if (!c.bad)
            c.eq("result-position", (long)std::distance(d.begin(), it), 0L);
          break;
        }
        case 5: {
          c.op("emplace-at-end", v);
          auto it = d.emplace(d.end(), v);
          m.push_back(v);
          c.eq("result-value", val(*it), v);
          if (!c.bad)
            c.eq("result-position", (long)std::distance(d.begin(), it), (long)m.size() - 1);
          break;
        }
        default: {
          if (m.size() < 2) {
            c.op("push_back", v);
            d.push_back(T(v));
            m.push_back(v);
            break;
          }
          size_t idx = 1 + rng.below(m.size() - 1);
          c.op("emplace-in-middle", (long)idx, v);
          auto pos = d.begin();
          std::advance(pos, idx);
          auto it = d.emplace(pos, v);
          m.insert(m.begin() + idx, v);
          c.eq("result-value", val(*it), v);
          if (!c.bad)
            c.eq("result-position", (long)std::distance(d.begin(), it), (long)idx);
          break;
        }
        }
      } else {
        if (rng.below(2)) {
          c.op("pop_back");
          d.pop_back();
          m.pop_back();
        } else {
          c.op("pop_front");
          d.pop_front();
          m.pop_front();
        }
      }
      checkAll(c, *dp, m, CS, tracked);
    }
    c.phase("destructor");
  }
  c.lifetimesOk(tracked ? 0 : -1);
}

template <typename T>
void runCS(Case& c, unsigned cs, bool mid, unsigned nops) {
  switch (cs) {
  case 1: return runT<T, 1>(c, mid, nops);
  case 2: return runT<T, 2>(c, mid, nops);
  case 3: return runT<T, 3>(c, mid, nops);
  case 4: return runT<T, 4>(c, mid, nops);
  default: return runT<T, 64>(c, mid, nops);
  }
}

} // namespace

// 12-, 20- and 24-byte elements (sizes that are no power of two; alignment 8): chunk sizes 3 and 64
template <typename T>
void runOdd(Case& c, unsigned cs, bool mid, unsigned nops) {
  if (cs == 3)
    return runT<T, 3>(c, mid, nops);
  return runT<T, 64>(c, mid, nops);
}

void run_gdeque(Case& c) {
  static const char* EN[] = {"tracked", "pod", "tracked12", "pod20", "tracked24"};
  unsigned elem = c.rng.below(4) ? (c.rng.below(3) != 0 ? 0u : 1u) : 2 + (unsigned)c.rng.below(3);
  unsigned cs   = elem < 2 ? c.rng.pick({1u, 2u, 2u, 3u, 3u, 4u, 4u, 64u}) : c.rng.pick({3u, 3u, 64u});
  bool mid      = true; // insertion in the middle is part of every case
  unsigned nops = c.pickOps();
  std::string cfg = "cs" + std::to_string(cs) + "|" + EN[elem] + (mid ? "|mid" : "|ends");
  if (!c.begin("gdeque", cfg, J().kv("chunk", cs).kv("elem", EN[elem]).kv("emplace_in_middle", mid).kv("nops", nops)))
    return;
  switch (elem) {
  case 0: return runCS<Tracked>(c, cs, mid, nops);
  case 1: return runCS<Pod>(c, cs, mid, nops);
  case 2: return runOdd<Tracked12>(c, cs, mid, nops);
  case 3: return runOdd<Pod20>(c, cs, mid, nops);
  default: return runOdd<Tracked24>(c, cs, mid, nops);
  }
}

} // namespace c14
