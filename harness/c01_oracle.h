// generation of operator programs and the post-loop oracles shared by the C01/C02/C08 and C07 harnesses
#pragma once
#include "c01_common.h"

#include <map>
#include <set>

namespace c01 {
// ------------------------------------------------------------------ generation
struct Shape {
  unsigned nInit, maxItems;
  unsigned fanKind; // 0 none,1 chain,2 binary tree,3 few big pushers,4 random 0-3,5 bursts
  unsigned depthMax;
};

inline bool g_focusC02 = false;
inline void generate(Case& c, Rng& rng, const WLEntry& wl, bool thorough, long maxItemsParam) {
  unsigned maxItems = thorough ? (unsigned)rng.pick({200, 2000, 8000, 30000}) : (unsigned)rng.pick({100, 800, 3000, 8000});
  if (maxItemsParam > 0)
    maxItems = std::min<unsigned>(maxItems, (unsigned)maxItemsParam);
  unsigned nInit = (unsigned)rng.pick({1, 2, 17, 100, 1000, 3000});
  nInit          = std::min(nInit, maxItems);
  unsigned fanKind = (unsigned)rng.below(6);
  unsigned depthMax = (unsigned)rng.pick({1, 2, 3, 6, 12, 40});
  c.nObjs           = c.conflicts ? (unsigned)rng.pick({1, 2, 4, 16, 64, 256}) : 0;
  unsigned nnMax    = c.conflicts ? (unsigned)rng.pick({0, 1, 2, 3, 5, 8, 16}) : 0;
  unsigned vabortPct = (c.conflicts && c.threads > 1) ? (unsigned)rng.pick({0, 0, 2, 10, 30}) : 0;
  // abort storm: every item aborts voluntarily on its first K attempts, so for a while *all* activity of
  // *all* threads consists of aborted attempts (nobody commits) - the situation in which an executor that
  // does not count aborted attempts as work would let the termination detector finish early
  unsigned stormK = 0;
  if (c.conflicts && c.threads > 1 && rng.below(5) == 0) {
    stormK   = (unsigned)rng.pick({4, 12, 40});
    maxItems = std::min(maxItems, (unsigned)rng.pick({8, 60, 300}));
    nInit    = std::min(nInit, maxItems);
  }
  unsigned delayPct  = (unsigned)rng.pick({0, 0, 1, 5, 20});
  unsigned beforePct = (unsigned)rng.pick({0, 30, 100});
  unsigned prioRange = (unsigned)rng.pick({1, 2, 8, 64, 1000, 100000});
  if (g_focusC02) { // isolation focus: few objects, big overlapping neighbourhoods, slow owners
    c.nObjs   = (unsigned)rng.pick({1, 2, 3, 4, 8, 16, 64});
    nnMax     = (unsigned)rng.pick({1, 2, 3, 5, 8, 16});
    delayPct  = (unsigned)rng.pick({0, 5, 20, 50});
    vabortPct = c.threads > 1 ? (unsigned)rng.pick({0, 10, 30}) : 0;
  }
  if (wl.flags & (F_BARRIER | F_BSP)) { // every level switch costs barriers + a termination round: bound the levels
    prioRange = std::min(prioRange, (unsigned)rng.pick({1, 2, 8, 64, 300}));
    depthMax  = std::min(depthMax, 12u);
  }
  // every distinct priority costs a bin, and every bin takes a slice of each thread's fixed 2 MB per-thread storage region
  // (more for per-thread-chunk containers): tens of thousands of distinct priorities end in the library's defined
  // "per-thread storage out of memory" exit - resource exhaustion, not what this property is about
  if ((wl.flags & F_PRIO) && maxItems > 8000)
    prioRange = std::min(prioRange, 4000u);
  bool monotone      = wl.flags & F_MONOTONE;
  unsigned levelStep = (unsigned)rng.pick({0, 1, 1, 3}); // child prio = parent prio + step(+rand)

  c.prog.clear();
  c.prog.reserve(maxItems);
  c.prog.resize(nInit);
  for (unsigned i = 0; i < nInit; ++i) {
    c.prog[i].parent = NONE;
    c.prog[i].depth  = 0;
    c.prog[i].prio   = (unsigned)rng.below(prioRange);
  }
  // breadth-first expansion; ids are assigned sequentially so children(id) is a pure function of id
  for (unsigned id = 0; id < c.prog.size(); ++id) {
    unsigned want = 0;
    unsigned d    = c.prog[id].depth;
    if (d < depthMax) {
      switch (fanKind) {
      case 0: want = 0; break;
      case 1: want = 1; break;
      case 2: want = 2; break;
      case 3: want = rng.below(50) == 0 ? (unsigned)rng.range(65, 300) : 0; break;
      case 4: want = (unsigned)rng.below(4); break;
      case 5: want = rng.below(10) == 0 ? (unsigned)rng.range(10, 70) : (unsigned)rng.below(2); break;
      }
    }
    size_t room = maxItems - c.prog.size();
    want        = (unsigned)std::min<size_t>(want, room);
    // fill program of id (NB: c.prog may reallocate below; use index)
    c.prog[id].childBegin = (uint32_t)c.prog.size();
    c.prog[id].childCount = want;
    uint32_t pprio        = c.prog[id].prio;
    for (unsigned k = 0; k < want; ++k) {
      Prog ch;
      ch.parent = id;
      ch.depth  = d + 1;
      if (monotone)
        ch.prio = pprio + 1 + (unsigned)rng.below(3);
      else if ((wl.flags & F_BARRIER) && !c.anyPrioChildren)
        ch.prio = pprio + (unsigned)rng.below(levelStep + 1); // equal or lower urgency (ascending order)
      else
        ch.prio = (unsigned)rng.below(prioRange);
      c.prog.push_back(ch);
    }
  }
  if (wl.flags & F_DESC) { // descending order: urgency grows with the value; mirror so children are <= parents
    uint32_t mx = 0;
    for (auto& p : c.prog)
      mx = std::max(mx, p.prio);
    for (auto& p : c.prog)
      p.prio = mx - p.prio;
  }
  for (unsigned id = 0; id < c.prog.size(); ++id) {
    Prog& p      = c.prog[id];
    p.owner      = (unsigned)rng.below(64);
    p.pushBefore = (c.conflicts && rng.below(100) < beforePct) ? (uint16_t)rng.below(p.childCount + 1) : 0;
    if (!c.conflicts)
      p.pushBefore = (rng.below(100) < beforePct) ? (uint16_t)rng.below(p.childCount + 1) : 0;
    p.vaborts    = (rng.below(100) < vabortPct) ? (uint8_t)rng.range(1, 2) : 0;
    if (stormK)
      p.vaborts = (uint8_t)stormK;
    p.allocBytes = c.pia ? (uint16_t)rng.pick({0, 1, 8, 100, 1000, 5000}) : 0;
    p.delayKind  = (rng.below(100) < delayPct) ? (uint8_t)rng.range(1, 3) : 0;
    if (p.delayKind == 2 && rng.below(4))
      p.delayKind = 1; // sleeps are expensive; keep them rare
    p.nn          = c.nObjs ? (uint8_t)rng.below(std::min(nnMax, MAXNH) + 1) : 0;
    p.unprotected = 0;
    for (unsigned i = 0; i < p.nn; ++i) {
      p.nhood[i] = (uint16_t)rng.below(c.nObjs);
      if (i < 8 && rng.below(16) == 0)
        p.unprotected |= (1u << i);
    }
    // duplicate acquisition of an already owned object
    if (p.nn >= 2 && rng.below(8) == 0)
      p.nhood[p.nn - 1] = p.nhood[0];
  }
  c.initial.clear();
  for (unsigned i = 0; i < nInit; ++i)
    c.initial.push_back(c.mk(i, 0));
  // some cases present the initial items in a shuffled order
  if (rng.below(3) == 0)
    for (unsigned i = nInit; i > 1; --i)
      std::swap(c.initial[i - 1], c.initial[rng.below(i)]);
  c.items.reset(new PerItem[c.prog.size()]);
  c.itemPayload.reset(new uint64_t[c.prog.size() + 1]());
  c.objs.reset(new Obj[std::max(1u, c.nObjs)]);
  for (unsigned o = 0; o < c.nObjs; ++o)
    c.objs[o].log.reserve(64);
}

// ------------------------------------------------------------------ post-loop oracles
struct Counts {
  uint64_t committed = 0, lost = 0, dup = 0, starts = 0, aborts = 0, vaborts = 0, threadsUsed = 0, objCommits = 0;
};

inline Counts checkAfter(Case& c, Harness& H) {
  Counts k;
  // C01 (a): every item of the closure committed exactly once
  std::vector<uint32_t> lostIds, dupIds;
  uint64_t notExpectedButStarted = 0;
  for (uint32_t id = 0; id < c.prog.size(); ++id) {
    uint32_t n = c.items[id].commits.load();
    k.starts += c.items[id].starts.load();
    if (c.dynamicPush && c.prog[id].parent != NONE) {
      // expected iff the parent committed and its committing attempt pushed this child
      uint32_t par = c.prog[id].parent;
      uint32_t idx = id - c.prog[par].childBegin;
      bool expected = c.items[par].commits.load() > 0 &&
                      (idx >= 64 || ((c.items[par].pushedMask.load() >> idx) & 1));
      if (!expected) {
        if (c.items[id].starts.load())
          notExpectedButStarted++;
        continue;
      }
    }
    if (n == 1)
      k.committed++;
    else if (n == 0) {
      k.lost++;
      if (lostIds.size() < 8)
        lostIds.push_back(id);
    } else {
      k.dup++;
      if (dupIds.size() < 8)
        dupIds.push_back(id);
    }
  }
  if (k.lost) {
    // classify: lost subtree roots (parent committed or initial) vs descendants of lost items
    uint64_t roots = 0;
    for (uint32_t id = 0; id < c.prog.size(); ++id)
      if (c.items[id].commits.load() == 0 &&
          (c.prog[id].parent == NONE || c.items[c.prog[id].parent].commits.load() > 0))
        roots++;
    H.violation(c.key("C01", "lost-work"),
                J().kv("worklist", c.wlName).kv("items", (uint64_t)c.prog.size()).kv("never_committed", k.lost)
                    .kv("lost_roots_whose_parent_committed", roots).raw("first_ids", jarr(lostIds))
                    .kv("threads", c.threads).str());
  }
  if (notExpectedButStarted)
    H.violation(c.key("C01", "unpushed-item-became-work"),
                J().kv("worklist", c.wlName).kv("items_started_that_nobody_pushed", notExpectedButStarted).str());
  if (k.dup)
    H.violation(c.key("C01", "duplicated-work"),
                J().kv("worklist", c.wlName).kv("items", (uint64_t)c.prog.size()).kv("committed_more_than_once", k.dup)
                    .raw("first_ids", jarr(dupIds)).kv("threads", c.threads).str());
  for (unsigned t = 0; t < 64; ++t) {
    k.vaborts += c.tls[t].voluntaryAborts;
    if (c.tls[t].itemsHere)
      k.threadsUsed++;
  }

  if (c.conflicts && c.nObjs) {
    // C02 (d): nothing left owned
    Probe probe;
    for (unsigned o = 0; o < c.nObjs; ++o) {
      if (Probe::ownerOf(&c.objs[o]) != nullptr || !probe.isFree(&c.objs[o])) {
        H.violation(c.key("C02", "left-owned-after-loop"),
                    J().kv("worklist", c.wlName).kv("object", o).kv("threads", c.threads).str());
        break;
      }
      if (c.objs[o].stamp.load())
        H.violation(c.key("C02", "stamp-left"), J().kv("object", o).str());
    }
    // C02 (e): serial replay in ticket order
    std::vector<Commit> all;
    for (auto& tl : c.tls)
      all.insert(all.end(), tl.commits.begin(), tl.commits.end());
    std::sort(all.begin(), all.end(), [](const Commit& a, const Commit& b) { return a.ticket < b.ticket; });
    std::vector<uint64_t> value(c.nObjs, 0), version(c.nObjs, 0);
    std::vector<std::vector<uint32_t>> log(c.nObjs);
    for (const Commit& cm : all) {
      uint16_t own[MAXNH];
      unsigned n   = c.ownedSet(c.prog[cm.id], own);
      uint64_t acc = cm.id;
      for (unsigned j = 0; j < n; ++j)
        acc = mix(acc, value[own[j]]);
      for (unsigned j = 0; j < n; ++j) {
        value[own[j]] = value[own[j]] * 1000003ull + acc + j;
        version[own[j]]++;
        log[own[j]].push_back(cm.id);
      }
      if (n)
        k.objCommits++;
    }
    for (unsigned o = 0; o < c.nObjs; ++o) {
      if (value[o] != c.objs[o].value || version[o] != c.objs[o].version || log[o] != c.objs[o].log) {
        // find first divergence in the per-object log
        size_t i = 0;
        while (i < log[o].size() && i < c.objs[o].log.size() && log[o][i] == c.objs[o].log[i])
          ++i;
        H.violation(c.key("C02", "not-serializable"),
                    J().kv("worklist", c.wlName).kv("object", o).kv("final_version", c.objs[o].version)
                        .kv("replay_version", version[o]).kv("log_len", (uint64_t)c.objs[o].log.size())
                        .kv("replay_log_len", (uint64_t)log[o].size()).kv("first_divergence_at", (uint64_t)i)
                        .kv("threads", c.threads).str());
        break;
      }
    }
  }
  return k;
}

// C08 oracles over start/commit tickets
inline void checkLevels(Case& c, Harness& H, const WLEntry& wl, uint64_t& levelsSeen) {
  size_t n = c.prog.size();
  if (wl.flags & F_BSP) {
    // round = depth. min start(r+1) > max commit(r)
    std::map<uint32_t, std::pair<uint64_t, uint64_t>> r; // depth -> (min start, max commit)
    for (uint32_t id = 0; id < n; ++id) {
      uint64_t s = c.items[id].firstStartTicket.load(), e = c.items[id].commitTicket.load();
      if (!s || !e)
        continue;
      auto it = r.find(c.prog[id].depth);
      if (it == r.end())
        r[c.prog[id].depth] = {s, e};
      else {
        it->second.first  = std::min(it->second.first, s);
        it->second.second = std::max(it->second.second, e);
      }
    }
    levelsSeen = r.size();
    for (auto it = r.begin(); it != r.end(); ++it) {
      auto nx = std::next(it);
      if (nx == r.end() || nx->first != it->first + 1)
        continue;
      if (nx->second.first < it->second.second) {
        H.violation(c.key("C08", "round-overlap"),
                    J().kv("worklist", c.wlName).kv("round", it->first)
                        .kv("max_commit_ticket_of_round", it->second.second)
                        .kv("min_start_ticket_of_next_round", nx->second.first).kv("threads", c.threads).str());
        break;
      }
    }
  } else if (wl.flags & F_BARRIER) {
    // no start(x) inside [pendingFrom(y), commit(y)) of a strictly more urgent y;
    // pendingFrom(y) = commit ticket of parent(y) (or 0 for initial items)
    bool desc = wl.flags & F_DESC;
    struct Iv {
      uint64_t from, to;
      uint32_t prio, id;
    };
    std::vector<Iv> ivs;
    std::vector<std::pair<uint64_t, uint32_t>> starts; // (ticket, id)
    std::set<uint32_t> levels;
    for (uint32_t id = 0; id < n; ++id) {
      uint64_t s = c.items[id].firstStartTicket.load(), e = c.items[id].commitTicket.load();
      if (!s || !e)
        continue;
      uint64_t from = 0;
      if (c.prog[id].parent != NONE) {
        from = c.items[c.prog[id].parent].commitTicket.load();
        if (!from)
          continue;
      }
      if (from >= e)
        continue; // cannot happen with a sound ticket clock; never guess
      ivs.push_back({from, e, c.prog[id].prio, id});
      starts.push_back({s, id});
      levels.insert(c.prog[id].prio);
    }
    levelsSeen = levels.size();
    // sweep: for each start x (ascending ticket) find any interval containing it with more urgent prio.
    // O(n log n): process events in ticket order keeping a multiset of (urgency) of open intervals.
    struct Ev {
      uint64_t t;
      int kind; // 0 open, 1 start-query, 2 close  (at equal tickets impossible: tickets unique)
      uint32_t idx;
    };
    std::vector<Ev> evs;
    for (uint32_t i = 0; i < ivs.size(); ++i) {
      evs.push_back({ivs[i].from, 0, i});
      evs.push_back({ivs[i].to, 2, i});
    }
    for (uint32_t i = 0; i < starts.size(); ++i)
      evs.push_back({starts[i].first, 1, i});
    // opens at ticket 'from' happen logically right after the parent's commit ticket; closes at own commit ticket.
    std::sort(evs.begin(), evs.end(), [](const Ev& a, const Ev& b) {
      if (a.t != b.t)
        return a.t < b.t;
      return a.kind > b.kind; // close(2) before query(1) before open(0) at equal time (conservative)
    });
    std::multiset<std::pair<uint32_t, uint32_t>> open; // (urgency key, id) ; smaller key = more urgent
    auto ukey = [&](uint32_t prio) { return desc ? ~prio : prio; };
    for (const Ev& e : evs) {
      if (e.kind == 0)
        open.insert({ukey(ivs[e.idx].prio), ivs[e.idx].id});
      else if (e.kind == 2) {
        auto f = open.find({ukey(ivs[e.idx].prio), ivs[e.idx].id});
        if (f != open.end())
          open.erase(f);
      }
      else {
        uint32_t x = starts[e.idx].second;
        if (!open.empty()) {
          auto most = *open.begin();
          if (most.first < ukey(c.prog[x].prio) && most.second != x) {
            H.violation(c.key("C08", "priority-inversion-with-barrier"),
                        J().kv("worklist", c.wlName).kv("started_item", x).kv("its_priority", c.prog[x].prio)
                            .kv("while_uncommitted_item", most.second)
                            .kv("of_priority", c.prog[most.second].prio).kv("threads", c.threads).str());
            break;
          }
        }
      }
    }
  }
}


} // namespace c01
