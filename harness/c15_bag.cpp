// C15 — InsertBag and the PerThread* containers: filled concurrently, then
// iterated / drained; contents must equal what the same pushes produce
// sequentially (a multiset for the bag; per-row std:: models for PerThread*).
#include "c15_common.h"

#include "galois/Galois.h"
#include "galois/Bag.h"
#include "galois/PerThreadContainer.h"

#include <deque>
#include <list>
#include <set>

using namespace verif;

namespace c15 {
namespace {

// ------------------------------------------------------------------ payload with a live-instance count
std::atomic<long> g_live{0};
constexpr uint64_t KMAGIC = 0x5bd1e995c0ffee11ull, KDEAD = 0xdeaddeaddeaddeadull;
struct Tracked {
  uint64_t id;
  uint64_t magic;
  uint64_t pad = 0;
  explicit Tracked(uint64_t i) : id(i), magic(i ^ KMAGIC) { g_live.fetch_add(1, std::memory_order_relaxed); }
  Tracked(const Tracked& o) : id(o.id), magic(o.magic) { g_live.fetch_add(1, std::memory_order_relaxed); }
  Tracked& operator=(const Tracked&) = default;
  ~Tracked() {
    *(volatile uint64_t*)&magic = KDEAD;
    g_live.fetch_sub(1, std::memory_order_relaxed);
  }
  bool valid() const { return *(volatile const uint64_t*)&magic == (id ^ KMAGIC); }
};
inline uint64_t idOf(const long& v) { return (uint64_t)v; }
inline uint64_t idOf(const Tracked& v) { return v.id; }
inline bool validOf(const long&) { return true; }
inline bool validOf(const Tracked& v) { return v.valid(); }
template <typename T>
T make(uint64_t id) {
  return T(id);
}

template <typename T>
const char* pname() {
  return std::is_same_v<T, long> ? "long" : "Tracked(24B, non-trivial dtor)";
}

// Serial traversal bounded at `limit` elements; stops at the first element that is not alive.
template <typename Bag>
bool collect(Bag& bag, size_t limit, std::vector<uint64_t>& out, std::string& why) {
  size_t n = 0;
  for (auto it = bag.begin(), e = bag.end(); it != e; ++it) {
    if (n >= limit) {
      why = "iteration yields more than " + std::to_string(limit) + " elements";
      return false;
    }
    if (!validOf(*it)) {
      why = "iteration yields a destroyed element (position " + std::to_string(n) + ")";
      return false;
    }
    out.push_back(idOf(*it));
    ++n;
  }
  return true;
}

std::string diffMultiset(std::vector<uint64_t> got, std::vector<uint64_t> want) {
  std::sort(got.begin(), got.end());
  std::sort(want.begin(), want.end());
  if (got == want)
    return "";
  std::vector<uint64_t> missing, extra;
  std::set_difference(want.begin(), want.end(), got.begin(), got.end(), std::back_inserter(missing));
  std::set_difference(got.begin(), got.end(), want.begin(), want.end(), std::back_inserter(extra));
  return "got " + std::to_string(got.size()) + " want " + std::to_string(want.size()) + " missing " + jarr(missing, 6) +
         " extra " + jarr(extra, 6);
}

// ------------------------------------------------------------------ InsertBag: fill / iterate / clear / move / swap
template <typename T, unsigned BS>
void bagFill(Case& c) {
  unsigned rounds = 1 + (unsigned)c.rng.below(2);
  std::vector<size_t> ns;
  std::vector<Plan> plans;
  std::vector<std::string> pnames;
  std::vector<int> endOps;
  for (unsigned r = 0; r < rounds; ++r) {
    ns.push_back(c.rng.pick({(size_t)0, (size_t)1, (size_t)5, (size_t)100, (size_t)1000, (size_t)1000, (size_t)5000}));
    plans.push_back(makePlan(c));
    pnames.push_back(plans.back().name() + "@" + std::to_string(plans.back().threads));
    endOps.push_back((int)c.rng.below(5)); // 0 keep, 1 clear, 2 clear_serial, 3 move, 4 swap
  }
  c.begin("InsertBag", J().kv("variant", "fill").kv("type", pname<T>()).kv("BlockSize", BS).raw("n", jarr(ns))
                           .raw("plans", jarr(pnames)).raw("endOps", jarr(endOps)));
  c.sig = std::string("InsertBag|fill|") + pname<T>() + "|B" + std::to_string(BS) + "|" + pnames[0] + "|e" +
          std::to_string(endOps[0]);
  long liveBefore = g_live.load(std::memory_order_relaxed);
  bool bad        = false;
  {
    galois::InsertBag<T, BS> bag;
    std::vector<uint64_t> expected;
    uint64_t base = 1;
    for (unsigned r = 0; r < rounds && !bad; ++r) {
      size_t n = ns[r];
      std::vector<std::vector<uint64_t>> mine(c.maxT);
      if (r == 0)
        for (auto& m : mine)
          m.reserve(64);
      ExecResult res = execPlan(c, plans[r], n, [&](uint32_t i, unsigned tid) {
        uint64_t id = base + i;
        switch (i & 3) {
        case 0: bag.push(make<T>(id)); break;
        case 1: bag.push_back(make<T>(id)); break;
        case 2: bag.emplace(id); break;
        default: bag.emplace_back(id); break;
        }
        mine[tid].push_back(id);
      });
      if (!res.exactlyOnce) {
        c.H.note("loop-not-exactly-once", "{}");
        break;
      }
      for (size_t i = 0; i < n; ++i)
        expected.push_back(base + i);
      base += n;
      c.add("pushes", n);
      // serial iteration
      std::vector<uint64_t> got;
      std::string why;
      if (!collect(bag, expected.size() + 1, got, why) || !(why = diffMultiset(got, expected)).empty()) {
        c.viol("contents-mismatch", J().kv("round", r).kv("what", why).kv("plan", pnames[r]).kv("workers", res.workers));
        bad = true;
        break;
      }
      // (InsertBag::begin() const / end() const do not compile when instantiated: not exercised)
      if (bag.empty() != expected.empty()) {
        c.viol("contents-mismatch", J().kv("round", r).kv("what", "empty()").kv("empty", bag.empty()).kv("want", expected.size()));
        bad = true;
        break;
      }
      // local iteration by every thread (only this round's elements are attributable when r==0)
      if (r == 0) {
        std::vector<std::vector<uint64_t>> local(c.maxT);
        galois::on_each(
            [&](unsigned tid, unsigned) {
              size_t k = 0;
              for (auto it = bag.local_begin(), e = bag.local_end(); it != e && k <= n; ++it, ++k)
                local[tid].push_back(idOf(*it));
            },
            galois::no_stats());
        for (unsigned t = 0; t < c.maxT; ++t) {
          std::string d = diffMultiset(local[t], mine[t]);
          if (!d.empty()) {
            c.viol("local-iteration-mismatch", J().kv("thread", t).kv("what", d).kv("plan", pnames[r]));
            bad = true;
            break;
          }
        }
        if (bad)
          break;
      }
      c.add("bag_traversals", 2);
      // end-of-round operation
      switch (endOps[r]) {
      case 1:
      case 2: {
        galois::setActiveThreads(c.maxT); // every thread that may own elements takes part in clear()
        if (endOps[r] == 1)
          bag.clear();
        else
          bag.clear_serial();
        expected.clear();
        long live = g_live.load(std::memory_order_relaxed);
        if (!bag.empty() || bag.begin() != bag.end() || live != liveBefore) {
          c.viol("clear-incomplete", J().kv("round", r).kv("op", endOps[r] == 1 ? "clear" : "clear_serial")
                                         .kv("empty", bag.empty()).kv("live_payloads", live - liveBefore));
          bad = true;
        }
        break;
      }
      case 3: {
        galois::InsertBag<T, BS> b2(std::move(bag));
        std::vector<uint64_t> g2;
        std::string w2;
        if (!collect(b2, expected.size() + 1, g2, w2) || !(w2 = diffMultiset(g2, expected)).empty() || !bag.empty()) {
          c.viol("move-mismatch", J().kv("round", r).kv("what", w2).kv("source_empty", bag.empty()));
          bad = true;
          break;
        }
        bag = std::move(b2);
        break;
      }
      case 4: {
        galois::InsertBag<T, BS> other;
        other.push(make<T>(0xabcdef));
        other.swap(bag);
        std::vector<uint64_t> g2, g3;
        std::string w2, w3;
        if (!collect(other, expected.size() + 1, g2, w2) || !(w2 = diffMultiset(g2, expected)).empty() ||
            !collect(bag, 2, g3, w3) || g3 != std::vector<uint64_t>{0xabcdef}) {
          c.viol("swap-mismatch", J().kv("round", r).kv("what", w2 + w3));
          bad = true;
          break;
        }
        other.swap(bag);
        break;
      }
      default: break;
      }
    }
    galois::setActiveThreads(c.maxT); // the destructor works on the active threads
  }
  long leaked = g_live.load(std::memory_order_relaxed) - liveBefore;
  if (!bad && leaked != 0)
    c.viol("destructor-leaves-elements", J().kv("live_payloads", leaked));
}

// ------------------------------------------------------------------ InsertBag: push / pop per thread, then iterate
template <typename T, unsigned BS>
void bagPop(Case& c) {
  unsigned T1  = pickThreads(c);
  unsigned len = c.rng.pick({1u, 2u, 3u, 12u, 40u, 200u});
  // per-thread scripts: 1 push id, 0 pop (never two pops in a row, never more pops than pushes)
  std::vector<std::vector<uint8_t>> script(T1);
  std::vector<std::vector<uint64_t>> model(T1);
  uint64_t pops = 0, pushes = 0, endWithPop = 0;
  unsigned popProb = c.rng.pick({10u, 30u, 50u});
  for (unsigned t = 0; t < T1; ++t) {
    unsigned L   = c.rng.below(4) == 0 ? 0 : 1 + (unsigned)c.rng.below(len);
    bool lastPop = true; // forbids a leading pop
    for (unsigned i = 0; i < L; ++i) {
      bool pop = !lastPop && c.rng.below(100) < popProb;
      if (i + 1 == L && !lastPop && c.rng.below(3) == 0)
        pop = true;
      script[t].push_back(pop ? 0 : 1);
      if (pop) {
        model[t].pop_back();
        ++pops;
      } else {
        model[t].push_back(((uint64_t)(t + 1) << 32) | (i + 1));
        ++pushes;
      }
      lastPop = pop;
    }
    if (L && script[t].back() == 0)
      ++endWithPop;
  }
  c.begin("InsertBag", J().kv("variant", "pop").kv("type", pname<T>()).kv("BlockSize", BS).kv("threads", T1)
                           .kv("max_script_len", len).kv("pushes", pushes).kv("pops", pops)
                           .kv("threads_ending_with_pop", endWithPop));
  c.sig = std::string("InsertBag|pop|") + pname<T>() + "|B" + std::to_string(BS) + "|T" + std::to_string(T1) + "|L" +
          std::to_string(len) + "|e" + (endWithPop ? "1" : "0");
  long liveBefore = g_live.load(std::memory_order_relaxed);
  {
    galois::InsertBag<T, BS> bag;
    galois::setActiveThreads(T1);
    std::vector<uint64_t> worked(c.maxT, 0);
    galois::on_each(
        [&](unsigned tid, unsigned) {
          if (tid >= T1)
            return;
          for (unsigned i = 0; i < script[tid].size(); ++i) {
            if (script[tid][i])
              bag.push(make<T>(((uint64_t)(tid + 1) << 32) | (i + 1)));
            else
              bag.pop();
            worked[tid]++;
          }
          progress();
        },
        galois::no_stats());
    unsigned w = 0;
    for (auto x : worked)
      w += x ? 1 : 0;
    c.workersMax = std::max(c.workersMax, w);
    c.add("parallel_phases", 1);
    c.add("ops", pushes + pops);
    c.add("pushes", pushes);
    c.add("bag_pops", pops);
    std::vector<uint64_t> expected;
    for (auto& m : model)
      expected.insert(expected.end(), m.begin(), m.end());
    // traverse; stop at the first element that is not expected (ids are unique, so a popped id is never expected)
    std::set<uint64_t> remaining(expected.begin(), expected.end());
    std::string why;
    size_t seen = 0;
    for (auto it = bag.begin(), e = bag.end(); it != e; ++it) {
      uint64_t id = idOf(*it);
      if (!validOf(*it) || !remaining.erase(id)) {
        why = "traversal reaches an element that is not in the bag (id " + std::to_string(id >> 32) + ":" +
              std::to_string(id & 0xffffffff) + (validOf(*it) ? "" : ", destroyed") + ") after " +
              std::to_string(seen) + " valid elements";
        break;
      }
      ++seen;
    }
    if (why.empty() && !remaining.empty())
      why = std::to_string(remaining.size()) + " expected elements not reached";
    if (why.empty() && bag.empty() != expected.empty())
      why = std::string("empty() returns ") + (bag.empty() ? "true" : "false") + " with " +
            std::to_string(expected.size()) + " elements";
    c.add("bag_traversals", 1);
    if (!why.empty())
      c.viol("popped-block-still-visible",
             J().kv("what", why).kv("want_elements", expected.size()).kv("threads_ending_with_pop", endWithPop));
    galois::setActiveThreads(c.maxT);
  }
  long leaked = g_live.load(std::memory_order_relaxed) - liveBefore;
  if (leaked != 0)
    c.viol("pop-live-count", J().kv("live_payloads_after_destruction", leaked));
}

// ------------------------------------------------------------------ InsertBag: clear()/destructor after the active thread count shrank
template <typename T, unsigned BS>
void bagShrink(Case& c, bool destroy) {
  unsigned T1 = c.maxT >= 2 ? 2 + (unsigned)c.rng.below(c.maxT - 1) : 1;
  unsigned T2 = T1 > 1 ? 1 + (unsigned)c.rng.below(T1 - 1) : 1;
  size_t n    = c.rng.pick({(size_t)16, (size_t)200, (size_t)2000});
  Plan p      = makePlan(c, T1);
  p.mode      = 0;
  p.pattern   = c.rng.below(2) ? 1 : 2; // every thread gets elements (round robin) / random
  c.begin("InsertBag", J().kv("variant", destroy ? "fill, setActiveThreads(fewer), destroy" : "fill, setActiveThreads(fewer), clear")
                           .kv("type", pname<T>()).kv("BlockSize", BS).kv("fill_threads", T1).kv("then_threads", T2).kv("n", n));
  c.sig = std::string("InsertBag|") + (destroy ? "shrink-destroy|" : "shrink-clear|") + pname<T>() + "|B" +
          std::to_string(BS) + "|" + std::to_string(T1) + ">" + std::to_string(T2);
  long liveBefore = g_live.load(std::memory_order_relaxed);
  {
    galois::InsertBag<T, BS> bag;
    std::vector<uint64_t> perThread(c.maxT, 0);
    ExecResult res = execPlan(c, p, n, [&](uint32_t i, unsigned tid) {
      bag.push(make<T>(i + 1));
      perThread[tid]++;
    });
    c.add("pushes", n);
    uint64_t beyond = 0;
    for (unsigned t = T2; t < c.maxT; ++t)
      beyond += perThread[t];
    galois::setActiveThreads(T2);
    if (!destroy) {
      bag.clear();
      size_t left = 0;
      for (auto it = bag.begin(); it != bag.end() && left <= n; ++it)
        ++left;
      if (left != 0 || !bag.empty())
        c.viol("clear-skips-inactive-threads",
               J().kv("elements_left_after_clear", left).kv("empty", bag.empty())
                   .kv("pushed_by_threads_beyond_new_count", beyond).kv("fill_threads", T1).kv("clear_threads", T2));
      galois::setActiveThreads(c.maxT);
      bag.clear(); // hygiene
    }
  }
  galois::setActiveThreads(c.maxT);
  if (destroy) {
    long leaked = g_live.load(std::memory_order_relaxed) - liveBefore;
    if (leaked != 0) {
      c.viol("destructor-skips-inactive-threads",
             J().kv("payloads_never_destroyed", leaked).kv("fill_threads", T1).kv("destroy_threads", T2));
      g_live.store(liveBefore, std::memory_order_relaxed); // those objects are gone for good
    }
  }
}

// ------------------------------------------------------------------ PerThread* containers
// Traits: push one generated value into a row; canonical content of a row; sequential model of a row
template <typename PTC>
using RowOf = std::remove_reference_t<decltype(std::declval<PTC&>().get(0u))>;

struct VecTr {
  using PTC = galois::PerThreadVector<uint64_t>;
  static constexpr bool globalIter = true, ordered = true;
  static void push(RowOf<PTC>& r, uint64_t v) { r.push_back(v); }
  static std::vector<uint64_t> row(RowOf<PTC>& r) { return std::vector<uint64_t>(r.begin(), r.end()); }
  static std::vector<uint64_t> model(const std::vector<uint64_t>& in) { return in; }
};
template <typename P>
struct DequeLikeTr {
  using PTC = P;
  static constexpr bool globalIter = true, ordered = true;
  static void push(RowOf<PTC>& r, uint64_t v) {
    if (v & 1)
      r.push_back(v);
    else
      r.push_front(v);
  }
  static std::vector<uint64_t> row(RowOf<PTC>& r) { return std::vector<uint64_t>(r.begin(), r.end()); }
  static std::vector<uint64_t> model(const std::vector<uint64_t>& in) {
    std::deque<uint64_t> d;
    for (uint64_t v : in)
      if (v & 1)
        d.push_back(v);
      else
        d.push_front(v);
    return std::vector<uint64_t>(d.begin(), d.end());
  }
};
struct SetTr {
  using PTC = galois::PerThreadSet<uint64_t>;
  static constexpr bool globalIter = false, ordered = true;
  static void push(RowOf<PTC>& r, uint64_t v) { r.insert(v % 97); }
  static std::vector<uint64_t> row(RowOf<PTC>& r) { return std::vector<uint64_t>(r.begin(), r.end()); }
  static std::vector<uint64_t> model(const std::vector<uint64_t>& in) {
    std::set<uint64_t> s;
    for (uint64_t v : in)
      s.insert(v % 97);
    return std::vector<uint64_t>(s.begin(), s.end());
  }
};
struct MapTr {
  using PTC = galois::PerThreadMap<uint64_t, uint64_t>;
  static constexpr bool globalIter = false, ordered = true;
  static void push(RowOf<PTC>& r, uint64_t v) {
    if (v & 1)
      r[v % 61] = v;
    else
      r.insert(std::make_pair(v % 61, v)); // keeps the first
  }
  static std::vector<uint64_t> row(RowOf<PTC>& r) {
    std::vector<uint64_t> o;
    for (auto& kv : r) {
      o.push_back(kv.first);
      o.push_back(kv.second);
    }
    return o;
  }
  static std::vector<uint64_t> model(const std::vector<uint64_t>& in) {
    std::map<uint64_t, uint64_t> m;
    for (uint64_t v : in)
      if (v & 1)
        m[v % 61] = v;
      else
        m.insert(std::make_pair(v % 61, v));
    std::vector<uint64_t> o;
    for (auto& kv : m) {
      o.push_back(kv.first);
      o.push_back(kv.second);
    }
    return o;
  }
};
struct HeapTr {
  using PTC = galois::PerThreadMinHeap<uint64_t>;
  static constexpr bool globalIter = false, ordered = false;
  static void push(RowOf<PTC>& r, uint64_t v) { r.push(v % 1000); }
  static std::vector<uint64_t> row(RowOf<PTC>& r) {
    std::vector<uint64_t> o(r.begin(), r.end());
    std::sort(o.begin(), o.end());
    return o;
  }
  static std::vector<uint64_t> model(const std::vector<uint64_t>& in) {
    std::vector<uint64_t> o;
    for (uint64_t v : in)
      o.push_back(v % 1000);
    std::sort(o.begin(), o.end());
    return o;
  }
};

template <typename Tr>
void perThreadCase(Case& c, const char* comp) {
  using PTC       = typename Tr::PTC;
  unsigned rounds = 1 + (unsigned)c.rng.below(2);
  std::vector<size_t> ns;
  std::vector<Plan> plans;
  std::vector<std::string> pnames;
  for (unsigned r = 0; r < rounds; ++r) {
    ns.push_back(c.rng.pick({(size_t)0, (size_t)1, (size_t)9, (size_t)200, (size_t)200, (size_t)3000}));
    plans.push_back(makePlan(c));
    pnames.push_back(plans.back().name() + "@" + std::to_string(plans.back().threads));
  }
  bool clearBetween = c.rng.below(2);
  bool reserve      = c.rng.below(3) == 0;
  c.begin(comp, J().kv("variant", "fill").raw("n", jarr(ns)).raw("plans", jarr(pnames)).kv("clear_between_rounds", clearBetween));
  c.sig = std::string(comp) + "|fill|" + pnames[0] + "|n" + std::to_string(ns[0]) + "|c" + (clearBetween ? "1" : "0");
  PTC cont;
  std::vector<std::vector<uint64_t>> mine(c.maxT);
  if (cont.numRows() != c.maxT) {
    c.viol("numRows", J().kv("numRows", cont.numRows()).kv("pool", c.maxT));
    return;
  }
  for (unsigned r = 0; r < rounds; ++r) {
    size_t n = ns[r];
    if constexpr (std::is_same_v<Tr, VecTr>) {
      if (reserve) {
        galois::setActiveThreads(plans[r].threads);
        cont.reserve_all(n);
      }
    }
    Rng vr(mix(plans[r].nseed, 99));
    std::vector<uint64_t> vals(n);
    for (auto& v : vals)
      v = vr.next() >> 8;
    ExecResult res = execPlan(c, plans[r], n, [&](uint32_t i, unsigned tid) {
      Tr::push(cont.get(), vals[i]);
      mine[tid].push_back(vals[i]);
    });
    if (!res.exactlyOnce) {
      c.H.note("loop-not-exactly-once", "{}");
      return;
    }
    c.add("pushes", n);
    // rows against their sequential models
    std::vector<uint64_t> concat;
    size_t total = 0;
    for (unsigned t = 0; t < c.maxT; ++t) {
      std::vector<uint64_t> got = Tr::row(cont.get(t)), want = Tr::model(mine[t]);
      if (got != want) {
        c.viol("row-mismatch", J().kv("round", r).kv("row", t).kv("got_len", got.size()).kv("want_len", want.size())
                                   .raw("got_head", jarr(got, 8)).raw("want_head", jarr(want, 8)).kv("plan", pnames[r]));
        return;
      }
      if (cont.get(t).size() != (std::is_same_v<Tr, MapTr> ? want.size() / 2 : want.size())) {
        c.viol("row-size", J().kv("row", t).kv("size", (uint64_t)cont.get(t).size()));
        return;
      }
      total += cont.get(t).size();
      concat.insert(concat.end(), want.begin(), want.end());
    }
    if (cont.size_all() != total || cont.empty_all() != (total == 0)) {
      c.viol("size_all-empty_all", J().kv("size_all", (uint64_t)cont.size_all()).kv("want", total).kv("empty_all", cont.empty_all()));
      return;
    }
    if constexpr (Tr::globalIter) {
      // (cbegin_all()/cend_all() do not compile when instantiated: not exercised)
      std::vector<uint64_t> fwd, rev, cfwd;
      size_t lim = total + 1;
      for (auto it = cont.begin_all(), e = cont.end_all(); it != e && fwd.size() <= lim; ++it)
        fwd.push_back(*it);
      for (auto it = cont.rbegin_all(), e = cont.rend_all(); it != e && rev.size() <= lim; ++it)
        rev.push_back(*it);
      cfwd = concat;
      std::reverse(rev.begin(), rev.end());
      if (fwd != concat || rev != concat || cfwd != concat) {
        c.viol("global-iteration-mismatch",
               J().kv("round", r).kv("forward_len", fwd.size()).kv("reverse_len", rev.size()).kv("const_len", cfwd.size())
                   .kv("want_len", concat.size()).kv("forward_ok", fwd == concat).kv("reverse_ok", rev == concat));
        return;
      }
      c.add("global_traversals", 2);
    }
    if constexpr (std::is_same_v<Tr, HeapTr>) {
      // drain every row on its own thread: ascending order
      if (r + 1 == rounds) {
        std::vector<int> badOrder(c.maxT, 0);
        std::vector<std::vector<uint64_t>> popped(c.maxT);
        galois::setActiveThreads(c.maxT);
        galois::on_each(
            [&](unsigned tid, unsigned) {
              auto& h = cont.get();
              while (!h.empty()) {
                uint64_t t = h.top();
                uint64_t v = h.pop();
                if (t != v || (!popped[tid].empty() && popped[tid].back() > v))
                  badOrder[tid] = 1;
                popped[tid].push_back(v);
              }
            },
            galois::no_stats());
        for (unsigned t = 0; t < c.maxT; ++t)
          if (badOrder[t] || popped[t] != Tr::model(mine[t])) {
            c.viol("drain-order", J().kv("row", t).raw("popped_head", jarr(popped[t], 8)));
            return;
          }
        c.add("heap_pops", total);
      }
    }
    if (clearBetween && r + 1 < rounds) {
      galois::setActiveThreads(c.maxT);
      cont.clear_all_parallel();
      for (auto& m : mine)
        m.clear();
      if (!cont.empty_all() || cont.size_all() != 0) {
        c.viol("clear_all_parallel-incomplete", J().kv("size_all", (uint64_t)cont.size_all()));
        return;
      }
      c.add("clears", 1);
    }
  }
  galois::setActiveThreads(c.maxT);
}

template <typename PTC>
void perThreadShrink(Case& c, const char* tn) {
  unsigned T1 = c.maxT >= 2 ? 2 + (unsigned)c.rng.below(c.maxT - 1) : 1;
  unsigned T2 = T1 > 1 ? 1 + (unsigned)c.rng.below(T1 - 1) : 1;
  size_t n    = c.rng.pick({(size_t)32, (size_t)500});
  Plan p      = makePlan(c, T1);
  p.mode      = 0;
  p.pattern   = 1;
  c.begin("PerThreadContainer", J().kv("variant", "fill, setActiveThreads(fewer), clear_all_parallel").kv("type", tn)
                                    .kv("fill_threads", T1).kv("then_threads", T2).kv("n", n));
  c.sig = std::string("PerThreadContainer|shrink-clear|") + tn + "|" + std::to_string(T1) + ">" + std::to_string(T2);
  PTC cont;
  execPlan(c, p, n, [&](uint32_t i, unsigned) { cont.get().push_back(i); });
  c.add("pushes", n);
  galois::setActiveThreads(T2);
  cont.clear_all_parallel();
  if (!cont.empty_all() || cont.size_all() != 0)
    c.viol("clear-skips-inactive-threads", J().kv("size_all_after_clear_all_parallel", (uint64_t)cont.size_all())
                                               .kv("fill_threads", T1).kv("clear_threads", T2));
  galois::setActiveThreads(c.maxT);
  cont.clear_all_parallel();
}

} // namespace

void run_bag(Case& c, int which) {
  unsigned v = (unsigned)c.rng.below(4);
  switch (which) {
  case 0:
    switch (v) {
    case 0: bagFill<long, 0>(c); break;
    case 1: bagFill<Tracked, 0>(c); break;
    case 2: bagFill<long, 128>(c); break;
    default: bagFill<Tracked, 256>(c); break;
    }
    break;
  case 1:
    switch (v) {
    case 0: bagPop<long, 0>(c); break;
    case 1: bagPop<long, 128>(c); break;
    case 2: bagPop<Tracked, 0>(c); break;
    default: bagPop<Tracked, 256>(c); break;
    }
    break;
  case 2:
    switch (v) {
    case 0: bagShrink<long, 0>(c, false); break;
    case 1: bagShrink<Tracked, 0>(c, false); break;
    case 2: bagShrink<long, 128>(c, false); break;
    default: bagShrink<Tracked, 256>(c, false); break;
    }
    break;
  default: bagShrink<Tracked, 256>(c, true); break;
  }
}

void run_perthread(Case& c, int which) {
  switch (which) {
  case 0: perThreadCase<VecTr>(c, "PerThreadVector"); break;
  case 1: perThreadCase<DequeLikeTr<galois::PerThreadDeque<uint64_t>>>(c, "PerThreadDeque"); break;
  case 2:
    if (c.rng.below(2))
      perThreadCase<DequeLikeTr<galois::PerThreadGdeque<uint64_t>>>(c, "PerThreadGdeque");
    else
      perThreadCase<DequeLikeTr<galois::PerThreadGdeque<uint64_t, 4>>>(c, "PerThreadGdeque");
    break;
  case 3: perThreadCase<DequeLikeTr<galois::PerThreadList<uint64_t>>>(c, "PerThreadList"); break;
  case 4: perThreadCase<SetTr>(c, "PerThreadSet"); break;
  case 5: perThreadCase<MapTr>(c, "PerThreadMap"); break;
  case 6: perThreadCase<HeapTr>(c, "PerThreadMinHeap"); break;
  default:
    switch (c.rng.below(3)) {
    case 0: perThreadShrink<galois::PerThreadVector<uint64_t>>(c, "PerThreadVector"); break;
    case 1: perThreadShrink<galois::PerThreadDeque<uint64_t>>(c, "PerThreadDeque"); break;
    default: perThreadShrink<galois::PerThreadList<uint64_t>>(c, "PerThreadList"); break;
    }
    break;
  }
}

} // namespace c15
