// C18 — field f_set: plain uint32_t, GALOIS_SYNC_STRUCTURE_REDUCE_SET + BITSET
#include "c18_field.h"

galois::DynamicBitSet bitset_f_set;
GALOIS_SYNC_STRUCTURE_REDUCE_SET(f_set, uint32_t);
GALOIS_SYNC_STRUCTURE_BITSET(f_set);

namespace {
using namespace c18;
void store(Graph& g, uint32_t lid, const uint64_t* w) { g.getData(lid).f_set = (uint32_t)w[0]; }
void load(Graph& g, uint32_t lid, uint64_t* w) { w[0] = g.getData(lid).f_set; }
bool write(Graph& g, uint32_t lid, const uint64_t* w, bool mark) {
  g.getData(lid).f_set = (uint32_t)w[0];
  if (mark)
    bitset_f_set.set(lid);
  return true;
}
void sync(Substrate& s, unsigned W, unsigned R, bool b, bool a, const std::string& l) {
  sync_any<Reduce_set_f_set, Bitset_f_set, true>(s, W, R, b, a, l);
}
void resetMirrors(Substrate& s) { s.reset_mirrorField<Reduce_set_f_set>(); }
} // namespace
const c18::FieldVT c18::vt_f_set = {"f_set", "GALOIS_SYNC_STRUCTURE_REDUCE_SET(uint32_t)", R_SET, K_U32, 1, true, true,
                                    store, load, write, &bitset_f_set, sync, resetMirrors};
