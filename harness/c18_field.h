// C18 — per-field TU support: runtime (W, R, bitset?, async?) -> the sync<...> instantiation an app would write.
#pragma once
#include "c18_common.h"

#include <cstring>

namespace c18 {

// syncSubstrate->sync<W, R, ReduceFn, BitsetFn, async>(loop) for runtime W/R.
//   without a bitset the apps write sync<W, R, ReduceFn>(loop) (BitsetFnTy = galois::InvalidBitsetFnTy, BSP);
//   the asynchronous variant is only instantiated with a bitset (as in every app) and only when WithAsync.
template <typename ReduceFn, typename BitsetFn, bool WithAsync, WriteLocation W, ReadLocation R>
inline void sync_wr(Substrate& s, bool useBitset, bool async, const std::string& loop) {
  if (useBitset) {
    if (async) {
      if constexpr (WithAsync)
        s.template sync<W, R, ReduceFn, BitsetFn, true>(loop);
      else
        GALOIS_DIE("c18: async sync not instantiated for this field");
    } else
      s.template sync<W, R, ReduceFn, BitsetFn>(loop);
  } else {
    if (async)
      GALOIS_DIE("c18: async sync without bitset is not driven");
    s.template sync<W, R, ReduceFn>(loop);
  }
}

template <typename ReduceFn, typename BitsetFn, bool WithAsync, WriteLocation W>
inline void sync_w(Substrate& s, unsigned R, bool useBitset, bool async, const std::string& loop) {
  switch (R) {
  case 0: sync_wr<ReduceFn, BitsetFn, WithAsync, W, readSource>(s, useBitset, async, loop); break;
  case 1: sync_wr<ReduceFn, BitsetFn, WithAsync, W, readDestination>(s, useBitset, async, loop); break;
  default: sync_wr<ReduceFn, BitsetFn, WithAsync, W, readAny>(s, useBitset, async, loop); break;
  }
}

template <typename ReduceFn, typename BitsetFn, bool WithAsync>
inline void sync_any(Substrate& s, unsigned W, unsigned R, bool useBitset, bool async, const std::string& loop) {
  switch (W) {
  case 0: sync_w<ReduceFn, BitsetFn, WithAsync, writeSource>(s, R, useBitset, async, loop); break;
  case 1: sync_w<ReduceFn, BitsetFn, WithAsync, writeDestination>(s, R, useBitset, async, loop); break;
  default: sync_w<ReduceFn, BitsetFn, WithAsync, writeAny>(s, R, useBitset, async, loop); break;
  }
}

inline uint64_t d2w(double d) {
  uint64_t w;
  std::memcpy(&w, &d, 8);
  return w;
}
inline double w2d(uint64_t w) {
  double d;
  std::memcpy(&d, &w, 8);
  return d;
}

} // namespace c18
