// C14 — galois::FixedSizeRing (bounded deque), FixedSizeBag and
// ConcurrentFixedSizeBag (bounded bags) vs std::deque / std::multiset models.
#include "c14_common.h"

#include "galois/FixedSizeRing.h"

#include <deque>
#include <memory>

namespace c14 {
namespace {

// ------------------------------------------------------------------ ring
template <typename R>
void checkRing(Case& c, R& r, const std::deque<int>& m, unsigned CS, bool tracked) {
  if (!c.regOk())
    return;
  const R& cr = r;
  c.eq("size", r.size(), m.size());
  c.eq("empty", r.empty(), m.empty());
  c.eq("full", r.full(), m.size() == CS);
  if (c.bad)
    return;
  if (!m.empty()) {
    c.eq("front", val(r.front()), m.front());
    c.eq("back", val(r.back()), m.back());
    c.eq("const-front", val(cr.front()), m.front());
    c.eq("const-back", val(cr.back()), m.back());
    size_t i = c.rng.below(m.size());
    c.eq("getAt", val(r.getAt((unsigned)i)), m[i]);
    c.eq("const-getAt", val(cr.getAt((unsigned)i)), m[i]);
    if (!c.bad) {
      // random access on the ring iterator
      c.eq("iterator-plus-index", val(*(r.begin() + (ptrdiff_t)i)), m[i]);
      c.eq("iterator-end-minus", val(*(r.end() - (ptrdiff_t)(m.size() - i))), m[i]);
      {
        typename R::value_type sub = r.begin()[(ptrdiff_t)i]; // (boost's operator[] may return a proxy)
        c.eq("iterator-subscript", val(sub), m[i]);
      }
    }
  }
  if (c.bad)
    return;
  c.eq("iterator-distance", (long)(r.end() - r.begin()), (long)m.size());
  c.eq("const-iterator-distance", (long)std::distance(cr.begin(), cr.end()), (long)m.size());
  std::vector<int> fwd = toVec(m), bwd = toRevVec(m);
  checkSeq(c, "forward-traversal", r.begin(), r.end(), fwd);
  checkSeq(c, "backward-traversal", r.rbegin(), r.rend(), bwd);
  checkSeq(c, "const-forward-traversal", cr.begin(), cr.end(), fwd);
  c.checking("const-backward-traversal");
  checkSeq(c, "const-backward-traversal", cr.rbegin(), cr.rend(), bwd);
  c.lifetimesOk(tracked ? (long)m.size() : -1);
  c.sawSize(m.size(), 0);
}

template <typename T, unsigned CS>
void ringT(Case& c, bool mid, unsigned nops) {
  typedef galois::FixedSizeRing<T, CS> R;
  constexpr bool tracked = ElemName<T>::tracked;
  Rng& rng               = c.rng;
  std::deque<int> m;
  {
    std::unique_ptr<R> rp;
    if (rng.below(4) == 0) {
      unsigned n = (unsigned)rng.below(CS + 1);
      std::vector<T> init;
      for (unsigned i = 0; i < n; ++i) {
        int v = c.nextVal();
        init.emplace_back(v);
        m.push_back(v);
      }
      c.op("range-construct", n);
      rp.reset(new R(init.begin(), init.end()));
    } else
      rp.reset(new R());
    R& r = *rp;
    checkRing(c, r, m, CS, tracked);
    unsigned grow = 60;
    for (unsigned step = 0; step < nops && !c.bad; ++step) {
      if (rng.below(12) == 0)
        grow = (unsigned)rng.pick({25, 50, 60, 85});
      unsigned x = (unsigned)rng.below(100);
      bool full  = m.size() == CS;
      if (x < 3) {
        c.op("clear");
        r.clear();
        m.clear();
      } else if (x < 10 && !m.empty()) {
        size_t idx = rng.below(m.size());
        int v      = c.nextVal();
        c.op("assign-through-iterator", (long)idx, v);
        *(r.begin() + (ptrdiff_t)idx) = T(v);
        m[idx]                        = v;
      } else if (x < 16) {
        // extract on any state (empty -> empty optional)
        bool fr = rng.below(2);
        c.op(fr ? "extract_front" : "extract_back");
        galois::optional<T> o = fr ? r.extract_front() : r.extract_back();
        c.eq("result-has-value", (bool)o.is_initialized(), !m.empty());
        if (!c.bad && !m.empty()) {
          c.eq("result-value", val(*o), fr ? m.front() : m.back());
          if (fr)
            m.pop_front();
          else
            m.pop_back();
        }
      } else if (x < 16 + grow * 84 / 100 || m.empty()) {
        int v = c.nextVal();
        T* p  = nullptr;
        bool front = false, inserted = true;
        size_t idx = 0;
        switch (rng.below(mid ? 9 : 6)) {
        case 0:
          c.op("push_back", v);
          p = r.push_back(T(v));
          idx = m.size();
          break;
        case 1:
          c.op("emplace_back", v);
          p = r.emplace_back(v);
          idx = m.size();
          break;
        case 2:
          c.op("push_front", v);
          p = r.push_front(T(v));
          break;
        case 3:
          c.op("emplace_front", v);
          p = r.emplace_front(v);
          break;
        case 4:
          c.op("emplace-at-begin", v);
          p = r.emplace(r.begin(), v);
          break;
        case 5:
          c.op("emplace-at-end", v);
          p   = r.emplace(r.end(), v);
          idx = m.size();
          break;
        default:
          if (m.size() < 2) {
            c.op("push_back", v);
            p   = r.push_back(T(v));
            idx = m.size();
          } else {
            idx = 1 + rng.below(m.size() - 1);
            c.op("emplace-in-middle", (long)idx, v);
            p = r.emplace(r.begin() + (ptrdiff_t)idx, v);
          }
          break;
        }
        // a full ring refuses (returns null) and is unchanged
        c.eq("result-null-iff-full", p == nullptr, full);
        if (!c.bad && !full) {
          m.insert(m.begin() + idx, v);
          c.eq("result-value", val(*p), v);
        }
      } else {
        if (rng.below(2)) {
          c.op("pop_back");
          r.pop_back();
          m.pop_back();
        } else {
          c.op("pop_front");
          r.pop_front();
          m.pop_front();
        }
      }
      checkRing(c, r, m, CS, tracked);
    }
    c.phase("destructor");
  }
  c.lifetimesOk(tracked ? 0 : -1);
}

template <typename T>
void ringCS(Case& c, unsigned cs, bool mid, unsigned nops) {
  switch (cs) {
  case 1: return ringT<T, 1>(c, mid, nops);
  case 2: return ringT<T, 2>(c, mid, nops);
  case 3: return ringT<T, 3>(c, mid, nops);
  case 4: return ringT<T, 4>(c, mid, nops);
  case 8: return ringT<T, 8>(c, mid, nops);
  default: return ringT<T, 64>(c, mid, nops);
  }
}

// ------------------------------------------------------------------ bags
// Abstract data type: bounded bag. Demanded: size/empty/full; traversal yields
// exactly the contained multiset; backward traversal is the reverse of the
// forward one; front()==back() is a contained element and pop removes exactly
// that element; a full bag refuses an insertion (null) and stays unchanged.
template <typename B>
void checkBagState(Case& c, B& b, const std::multiset<int>& m, unsigned CS, bool tracked) {
  if (!c.regOk())
    return;
  const B& cb = b;
  c.eq("size", b.size(), m.size());
  c.eq("empty", b.empty(), m.empty());
  c.eq("full", b.full(), m.size() == CS);
  if (c.bad)
    return;
  std::vector<int> exp(m.begin(), m.end()), fwd, bwd, cfwd, cbwd;
  checkBag(c, "forward-traversal", b.begin(), b.end(), exp, &fwd);
  checkBag(c, "backward-traversal", b.rbegin(), b.rend(), exp, &bwd);
  checkBag(c, "const-forward-traversal", cb.begin(), cb.end(), exp, &cfwd);
  checkBag(c, "const-backward-traversal", cb.rbegin(), cb.rend(), exp, &cbwd);
  if (c.bad)
    return;
  std::reverse(bwd.begin(), bwd.end());
  if (fwd != bwd)
    c.fail("backward-not-reverse-of-forward", J().raw("forward", jarr(fwd, 48)).raw("backward_reversed", jarr(bwd, 48)));
  else if (fwd != cfwd)
    c.fail("const-traversal-differs", J().raw("forward", jarr(fwd, 48)).raw("const_forward", jarr(cfwd, 48)));
  if (!m.empty() && !c.bad) {
    int f = val(b.front());
    c.eq("front-equals-back", f, val(b.back()));
    c.eq("const-front", val(cb.front()), f);
    if (!c.bad && !m.count(f))
      c.fail("front-not-an-element", J().kv("front", f));
  }
  c.lifetimesOk(tracked ? (long)m.size() : -1);
  c.sawSize(m.size(), 0);
}

template <typename T, unsigned CS, bool Conc>
void bagT(Case& c, unsigned nops) {
  typedef galois::FixedSizeBagBase<T, CS, Conc> B;
  constexpr bool tracked = ElemName<T>::tracked;
  Rng& rng               = c.rng;
  std::multiset<int> m;
  {
    std::unique_ptr<B> bp;
    if (rng.below(4) == 0) {
      unsigned n = (unsigned)rng.below(CS + 1);
      std::vector<T> init;
      for (unsigned i = 0; i < n; ++i) {
        int v = c.nextVal();
        init.emplace_back(v);
        m.insert(v);
      }
      c.op("range-construct", n);
      bp.reset(new B(init.begin(), init.end()));
    } else
      bp.reset(new B());
    B& b = *bp;
    checkBagState(c, b, m, CS, tracked);
    unsigned grow = 60;
    for (unsigned step = 0; step < nops && !c.bad; ++step) {
      if (rng.below(12) == 0)
        grow = (unsigned)rng.pick({25, 50, 60, 85});
      unsigned x = (unsigned)rng.below(100);
      bool full  = m.size() == CS;
      if (x < 3) {
        c.op("clear");
        b.clear();
        m.clear();
      } else if (x < 3 + grow * 90 / 100) {
        int v = c.nextVal();
        T* p  = nullptr;
        if constexpr (Conc) {
          T tmp(v);
          if (rng.below(2)) {
            c.op("push_front", v, NOARG, "push");
            p = b.push_front(tmp);
          } else {
            c.op("push_back", v, NOARG, "push");
            p = b.push_back(tmp);
          }
        } else {
          switch (rng.below(4)) {
          case 0:
            c.op("push_front", v, NOARG, "push");
            p = b.push_front(T(v));
            break;
          case 1:
            c.op("push_back", v, NOARG, "push");
            p = b.push_back(T(v));
            break;
          case 2:
            c.op("emplace_front", v, NOARG, "push");
            p = b.emplace_front(v);
            break;
          default:
            c.op("emplace_back", v, NOARG, "push");
            p = b.emplace_back(v);
            break;
          }
        }
        c.eq("result-null-iff-full", p == nullptr, full);
        if (!c.bad && !full) {
          m.insert(v);
          c.eq("result-value", val(*p), v);
        }
      } else {
        // removal, legal on any state
        bool useExtract = !Conc && rng.below(3) == 0;
        int f           = m.empty() ? 0 : val(b.front());
        if (useExtract) {
          if constexpr (!Conc) {
            bool fr = rng.below(2);
            c.op(fr ? "extract_front" : "extract_back", NOARG, NOARG, "extract");
            galois::optional<T> o = fr ? b.extract_front() : b.extract_back();
            c.eq("result-has-value", (bool)o.is_initialized(), !m.empty());
            if (!c.bad && !m.empty())
              c.eq("result-value", val(*o), f);
          }
        } else {
          bool fr = rng.below(2);
          c.op(fr ? "pop_front" : "pop_back", NOARG, NOARG, "pop");
          bool popped = fr ? b.pop_front() : b.pop_back();
          c.eq("result-popped", popped, !m.empty());
        }
        if (!c.bad && !m.empty()) {
          auto it = m.find(f);
          if (it != m.end())
            m.erase(it);
        }
      }
      checkBagState(c, b, m, CS, tracked);
    }
    c.phase("destructor");
  }
  c.lifetimesOk(tracked ? 0 : -1);
}

template <typename T, bool Conc>
void bagCS(Case& c, unsigned cs, unsigned nops) {
  switch (cs) {
  case 1: return bagT<T, 1, Conc>(c, nops);
  case 2: return bagT<T, 2, Conc>(c, nops);
  case 3: return bagT<T, 3, Conc>(c, nops);
  case 4: return bagT<T, 4, Conc>(c, nops);
  default: return bagT<T, 64, Conc>(c, nops);
  }
}

template <bool Conc>
void runBag(Case& c, const char* name) {
  unsigned cs   = c.rng.pick({1u, 2u, 3u, 4u, 4u, 64u});
  bool tracked  = c.rng.below(3) != 0;
  unsigned nops = c.pickOps();
  std::string cfg = "cs" + std::to_string(cs) + (tracked ? "|tracked" : "|pod");
  if (!c.begin(name, cfg, J().kv("chunk", cs).kv("elem", tracked ? "tracked" : "pod").kv("nops", nops)))
    return;
  if (tracked)
    bagCS<Tracked, Conc>(c, cs, nops);
  else
    bagCS<Pod, Conc>(c, cs, nops);
}

} // namespace

// 12-, 20- and 24-byte elements: chunk sizes 3 and 8
template <typename T>
void ringOdd(Case& c, unsigned cs, bool mid, unsigned nops) {
  if (cs == 3)
    return ringT<T, 3>(c, mid, nops);
  return ringT<T, 8>(c, mid, nops);
}

void run_FixedSizeRing(Case& c) {
  static const char* EN[] = {"tracked", "pod", "tracked12", "pod20", "tracked24"};
  unsigned elem = c.rng.below(4) ? (c.rng.below(3) != 0 ? 0u : 1u) : 2 + (unsigned)c.rng.below(3);
  unsigned cs   = elem < 2 ? c.rng.pick({1u, 2u, 3u, 3u, 4u, 4u, 8u, 64u}) : c.rng.pick({3u, 8u});
  bool mid      = c.rng.below(2) == 0;
  unsigned nops = c.pickOps();
  std::string cfg = "cs" + std::to_string(cs) + "|" + EN[elem] + (mid ? "|mid" : "|ends");
  if (!c.begin("FixedSizeRing", cfg,
               J().kv("chunk", cs).kv("elem", EN[elem]).kv("emplace_in_middle", mid).kv("nops", nops)))
    return;
  switch (elem) {
  case 0: return ringCS<Tracked>(c, cs, mid, nops);
  case 1: return ringCS<Pod>(c, cs, mid, nops);
  case 2: return ringOdd<Tracked12>(c, cs, mid, nops);
  case 3: return ringOdd<Pod20>(c, cs, mid, nops);
  default: return ringOdd<Tracked24>(c, cs, mid, nops);
  }
}

void run_FixedSizeBag(Case& c) { runBag<false>(c, "FixedSizeBag"); }
void run_ConcurrentFixedSizeBag(Case& c) { runBag<true>(c, "ConcurrentFixedSizeBag"); }

} // namespace c14
