// C01/C02/C08 driver: generates operator programs, runs them on a worklist
// policy selected from the registry, applies the post-loop oracles.
#define VERIF_MAIN_TU
#include "c01_oracle.h"

#include "galois/runtime/PagePool.h"

#include <map>
#include <set>

using namespace c01;
namespace gs = galois::substrate;

int main(int argc, char** argv) {
  Harness H("C01", argc, argv);
  gH = &H;
  galois::SharedMemSys G;
  auto& tp       = gs::getThreadPool();
  unsigned maxT  = std::min(64u, tp.getMaxThreads());
  unsigned nsock = tp.getMaxSockets();
  auto& reg      = registry();
  std::sort(reg.begin(), reg.end(), [](const WLEntry& a, const WLEntry& b) { return strcmp(a.name, b.name) < 0; });
  std::string only   = H.param("wl");       // substring filter on worklist name
  std::string focus  = H.param("focus");    // "c02": always conflicts, heavy contention; "c08": level-synchronous only
  long maxItemsParam = H.paramInt("maxitems", 0);
  long oversub       = H.paramInt("oversub", 0);
  g_focusC02         = focus == "c02";
  std::vector<const WLEntry*> pool;
  for (auto& e : reg) {
    if (!only.empty() && !strstr(e.name, only.c_str()))
      continue;
    if (!H.thorough && !(e.flags & F_QUICK) && only.empty())
      continue;
    if (focus == "c08" && !(e.flags & (F_BSP | F_BARRIER)))
      continue;
    pool.push_back(&e);
  }
  if (pool.empty()) {
    fprintf(stderr, "no worklist matches\n");
    return 2;
  }
#if VERIF_TSAN
  // registered lazily per case below
#endif

  for (long k = H.firstCase(); k < H.endCase(); ++k) {
    Rng rng(H.caseSeed(k));
    const WLEntry& wl = *pool[rng.below(pool.size())];
    auto cp           = std::make_unique<Case>();
    Case& c           = *cp;
    g_case            = &c;
    c.wlName          = wl.name;
    c.family          = wl.family;
    c.salt            = rng.next();
    c.sockets         = nsock;
    c.conflicts       = focus == "c02" ? true : rng.below(3) != 0;
    if (focus == "c08")
      c.conflicts = (wl.flags & F_BSP) ? false : rng.below(2); // BSP+cd is a separate (known) class, see C01
    c.pia = c.conflicts && rng.below(focus == "c02" ? 2 : 4) == 0;
    switch (rng.below(6)) {
    case 0: c.threads = maxT; break;
    case 1: c.threads = 1; break;
    case 2: c.threads = 2; break;
    default: c.threads = 1 + (unsigned)rng.below(maxT); break;
    }
    if (focus == "c02" && c.threads < 2)
      c.threads = std::min(maxT, 2 + (unsigned)rng.below(maxT));
    c.recordLevels = wl.flags & (F_BSP | F_BARRIER);
    // a level-synchronous OBIM without the monotonic option also accepts pushes that are more urgent than the level
    // being executed; the level-order oracle (C08) is only defined for non-decreasing pushes, conservation is not
    if ((wl.flags & F_BARRIER) && !(wl.flags & F_MONOTONE) && focus != "c08" && rng.below(2) == 0) {
      c.anyPrioChildren = true;
      c.recordLevels    = false;
    }
    generate(c, rng, wl, H.thorough, maxItemsParam);
    bool piaStress = false;
    if (focus == "c02" && c.pia && rng.below(3) == 0 && !VERIF_ASAN && !VERIF_TSAN) {
      // "discarded" is observed as no linear growth: every attempt allocates 4000 bytes from the
      // per-iteration allocator; if aborted or committed attempts kept their allocations the page pool
      // would grow by (attempts * 4000 B / 2 MB) pages
      piaStress = true;
      for (auto& p : c.prog)
        p.allocBytes = 4000;
    }
    // "discarded before it is retried": in an abort storm (every item aborts voluntarily on its first K attempts) a thread
    // runs long stretches of aborted attempts without a commit in between. Each attempt takes 256 KiB from the
    // per-iteration allocator; if an aborted attempt kept its allocation until the thread's next commit, the threads would
    // together hold about items*K*256 KiB at the end of the storm, against one 2 MB page per thread when it is discarded.
    bool piaStorm = false;
    uint64_t stormAttempts = 0;
    if (focus == "c02" && c.pia && !piaStress && !VERIF_ASAN && !VERIF_TSAN && !c.prog.empty() && c.prog[0].vaborts >= 4) {
      bool all = true;
      for (auto& p : c.prog)
        all &= p.vaborts >= 4;
      if (all) {
        piaStorm = true;
        for (auto& p : c.prog) {
          p.allocBytes = 256u << 10;
          stormAttempts += p.vaborts;
        }
      }
    }
    size_t pagesBefore = galois::runtime::numPagePoolAllocTotal();
    unsigned pointProb = (unsigned)rng.pick({0, 0, 64, 1024, 4096});
    unsigned spinProb  = (unsigned)rng.pick({0, 0, 512, 8192});
    if (oversub)
      spinProb = 65535;
    uint64_t pseed = rng.next();
    H.hangKey      = c.key("C01", "hang");
    H.begin(k, J().kv("component", c.family).kv("worklist", c.wlName).kv("conflict_detection", c.conflicts)
                   .kv("children_at_any_priority", c.anyPrioChildren)
                   .kv("per_iter_alloc", c.pia).kv("threads", c.threads).kv("sockets", nsock)
                   .kv("items", (uint64_t)c.prog.size()).kv("initial", (uint64_t)c.initial.size())
                   .kv("objects", c.nObjs).kv("pointProb", pointProb).kv("spinProb", spinProb).str());
#if VERIF_TSAN
    clear_payloads();
    if (c.nObjs)
      register_payload(c.objs.get(), sizeof(Obj) * c.nObjs, "lockable-payload");
    register_payload(c.itemPayload.get(), sizeof(uint64_t) * c.prog.size(), "worklist-payload");
    g_tsanPayloadReports.store(0);
#endif
    galois::setActiveThreads(c.threads);
    perturb_case(pseed, pointProb, spinProb, 40);
    c.loopActive.store(1);
    wl.run(c, c.conflicts, c.pia);
    c.loopActive.store(0);
    perturb_off();

    for (auto& v : c.viols)
      if (v.set.load() == 2)
        H.violation(v.key, J().kv("worklist", c.wlName).kv("threads", c.threads).kv("detail", v.detail).str());
    Counts cnt        = checkAfter(c, H);
    uint64_t piaStressCases = 0;
    if (piaStress) {
      size_t pagesAfter = galois::runtime::numPagePoolAllocTotal();
      uint64_t bytes    = cnt.starts * 4000ull;
      uint64_t wouldNeed = bytes / (2ull << 20);
      if (wouldNeed >= 16) { // only decisive when a leak would need at least 16 pages
        piaStressCases = 1;
        if (pagesAfter - pagesBefore > wouldNeed / 4 + 4 + 2 * c.threads)
          H.violation(c.key("C02", "per-iter-alloc-not-discarded"),
                      J().kv("worklist", c.wlName).kv("attempts", cnt.starts).kv("bytes_allocated_by_attempts", bytes)
                          .kv("page_pool_pages_before", (uint64_t)pagesBefore).kv("after", (uint64_t)pagesAfter)
                          .kv("pages_a_leak_would_need", wouldNeed).str());
      }
    }
    if (piaStorm && c.threads > 1) {
      size_t pagesAfter  = galois::runtime::numPagePoolAllocTotal();
      uint64_t keptPages = stormAttempts * (256u << 10) / (2ull << 20); // what "kept until the next commit" would hold
      uint64_t allowed   = 3ull * c.threads + 8;                        // one page per thread + worklist/abort-queue chunks
      if (keptPages >= 4 * allowed) {                                   // only decisive when the difference is unmistakable
        piaStressCases = 1;
        if (pagesAfter - pagesBefore > allowed + keptPages / 8)
          H.violation(c.key("C02", "per-iter-alloc-kept-across-aborts"),
                      J().kv("worklist", c.wlName).kv("aborted_attempts_in_storm", stormAttempts).kv("bytes_per_attempt", 256u << 10)
                          .kv("page_pool_pages_before", (uint64_t)pagesBefore).kv("after", (uint64_t)pagesAfter)
                          .kv("pages_if_kept_until_next_commit", keptPages).kv("allowed", allowed).kv("threads", c.threads).str());
      }
    }
    uint64_t levels   = 0;
    if (c.recordLevels && !(c.conflicts && (wl.flags & F_BSP)))
      checkLevels(c, H, wl, levels);
#if VERIF_TSAN
    uint64_t pr = g_tsanPayloadReports.exchange(0);
    if (pr)
      H.violation(c.key("C06", !strcmp(g_tsanLastPayload, "worklist-payload") ? "worklist-push-pop-no-happens-before"
                                                                          : "lockable-handover-no-happens-before"),
                  J().kv("worklist", c.wlName).kv("tsan_payload_reports", pr).kv("region", std::string(g_tsanLastPayload)).str());
#endif
    uint64_t aborts   = cnt.starts > cnt.committed ? cnt.starts - cnt.committed : 0;
    bool nontrivial   = cnt.threadsUsed >= 2 && (aborts > 0 || c.prog.size() > c.initial.size());
    // signature: worklist, cd, sockets, threads bucket, shape, and what was observed
    std::string sig = c.wlName + "|" + c.cd() + "|s" + std::to_string(nsock) + "|t" + std::to_string(c.threads) +
                      "|n" + std::to_string(c.prog.size()) + "|o" + std::to_string(c.nObjs) + "|a" +
                      (aborts ? "1" : "0") + "|u" + std::to_string(cnt.threadsUsed);
    H.end(k, sig, nontrivial,
          J().kv("items_committed", cnt.committed).kv("attempts", cnt.starts).kv("aborted_attempts", aborts)
              .kv("voluntary_aborts", cnt.vaborts).kv("threads_that_committed", cnt.threadsUsed)
              .kv("commits_with_objects_replayed", cnt.objCommits).kv("levels_checked", levels)
              .kv("max_attempts_without_commit", c.maxSinceCommit.load())
              .kv("per_iter_alloc_growth_cases", piaStressCases)
              .kv("multi_socket_cases", (int)(nsock > 1 && c.threads > 1))
              .kv(("cases_" + c.family + (c.conflicts ? "_cd" : "_nocd")).c_str(), 1).str());
    g_case = nullptr;
  }
  return 0;
}
