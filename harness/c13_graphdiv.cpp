// C13 — work-division routines, part 2: the graph divisions.
//   determine_block_division, divideNodesBinarySearch (node/edge weights, scale
//   factors, node/edge offsets, several prefix-sum container types),
//   determineUnitRangesFromPrefixSum / FromGraph (whole range and sub-range),
//   FileGraph::divideByNode / divideByEdge, OfflineGraph::divideByNode,
//   LC_CSR_Graph thread ranges (readGraph, initializeLocalRanges, LocalRange).
// This TU: main(), the case plan and everything that works on a prefix sum;
// c13_graphobj.cpp: everything that needs a graph object.
//
// Oracle: ref/c13_tiling.h (see c13_blocks.cpp).
#define VERIF_MAIN_TU
#include "c13_graphdiv.h"

#include "galois/Galois.h"
#include "galois/LargeArray.h"
#include "galois/PODResizeableArray.h"
#include "galois/graphs/GraphHelpers.h"

#include <signal.h>
#include <sys/stat.h>

using namespace c13;
namespace gg = galois::graphs;

// ------------------------------------------------------------------ determine_block_division
static void blockDivision(Acc& A, uint32_t numDiv, const std::vector<unsigned>& in, bool exhaustive) {
  std::vector<unsigned> sf = in;
  uint32_t nb              = gg::internal::determine_block_division(numDiv, sf);
  ++A.calls;
  uint64_t expect = 0;
  if (in.empty())
    expect = numDiv;
  else
    for (unsigned x : in) expect += x;
  auto wit = [&] { return J().kv("numDivisions", numDiv).raw("scaleFactor", jarr(in)).kv("returned", nb).raw("prefix", jarr(sf)).str(); };
  if (sf.size() != numDiv) {
    A.violation("bad-vector-size", "", wit());
    return;
  }
  Tiling t(0, (pos_t)expect, numDiv);
  for (uint32_t i = 0; i < numDiv; ++i)
    t.feed(i, i ? sf[i - 1] : 0, sf[i]);
  A.finishDivision(t, expect, exhaustive, in.empty() ? "default" : "scaled", wit);
  if (nb != expect)
    A.violation("wrong-total", in.empty() ? "default" : "scaled", wit());
}

static void blockDivisionExhaustive(Acc& A, unsigned maxDiv) {
  for (uint32_t nd = 0; nd <= maxDiv + 30; ++nd)
    blockDivision(A, nd, {}, true);
  for (uint32_t nd = 1; nd <= maxDiv; ++nd) {
    uint64_t combos = 1;
    for (uint32_t i = 0; i < nd; ++i) combos *= 4;
    for (uint64_t c = 0; c < combos; ++c) {
      std::vector<unsigned> sf(nd);
      uint64_t x = c;
      for (auto& v : sf) {
        v = (unsigned)(x & 3);
        x >>= 2;
      }
      blockDivision(A, nd, sf, true);
    }
  }
}

static std::vector<unsigned> randomScale(Rng& rng, size_t total) {
  std::vector<unsigned> sf(total);
  unsigned style = (unsigned)rng.below(5);
  uint64_t sum   = 0;
  for (auto& v : sf) {
    switch (style) {
    case 0: v = 1 + (unsigned)rng.below(4); break;
    case 1: v = (unsigned)rng.below(4); break;                   // zeros allowed
    case 2: v = rng.chance(1, 4) ? 1 + (unsigned)rng.below(1000) : 0; break; // mostly zero
    case 3: v = (unsigned)logUniform(rng, 100000); break;
    default: v = 1; break;
    }
    sum += v;
  }
  if (sum == 0 && total)
    sf[rng.below(total)] = 1; // the routine divides by the block count
  return sf;
}

// ------------------------------------------------------------------ divideNodesBinarySearch
struct DivParams {
  uint64_t numNodes = 0, numEdges = 0;
  size_t nw = 0, ew = 1;
  std::vector<unsigned> sf;
  uint64_t edgeOff = 0, nodeOff = 0;
};

template <typename NodeT, typename PS>
static void divideAll(Acc& A, PS& ps, const DivParams& p, size_t total, bool exhaustive, const std::string& flags,
                      const std::function<std::string()>& wit) {
  Tiling tn(0, (pos_t)p.numNodes, total), te(0, (pos_t)p.numEdges, total);
  for (size_t id = 0; id < total; ++id) {
    auto r = gg::divideNodesBinarySearch<PS, NodeT>((NodeT)p.numNodes, p.numEdges, p.nw, p.ew, id, total, ps, p.sf,
                                                    p.edgeOff, p.nodeOff);
    ++A.calls;
    tn.feed(id, (pos_t)*r.first.first, (pos_t)*r.first.second);
    te.feed(id, (pos_t)*r.second.first, (pos_t)*r.second.second);
  }
  A.finishDivision(tn, p.numNodes, exhaustive, "nodes" + flags, wit);
  secondaryCheck(A, te, "edges" + flags, wit);
}

static std::string divWitness(const std::vector<uint64_t>& deg, const DivParams& p, size_t total, const char* cont) {
  return J().raw("degrees", degJson(deg)).kv("nodesInPrefix", deg.size()).kv("numNodes", p.numNodes).kv("numEdges", p.numEdges)
      .kv("nodeWeight", p.nw).kv("edgeWeight", p.ew).kv("total", total).raw("scaleFactor", jarr(p.sf))
      .kv("edgeOffset", p.edgeOff).kv("nodeOffset", p.nodeOff).kv("prefixType", cont).str();
}

static void divideExhaustive(Acc& A, unsigned nLo, unsigned nHi, Weights w, bool u32, unsigned maxTotal) {
  std::vector<uint64_t> deg, pre;
  for (unsigned n = nLo; n <= nHi; ++n)
    for (uint64_t d = 0; d < (1ULL << (2 * n)); ++d) {
      nthSmallDegrees(d, n, deg);
      pre = prefixOf(deg);
      DivParams p;
      p.numNodes = n;
      p.numEdges = n ? pre.back() : 0;
      p.nw       = w.node;
      p.ew       = w.edge;
      for (size_t total = 1; total <= maxTotal; ++total) {
        auto wit = [&] { return divWitness(deg, p, total, "std::vector<uint64_t>"); };
        if (u32)
          divideAll<uint32_t>(A, pre, p, total, true, "", wit);
        else
          divideAll<uint64_t>(A, pre, p, total, true, "", wit);
      }
    }
}

static void divideScaleExhaustive(Acc& A, unsigned nHi, Weights w, unsigned maxTotal) {
  std::vector<uint64_t> deg, pre;
  for (unsigned n = 0; n <= nHi; ++n)
    for (uint64_t d = 0; d < (1ULL << (2 * n)); ++d) {
      nthSmallDegrees(d, n, deg);
      pre = prefixOf(deg);
      DivParams p;
      p.numNodes = n;
      p.numEdges = n ? pre.back() : 0;
      p.nw       = w.node;
      p.ew       = w.edge;
      for (size_t total = 1; total <= maxTotal; ++total)
        for (uint64_t c = 1; c < (1ULL << (2 * total)); ++c) { // c == 0: all factors zero, division by the block count
          p.sf.resize(total);
          uint64_t x = c;
          for (auto& v : p.sf) {
            v = (unsigned)(x & 3);
            x >>= 2;
          }
          divideAll<uint64_t>(A, pre, p, total, true, ",scale", [&] { return divWitness(deg, p, total, "std::vector<uint64_t>"); });
        }
    }
}

// all sub-views [off, off+cnt) of all small prefix sums; style 0: index offset
// (nodeOffset/edgeOffset arguments), style 1: shifted pointer + edgeOffset only
// (what FileGraph::divideByNode does after partFromFile)
static void divideOffsetExhaustive(Acc& A, unsigned mHi, Weights w, int style, unsigned maxTotal) {
  std::vector<uint64_t> deg, pre;
  for (unsigned m = 0; m <= mHi; ++m)
    for (uint64_t d = 0; d < (1ULL << (2 * m)); ++d) {
      nthSmallDegrees(d, m, deg);
      pre = prefixOf(deg);
      for (unsigned off = 0; off <= m; ++off)
        for (unsigned cnt = 0; off + cnt <= m; ++cnt) {
          DivParams p;
          p.numNodes = cnt;
          p.edgeOff  = off ? pre[off - 1] : 0;
          p.numEdges = cnt ? pre[off + cnt - 1] - p.edgeOff : 0;
          p.nw       = w.node;
          p.ew       = w.edge;
          for (size_t total = 1; total <= maxTotal; ++total) {
            if (style == 0) {
              p.nodeOff = off;
              divideAll<uint64_t>(A, pre, p, total, true, ",offset", [&] { return divWitness(deg, p, total, "std::vector<uint64_t>"); });
            } else {
              uint64_t* ptr = pre.data() + off;
              p.nodeOff     = 0;
              divideAll<uint64_t>(A, ptr, p, total, true, ",offset", [&] {
                return J().raw("shifted_by", std::to_string(off)).raw("rest", divWitness(deg, p, total, "uint64_t*")).str();
              });
            }
          }
        }
    }
}

// prefix sum given by a formula: sizes beyond what fits in memory
struct VirtualPS {
  uint64_t n = 0;
  int mode   = 0;
  uint64_t c = 1, h = 0, D = 0, k = 0;
  uint64_t operator[](uint64_t i) const {
    switch (mode) {
    case 0: return (i + 1) * c;                      // constant degree c
    case 1: return i < h ? 0 : D;                    // all D edges on node h
    case 2: return std::min<uint64_t>(i + 1, k) * c; // edges on the first k nodes only
    default: return (i + 1) * c + (i >= h ? D : 0);  // constant degree plus a hub
    }
  }
  size_t size() const { return n; }
  std::string str() const {
    return J().kv("virtual_nodes", n).kv("mode", mode).kv("c", c).kv("hub", h).kv("hubDegree", D).kv("k", k).str();
  }
};

// variant bit 0: scale factors, bit 1: offsets; cont: 0 vector 1 LargeArray 2 pointer 3 PODResizeableArray
static void divideRandom(Acc& A, Rng& rng, unsigned dist, unsigned variant, int cont, unsigned reps) {
  for (unsigned i = 0; i < reps; ++i) {
    size_t m = rng.chance(1, 3) ? (size_t)rng.below(13) : (size_t)logUniform(rng, 4000);
    std::vector<uint64_t> deg = genDegrees(rng, dist, m, rng.pick<uint64_t>({1, 3, 10, 100}));
    std::vector<uint64_t> pre = prefixOf(deg);
    DivParams p;
    size_t off = 0, cnt = m;
    if (variant & 2) {
      off = (size_t)rng.below(m + 1);
      cnt = (size_t)rng.below(m - off + 1);
      if (rng.chance(1, 4)) cnt = m - off;
    }
    p.numNodes = cnt;
    p.edgeOff  = off ? pre[off - 1] : 0;
    p.numEdges = cnt ? pre[off + cnt - 1] - p.edgeOff : 0;
    p.nodeOff  = off;
    pickWeights(rng, cnt, p.numEdges, p.nw, p.ew);
    bool u32           = rng.chance(1, 2);
    std::string flags  = std::string(variant & 1 ? ",scale" : "") + (variant & 2 ? ",offset" : "");
    // containers
    galois::LargeArray<uint64_t> la;
    galois::PODResizeableArray<uint64_t> pod;
    uint64_t* ptr = pre.data();
    if (cont == 1 && m) {
      la.allocateInterleaved(m);
      for (size_t k = 0; k < m; ++k) la[k] = pre[k];
    } else if (cont == 3) {
      pod.resize(m);
      for (size_t k = 0; k < m; ++k) pod[k] = pre[k];
    } else if (cont == 2 && (variant & 2)) { // shifted pointer style
      ptr += off;
      p.nodeOff = 0;
    }
    for (size_t total : pickTotals(rng, cnt, 4, 400)) {
      p.sf.clear();
      if (variant & 1)
        p.sf = randomScale(rng, total);
      const char* cname = cont == 0 ? "std::vector<uint64_t>" : cont == 1 ? "LargeArray<uint64_t>" : cont == 2 ? "uint64_t*" : "PODResizeableArray<uint64_t>";
      auto wit          = [&] { return divWitness(deg, p, total, cname); };
      switch (cont) {
      case 0:
        if (u32) divideAll<uint32_t>(A, pre, p, total, false, flags, wit);
        else divideAll<uint64_t>(A, pre, p, total, false, flags, wit);
        break;
      case 1: {
        const galois::LargeArray<uint64_t>& cla = la; // DistGraph passes getEdgePrefixSum() (const&)
        if (u32) divideAll<uint32_t>(A, cla, p, total, false, flags, wit);
        else divideAll<uint64_t>(A, la, p, total, false, flags, wit);
        break;
      }
      case 2:
        if (u32) divideAll<uint32_t>(A, ptr, p, total, false, flags, wit);
        else divideAll<uint64_t>(A, ptr, p, total, false, flags, wit);
        break;
      default:
        if (u32) divideAll<uint32_t>(A, pod, p, total, false, flags, wit);
        else divideAll<uint64_t>(A, pod, p, total, false, flags, wit);
        break;
      }
    }
  }
}

static void divideVirtual(Acc& A, Rng& rng, bool u32, unsigned reps) {
  for (unsigned i = 0; i < reps; ++i) {
    VirtualPS v;
    uint64_t maxN = u32 ? 0xffffffffULL : (1ULL << 40);
    v.n           = rng.chance(1, 4) ? maxN - rng.below(3) : logUniform(rng, maxN);
    v.mode        = (int)rng.below(4);
    v.c           = rng.pick<uint64_t>({0, 1, 1, 2, 7, 1000});
    v.h           = rng.below(v.n);
    v.D           = logUniform(rng, 1ULL << 40);
    v.k           = rng.below(v.n + 1);
    DivParams p;
    p.numNodes = v.n;
    p.numEdges = v[v.n - 1];
    pickWeights(rng, p.numNodes, p.numEdges, p.nw, p.ew);
    bool scale = rng.chance(1, 3);
    for (size_t total : pickTotals(rng, v.n, 3, 300)) {
      p.sf.clear();
      if (scale)
        p.sf = randomScale(rng, total);
      auto wit = [&] {
        return J().raw("prefix", v.str()).kv("numEdges", p.numEdges).kv("nodeWeight", p.nw).kv("edgeWeight", p.ew)
            .kv("total", total).raw("scaleFactor", jarr(p.sf)).str();
      };
      if (u32)
        divideAll<uint32_t>(A, v, p, total, false, scale ? ",scale,huge" : ",huge", wit);
      else
        divideAll<uint64_t>(A, v, p, total, false, scale ? ",scale,huge" : ",huge", wit);
    }
  }
}

// ------------------------------------------------------------------ determineUnitRangesFromPrefixSum
// judge an offset vector r[0..units] against the range [lo,hi)
void c13::judgeUnitVector(Acc& A, const std::vector<uint32_t>& r, uint32_t units, uint64_t lo, uint64_t hi, bool exhaustive,
                     const std::string& cls, const std::function<std::string()>& wit) {
  if (r.size() != (size_t)units + 1) {
    A.violation("bad-vector-size", cls, wit());
    return;
  }
  Tiling t((pos_t)lo, (pos_t)hi, units);
  for (uint32_t i = 0; i < units; ++i)
    t.feed(i, r[i], r[i + 1]);
  A.finishDivision(t, hi - lo, exhaustive, cls, [&] { return J().raw("returned", jarr(r)).raw("args", wit()).str(); });
}

template <typename PS>
static void unitRangesPS(Acc& A, PS& ps, uint64_t N, uint32_t units, bool sub, uint32_t b, uint32_t e, uint32_t alpha,
                         bool exhaustive, const std::function<std::string()>& wit) {
  std::vector<uint32_t> r = sub ? gg::determineUnitRangesFromPrefixSum(units, ps, b, e, alpha)
                                : gg::determineUnitRangesFromPrefixSum(units, ps, alpha);
  ++A.calls;
  uint64_t lo = sub ? b : 0, hi = sub ? e : N;
  judgeUnitVector(A, r, units, lo, hi, exhaustive, unitClass(sub, units, hi - lo, lo), wit);
}

static void unitRangesPSExhaustive(Acc& A, unsigned nLo, unsigned nHi, bool sub, uint32_t alpha, unsigned maxUnits) {
  std::vector<uint64_t> deg, pre;
  for (unsigned n = nLo; n <= nHi; ++n)
    for (uint64_t d = 0; d < (1ULL << (2 * n)); ++d) {
      nthSmallDegrees(d, n, deg);
      pre = prefixOf(deg);
      for (uint32_t units = 1; units <= maxUnits; ++units) {
        if (!sub) {
          unitRangesPS(A, pre, n, units, false, 0, 0, alpha, true,
                       [&] { return J().raw("degrees", degJson(deg)).kv("units", units).kv("nodeAlpha", alpha).str(); });
        } else {
          for (uint32_t b = 0; b <= n; ++b)
            for (uint32_t e = b; e <= n; ++e)
              unitRangesPS(A, pre, n, units, true, b, e, alpha, true, [&] {
                return J().raw("degrees", degJson(deg)).kv("units", units).kv("beginNode", b).kv("endNode", e).kv("nodeAlpha", alpha).str();
              });
        }
      }
    }
}

// cont: 0 vector, 1 const LargeArray (DistGraph), 2 PODResizeableArray (NewGeneric)
static void unitRangesPSRandom(Acc& A, Rng& rng, int cont, bool sub, unsigned reps) {
  for (unsigned i = 0; i < reps; ++i) {
    size_t n                  = rng.chance(1, 3) ? (size_t)rng.below(13) : (size_t)logUniform(rng, 4000);
    unsigned dist             = (unsigned)rng.below(NDIST);
    std::vector<uint64_t> deg = genDegrees(rng, dist, n, rng.pick<uint64_t>({1, 3, 10, 100}));
    std::vector<uint64_t> pre = prefixOf(deg);
    galois::LargeArray<uint64_t> la;
    galois::PODResizeableArray<uint64_t> pod;
    if (cont == 1 && n) {
      la.allocateInterleaved(n);
      for (size_t k = 0; k < n; ++k) la[k] = pre[k];
    } else if (cont == 2) {
      pod.resize(n);
      for (size_t k = 0; k < n; ++k) pod[k] = pre[k];
    }
    const galois::LargeArray<uint64_t>& cla = la;
    for (size_t units : pickTotals(rng, n, 4, 300)) {
      uint32_t b = 0, e = (uint32_t)n;
      if (sub) {
        b = (uint32_t)rng.below(n + 1);
        e = b + (uint32_t)rng.below(n - b + 1);
        if (rng.chance(1, 3)) e = (uint32_t)n;
      }
      uint32_t alpha = (uint32_t)rng.pick<uint64_t>({0, 0, 1, 2, 10, logUniform(rng, 100000)});
      if (dist == 10 && alpha > 10) alpha = 1;
      auto wit = [&] {
        return J().raw("degrees", degJson(deg)).kv("nodes", n).kv("dist", DIST_NAMES[dist]).kv("units", units)
            .kv("beginNode", b).kv("endNode", e).kv("nodeAlpha", alpha).kv("sub", sub).str();
      };
      switch (cont) {
      case 0: unitRangesPS(A, pre, n, (uint32_t)units, sub, b, e, alpha, false, wit); break;
      case 1: unitRangesPS(A, cla, n, (uint32_t)units, sub, b, e, alpha, false, wit); break;
      default: unitRangesPS(A, pod, n, (uint32_t)units, sub, b, e, alpha, false, wit); break;
      }
    }
  }
}

static void unitRangesVirtual(Acc& A, Rng& rng, unsigned reps) {
  for (unsigned i = 0; i < reps; ++i) {
    VirtualPS v;
    v.n    = rng.chance(1, 3) ? 0xffffffffULL - rng.below(3) : logUniform(rng, 0xffffffffULL);
    v.mode = (int)rng.below(4);
    v.c    = rng.pick<uint64_t>({0, 1, 1, 2, 7, 1000});
    v.h    = rng.below(v.n);
    v.D    = logUniform(rng, 1ULL << 40);
    v.k    = rng.below(v.n + 1);
    bool sub = rng.chance(1, 2);
    for (size_t units : pickTotals(rng, v.n, 3, 300)) {
      uint32_t b = 0, e = (uint32_t)v.n;
      if (sub) {
        b = (uint32_t)rng.below(v.n + 1);
        e = b + (uint32_t)rng.below(v.n - b + 1);
      }
      uint32_t alpha = (uint32_t)rng.pick<uint64_t>({0, 1, 3, 1000});
      unitRangesPS(A, v, v.n, (uint32_t)units, sub, b, e, alpha, false, [&] {
        return J().raw("prefix", v.str()).kv("units", units).kv("beginNode", b).kv("endNode", e).kv("nodeAlpha", alpha).kv("sub", sub).str();
      });
    }
  }
}

// ------------------------------------------------------------------ plan
enum Comp { BLOCKDIV, DIVIDE, DIVIDE_VIRTUAL, UR_PS, UR_PS_VIRTUAL, UR_GRAPH, FILEGRAPH, OFFLINE, CSR_THREADS };
enum Fam { EXH, EXH_SCALE, EXH_OFFSET, RAND };
struct Entry {
  Comp comp;
  Fam fam;
  int a, b, c; // component specific
};

int main(int argc, char** argv) {
  Harness H("C13", argc, argv);
  galois::SharedMemSys G;
  unsigned maxT = galois::substrate::getThreadPool().getMaxThreads();
  maxT          = std::min<unsigned>(maxT, (unsigned)H.paramInt("maxthreads", 64));
  galois::setActiveThreads(std::min(maxT, 4u));

  const unsigned NX    = H.thorough ? 8 : 7; // exhaustive prefix sums of <= NX nodes over degrees {0,1,2,5}
  const unsigned MAXP  = H.thorough ? 10 : 9; // part counts 1..MAXP (> NX: more parts than nodes)
  const unsigned scale = H.thorough ? 4 : 1;

  // scratch directory for .gr files: /var/tmp/verif-c13-<pid>-XXXXXX; directories left behind by harness
  // processes that died in a case (crash findings) are removed by the next process
  if (DIR* d = opendir("/var/tmp")) {
    while (dirent* e = readdir(d)) {
      long pid = 0;
      if (sscanf(e->d_name, "verif-c13-%ld-", &pid) == 1 && pid > 0 && kill((pid_t)pid, 0) != 0) {
        std::string dir = std::string("/var/tmp/") + e->d_name;
        for (const char* f : {"/fg.gr", "/og.gr", "/csr.gr"})
          unlink((dir + f).c_str());
        rmdir(dir.c_str());
      }
    }
    closedir(d);
  }
  char tmpl[64];
  snprintf(tmpl, sizeof tmpl, "/var/tmp/verif-c13-%ld-XXXXXX", (long)getpid());
  if (!mkdtemp(tmpl)) {
    perror("mkdtemp");
    return 2;
  }
  GraphObjCtx GC{H, maxT, tmpl, scale};

  std::vector<Entry> exh, rnd;
  exh.push_back({BLOCKDIV, EXH, 0, 0, 0});
  for (int w = 0; w < 5; ++w) { // a: weights, b: node-count slice
    exh.push_back({DIVIDE, EXH, w, 0, 0});
    exh.push_back({DIVIDE, EXH, w, 1, 0});
    exh.push_back({DIVIDE, EXH, w, 2, 0});
  }
  exh.push_back({DIVIDE, EXH_SCALE, 0, 0, 0});
  exh.push_back({DIVIDE, EXH_SCALE, 3, 0, 0});
  exh.push_back({DIVIDE, EXH_OFFSET, 0, 0, 0});
  exh.push_back({DIVIDE, EXH_OFFSET, 2, 1, 0});
  for (int al : {0, 1, 3}) { // a: alpha, b: slice, c: sub
    exh.push_back({UR_PS, EXH, al, 0, 0});
    exh.push_back({UR_PS, EXH, al, 1, 0});
  }
  for (int al : {0, 2}) {
    exh.push_back({UR_PS, EXH, al, 0, 1});
    if (al == 0 || H.thorough) // the largest sub-range slice for the other node weight only in the thorough tier
      exh.push_back({UR_PS, EXH, al, 1, 1});
  }
  for (int al : {0, 2}) {
    exh.push_back({UR_GRAPH, EXH, al, 0, 0});
    exh.push_back({UR_GRAPH, EXH, al, 1, 0});
  }
  exh.push_back({UR_GRAPH, EXH, 0, 0, 1});
  exh.push_back({UR_GRAPH, EXH, 0, 1, 1});
  exh.push_back({FILEGRAPH, EXH, 0, 0, 0}); // a: source, b: byEdge, c: slice(weights)
  exh.push_back({FILEGRAPH, EXH, 0, 0, 1});
  exh.push_back({FILEGRAPH, EXH, 0, 1, 0});
  exh.push_back({OFFLINE, EXH, 1, 0, 0}); // a: version, b: scale, c: slice
  exh.push_back({OFFLINE, EXH, 1, 1, 0});

  rnd.push_back({BLOCKDIV, RAND, 0, 0, 0});
  for (int d = 0; d < (int)NDIST; ++d)
    for (int v = 0; v < 4; ++v) rnd.push_back({DIVIDE, RAND, d, v, 0}); // a: distribution, b: variant, c: container
  for (int c = 1; c <= 3; ++c) {
    rnd.push_back({DIVIDE, RAND, -1, 0, c});
    rnd.push_back({DIVIDE, RAND, -1, 3, c});
  }
  rnd.push_back({DIVIDE_VIRTUAL, RAND, 0, 0, 0});
  rnd.push_back({DIVIDE_VIRTUAL, RAND, 1, 0, 0});
  for (int c = 0; c < 3; ++c) { // a: container, c: sub
    rnd.push_back({UR_PS, RAND, c, 0, 0});
    rnd.push_back({UR_PS, RAND, c, 0, 1});
  }
  rnd.push_back({UR_PS_VIRTUAL, RAND, 0, 0, 0});
  for (int g : {0, 4}) { // a: graph kind (0 no_lockable, 4 abstract locks), c: sub
    rnd.push_back({UR_GRAPH, RAND, g, 0, 0});
    rnd.push_back({UR_GRAPH, RAND, g, 0, 1});
  }
  for (int s = 0; s < 3; ++s) {
    rnd.push_back({FILEGRAPH, RAND, s, 0, 0});
    rnd.push_back({FILEGRAPH, RAND, s, 1, 0});
  }
  for (int v = 1; v <= 2; ++v) {
    rnd.push_back({OFFLINE, RAND, v, 0, 0});
    rnd.push_back({OFFLINE, RAND, v, 1, 0});
  }
  for (int g = 0; g < 4; ++g) rnd.push_back({CSR_THREADS, RAND, g, 0, 0});

  // --param focus=threads|file|offline|units : only the random families of the graph-object components
  // (used for the extra runs on other virtual topologies, where only thread counts / socket counts matter)
  std::string focus = H.param("focus");
  if (!focus.empty()) {
    std::vector<Entry> keep;
    for (auto& e : rnd)
      if ((focus == "threads" && e.comp == CSR_THREADS) || (focus == "file" && e.comp == FILEGRAPH) ||
          (focus == "offline" && e.comp == OFFLINE) || (focus == "units" && e.comp == UR_GRAPH) ||
          (focus == "graphobj" && (e.comp == CSR_THREADS || e.comp == FILEGRAPH || e.comp == UR_GRAPH)))
        keep.push_back(e);
    exh.clear();
    rnd = keep;
    if (rnd.empty()) {
      fprintf(stderr, "unknown focus %s\n", focus.c_str());
      return 2;
    }
  }
  if (H.paramInt("plan", 0)) {
    printf("exhaustive=%zu random=%zu\n", exh.size(), rnd.size());
    rmdir(tmpl);
    return 0;
  }

  for (long k = H.firstCase(); k < H.endCase(); ++k) {
    Rng rng(mix(H.caseSeed(k), (uint64_t)H.paramInt("salt", 0))); // salt: other random inputs for the same plan
    Entry en = (size_t)k < exh.size() ? exh[k] : rnd[(k - exh.size()) % rnd.size()];
    std::string comp, fam, variant;
    switch (en.fam) {
    case EXH: fam = "exhaustive"; break;
    case EXH_SCALE: fam = "exhaustive-scale-factors"; break;
    case EXH_OFFSET: fam = "exhaustive-offsets"; break;
    case RAND: fam = "random"; break;
    }
    int dist = en.a;
    switch (en.comp) {
    case BLOCKDIV: comp = "determine_block_division"; break;
    case DIVIDE:
      comp = "divideNodesBinarySearch";
      if (en.fam == RAND) {
        if (dist < 0) dist = (int)rng.below(NDIST);
        variant = std::string(DIST_NAMES[dist]) + (en.b & 1 ? "+scale" : "") + (en.b & 2 ? "+offset" : "") + "/cont" + std::to_string(en.c);
      } else
        variant = "w" + std::to_string(EXH_WEIGHTS[en.a].node) + ":" + std::to_string(EXH_WEIGHTS[en.a].edge) + "/slice" + std::to_string(en.b);
      break;
    case DIVIDE_VIRTUAL: comp = "divideNodesBinarySearch"; variant = en.a ? "virtual-prefix/uint32" : "virtual-prefix/uint64"; break;
    case UR_PS:
      comp = "determineUnitRangesFromPrefixSum";
      variant = en.fam == RAND ? "cont" + std::to_string(en.a) + (en.c ? "/sub" : "/whole")
                               : "alpha" + std::to_string(en.a) + "/slice" + std::to_string(en.b) + (en.c ? "/sub" : "/whole");
      break;
    case UR_PS_VIRTUAL: comp = "determineUnitRangesFromPrefixSum"; variant = "virtual-prefix"; break;
    case UR_GRAPH:
      comp = "determineUnitRangesFromGraph";
      variant = en.fam == RAND ? std::string(graphKindName(en.a)) + (en.c ? "/sub" : "/whole")
                               : "alpha" + std::to_string(en.a) + "/slice" + std::to_string(en.b) + (en.c ? "/sub" : "/whole");
      break;
    case FILEGRAPH:
      comp    = en.b ? "FileGraph::divideByEdge" : "FileGraph::divideByNode";
      variant = std::string(en.a == 0 ? "FileGraphWriter" : en.a == 1 ? "fromFile" : "partFromFile") + "/slice" + std::to_string(en.c);
      break;
    case OFFLINE:
      comp    = "OfflineGraph::divideByNode";
      variant = "v" + std::to_string(en.a) + (en.b ? "/scale" : "");
      break;
    case CSR_THREADS: comp = "LC_CSR_Graph thread ranges"; variant = graphKindName(en.a); break;
    }
    H.hangKey = "C13:" + comp + ":hang";
    // params.component (used by the driver in crash keys) names the graph flavour too; oracle keys use `comp`
    std::string pcomp = comp;
    if (en.comp == UR_GRAPH && en.fam == RAND && en.a == 4)
      pcomp += "(graph with abstract locks)";
    H.begin(k, J().kv("component", pcomp).kv("family", fam).kv("variant", variant).kv("maxThreads", maxT).str());
    Acc A(H, comp);

    switch (en.comp) {
    case BLOCKDIV:
      if (en.fam == EXH)
        blockDivisionExhaustive(A, H.thorough ? 8 : 7);
      else
        for (unsigned i = 0; i < 3000 * scale; ++i) {
          uint32_t nd = 1 + (uint32_t)rng.below(rng.chance(1, 10) ? 5000 : 64);
          blockDivision(A, nd, rng.chance(1, 5) ? std::vector<unsigned>() : randomScale(rng, nd), false);
        }
      break;
    case DIVIDE:
      if (en.fam == EXH) {
        unsigned lo = en.b == 0 ? 0 : en.b == 1 ? NX - 1 : NX, hi = en.b == 0 ? NX - 2 : en.b == 1 ? NX - 1 : NX;
        divideExhaustive(A, lo, hi, EXH_WEIGHTS[en.a], en.a & 1, MAXP);
      } else if (en.fam == EXH_SCALE)
        divideScaleExhaustive(A, H.thorough ? 6 : 5, EXH_WEIGHTS[en.a], 4);
      else if (en.fam == EXH_OFFSET)
        divideOffsetExhaustive(A, H.thorough ? 7 : 6, EXH_WEIGHTS[en.a], en.b, 5);
      else
        divideRandom(A, rng, (unsigned)dist, (unsigned)en.b, en.c, 60 * scale);
      break;
    case DIVIDE_VIRTUAL: divideVirtual(A, rng, en.a, 150 * scale); break;
    case UR_PS:
      if (en.fam == EXH) {
        if (!en.c)
          unitRangesPSExhaustive(A, en.b ? NX : 0, en.b ? NX : NX - 1, false, (uint32_t)en.a, MAXP);
        else
          unitRangesPSExhaustive(A, en.b ? NX - 1 : 0, en.b ? NX - 1 : NX - 2, true, (uint32_t)en.a, MAXP - 1);
      } else
        unitRangesPSRandom(A, rng, en.a, en.c, 80 * scale);
      break;
    case UR_PS_VIRTUAL: unitRangesVirtual(A, rng, 100 * scale); break;
    case UR_GRAPH: runUnitRangesFromGraph(A, rng, GC, en.a, en.c, en.fam == EXH, en.b); break;
    case FILEGRAPH: runFileGraph(A, rng, GC, en.a, en.b, en.fam == EXH, en.c); break;
    case OFFLINE: runOfflineGraph(A, rng, GC, en.a, en.b, en.fam == EXH, en.c); break;
    case CSR_THREADS: runCsrThreadRanges(A, rng, GC, en.a); break;
    }
    if (A.exhaustive_triples)
      A.extra["exhaustive_triples." + comp] = A.exhaustive_triples;
    std::string sig = comp + "|" + fam + "|" + variant + "|mp" + (A.more_parts_than_elems ? "1" : "0") + "|z" +
                      (A.zero_size_inputs ? "1" : "0");
    H.end(k, sig, A.nontrivial(), A.obs());
  }
  rmdir(tmpl);
  return 0;
}
