// C19 — graph partitioning (CuSP): shared declarations of the harness TUs.
//
// One TU per partitioning policy instantiates cuspPartitionGraph<Policy, char, void|uint32_t>
// (c19_p_*.cpp, through c19_extract.h); c19_main.cpp generates the cases, gathers what every
// host observed through DistGraph's public accessors with plain MPI and judges on rank 0.
#pragma once

#include <cstdint>
#include <string>
#include <vector>

namespace c19 {

enum PolicyId : unsigned {
  P_NOCOMM = 0, // NoCommunication      (oec / iec, and every scheme on one host)
  P_HVC,        // GenericHVC           (hovc / hivc)
  P_CVC,        // GenericCVC           (cvc / cvc-iec, out-edge iteration)
  P_CVCFLIP,    // GenericCVCColumnFlip (cvc / cvc-iec, in-edge iteration)
  P_GINGER,     // GingerP
  P_FENNEL,     // FennelP
  P_SUGAR,      // SugarP
  P_SUGARFLIP,  // SugarColumnFlipP
  P_MINING,     // MiningGraph<.., MiningPolicyDegrees/Naive> (not through cuspPartitionGraph)
  NUM_POLICIES
};

inline const char* policyName(unsigned p) {
  static const char* n[] = {"NoCommunication", "GenericHVC", "GenericCVC", "GenericCVCColumnFlip", "GingerP",
                            "FennelP",         "SugarP",     "SugarColumnFlipP", "MiningGraph"};
  return p < NUM_POLICIES ? n[p] : "?";
}
// policies whose masters are the read assignment (getHostID answers for every gid)
inline bool readMasterPolicy(unsigned p) { return p <= P_CVCFLIP || p == P_MINING; }

// arguments of one cuspPartitionGraph call (identical on every rank)
struct CaseArgs {
  unsigned policy = 0;
  std::string graphFile, transposeFile, mastersFile;
  bool inCSC = false, outCSC = false, symmetric = false;
  bool edgeData = false; // EdgeData = uint32_t (else void)
  bool cuspAsync = true;
  uint32_t stateRounds = 100;
  unsigned readPolicy = 1; // galois::graphs::MASTERS_DISTRIBUTION
  uint32_t nodeWeight = 0, edgeWeight = 0;
  bool defaults = false; // call with the default arguments exactly as DistBench/Input.h does
  bool miningDegrees = false; // P_MINING: MiningPolicyDegrees (else MiningPolicyNaive)
  bool miningSort    = false; // P_MINING: doSort constructor argument
};

// ---- flattened observation of one host (vector<uint64_t>)
//   [0] MAGIC [1] host [2] numHosts [3] size() [4] sizeEdges() [5] numMasters() [6] getNumNodesWithEdges()
//   [7] globalSize() [8] globalSizeEdges() [9] isTransposed() [10] is_vertex_cut() [11] cartesianGrid().first
//   [12] .second [13] *masterNodesRange().begin() [14] *masterNodesRange().end() [15] numGlobalQueried (N')
//   then size() words      getGID(lid)
//   then N' words          per gid: bit0 isLocal, bit1 isOwned/getHostID queried, bit2 isOwned,
//                                   bits 8..23 getHostID, bits 32..63 getLID (if local)
//   then 1 word E' + 3*E'  (src lid, dst lid as returned by getEdgeDst, edge data) of every edge iterated
//   then 1 word H' + per h: len, gids   getMirrorNodes()
constexpr uint64_t MAGIC = 0xC19C19C19ULL;
constexpr unsigned HDR   = 16;

using Runner = void (*)(const CaseArgs&, std::vector<uint64_t>&);
void run_nocomm(const CaseArgs&, std::vector<uint64_t>&);
void run_hvc(const CaseArgs&, std::vector<uint64_t>&);
void run_cvc(const CaseArgs&, std::vector<uint64_t>&);
void run_cvcflip(const CaseArgs&, std::vector<uint64_t>&);
void run_ginger(const CaseArgs&, std::vector<uint64_t>&);
void run_fennel(const CaseArgs&, std::vector<uint64_t>&);
void run_sugar(const CaseArgs&, std::vector<uint64_t>&);
void run_sugarflip(const CaseArgs&, std::vector<uint64_t>&);
void run_mining(const CaseArgs&, std::vector<uint64_t>&);

} // namespace c19
