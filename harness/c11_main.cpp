// C11 — static graphs present exactly the input graph, in every layout and view.
//
// One case = (graph family, template configuration, edge-data type, operation,
// generated input graph, thread count). The input is produced by the
// reference generator (ref/gr_codec.h), written with the reference .gr writer
// (or handed over as arrays), loaded/built through the real Galois API by
// `threads` active threads, enumerated completely through the public API and
// compared with the generator's edge list. Oracles live here (non-template);
// the per-family drivers are in c11_<family>.cpp and register their
// instantiations in c11::registry().
#define VERIF_MAIN_TU
#include "c11_common.h"

#include <dirent.h>
#include <map>
#include <set>
#include <signal.h>
#include <sys/stat.h>

using namespace verif;

namespace c11 {

std::vector<Entry>& registry() {
  static std::vector<Entry> r;
  return r;
}

// ---------------------------------------------------------------- Ctx
const ref::RefGraph& Ctx::XT() {
  if (!haveXT_) {
    xt_     = ref::transpose(X);
    haveXT_ = true;
  }
  return xt_;
}

std::string Ctx::fileOf(const ref::RefGraph& g, const char* tag, unsigned esz_, int version_) {
  std::string p = dir + "/" + tag + "_" + std::to_string(esz_) + "_v" + std::to_string(version_) + ".gr";
  for (auto& f : files)
    if (f == p)
      return p;
  // version 2 has no padding after the 64-bit destinations (documented layout;
  // every reader and writer of the library agrees since the C12 fix)
  ref::write_gr(p, g, version_, esz_, ref::V2Pad::None);
  files.push_back(p);
  if (version_ == 2)
    ++v2Files;
  return p;
}

void Ctx::cleanup() {
  for (auto& f : files)
    unlink(f.c_str());
  files.clear();
}

void Ctx::fail(const std::string& kind, const std::string& detailJson) {
  failed          = true;
  std::string key = "C11:" + family + ":" + op + ":" + kind;
  if (version == 2)
    key += ":v2";
  H->violation(key, detailJson);
}

void Ctx::noiseOn() {
  if (perturb)
    perturb_case(perturbSeed, (unsigned)rng.pick({1024, 8192, 30000}), (unsigned)rng.pick({0, 2048}), 30);
}
void Ctx::noiseOff() { perturb_off(); }

// ---------------------------------------------------------------- oracles
static std::string edgeJson(const ref::RefEdge& e) {
  J j;
  j.kv("dst", e.dst).kv("data", e.data);
  if (!e.ext.empty()) {
    std::string hex;
    char b[4];
    for (unsigned char ch : e.ext) {
      snprintf(b, sizeof b, "%02x", ch);
      hex += b;
    }
    j.kv("ext", hex);
  }
  return j.str();
}

static std::string listJson(const std::vector<ref::RefEdge>& a, size_t maxn = 12) {
  std::string s = "[";
  for (size_t i = 0; i < a.size() && i < maxn; ++i) {
    if (i)
      s += ",";
    s += edgeJson(a[i]);
  }
  if (a.size() > maxn)
    s += ",\"...\"";
  return s + "]";
}

static bool sameEdge(const Ctx& c, const ref::RefEdge& a, const ref::RefEdge& b) {
  if (a.dst != b.dst)
    return false;
  if (c.dataCheck == DataCheck::None)
    return true;
  return a.data == b.data && a.ext == b.ext;
}

bool checkCounts(Ctx& c, const Obs& got, const ref::RefGraph& want, const char* what, bool haveSize,
                 bool haveSizeEdges) {
  if (!got.err.empty()) {
    c.fail(std::string(what) + "-malformed", J().kv("problem", got.err).str());
    return false;
  }
  if (got.adj.size() != want.numNodes || (haveSize && got.size != want.numNodes)) {
    c.fail(std::string(what) + "-node-count",
           J().kv("expected", want.numNodes).kv("iterated", got.adj.size()).kv("size()", got.size).str());
    return false;
  }
  if (haveSizeEdges && got.sizeEdges != want.numEdges()) {
    c.fail(std::string(what) + "-edge-count",
           J().kv("expected", want.numEdges()).kv("sizeEdges()", got.sizeEdges).str());
    return false;
  }
  return true;
}

bool checkOrdered(Ctx& c, const Obs& got, const ref::RefGraph& want, const char* what) {
  if (!got.err.empty()) {
    c.fail(std::string(what) + "-malformed", J().kv("problem", got.err).str());
    return false;
  }
  if (got.adj.size() != want.numNodes) {
    c.fail(std::string(what) + "-node-count", J().kv("expected", want.numNodes).kv("iterated", got.adj.size()).str());
    return false;
  }
  for (uint64_t n = 0; n < want.numNodes; ++n) {
    auto& g = got.adj[n];
    auto& w = want.adj[n];
    if (g.size() != w.size()) {
      c.fail(std::string(what) + "-degree", J().kv("node", n).kv("expected", w.size()).kv("got", g.size())
                                                .raw("expected_edges", listJson(w)).raw("got_edges", listJson(g)).str());
      return false;
    }
    for (size_t k = 0; k < w.size(); ++k)
      if (!sameEdge(c, g[k], w[k])) {
        bool dataOnly = g[k].dst == w[k].dst;
        c.fail(std::string(what) + (dataOnly ? "-edge-data" : "-edge-dst"),
               J().kv("node", n).kv("position", k).raw("expected", edgeJson(w[k])).raw("got", edgeJson(g[k]))
                   .raw("expected_edges", listJson(w)).raw("got_edges", listJson(g)).str());
        return false;
      }
    c.edgesChecked += w.size();
  }
  c.nodesChecked += want.numNodes;
  return true;
}

bool checkMultiset(Ctx& c, const Obs& got, const ref::RefGraph& want, const char* what, bool inEdges) {
  if (!got.err.empty()) {
    c.fail(std::string(what) + "-malformed", J().kv("problem", got.err).str());
    return false;
  }
  if (got.adj.size() != want.numNodes) {
    c.fail(std::string(what) + "-node-count", J().kv("expected", want.numNodes).kv("iterated", got.adj.size()).str());
    return false;
  }
  for (uint64_t n = 0; n < want.numNodes; ++n) {
    auto g = got.adj[n];
    auto w = want.adj[n];
    if (c.dataCheck == DataCheck::None) {
      for (auto& e : g) {
        e.data = 0;
        e.ext.clear();
      }
      for (auto& e : w) {
        e.data = 0;
        e.ext.clear();
      }
    }
    std::sort(g.begin(), g.end());
    std::sort(w.begin(), w.end());
    if (g != w) {
      const char* kind = g.size() != w.size() ? "-degree" : "-edge-multiset";
      c.fail(std::string(what) + kind, J().kv("node", n).kv("expected_count", w.size()).kv("got_count", g.size())
                                           .raw("expected_sorted", listJson(w)).raw("got_sorted", listJson(g)).str());
      return false;
    }
    (inEdges ? c.inEdgesChecked : c.edgesChecked) += w.size();
  }
  c.nodesChecked += want.numNodes;
  return true;
}

bool checkSortedByDst(Ctx& c, const Obs& got, const char* what) {
  for (uint64_t n = 0; n < got.adj.size(); ++n) {
    auto& g = got.adj[n];
    for (size_t k = 1; k < g.size(); ++k)
      if (g[k].dst < g[k - 1].dst) {
        c.fail(std::string(what) + "-not-sorted", J().kv("node", n).kv("position", k).raw("edges", listJson(g, 24)).str());
        return false;
      }
    if (g.size() > 1)
      ++c.sortedLists;
  }
  return true;
}

bool checkSortedBy(Ctx& c, const Obs& got, RefLess less, const char* what) {
  for (uint64_t n = 0; n < got.adj.size(); ++n) {
    auto& g = got.adj[n];
    for (size_t k = 1; k < g.size(); ++k)
      if (less(g[k], g[k - 1])) {
        c.fail(std::string(what) + "-not-sorted", J().kv("node", n).kv("position", k).raw("edges", listJson(g, 24)).str());
        return false;
      }
    if (g.size() > 1)
      ++c.sortedLists;
  }
  return true;
}

bool checkVisits(Ctx& c, const std::vector<std::atomic<uint32_t>>& visits, const char* what) {
  size_t N = visits.size() ? visits.size() - 1 : 0;
  for (size_t i = 0; i < N; ++i) {
    uint32_t v = visits[i].load(std::memory_order_relaxed);
    if (v != 1) {
      c.fail(std::string(what) + (v ? "-node-twice" : "-node-missed"),
             J().kv("node", i).kv("visits", v).kv("nodes", N).kv("threads", c.threads).str());
      return false;
    }
  }
  return true;
}

ref::RefGraph symmetrize(const ref::RefGraph& g) {
  ref::RefGraph s(g.numNodes);
  s.kind = g.kind;
  for (uint64_t n = 0; n < g.numNodes; ++n)
    for (auto& e : g.adj[n]) {
      s.adj[n].push_back(e);
      if (e.dst != n) {
        ref::RefEdge r = e;
        r.dst          = n;
        s.adj[e.dst].push_back(r);
      }
    }
  return s;
}

static uint64_t hmix(uint64_t a, uint64_t b) { return verif::mix(a, b); }

static uint64_t edgeHash(const Ctx& c, const ref::RefEdge& e) {
  if (c.dataCheck == DataCheck::None)
    return 0x51;
  uint64_t h = hmix(e.data, 0xed6e);
  for (unsigned char ch : e.ext)
    h = hmix(h, ch);
  return h;
}

// colour refinement (1-WL) signature: a necessary condition for isomorphism
static std::vector<uint64_t> wlColours(const Ctx& c, const std::vector<std::vector<ref::RefEdge>>& adj) {
  size_t N = adj.size();
  std::vector<std::vector<std::pair<uint64_t, uint64_t>>> in(N); // (src, edge hash)
  for (size_t s = 0; s < N; ++s)
    for (auto& e : adj[s])
      if (e.dst < N)
        in[e.dst].push_back({s, edgeHash(c, e)});
  std::vector<uint64_t> col(N), nxt(N);
  for (size_t n = 0; n < N; ++n)
    col[n] = hmix(adj[n].size(), in[n].size());
  for (int round = 0; round < 3; ++round) {
    for (size_t n = 0; n < N; ++n) {
      std::vector<uint64_t> o, i;
      for (auto& e : adj[n])
        o.push_back(hmix(e.dst < N ? col[e.dst] : 7, edgeHash(c, e) + (e.dst == n ? 1 : 0)));
      for (auto& p : in[n])
        i.push_back(hmix(col[p.first], p.second));
      std::sort(o.begin(), o.end());
      std::sort(i.begin(), i.end());
      uint64_t h = hmix(col[n], 0xc0);
      for (auto v : o)
        h = hmix(h, v);
      h = hmix(h, 0x1f);
      for (auto v : i)
        h = hmix(h, v);
      nxt[n] = h;
    }
    col.swap(nxt);
  }
  std::sort(col.begin(), col.end());
  return col;
}

bool checkIsomorphic(Ctx& c, const Obs& got, const ref::RefGraph& want, const char* what) {
  if (!got.err.empty()) {
    c.fail(std::string(what) + "-malformed", J().kv("problem", got.err).str());
    return false;
  }
  uint64_t N = want.numNodes, m = want.numEdges();
  if (got.adj.size() != N) {
    c.fail(std::string(what) + "-node-count", J().kv("expected", N).kv("iterated", got.adj.size()).str());
    return false;
  }
  uint64_t gm = 0;
  for (auto& a : got.adj)
    gm += a.size();
  if (gm != m) {
    c.fail(std::string(what) + "-edge-count", J().kv("expected", m).kv("enumerated", gm).str());
    return false;
  }
  // exact: when every input edge carries a distinct datum the edges identify the nodes
  bool unique = c.dataCheck == DataCheck::Exact && c.esz > 0;
  std::map<std::pair<uint64_t, std::string>, std::pair<uint64_t, uint64_t>> byData;
  if (unique)
    for (uint64_t s = 0; s < N && unique; ++s)
      for (auto& e : want.adj[s])
        if (!byData.emplace(std::make_pair(e.data, e.ext), std::make_pair(s, e.dst)).second) {
          unique = false;
          break;
        }
  if (unique) {
    std::vector<int64_t> p(N, -1), q(N, -1); // got->want, want->got
    auto bind = [&](uint64_t g, uint64_t w) {
      if (p[g] == -1 && q[w] == -1) {
        p[g] = (int64_t)w;
        q[w] = (int64_t)g;
        return true;
      }
      return p[g] == (int64_t)w && q[w] == (int64_t)g;
    };
    std::set<std::pair<uint64_t, std::string>> seen;
    for (uint64_t g = 0; g < N; ++g)
      for (auto& e : got.adj[g]) {
        auto key = std::make_pair(e.data, e.ext);
        auto it  = byData.find(key);
        if (it == byData.end()) {
          c.fail(std::string(what) + "-unknown-edge", J().kv("got_node_position", g).raw("edge", edgeJson(e)).str());
          return false;
        }
        if (!seen.insert(key).second) {
          c.fail(std::string(what) + "-edge-twice", J().kv("got_node_position", g).raw("edge", edgeJson(e)).str());
          return false;
        }
        if (!bind(g, it->second.first) || !bind(e.dst, it->second.second)) {
          c.fail(std::string(what) + "-edge-endpoints",
                 J().kv("got_src_position", g).kv("got_dst_position", e.dst).kv("input_src", it->second.first)
                     .kv("input_dst", it->second.second).raw("edge", edgeJson(e)).str());
          return false;
        }
      }
    c.edgesChecked += m;
    c.nodesChecked += N;
    return true;
  }
  auto a = wlColours(c, got.adj), b = wlColours(c, want.adj);
  if (a != b) {
    c.fail(std::string(what) + "-not-isomorphic", J().kv("nodes", N).kv("edges", m).str());
    return false;
  }
  c.edgesChecked += m;
  c.nodesChecked += N;
  return true;
}

std::vector<uint64_t> sampleNodes(Ctx& c, uint64_t numNodes, unsigned maxN) {
  std::vector<uint64_t> v;
  if (numNodes <= maxN) {
    for (uint64_t i = 0; i < numNodes; ++i)
      v.push_back(i);
    return v;
  }
  std::set<uint64_t> s{0, numNodes - 1};
  // always include the nodes of highest degree and a few random ones
  uint64_t best = 0;
  for (uint64_t i = 0; i < numNodes; ++i)
    if (c.X.adj.size() == numNodes && c.X.adj[i].size() > c.X.adj[best].size())
      best = i;
  s.insert(best);
  while (s.size() < maxN)
    s.insert(c.rng.below(numNodes));
  return std::vector<uint64_t>(s.begin(), s.end());
}

std::vector<uint64_t> queryDsts(Ctx& c, const ref::RefGraph& g, uint64_t n, unsigned maxQ) {
  std::set<uint64_t> q;
  auto& a    = g.adj[n];
  uint64_t N = g.numNodes;
  if (!a.empty()) {
    q.insert(a.front().dst);
    q.insert(a.back().dst);
    uint64_t mn = a[0].dst, mx = a[0].dst;
    for (auto& e : a) {
      mn = std::min(mn, e.dst);
      mx = std::max(mx, e.dst);
    }
    q.insert(mn);
    q.insert(mx);
    if (mn > 0)
      q.insert(mn - 1);
    if (mx + 1 < N)
      q.insert(mx + 1);
    for (unsigned i = 0; i < maxQ / 2; ++i) {
      uint64_t d = a[c.rng.below(a.size())].dst;
      q.insert(d);
      if (d + 1 < N)
        q.insert(d + 1);
    }
  }
  q.insert(0);
  q.insert(N - 1);
  q.insert(n);
  for (unsigned i = 0; i < maxQ / 4 + 1; ++i)
    q.insert(c.rng.below(N));
  return std::vector<uint64_t>(q.begin(), q.end());
}

} // namespace c11

// ---------------------------------------------------------------- main
using namespace c11;

static void removeStaleDirs(const std::string& root) {
  DIR* d = opendir(root.c_str());
  if (!d)
    return;
  while (dirent* e = readdir(d)) {
    if (e->d_name[0] != 'h')
      continue;
    int pid = atoi(e->d_name + 1);
    if (pid <= 0 || kill(pid, 0) == 0)
      continue; // alive
    std::string p = root + "/" + e->d_name;
    if (DIR* dd = opendir(p.c_str())) {
      while (dirent* f = readdir(dd))
        if (f->d_name[0] != '.')
          unlink((p + "/" + f->d_name).c_str());
      closedir(dd);
    }
    rmdir(p.c_str());
  }
  closedir(d);
}

int main(int argc, char** argv) {
  Harness H("C11", argc, argv);
  galois::SharedMemSys G;
  auto& tp        = galois::substrate::getThreadPool();
  unsigned maxT   = tp.getMaxThreads();
  unsigned nsock  = tp.getMaxSockets();

  registerCsr();
  registerCsc();
  registerHyper();
  registerLinear();
  registerInline();
  registerMorph();
  registerInOut();
  registerAdaptor();
  registerExtra(); // full template matrix (c11_graphs_full only)

  // optional filters (debugging / focused runs)
  std::string fFamily = H.param("family"), fOp = H.param("op"), fEtype = H.param("etype"), fCfg = H.param("cfg");
  long fThreads = H.paramInt("threads", 0);
  uint64_t salt = (uint64_t)H.paramInt("salt", 0); // makes the runs of one check draw different cases
  long maxNodesP = H.paramInt("maxnodes", 0);
  // larger inputs (thorough runs). A run parameter rather than --tier so that a replay regenerates the same case.
  bool big = H.paramInt("big", 0) != 0;
  std::string fShape = H.param("shape");
  std::map<std::pair<std::string, std::string>, std::vector<const Entry*>> groups;
  for (auto& e : registry()) {
    if (!fFamily.empty() && e.family != fFamily)
      continue;
    if (!fOp.empty() && e.op != fOp)
      continue;
    if (!fEtype.empty() && e.etype != fEtype)
      continue;
    if (!fCfg.empty() && e.cfg != fCfg)
      continue;
    groups[{e.family, e.op}].push_back(&e);
  }
  if (groups.empty()) {
    fprintf(stderr, "c11: no registry entry matches the filters\n");
    return 2;
  }
  // case choice: family (weighted), then operation of that family (weighted), then one instantiation
  auto famWeight = [](const std::string& f) -> unsigned {
    if (f == "LC_CSR_Graph")
      return 5;
    if (f == "LC_CSR_CSC_Graph" || f == "LC_Linear_Graph")
      return 3;
    if (f == "LC_Adaptor_Graph")
      return 1;
    return 2;
  };
  std::map<std::string, std::vector<std::vector<const Entry*>*>> famOps;
  for (auto& g : groups)
    for (unsigned w = 0; w < std::max(1u, g.second[0]->weight); ++w)
      famOps[g.first.first].push_back(&g.second);
  std::vector<const std::vector<std::vector<const Entry*>*>*> famList;
  for (auto& f : famOps)
    for (unsigned w = 0; w < famWeight(f.first); ++w)
      famList.push_back(&f.second);
  if (H.paramInt("list", 0)) {
    for (auto& e : registry())
      printf("%s %s %s %s\n", e.family.c_str(), e.op.c_str(), e.cfg.c_str(), e.etype.c_str());
    return 0;
  }

  std::string root = "/var/tmp/c11";
  mkdir(root.c_str(), 0755);
  removeStaleDirs(root);
  std::string dir = root + "/h" + std::to_string(getpid());
  mkdir(dir.c_str(), 0755);

  for (long k = H.firstCase(); k < H.endCase(); ++k) {
    Rng rng(mix(H.caseSeed(k), salt));
    auto& ops      = *famList[rng.below(famList.size())];
    auto& group    = *ops[rng.below(ops.size())];
    const Entry& E = *group[rng.below(group.size())];

    Ctx c;
    c.H          = &H;
    c.rng        = Rng(rng.next());
    c.family     = E.family;
    c.op         = E.op;
    c.cfg        = E.cfg;
    c.etype      = E.etype;
    c.maxThreads = maxT;
    c.sockets    = nsock;
    c.esz        = E.fileEsz;
    c.less       = E.less;
    c.dir        = dir;
    c.dataCheck  = (E.flags & F_STRUCT_ONLY) ? DataCheck::None : DataCheck::Exact;

    // threads
    unsigned T;
    switch (rng.below(8)) {
    case 0:
    case 1: T = 1; break;
    case 2: T = std::min(2u, maxT); break;
    case 3:
    case 4: T = maxT; break;
    default: T = 1 + (unsigned)rng.below(maxT); break;
    }
    if (fThreads > 0)
      T = std::min<unsigned>((unsigned)fThreads, maxT);
    c.threads = T;

    // input graph
    ref::Shape shape = (ref::Shape)rng.below((unsigned)ref::Shape::NumShapes);
    if (!fShape.empty())
      for (unsigned s = 0; s < (unsigned)ref::Shape::NumShapes; ++s)
        if (fShape == ref::shapeName((ref::Shape)s))
          shape = (ref::Shape)s;
    uint64_t maxNodes = big ? (uint64_t)rng.pick({6, 40, 300, 2000, 6000, 12000})
                                   : (uint64_t)rng.pick({6, 40, 300, 1200, 3000});
    if (E.flags & F_SMALL)
      maxNodes = std::min<uint64_t>(maxNodes, 300);
    if (maxNodesP > 0)
      maxNodes = std::min<uint64_t>(maxNodes, (uint64_t)maxNodesP);
    uint64_t n  = 1 + rng.below(maxNodes);
    c.X         = ref::gen_shape(rng.next(), shape, n);
    if (E.flags & F_SYMMETRIC)
      c.X = symmetrize(c.X);
    ref::DataMode dm = (E.flags & F_UNIQUE_DATA) ? ref::DataMode::Unique : (ref::DataMode)rng.below(3);
    ref::assign_data(c.X, rng.next(), dm, c.esz);
    if (E.flags & F_SYMMETRIC) {
      // both directions of an undirected edge carry the same datum: reassign
      // from the canonical direction so that the transpose equals the graph
      std::map<std::pair<uint64_t, uint64_t>, std::vector<ref::RefEdge>> pool;
      for (uint64_t s = 0; s < c.X.numNodes; ++s)
        for (auto& e : c.X.adj[s])
          if (s <= e.dst)
            pool[{s, e.dst}].push_back(e);
      std::map<std::pair<uint64_t, uint64_t>, size_t> used;
      for (uint64_t s = 0; s < c.X.numNodes; ++s)
        for (auto& e : c.X.adj[s])
          if (s > e.dst) {
            auto key     = std::make_pair(e.dst, s);
            auto& src    = pool[key];
            size_t i     = used[key]++;
            if (i < src.size()) {
              e.data = src[i].data;
              e.ext  = src[i].ext;
            }
          }
    }
    if (E.flags & F_FLOAT) {
      for (auto& a : c.X.adj)
        for (auto& e : a) {
          float f = (float)(e.data & 0xfffff);
          if (dm == ref::DataMode::Random && (e.data >> 40 & 1))
            f = -f * 0.5f;
          uint32_t bits;
          std::memcpy(&bits, &f, 4);
          e.data = bits;
        }
    }
    // .gr version: 2 in a quarter of the cases (any edge count, with or without edge data)
    c.version = (!(E.flags & F_NO_V2) && rng.below(4) == 0) ? 2 : 1;
    if (H.paramInt("version", 0))
      c.version = (int)H.paramInt("version", 0);
    c.perturb     = T > 1 && rng.below(2) == 0;
    c.perturbSeed = rng.next();

    H.hangKey = "C11:" + E.family + ":" + E.op + ":hang";
    H.begin(k, J().kv("component", E.family + ":" + E.op).kv("cfg", E.cfg).kv("edge_type", E.etype)
                   .kv("shape", ref::shapeName(shape)).kv("nodes", c.X.numNodes).kv("edges", c.X.numEdges())
                   .kv("threads", T).kv("maxT", maxT).kv("sockets", nsock).kv("gr_version", c.version)
                   .kv("data_mode", (unsigned)dm).kv("perturb", c.perturb).str());
    galois::setActiveThreads(T);
    c.noiseOn();
    try {
      E.fn(c);
    } catch (const std::exception& ex) {
      // the reference codec or the harness itself failed: not a verdict
      fprintf(stderr, "c11: harness exception: %s\n", ex.what());
      c.cleanup();
      rmdir(dir.c_str());
      return 2;
    }
    c.noiseOff();
    c.cleanup();

    bool nontrivial = !c.skipped && (c.edgesChecked + c.inEdgesChecked) > 0;
    const char* tcl = T == 1 ? "1" : (T == maxT ? "max" : "mid");
    std::string sig = E.family + "|" + E.op + "|" + E.cfg + "|" + E.etype + "|" + ref::shapeName(shape) + "|t" + tcl +
                      "|s" + std::to_string(nsock) + "|v" + std::to_string(c.version);
    H.end(k, sig, nontrivial,
          J().kv("builds", c.builds).kv("parallel_builds", c.parallelBuilds).kv("nodes_checked", c.nodesChecked)
              .kv("edges_checked", c.edgesChecked).kv("in_edges_checked", c.inEdgesChecked)
              .kv("find_queries", c.findQueries).kv("find_hits", c.findHits).kv("sorted_lists", c.sortedLists)
              .kv("transposes", c.transposes).kv("local_range_threads", c.localRangeChecks)
              .kv("do_all_visits", c.doAllVisits).kv("v2_files", c.v2Files)
              .kv("multi_thread_cases", (int)(T > 1)).kv("multi_socket_cases", (int)(nsock > 1 && T > 1))
              .kv("empty_graph_cases", (int)(c.X.numNodes == 0)).kv("skipped", (int)c.skipped)
              .kv("failed_cases", (int)c.failed).kv(("cases_" + E.family).c_str(), 1)
              .kv(("etype_" + E.etype).c_str(), 1).kv((std::string("shape_") + ref::shapeName(shape)).c_str(), 1)
              .kv(("threads_" + std::string(tcl)).c_str(), 1).str());
  }
  rmdir(dir.c_str());
  return 0;
}
