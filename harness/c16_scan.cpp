// C16: galois::ParallelSTL::partial_sum and destroy
#include "c16_common.h"

#include <memory>

namespace c16 {

// ------------------------------------------------------------------ partial_sum
static inline void toValue(uint32_t k, uint32_t& v) { v = k; }                                 // wraps mod 2^32 (exact)
static inline void toValue(uint32_t k, uint64_t& v) { v = (uint64_t)k * 0x100000001ull + k; } // wraps mod 2^64 (exact)
static inline void toValue(uint32_t k, int64_t& v) { v = (int64_t)(k % 2001) - 1000; }        // never overflows

template <class T>
static void partial_sum_T(const CaseCfg& c, Rng& rng, Outcome& o) {
  std::vector<uint32_t> keys = gen_keys(rng, c.keyPat, c.n);
  std::vector<T> input(c.n), out, inAfter;
  for (size_t i = 0; i < c.n; ++i)
    toValue(keys[i], input[i]);
  std::vector<T> expect = ref16::partial_sums(input);
  long retOff           = -1;
  bool inPlace          = (c.variant & 4) != 0;
  if (inPlace) {
    with_ra_range<T>(c, input, out, [&](auto first, auto last) {
      auto r = galois::ParallelSTL::partial_sum(first, last, first);
      retOff = (long)std::distance(first, r);
    });
  } else {
    const T sentinel = (T)0x5a5a5a5a;
    if (c.iter == IT_POINTER) { // destination between guard pages as well
      GuardedBuf db(c.n * sizeof(T), (c.variant & 8) != 0);
      T* d = reinterpret_cast<T*>(db.data);
      std::fill(d, d + c.n, sentinel);
      with_ra_range<T>(c, input, inAfter, [&](auto first, auto last) {
        T* r   = galois::ParallelSTL::partial_sum(first, last, d);
        retOff = (long)(r - d);
      });
      out.assign(d, d + c.n);
    } else if (c.iter == IT_DEQUE) {
      std::deque<T> d(c.n, sentinel);
      with_ra_range<T>(c, input, inAfter, [&](auto first, auto last) {
        auto r = galois::ParallelSTL::partial_sum(first, last, d.begin());
        retOff = (long)(r - d.begin());
      });
      out.assign(d.begin(), d.end());
    } else {
      std::vector<T> d(c.n, sentinel);
      with_ra_range<T>(c, input, inAfter, [&](auto first, auto last) {
        auto r = galois::ParallelSTL::partial_sum(first, last, d.begin());
        retOff = (long)(r - d.begin());
      });
      out = d;
    }
    if (!(inAfter == input))
      o.violation("C16:partial_sum:input-modified", J().kv("n", c.n).kv("threads", c.threads).str());
  }
  size_t bad = c.n;
  for (size_t i = 0; i < c.n; ++i)
    if (!(out[i] == expect[i])) {
      bad = i;
      break;
    }
  size_t blockSize = c.threads ? (c.n + c.threads - 1) / c.threads : 0;
  J w;
  w.kv("n", c.n).kv("threads", c.threads).kv("in_place", inPlace).kv("block_size", blockSize);
  if (bad != c.n)
    o.violation("C16:partial_sum:wrong-value",
                J(w).kv("i", bad).kv("expected", (long long)expect[bad]).kv("got", (long long)out[bad])
                    .kv("block_of_i", blockSize ? bad / blockSize : 0).str());
  if (retOff != (long)c.n)
    o.violation("C16:partial_sum:wrong-return", J(w).kv("returned_offset", retOff).str());
  o.cls = (bad == c.n && retOff == (long)c.n) ? "ok" : "bad";
  // measured: does the block split leave empty trailing blocks ((threads-1)*blockSize >= n)?
  o.add("partial_sum_cases_with_empty_blocks", c.n >= 1024 && blockSize * (c.threads - 1) >= c.n);
}

void run_partial_sum(const CaseCfg& c, Rng& rng, Outcome& o) {
  switch (c.opKind % 3) {
  case 0: partial_sum_T<uint32_t>(c, rng, o); break;
  case 1: partial_sum_T<uint64_t>(c, rng, o); break;
  default: partial_sum_T<int64_t>(c, rng, o); break;
  }
}

// ------------------------------------------------------------------ destroy
static std::atomic<uint32_t>* g_destroyed = nullptr; // per-id destructor count (relaxed)
struct Tracked {
  uint32_t id;
  uint32_t magic;
  uint64_t payload;
  Tracked(uint32_t i) : id(i), magic(0xA11CE), payload(i * 7ull) {}
  ~Tracked() {
    observe_value(id);
    g_destroyed[id].fetch_add(1, std::memory_order_relaxed);
    magic = 0xDEAD;
  }
};
static_assert(!std::is_scalar<Tracked>::value, "must take the non-scalar overload");

void run_destroy(const CaseCfg& c, Rng& rng, Outcome& o) {
  const size_t n = c.n;
  if (c.variant & 4) { // scalar overload: must leave the storage alone
    std::vector<uint32_t> keys = gen_keys(rng, c.keyPat, n), copy(keys);
    galois::ParallelSTL::destroy(keys.data(), keys.data() + n);
    if (keys != copy)
      o.violation("C16:destroy:scalar-modified", J().kv("n", n).str());
    o.cls = "scalar";
    return;
  }
  std::unique_ptr<std::atomic<uint32_t>[]> counts(new std::atomic<uint32_t>[n ? n : 1]);
  for (size_t i = 0; i < n; ++i)
    counts[i].store(0, std::memory_order_relaxed);
  g_destroyed = counts.get();
  GuardedBuf b(n * sizeof(Tracked), c.variant & 1);
  Tracked* p = reinterpret_cast<Tracked*>(b.data);
  for (size_t i = 0; i < n; ++i)
    new (p + i) Tracked((uint32_t)i);
  galois::ParallelSTL::destroy(p, p + n);
  size_t never = 0, twice = 0, firstBad = n;
  for (size_t i = 0; i < n; ++i) {
    uint32_t k = counts[i].load(std::memory_order_relaxed);
    if (k != 1) {
      (k == 0 ? never : twice)++;
      if (firstBad == n)
        firstBad = i;
    }
  }
  if (never || twice)
    o.violation("C16:destroy:not-exactly-once",
                J().kv("n", n).kv("threads", c.threads).kv("threads_used", g_mon.threadsUsed())
                    .kv("never_destroyed", never).kv("destroyed_more_than_once", twice).kv("first_bad_id", firstBad)
                    .kv("count_there", firstBad < n ? counts[firstBad].load() : 0).str());
  o.cls       = (never || twice) ? "bad" : "ok";
  g_destroyed = nullptr;
  o.add("destroy_destructor_calls", g_mon.totalCalls());
}

} // namespace c16
