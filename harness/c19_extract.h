// C19 — the call into the library under test and the extraction of what a host can observe
// through DistGraph's PUBLIC accessors only. Included by the per-policy TUs.
#pragma once

#include "c19_common.h"

#include "galois/graphs/CuSPPartitioner.h"

namespace c19 {

template <typename EdgeIt, typename Graph>
inline uint64_t edgeDataOf(Graph& g, EdgeIt e, std::true_type /*void*/) {
  return 0;
}
template <typename EdgeIt, typename Graph>
inline uint64_t edgeDataOf(Graph& g, EdgeIt e, std::false_type) {
  return (uint64_t)g.getEdgeData(e);
}

// everything below goes through the public interface of galois::graphs::DistGraph
template <typename Graph>
void extract(Graph& g, bool queryAllHostIDs, std::vector<uint64_t>& out) {
  using ED    = typename Graph::EdgeType;
  auto& net   = galois::runtime::getSystemNetworkInterface();
  uint64_t n  = g.size();
  uint64_t N  = g.globalSize();
  auto grid   = g.cartesianGrid();
  auto& mr    = g.masterNodesRange();
  out.clear();
  out.reserve(HDR + n + N + 1 + 3 * g.sizeEdges() + 16);
  out.push_back(MAGIC);
  out.push_back(net.ID);
  out.push_back(net.Num);
  out.push_back(n);
  out.push_back(g.sizeEdges());
  out.push_back(g.numMasters());
  out.push_back(g.getNumNodesWithEdges());
  out.push_back(N);
  out.push_back(g.globalSizeEdges());
  out.push_back(g.isTransposed());
  out.push_back(g.is_vertex_cut());
  out.push_back(grid.first);
  out.push_back(grid.second);
  out.push_back(*mr.begin());
  out.push_back(*mr.end());
  out.push_back(N);
  for (uint64_t l = 0; l < n; ++l)
    out.push_back(g.getGID((uint32_t)l));
  for (uint64_t gid = 0; gid < N; ++gid) {
    uint64_t w = 0;
    bool loc   = g.isLocal(gid);
    if (loc) {
      w |= 1;
      w |= (uint64_t)g.getLID(gid) << 32;
    }
    // policies with a master assignment phase only know the masters of the nodes they hold
    // (retrieveMaster GALOIS_DIEs otherwise): ask only about proxies there
    if (loc || queryAllHostIDs) {
      w |= 2;
      if (g.isOwned(gid))
        w |= 4;
      w |= (uint64_t)(g.getHostID(gid) & 0xffff) << 8;
    }
    out.push_back(w);
  }
  size_t cntAt = out.size();
  out.push_back(0);
  uint64_t cnt = 0;
  for (uint64_t l = 0; l < n; ++l) {
    for (auto e : g.edges((typename Graph::GraphNode)l)) {
      out.push_back(l);
      out.push_back((uint64_t)g.getEdgeDst(e));
      out.push_back(edgeDataOf(g, e, std::is_void<ED>()));
      ++cnt;
    }
  }
  out[cntAt] = cnt;
  auto& mir  = g.getMirrorNodes();
  out.push_back(mir.size());
  for (auto& v : mir) {
    out.push_back(v.size());
    for (auto x : v)
      out.push_back((uint64_t)x);
  }
}

template <typename Policy, typename ED>
void runCuspT(const CaseArgs& a, std::vector<uint64_t>& out) {
  using namespace galois;
  CUSP_GRAPH_TYPE in = a.inCSC ? CUSP_CSC : CUSP_CSR, ot = a.outCSC ? CUSP_CSC : CUSP_CSR;
  std::unique_ptr<graphs::DistGraph<char, ED>> g;
  if (a.defaults) {
    // exactly the calls of lonestar/libdistbench/include/DistBench/Input.h
    if (a.mastersFile.empty())
      g = cuspPartitionGraph<Policy, char, ED>(a.graphFile, in, ot, a.symmetric, a.transposeFile);
    else
      g = cuspPartitionGraph<Policy, char, ED>(a.graphFile, in, ot, a.symmetric, a.transposeFile, a.mastersFile);
  } else {
    g = cuspPartitionGraph<Policy, char, ED>(a.graphFile, in, ot, a.symmetric, a.transposeFile, a.mastersFile,
                                             a.cuspAsync, a.stateRounds, (graphs::MASTERS_DISTRIBUTION)a.readPolicy,
                                             a.nodeWeight, a.edgeWeight);
  }
  extract(*g, readMasterPolicy(a.policy), out);
}

template <typename Policy>
void runCusp(const CaseArgs& a, std::vector<uint64_t>& out) {
  if (a.edgeData)
    runCuspT<Policy, uint32_t>(a, out);
  else
    runCuspT<Policy, void>(a, out);
}

} // namespace c19
