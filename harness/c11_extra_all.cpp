// C11: registration of the full template matrix (c11_graphs_full)
namespace c11 {
void registerX_csr_void();
void registerX_csr_u64();
void registerX_csr_f32();
void registerX_csr_e12();
void registerX_csc_void();
void registerX_csc_u32();
void registerX_csc_u64();
void registerX_csc_f32();
void registerX_csc_e12();
void registerX_hyper_a();
void registerX_hyper_b();
void registerX_linear_a();
void registerX_linear_b();
void registerX_inline_a();
void registerX_inline_b();
void registerX_morph();
void registerX_inout_void();
void registerX_inout_u32();
void registerX_inout_u64();
void registerX_inout_f32();
void registerX_inout_e12();
void registerX_adaptor();
void registerExtra() {
  registerX_csr_void();
  registerX_csr_u64();
  registerX_csr_f32();
  registerX_csr_e12();
  registerX_csc_void();
  registerX_csc_u32();
  registerX_csc_u64();
  registerX_csc_f32();
  registerX_csc_e12();
  registerX_hyper_a();
  registerX_hyper_b();
  registerX_linear_a();
  registerX_linear_b();
  registerX_inline_a();
  registerX_inline_b();
  registerX_morph();
  registerX_inout_void();
  registerX_inout_u32();
  registerX_inout_u64();
  registerX_inout_f32();
  registerX_inout_e12();
  registerX_adaptor();
}
} // namespace c11
