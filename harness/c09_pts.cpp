// C09: per-thread / per-socket storage offsets (PerBackend::allocOffset /
// deallocOffset) through creation, destruction and moves of
// PerThreadStorage<T> / PerSocketStorage<T> with many sizeof(T), including the
// exhausted-bump-region regime where offsets come from the size-class free
// lists and bigger chunks are split into "vending machine change".
//
// The 2 MB per-thread region is a process-wide, non-renewable resource and
// allocOffset() GALOIS_DIEs by design when nothing fits. The harness therefore
// keeps an *availability model* of the documented mechanism (bump pointer, then
// exact size class, then smallest bigger class with change) that is used only
// to decide which requests are safe to issue - never as an oracle. These
// components run in processes of their own (spec: comp=PerThreadStorage,...),
// so no other user of the backend interferes with the model.
#include "c09_common.h"

#include "galois/substrate/PerThreadStorage.h"

using namespace c09;
namespace gs = galois::substrate;

namespace {

template <unsigned N>
struct Blob {
  unsigned char d[N];
};

struct StoBase {
  size_t sz        = 0;
  unsigned typeIdx = 0;
  unsigned cls     = 7;
  long offset      = -1;
  std::vector<Blk> blocks; // one per thread (PerThreadStorage) / per socket (PerSocketStorage)
  virtual ~StoBase() {}
  virtual void* remote(unsigned t)             = 0;
  virtual void* local()                        = 0;
  virtual void* localOf(unsigned t)            = 0; // getLocal(thread)
  virtual void* byPkg(unsigned) { return nullptr; }
  virtual StoBase* moveConstruct()             = 0; // new object move-constructed from this one
  virtual void moveAssignFrom(StoBase& o)      = 0; // this = std::move(o), same dynamic type
};
template <typename S, bool Socket>
struct StoImpl : StoBase {
  S s;
  StoImpl() : s() {}
  explicit StoImpl(S&& o) : s(std::move(o)) {}
  void* remote(unsigned t) override { return s.getRemote(t); }
  void* local() override { return s.getLocal(); }
  void* localOf(unsigned t) override { return s.getLocal(t); }
  void* byPkg(unsigned p) override {
    if constexpr (Socket)
      return s.getRemoteByPkg(p);
    else
      return nullptr;
  }
  StoBase* moveConstruct() override {
    auto* n    = new StoImpl(std::move(s));
    n->sz      = sz;
    n->typeIdx = typeIdx;
    n->cls     = cls;
    return n;
  }
  void moveAssignFrom(StoBase& o) override { s = std::move(static_cast<StoImpl&>(o).s); }
};
struct Factory {
  size_t sz;
  StoBase* (*mkThread)();
  StoBase* (*mkSocket)();
};
template <unsigned N>
Factory mkFactory() {
  return Factory{sizeof(Blob<N>), []() -> StoBase* { return new StoImpl<gs::PerThreadStorage<Blob<N>>, false>(); },
                 []() -> StoBase* { return new StoImpl<gs::PerSocketStorage<Blob<N>>, true>(); }};
}
// sizeof(T) around every size class boundary of the backend (128 B ... 256 KB)
const Factory FACT[] = {mkFactory<1>(),      mkFactory<8>(),      mkFactory<64>(),     mkFactory<127>(),    mkFactory<128>(),
                        mkFactory<129>(),    mkFactory<200>(),    mkFactory<256>(),    mkFactory<257>(),    mkFactory<500>(),
                        mkFactory<512>(),    mkFactory<1000>(),   mkFactory<1025>(),   mkFactory<2048>(),   mkFactory<4000>(),
                        mkFactory<4097>(),   mkFactory<8192>(),   mkFactory<10000>(),  mkFactory<16385>(),  mkFactory<40000>(),
                        mkFactory<65536>(),  mkFactory<65537>(),  mkFactory<131072>(), mkFactory<200000>(), mkFactory<262144>()};
const unsigned NFACT = sizeof(FACT) / sizeof(FACT[0]);

unsigned classOf(size_t sz) {
  unsigned i = 7;
  while (((size_t)1 << i) < sz)
    ++i;
  return i;
}

// availability model of one PerBackend (see file comment)
struct Model {
  bool synced      = false;
  bool lost        = false; // observed behaviour did not follow the documented mechanism: be conservative from now on
  unsigned nextLoc = 0;
  unsigned cnt[32] = {};
  enum Path { NONE, BUMP, EXACT, SPLIT };
  static constexpr unsigned LIMIT = (unsigned)PAGE2M;
  Path pathFor(unsigned ll) const {
    unsigned size = 1u << ll;
    if (nextLoc + size <= LIMIT)
      return BUMP;
    if (cnt[ll])
      return EXACT;
    for (unsigned c = ll + 1; c < 30; ++c)
      if (cnt[c])
        return SPLIT;
    return NONE;
  }
  // apply an allocation the model believes takes `path`
  void applyAlloc(unsigned ll, Path path) {
    unsigned size = 1u << ll;
    if (path == BUMP)
      nextLoc += size;
    else if (path == EXACT)
      cnt[ll]--;
    else if (path == SPLIT) {
      unsigned c = ll + 1;
      while (!cnt[c])
        ++c;
      cnt[c]--;
      for (unsigned i = ll; i < c; ++i)
        cnt[i]++;
    }
  }
  void applyFree(unsigned off, unsigned ll) {
    unsigned size = 1u << ll;
    if (off + size == nextLoc)
      nextLoc = off;
    else
      cnt[ll]++;
  }
  uint64_t freeListBytes() const {
    uint64_t b = 0;
    for (unsigned c = 7; c < 30; ++c)
      b += (uint64_t)cnt[c] << c;
    return b;
  }
};
Model g_modelThread, g_modelSocket;
// after a concurrent storm the model no longer describes the backend; what is known then is only that
// every small class (<= 2 KB) has plenty of free pieces (see stormCase)
bool g_stormHappened[2] = {false, false};
// PerSocketStorage moves: does the moved-from object release the offset (today's behaviour, a known defect) or
// not (after a fix)? Found out by a probe at the start of the PerSocketStorage.move process; only the
// availability model depends on it.
bool g_pssMoveProbed = false, g_pssMoveReleases = false;
constexpr unsigned STORM_MAX_CLS = 11;

struct PtsStats {
  uint64_t creates = 0, destroys = 0, bump = 0, exact = 0, split = 0, moves = 0, moveAssigns = 0, aligned128 = 0,
           blocks = 0, localChecks = 0, skippedNoRoom = 0, exhaustedCases = 0;
};

struct PtsCase {
  CaseCtx& c;
  Rng& rng;
  bool socket;
  Model& M;
  PtsStats st;
  unsigned maxT, nsock;
  char* base; // region of pool thread 0 / socket 0 (main thread's thread-local base)
  std::vector<unsigned> leaders;
  std::vector<StoBase*> live;
  const char* compName;

  PtsCase(CaseCtx& cc, Rng& r, bool sock) : c(cc), rng(r), socket(sock), M(sock ? g_modelSocket : g_modelThread) {
    auto& tp = gs::getThreadPool();
    maxT     = tp.getMaxThreads();
    nsock    = tp.getMaxSockets();
    base     = socket ? gs::pssBase : gs::ptsBase;
    for (unsigned s = 0; s < nsock; ++s)
      leaders.push_back(tp.getLeaderForSocket(s));
    c.extent = EXT_WITHIN_SLICE; // every per-thread region is one 2 MB mapping
  }

  bool canCreate(unsigned typeIdx, bool needMargin) const {
    unsigned ll = classOf(FACT[typeIdx].sz);
    if (g_stormHappened[socket])
      return ll <= STORM_MAX_CLS;
    auto p = M.pathFor(ll);
    if (p == Model::NONE)
      return false;
    if (M.lost || needMargin) // conservative: only plain bump allocations with room to spare
      return p == Model::BUMP && M.nextLoc + (1u << ll) + (256u << 10) <= Model::LIMIT;
    return true;
  }

  // register the blocks of a (new or re-addressed) storage object
  void registerBlocks(StoBase* s, int tid, const char* how) {
    unsigned nb = socket ? nsock : maxT;
    s->blocks.clear();
    for (unsigned i = 0; i < nb; ++i) {
      unsigned t = socket ? leaders[i] : i;
      void* p    = s->remote(t);
      Blk b      = onAlloc(c, p, s->sz, 64, s->typeIdx, tid, how);
      ++st.blocks;
      if (p && ((uintptr_t)p % 128) == 0)
        ++st.aligned128;
      s->blocks.push_back(b);
    }
  }
  bool allBlocksOk(StoBase* s) const {
    for (auto& b : s->blocks)
      if (!b.ok())
        return false;
    return true;
  }
  void retireBlocks(StoBase* s) {
    for (auto& b : s->blocks)
      beforeFree(c, b);
  }

  StoBase* create(unsigned typeIdx, int tid, bool probing = false) {
    unsigned ll  = classOf(FACT[typeIdx].sz);
    auto path    = M.pathFor(ll);
    unsigned nlb = M.nextLoc;
    StoBase* s   = nullptr;
    runOn(tid, [&] { s = socket ? FACT[typeIdx].mkSocket() : FACT[typeIdx].mkThread(); });
    s->sz      = FACT[typeIdx].sz;
    s->typeIdx = typeIdx;
    s->cls     = ll;
    s->offset  = (char*)s->remote(socket ? leaders[0] : 0) - base;
    ++st.creates;
    // follow the model (availability only)
    bool fromBump = s->offset >= (long)nlb;
    if (probing && path == Model::BUMP && s->offset + (long)(1u << ll) == (long)nlb) {
      // the probe's answer: the offset released by the moved-from object came straight back
      g_pssMoveReleases = true;
    } else if ((path == Model::BUMP) != fromBump || (path == Model::BUMP && s->offset != (long)nlb)) {
      M.lost = true;
      if (fromBump)
        M.nextLoc = std::max<unsigned>(M.nextLoc, (unsigned)s->offset + (1u << ll));
    } else {
      M.applyAlloc(ll, path);
    }
    if (fromBump)
      ++st.bump;
    else if (path == Model::SPLIT)
      ++st.split;
    else
      ++st.exact;
    registerBlocks(s, tid, socket ? "PerSocketStorage<T>()" : "PerThreadStorage<T>()");
    if (!allBlocksOk(s)) {
      // a violation was reported for (some of) its blocks. Release the good ones
      // from the shadow map and leak the object: destroying it could hand the
      // same offset out once more.
      retireBlocks(s);
      return nullptr;
    }
    live.push_back(s);
    return s;
  }
  void destroy(size_t idx, int tid) {
    StoBase* s = live[idx];
    live[idx]  = live.back();
    live.pop_back();
    retireBlocks(s);
    if (s->offset >= 0)
      M.applyFree((unsigned)s->offset, s->cls);
    if (tid != s->blocks[0].owner)
      c.xfrees.fetch_add(1, std::memory_order_relaxed);
    runOn(tid, [&] { delete s; });
    ++st.destroys;
  }
  // getLocal() on the owning thread must be that thread's block
  void checkLocal(StoBase* s, int tid) {
    if (tid < 0)
      tid = 0;
    void* l = nullptr;
    void* l2 = nullptr;
    runOn(tid, [&] {
      l  = s->local();
      l2 = s->localOf((unsigned)tid);
    });
    ++st.localChecks;
    void* r = s->remote((unsigned)tid);
    if (l != r || l2 != r)
      c.report(c.key("local-remote-mismatch"),
               J().kv("thread", tid).kv("getLocal", hexp(l)).kv("getLocal_tid", hexp(l2)).kv("getRemote", hexp(r)).str());
  }
  void checkAll(const char* when) {
    c.quiescentChecks.fetch_add(1, std::memory_order_relaxed);
    for (auto* s : live)
      for (auto& b : s->blocks)
        checkCanary(c, b, when);
  }
  // move-construct a new object from live[idx]; the moved-from source is destroyed right away
  void moveConstruct(size_t idx, int tid, int tidDel) {
    StoBase* s = live[idx];
    StoBase* n = nullptr;
    runOn(tid, [&] { n = s->moveConstruct(); });
    ++st.moves;
    n->offset = s->offset;
    n->blocks = s->blocks;
    // the new object must address the very same blocks
    unsigned nb = socket ? nsock : maxT;
    for (unsigned i = 0; i < nb; ++i) {
      void* p = n->remote(socket ? leaders[i] : i);
      if (p != n->blocks[i].p)
        c.report(c.key("move-changed-address"),
                 J().kv("index", i).kv("before", hexp(n->blocks[i].p)).kv("after", hexp(p)).str());
    }
    live[idx] = n;
    // destroying the moved-from object must not release anything: n stays live and keeps its canaries
    if (socket && g_pssMoveReleases)
      M.applyFree((unsigned)s->offset, s->cls); // what the library was observed to do (known defect): mirror it for availability
    runOn(tidDel, [&] { delete s; });
  }
  // a = std::move(b) for two live objects of the same type
  void moveAssign(size_t ia, size_t ib, int tid) {
    StoBase *a = live[ia], *b = live[ib];
    if (socket) {
      // PerSocketStorage::operator=(&&): a gives up its own offset (at the assignment or, with swap semantics,
      // when the moved-from b dies right below) and owns b's from now on
      retireBlocks(a);
      M.applyFree((unsigned)a->offset, a->cls);
      runOn(tid, [&] { a->moveAssignFrom(*b); });
      a->offset = b->offset;
      a->blocks = b->blocks;
      for (auto& blk : b->blocks)
        blk.id = 0; // b no longer owns them in the harness' eyes
      live[ib] = live.back();
      live.pop_back();
      if (g_pssMoveReleases)
        M.applyFree((unsigned)b->offset, b->cls); // known defect: b still believes it owns the offset
      runOn(tid, [&] { delete b; });
      for (unsigned i = 0; i < nsock; ++i)
        if (a->remote(leaders[i]) != a->blocks[i].p)
          c.report(c.key("move-changed-address"),
                   J().kv("index", i).kv("expected", hexp(a->blocks[i].p)).kv("after", hexp(a->remote(leaders[i]))).str());
    } else {
      // PerThreadStorage::operator=(&&) swaps
      runOn(tid, [&] { a->moveAssignFrom(*b); });
      std::swap(a->offset, b->offset);
      std::swap(a->blocks, b->blocks);
      for (StoBase* s : {a, b})
        for (unsigned i = 0; i < maxT; ++i)
          if (s->remote(i) != s->blocks[i].p)
            c.report(c.key("move-changed-address"),
                     J().kv("index", i).kv("expected", hexp(s->blocks[i].p)).kv("after", hexp(s->remote(i))).str());
    }
    ++st.moveAssigns;
  }
};

// uniform over size classes first, then over the types of that class
unsigned pickType(Rng& rng, unsigned maxCls) {
  unsigned cls = 7 + (unsigned)rng.below(std::max(maxCls, 7u) - 6);
  unsigned cand[NFACT], n = 0;
  for (unsigned t = 0; t < NFACT; ++t)
    if (classOf(FACT[t].sz) == cls)
      cand[n++] = t;
  if (!n)
    return 0;
  return cand[rng.below(n)];
}

void syncModel(PtsCase& P) {
  Model& M = P.M;
  if (M.synced)
    return;
  // the first allocation of the process tells where the bump pointer is
  StoBase* s = P.socket ? FACT[0].mkSocket() : FACT[0].mkThread();
  long off   = (char*)s->remote(P.socket ? P.leaders[0] : 0) - P.base;
  delete s; // last offset: recovered by the compare-exchange in deallocOffset
  M.nextLoc = (unsigned)off;
  M.synced  = true;
}

CaseResult serialCase(Harness& H, long k, Rng& rng, bool socket, bool moves, const char* comp) {
  CaseCtx c(H, comp);
  PtsCase P(c, rng, socket);
  syncModel(P);
  Model& M       = P.M;
  unsigned maxT  = P.maxT;
  bool exhaust   = !M.lost && !g_stormHappened[socket] && rng.below(5) < 2;
  unsigned nops  = H.thorough ? (unsigned)rng.pick({40, 120, 300}) : (unsigned)rng.pick({20, 60, 150});
  nops           = (unsigned)std::min<long>(nops, H.paramInt("maxops", 1000000));
  unsigned sticky = (unsigned)rng.pick({0, 50, 90});
  std::vector<int> T;
  unsigned nT = std::min<unsigned>((unsigned)rng.pick({1, 2, 4, 16}), maxT);
  for (unsigned i = 0; i < nT; ++i)
    T.push_back((int)rng.below(maxT));
  if (rng.below(2))
    T.push_back(-1);
  H.begin(k, J().kv("component", comp).kv("mode", "serial").kv("ops", nops).kv("exhaust", exhaust).kv("moves", moves)
                 .raw("threads", jarr(T)).kv("maxT", maxT).kv("sockets", P.nsock).kv("model_nextLoc", M.nextLoc)
                 .kv("model_free_list_bytes", M.freeListBytes()).kv("model_lost", M.lost).str());
  galois::setActiveThreads(maxT);
  auto pickT = [&] { return T[rng.below(T.size())]; };

  if (socket && moves && !g_pssMoveProbed && M.pathFor(8) == Model::BUMP && M.nextLoc + 1024 <= Model::LIMIT) {
    // probe (see g_pssMoveReleases): create, move-construct, destroy the moved-from object, create again
    g_pssMoveProbed = true;
    if (P.create(4, -1)) {
      P.moveConstruct(0, -1, -1);
      P.create(4, -1, true); // overlaps the live successor iff the moved-from object released the offset (reported by the oracle)
      while (!P.live.empty())
        P.destroy(P.live.size() - 1, -1);
    }
  }
  if (exhaust) {
    ++P.st.exhaustedCases;
    // A: fill the bump region with big, then medium, then small objects
    for (unsigned maxCls : {18u, 14u, 10u, 7u}) {
      for (int guard = 0; guard < 64; ++guard) {
        unsigned t  = pickType(rng, maxCls);
        unsigned ll = classOf(FACT[t].sz);
        if (M.pathFor(ll) != Model::BUMP || c.poisoned.load())
          break;
        P.create(t, pickT());
        progress();
      }
    }
    P.checkAll("after-fill");
    // B: release a random subset (these go to the size-class free lists unless they are the last offset)
    unsigned nrel = 2 + (unsigned)rng.below(5);
    for (unsigned i = 0; i < nrel && P.live.size() > 1; ++i) {
      size_t idx = rng.below(P.live.size());
      if (rng.below(2)) // prefer a big one: its chunk will be split into change by later small requests
        for (size_t j = 0; j < P.live.size(); ++j)
          if (P.live[j]->cls > P.live[idx]->cls)
            idx = j;
      P.destroy(idx, pickT());
    }
  }
  // C: random history
  int cur = pickT();
  for (unsigned step = 0; step < nops && !c.poisoned.load() && c.perKey.size() <= 8; ++step) {
    if (rng.below(100) >= sticky)
      cur = pickT();
    unsigned x = (unsigned)rng.below(100);
    if (x < 42) {
      unsigned t = pickType(rng, exhaust ? 18 : (unsigned)rng.pick({8, 10, 12, 14, 16}));
      if (!M.lost && !g_stormHappened[socket] && rng.below(3) == 0) {
        // steer towards the "vending machine change" path: a class whose own free list is empty while a bigger chunk is free
        unsigned first = 7 + (unsigned)rng.below(12);
        for (unsigned i = 0; i < 12; ++i) {
          unsigned cls = 7 + (first - 7 + i) % 12;
          if (M.pathFor(cls) != Model::SPLIT)
            continue;
          for (unsigned u = 0; u < NFACT; ++u)
            if (classOf(FACT[(u + first) % NFACT].sz) == cls) {
              t = (u + first) % NFACT;
              break;
            }
          break;
        }
      }
      if (P.live.size() < 40 && P.canCreate(t, false))
        P.create(t, cur);
      else {
        ++P.st.skippedNoRoom;
        if (!P.live.empty())
          P.destroy(rng.below(P.live.size()), cur);
      }
    } else if (x < 72) {
      if (!P.live.empty())
        P.destroy(rng.below(P.live.size()), cur);
    } else if (x < 76 && !M.lost && !g_stormHappened[socket]) {
      // drain one size class (keep everything live) until its free list is empty and one more request has to
      // split a bigger free chunk into change
      unsigned first = 7 + (unsigned)rng.below(12);
      for (unsigned i = 0; i < 12; ++i) {
        unsigned cls = 7 + (first - 7 + i) % 12;
        if (M.pathFor(cls) != Model::EXACT || M.cnt[cls] > 6)
          continue;
        bool bigger = false;
        for (unsigned b = cls + 1; b < 30; ++b)
          bigger |= M.cnt[b] > 0;
        if (!bigger)
          continue;
        unsigned t = NFACT;
        for (unsigned u = 0; u < NFACT; ++u)
          if (classOf(FACT[(u + first) % NFACT].sz) == cls)
            t = (u + first) % NFACT;
        if (t == NFACT)
          continue;
        for (unsigned n = M.cnt[cls] + 1 + (unsigned)rng.below(2); n > 0 && P.live.size() < 48 && P.canCreate(t, false); --n)
          P.create(t, cur);
        break;
      }
    } else if (x < 80) {
      P.checkAll("quiescent");
    } else if (x < 88 && moves) {
      if (!P.live.empty())
        P.moveConstruct(rng.below(P.live.size()), cur, pickT());
    } else if (x < 93 && moves) {
      // same-type pair
      for (size_t i = 0; i < P.live.size(); ++i) {
        bool done = false;
        for (size_t j = i + 1; j < P.live.size(); ++j)
          if (P.live[i]->typeIdx == P.live[j]->typeIdx) {
            P.moveAssign(i, j, cur);
            done = true;
            break;
          }
        if (done)
          break;
      }
    } else if (!P.live.empty()) {
      P.checkLocal(P.live[rng.below(P.live.size())], cur < 0 ? 0 : cur);
    }
    progress();
  }
  P.checkAll("final");
  // D: destroy everything, highest offset first so the bump pointer gets back what it can
  std::sort(P.live.begin(), P.live.end(), [](StoBase* a, StoBase* b) { return a->offset < b->offset; });
  while (!P.live.empty())
    P.destroy(P.live.size() - 1, pickT());
  c.flush();

  CaseResult R;
  R.nontrivial = c.maxLive.load() >= 2 && P.st.destroys >= 1 && P.st.creates >= 2;
  R.sig = std::string(comp) + "|serial|" + (exhaust ? "exhaust" : "light") + "|b" + bucket(P.st.bump) + "|e" + bucket(P.st.exact) +
          "|s" + bucket(P.st.split) + "|mv" + bucket(P.st.moves + P.st.moveAssigns) + "|T" + std::to_string(T.size()) + "|sock" +
          std::to_string(P.nsock);
  J obs;
  commonObs(obs, c).kv("serial_cases", 1).kv("storage_creates", P.st.creates).kv("storage_destroys", P.st.destroys)
      .kv("offsets_from_bump", P.st.bump).kv("offsets_from_free_list_exact", P.st.exact).kv("offsets_from_free_list_split", P.st.split)
      .kv("storage_move_constructs", P.st.moves).kv("storage_move_assigns", P.st.moveAssigns)
      .kv("storage_blocks_128B_aligned", P.st.aligned128).kv("storage_blocks", P.st.blocks)
      .kv("getLocal_checks", P.st.localChecks).kv("creates_skipped_no_room", P.st.skippedNoRoom)
      .kv("exhausted_region_cases", P.st.exhaustedCases).kv("model_lost", (int)M.lost).kv("max_live", c.maxLive.load());
  R.obs = obs.str();
  return R;
}

// concurrent creation / destruction from pool threads (small classes only, see file comment)
struct alignas(64) StoMail {
  std::mutex m;
  std::vector<StoBase*> v;
};

CaseResult stormCase(Harness& H, long k, Rng& rng, bool socket, const char* comp) {
  CaseCtx c(H, comp);
  PtsCase P(c, rng, socket);
  unsigned maxT  = P.maxT;
  unsigned n     = std::max(1u, std::min<unsigned>((unsigned)rng.pick({2, 4, 8, 8}), maxT));
  unsigned ops   = H.thorough ? (unsigned)rng.pick({200, 800, 2000}) : (unsigned)rng.pick({100, 400, 1000});
  ops            = (unsigned)std::min<long>(ops, H.paramInt("maxops", 1000000));
  unsigned delayPct = (unsigned)rng.pick({0, 5, 20});
  uint64_t sseed = rng.next();
  H.begin(k, J().kv("component", comp).kv("mode", "storm").kv("threads", n).kv("ops_per_thread", ops).kv("delayPct", delayPct)
                 .kv("maxT", maxT).kv("sockets", P.nsock).str());
  galois::setActiveThreads(n);
  // --param precond=1: before the first storm of the process, fill the bump region with big objects and
  // release them, so that the concurrent small requests are served from the free lists by splitting big
  // chunks into change (otherwise the first storms run on the bump pointer until it is exhausted)
  uint64_t preconditioned = 0;
  if (H.paramInt("precond", 0) && !g_stormHappened[socket] && !P.M.lost) {
    syncModel(P);
    for (unsigned maxCls : {18u, 18u, 16u, 14u, 12u}) {
      for (int guard = 0; guard < 32; ++guard) {
        unsigned cand[NFACT], nc = 0;
        for (unsigned t = 0; t < NFACT; ++t)
          if (classOf(FACT[t].sz) == maxCls)
            cand[nc++] = t;
        unsigned t = cand[rng.below(nc)];
        if (P.M.pathFor(classOf(FACT[t].sz)) != Model::BUMP)
          break;
        P.create(t, -1);
      }
    }
    preconditioned = P.live.size();
    std::sort(P.live.begin(), P.live.end(), [](StoBase* a, StoBase* b) { return a->offset > b->offset; });
    while (!P.live.empty())
      P.destroy(P.live.size() - 1, -1); // lowest offset first: every chunk but the last goes to a free list
  }
  std::vector<StoMail> mail(n);
  std::atomic<uint64_t> creates{0}, destroys{0}, blocks{0}, aligned128{0}, opsDone{0}, leaked{0};
  unsigned nb = socket ? P.nsock : maxT;
  auto regBlocks = [&](StoBase* s, int tid) {
    bool ok = true;
    for (unsigned i = 0; i < nb; ++i) {
      void* p = s->remote(socket ? P.leaders[i] : i);
      Blk b   = onAlloc(c, p, s->sz, 64, s->typeIdx, tid, socket ? "PerSocketStorage<T>()" : "PerThreadStorage<T>()");
      blocks.fetch_add(1, std::memory_order_relaxed);
      if (p && ((uintptr_t)p % 128) == 0)
        aligned128.fetch_add(1, std::memory_order_relaxed);
      ok &= b.ok();
      s->blocks.push_back(b);
    }
    return ok;
  };
  auto kill = [&](StoBase* s, int tid) {
    for (auto& b : s->blocks)
      beforeFree(c, b);
    if (tid != s->blocks[0].owner)
      c.xfrees.fetch_add(1, std::memory_order_relaxed);
    delete s;
    destroys.fetch_add(1, std::memory_order_relaxed);
  };
  galois::on_each([&](unsigned tid, unsigned) {
    Rng lr(mix(sseed, 0x7171 + tid));
    std::vector<StoBase*> mine;
    auto drain = [&] {
      std::vector<StoBase*> got;
      {
        std::lock_guard<std::mutex> lg(mail[tid].m);
        got.swap(mail[tid].v);
      }
      for (auto* s : got)
        kill(s, (int)tid);
    };
    for (unsigned i = 0; i < ops && !c.poisoned.load(std::memory_order_relaxed); ++i) {
      unsigned x = (unsigned)lr.below(100);
      if (x < 40 && mine.size() < 2) {
        unsigned t = pickType(lr, STORM_MAX_CLS); // <= 2 KB classes
        StoBase* s = socket ? FACT[t].mkSocket() : FACT[t].mkThread();
        s->sz      = FACT[t].sz;
        s->typeIdx = t;
        s->cls     = classOf(s->sz);
        creates.fetch_add(1, std::memory_order_relaxed);
        if (regBlocks(s, (int)tid))
          mine.push_back(s);
        else {
          for (auto& b : s->blocks)
            beforeFree(c, b);
          leaked.fetch_add(1, std::memory_order_relaxed); // reported; never destroyed
        }
      } else if (x < 65) {
        if (!mine.empty()) {
          size_t idx = lr.below(mine.size());
          kill(mine[idx], (int)tid);
          mine[idx] = mine.back();
          mine.pop_back();
        }
      } else if (x < 80) {
        if (!mine.empty() && n > 1) {
          size_t idx = lr.below(mine.size());
          unsigned u = (unsigned)lr.below(n - 1);
          if (u >= tid)
            ++u;
          {
            std::lock_guard<std::mutex> lg(mail[u].m);
            mail[u].v.push_back(mine[idx]);
          }
          mine[idx] = mine.back();
          mine.pop_back();
        }
      } else if (x < 90) {
        drain();
      } else {
        for (auto* s : mine) {
          for (auto& b : s->blocks)
            checkCanary(c, b, "random");
          if (s->local() != s->remote(tid))
            c.report(c.key("local-remote-mismatch"), J().kv("thread", tid).str());
        }
      }
      if (delayPct && lr.below(100) < delayPct) {
        if (lr.below(3) == 0)
          sched_yield();
        else
          busy_delay_ns(100 + lr.below(4000));
      }
      progress();
    }
    for (auto* s : mine)
      kill(s, (int)tid);
    drain();
    opsDone.fetch_add(ops, std::memory_order_relaxed);
  });
  for (auto& mb : mail) {
    for (auto* s : mb.v)
      kill(s, -1);
    mb.v.clear();
  }
  g_stormHappened[socket] = true;
  P.M.lost                = true;
  c.flush();
  CaseResult R;
  R.nontrivial = n >= 2 && c.maxLive.load() >= 2 && destroys.load() >= 1;
  R.sig = std::string(comp) + "|storm|n" + std::to_string(n) + "|x" + bucket(c.xfrees.load()) + "|r" + bucket(c.reuses.load()) +
          "|d" + std::to_string(delayPct) + "|sock" + std::to_string(P.nsock);
  J obs;
  commonObs(obs, c).kv("storm_cases", 1).kv("storm_ops", opsDone.load()).kv("storm_threads", n)
      .kv("storage_creates", creates.load()).kv("storage_destroys", destroys.load()).kv("storage_blocks", blocks.load())
      .kv("storage_blocks_128B_aligned", aligned128.load()).kv("tainted_blocks", leaked.load()).kv("max_live", c.maxLive.load())
      .kv("storm_preconditioned_big_chunks", preconditioned);
  R.obs = obs.str();
  return R;
}

CaseResult ptsCase(Harness& H, long k, Rng& rng, bool storm) {
  return storm ? stormCase(H, k, rng, false, "PerThreadStorage") : serialCase(H, k, rng, false, true, "PerThreadStorage");
}
CaseResult pssCase(Harness& H, long k, Rng& rng, bool storm) {
  return storm ? stormCase(H, k, rng, true, "PerSocketStorage") : serialCase(H, k, rng, true, false, "PerSocketStorage");
}
// PerSocketStorage with move construction / move assignment in the history. Kept apart (own component name, own
// process) because the moved-from object releases the offset of its live successor (known finding), which would
// otherwise blur every later per-socket case of the process.
CaseResult pssMoveCase(Harness& H, long k, Rng& rng, bool) {
  return serialCase(H, k, rng, true, true, "PerSocketStorage.move");
}

Register r1("PerThreadStorage", ptsCase, 10, 10, true);
Register r2("PerSocketStorage", pssCase, 8, 8, true);
Register r3("PerSocketStorage.move", pssMoveCase, 10, 0, true);

} // namespace
