// C15 — ThreadSafeOrderedSet, ThreadSafeMinHeap (concurrent push / remove /
// find / pop against std::set / std::multiset models) and concurrent
// UnionFind merges with find / findAndCompress / compress against an
// independent sequential union-find (ref/c15_ref.h).
#include "c15_common.h"
#include "c15_ref.h"

#include "galois/Galois.h"
#include "galois/PriorityQueue.h"
#include "galois/UnionFind.h"

#include <climits>
#include <memory>
#include <set>

using namespace verif;

namespace c15 {
namespace {

template <typename Cmp>
const char* cmpName() {
  return std::is_same_v<Cmp, std::less<long>> ? "less" : "greater";
}
template <typename Cmp>
long sentinelLast() { // sorts after every generated key
  return std::is_same_v<Cmp, std::less<long>> ? LONG_MAX : LONG_MIN;
}

// ------------------------------------------------------------------ ThreadSafeOrderedSet
template <typename Cmp>
void orderedSet(Case& c) {
  using Set     = galois::ThreadSafeOrderedSet<long, Cmp>;
  long range    = c.rng.pick({8L, 100L, 5000L});
  size_t npush  = c.rng.pick({(size_t)1, (size_t)20, (size_t)500, (size_t)3000});
  size_t nrem   = c.rng.pick({(size_t)0, (size_t)20, (size_t)800});
  bool rangeCtr = c.rng.below(3) == 0;
  Plan p1 = makePlan(c), p2 = makePlan(c), p3 = makePlan(c);
  c.begin("ThreadSafeOrderedSet",
          J().kv("cmp", cmpName<Cmp>()).kv("key_range", range).kv("pushes", npush).kv("removes_finds", nrem)
              .kv("range_ctor", rangeCtr).kv("plan_push", p1.name() + "@" + std::to_string(p1.threads))
              .kv("plan_remove", p2.name() + "@" + std::to_string(p2.threads))
              .kv("plan_pop", p3.name() + "@" + std::to_string(p3.threads)));
  c.sig = std::string("ThreadSafeOrderedSet|") + cmpName<Cmp>() + "|r" + std::to_string(range) + "|" + p1.name() + "@" +
          std::to_string(p1.threads) + "|rc" + (rangeCtr ? "1" : "0");
  Cmp cmp;
  std::set<long, Cmp> model;
  std::vector<long> init{sentinelLast<Cmp>()}; // never removed: remove()/pop() are only exercised on a non-empty set
  if (rangeCtr)
    for (int i = 0; i < 10; ++i)
      init.push_back((long)c.rng.below(range) - range / 2);
  std::unique_ptr<Set> sp;
  if (rangeCtr)
    sp.reset(new Set(init.begin(), init.end()));
  else {
    sp.reset(new Set());
    sp->push(init[0]);
  }
  Set& s = *sp;
  model.insert(init.begin(), init.end());
  auto contentsOk = [&](const char* after) {
    std::vector<long> got(s.begin(), s.end()), want(model.begin(), model.end());
    if (got != want || s.size() != model.size() || s.empty() || s.top() != *model.begin()) {
      c.viol("contents-mismatch", J().kv("after", after).kv("got_size", got.size()).kv("size()", (uint64_t)s.size())
                                      .kv("want_size", want.size()).raw("got_head", jarr(got, 8)).raw("want_head", jarr(want, 8)));
      return false;
    }
    c.add("set_content_checks", 1);
    return true;
  };
  // phase 1: concurrent push (push returns whether inserted)
  {
    std::vector<long> key(npush);
    std::vector<uint8_t> form(npush), ret(npush, 2);
    for (size_t i = 0; i < npush; ++i) {
      key[i]  = (long)c.rng.below(range) - range / 2;
      form[i] = (uint8_t)c.rng.below(4); // 0,1 push; 2 insert; 3 push_back
    }
    ExecResult res = execPlan(c, p1, npush, [&](uint32_t i, unsigned) {
      switch (form[i]) {
      case 2: s.insert(key[i]); break;
      case 3: s.push_back(key[i]); break;
      default: ret[i] = s.push(key[i]); break;
      }
    });
    if (!res.exactlyOnce)
      return;
    std::map<long, std::pair<unsigned, unsigned>> per; // key -> (#true returns, #calls without return value)
    for (size_t i = 0; i < npush; ++i) {
      auto& e = per[key[i]];
      if (ret[i] == 1) e.first++;
      if (ret[i] == 2) e.second++;
    }
    for (auto& kv : per) {
      bool was = model.count(kv.first);
      unsigned t = kv.second.first, silent = kv.second.second;
      bool ok = was ? t == 0 : (silent ? t <= 1 : t == 1);
      if (!ok) {
        c.viol("push-return-wrong", J().kv("key", kv.first).kv("was_present", was).kv("pushes_returning_true", t).kv("plan", p1.name()));
        return;
      }
      model.insert(kv.first);
    }
    c.add("set_pushes", npush);
    if (!contentsOk("concurrent push"))
      return;
  }
  // phase 2: concurrent remove (keys in R) and find (keys not in R)
  if (nrem) {
    std::vector<long> key(nrem);
    std::vector<uint8_t> isFind(nrem), ret(nrem, 2);
    for (size_t i = 0; i < nrem; ++i) {
      key[i]    = (long)c.rng.below(range + range / 4 + 2) - range / 2; // some keys are absent
      isFind[i] = (key[i] & 1) != 0;                                    // odd keys are only looked up, even keys only removed
    }
    ExecResult res = execPlan(c, p2, nrem, [&](uint32_t i, unsigned) {
      ret[i] = isFind[i] ? s.find(key[i]) : s.remove(key[i]);
    });
    if (!res.exactlyOnce)
      return;
    std::map<long, unsigned> trues;
    for (size_t i = 0; i < nrem; ++i) {
      if (isFind[i]) {
        if ((bool)ret[i] != (model.count(key[i]) != 0)) {
          c.viol("find-wrong", J().kv("key", key[i]).kv("returned", (int)ret[i]));
          return;
        }
      } else {
        trues[key[i]] += ret[i] == 1;
      }
    }
    for (auto& kv : trues) {
      bool was = model.count(kv.first);
      if (kv.second != (was ? 1u : 0u)) {
        c.viol("remove-return-wrong", J().kv("key", kv.first).kv("was_present", was).kv("removes_returning_true", kv.second).kv("plan", p2.name()));
        return;
      }
      model.erase(kv.first);
    }
    c.add("set_removes_finds", nrem);
    if (!contentsOk("concurrent remove/find"))
      return;
  }
  // phase 3: concurrent pop of k < size elements: exactly the k first in order
  {
    size_t k = model.size() - 1;
    if (k && c.rng.below(2))
      k = c.rng.below(k + 1);
    std::vector<long> ret(k);
    std::vector<std::vector<uint32_t>> order(c.maxT);
    ExecResult res = execPlan(c, p3, k, [&](uint32_t i, unsigned tid) {
      ret[i] = s.pop();
      order[tid].push_back(i);
    });
    if (!res.exactlyOnce)
      return;
    std::vector<long> got = ret, want;
    std::sort(got.begin(), got.end(), cmp);
    auto it = model.begin();
    for (size_t i = 0; i < k; ++i)
      want.push_back(*it++);
    if (got != want) {
      c.viol("pop-not-the-smallest", J().kv("k", k).raw("popped_sorted_head", jarr(got, 8)).raw("want_head", jarr(want, 8)).kv("plan", p3.name()));
      return;
    }
    for (unsigned t = 0; t < c.maxT; ++t)
      for (size_t j = 1; j < order[t].size(); ++j)
        if (!cmp(ret[order[t][j - 1]], ret[order[t][j]])) {
          c.viol("pop-order-in-thread", J().kv("thread", t).kv("earlier", ret[order[t][j - 1]]).kv("later", ret[order[t][j]]));
          return;
        }
    model.erase(model.begin(), it);
    c.add("set_pops", k);
    if (!contentsOk("concurrent pop"))
      return;
  }
  s.clear();
  if (!s.empty() || s.size() != 0 || s.begin() != s.end())
    c.viol("clear-incomplete", J().kv("size", (uint64_t)s.size()));
}

// ------------------------------------------------------------------ ThreadSafeMinHeap
template <typename Cmp>
void minHeap(Case& c) {
  using Heap     = galois::ThreadSafeMinHeap<long, Cmp>;
  bool rangeCtr  = c.rng.below(4) == 0;
  bool distinct  = c.rng.below(2);          // needed for the remove phase (remove of a duplicated value is ambiguous)
  long range     = c.rng.pick({8L, 1000L, 1000000L});
  size_t npush   = c.rng.pick({(size_t)1, (size_t)20, (size_t)500, (size_t)3000});
  size_t nrem    = distinct ? c.rng.pick({(size_t)0, (size_t)20, (size_t)300}) : 0;
  Plan p1 = makePlan(c), p2 = makePlan(c), p3 = makePlan(c);
  c.begin("ThreadSafeMinHeap",
          J().kv("cmp", cmpName<Cmp>()).kv("range_ctor", rangeCtr).kv("distinct_values", distinct).kv("value_range", range)
              .kv("pushes", npush).kv("removes_finds", nrem)
              .kv("plan_push", p1.name() + "@" + std::to_string(p1.threads))
              .kv("plan_pop", p3.name() + "@" + std::to_string(p3.threads)));
  c.sig = std::string("ThreadSafeMinHeap|") + cmpName<Cmp>() + "|rc" + (rangeCtr ? "1" : "0") + "|d" + (distinct ? "1" : "0") +
          "|" + p1.name() + "@" + std::to_string(p1.threads);
  const std::string orderKey = rangeCtr ? "range-ctor-breaks-heap-order" : "wrong-order";
  Cmp cmp;
  std::multiset<long, Cmp> model;
  std::vector<long> everPushed;
  long next = 1;
  auto gen  = [&]() -> long {
    if (distinct)
      return (next += 1 + (long)c.rng.below(3)) * (c.rng.below(2) ? 1 : -1);
    return (long)c.rng.below(range) - range / 2;
  };
  std::vector<long> init{sentinelLast<Cmp>()};
  if (rangeCtr)
    for (int i = 0; i < 9; ++i)
      init.push_back(gen());
  std::unique_ptr<Heap> hp;
  if (rangeCtr)
    hp.reset(new Heap(init.begin(), init.end()));
  else {
    hp.reset(new Heap());
    hp->push(init[0]);
  }
  Heap& h = *hp;
  model.insert(init.begin(), init.end());
  auto contentsOk = [&](const char* after) {
    std::vector<long> got(h.begin(), h.end()), want(model.begin(), model.end());
    std::sort(got.begin(), got.end(), cmp);
    if (got != want || h.size() != model.size() || h.empty()) {
      c.viol("contents-mismatch", J().kv("after", after).kv("size()", (uint64_t)h.size()).kv("want_size", want.size())
                                      .raw("got_sorted_head", jarr(got, 8)).raw("want_head", jarr(want, 8)));
      return false;
    }
    if (h.top() != *model.begin()) {
      c.viol(orderKey, J().kv("after", after).kv("top()", h.top()).kv("want", *model.begin()));
      return false;
    }
    c.add("heap_content_checks", 1);
    return true;
  };
  if (!contentsOk("construction"))
    return;
  { // phase 1: concurrent push
    std::vector<long> val(npush);
    for (auto& v : val)
      v = gen();
    ExecResult res = execPlan(c, p1, npush, [&](uint32_t i, unsigned) {
      switch (i % 3) {
      case 0: h.push(val[i]); break;
      case 1: h.push_back(val[i]); break;
      default: h.insert(val[i]); break;
      }
    });
    if (!res.exactlyOnce)
      return;
    model.insert(val.begin(), val.end());
    c.add("heap_pushes", npush);
    if (!contentsOk("concurrent push"))
      return;
  }
  if (nrem) { // phase 2: concurrent remove (even positions) / find (odd positions) of distinct values
    std::vector<long> present(model.begin(), model.end());
    present.pop_back(); // the sentinel stays
    std::vector<long> key(nrem);
    std::vector<uint8_t> isFind(nrem), ret(nrem, 2);
    std::set<long> removedKeys, foundKeys;
    for (size_t i = 0; i < nrem; ++i) {
      bool absent = present.empty() || c.rng.below(4) == 0;
      key[i]      = absent ? (long)(3000000 + c.rng.below(1000)) : present[c.rng.below(present.size())];
      // a value is either only removed or only looked up in this phase
      if (removedKeys.count(key[i])) isFind[i] = 0;
      else if (foundKeys.count(key[i])) isFind[i] = 1;
      else isFind[i] = (uint8_t)c.rng.below(2);
      (isFind[i] ? foundKeys : removedKeys).insert(key[i]);
    }
    ExecResult res = execPlan(c, p2, nrem, [&](uint32_t i, unsigned) {
      ret[i] = isFind[i] ? h.find(key[i]) : h.remove(key[i]);
    });
    if (!res.exactlyOnce)
      return;
    std::map<long, unsigned> trues;
    for (size_t i = 0; i < nrem; ++i) {
      if (isFind[i]) {
        if ((bool)ret[i] != (model.count(key[i]) != 0)) {
          c.viol("find-wrong", J().kv("value", key[i]).kv("returned", (int)ret[i]));
          return;
        }
      } else
        trues[key[i]] += ret[i] == 1;
    }
    for (auto& kv : trues) {
      bool was = model.count(kv.first);
      if (kv.second != (was ? 1u : 0u)) {
        c.viol(rangeCtr ? orderKey : "remove-return-wrong",
               J().kv("value", kv.first).kv("was_present", was).kv("removes_returning_true", kv.second));
        return;
      }
      model.erase(kv.first);
    }
    c.add("heap_removes_finds", nrem);
    if (!contentsOk("concurrent remove/find"))
      return;
  }
  { // phase 3: concurrent pop of k < size elements
    size_t k = model.size() - 1;
    if (k && c.rng.below(2))
      k = c.rng.below(k + 1);
    std::vector<long> ret(k);
    std::vector<std::vector<uint32_t>> order(c.maxT);
    ExecResult res = execPlan(c, p3, k, [&](uint32_t i, unsigned tid) {
      ret[i] = h.pop();
      order[tid].push_back(i);
    });
    if (!res.exactlyOnce)
      return;
    std::vector<long> got = ret, want;
    std::sort(got.begin(), got.end(), cmp);
    auto it = model.begin();
    for (size_t i = 0; i < k; ++i)
      want.push_back(*it++);
    if (got != want) {
      c.viol(orderKey, J().kv("what", "k concurrent pops did not return the k smallest").kv("k", k)
                           .raw("popped_sorted_head", jarr(got, 8)).raw("want_head", jarr(want, 8)));
      return;
    }
    for (unsigned t = 0; t < c.maxT; ++t)
      for (size_t j = 1; j < order[t].size(); ++j)
        if (cmp(ret[order[t][j]], ret[order[t][j - 1]])) {
          c.viol(orderKey, J().kv("what", "pops of one thread not in order").kv("thread", t)
                               .kv("earlier", ret[order[t][j - 1]]).kv("later", ret[order[t][j]]));
          return;
        }
    everPushed.assign(model.begin(), it);
    model.erase(model.begin(), it);
    c.add("heap_pops", k);
    if (!contentsOk("concurrent pop"))
      return;
  }
  { // phase 4: serial drain in order
    std::vector<long> got, want(model.begin(), model.end());
    while (!h.empty() && got.size() <= want.size())
      got.push_back(h.pop());
    if (got != want) {
      c.viol(orderKey, J().kv("what", "serial drain").raw("got_head", jarr(got, 8)).raw("want_head", jarr(want, 8)));
      return;
    }
    c.add("heap_pops", got.size());
    everPushed.insert(everPushed.end(), want.begin(), want.end());
  }
  h.clear();
}

// ------------------------------------------------------------------ ThreadSafeMinHeap: remove() after the heap was drained
// (own component: with asserts on, the library aborts here, which must not cost the other heap cases their coverage)
void drainedRemove(Case& c) {
  using Heap   = galois::ThreadSafeMinHeap<long>;
  size_t npush = c.rng.pick({(size_t)1, (size_t)2, (size_t)40, (size_t)600});
  Plan p1 = makePlan(c), p3 = makePlan(c);
  c.begin("ThreadSafeMinHeap.drained-remove",
          J().kv("pushes", npush).kv("plan_push", p1.name() + "@" + std::to_string(p1.threads))
              .kv("plan_pop", p3.name() + "@" + std::to_string(p3.threads)));
  c.sig = "ThreadSafeMinHeap.drained-remove|n" + std::to_string(npush) + "|" + p1.name() + "@" + std::to_string(p1.threads);
  Heap h;
  std::vector<long> val(npush), ret(npush);
  for (auto& v : val)
    v = (long)c.rng.below(1000);
  execPlan(c, p1, npush, [&](uint32_t i, unsigned) { h.push(val[i]); });
  execPlan(c, p3, npush, [&](uint32_t i, unsigned) { ret[i] = h.pop(); });
  c.add("heap_pushes", npush);
  c.add("heap_pops", npush);
  std::vector<long> a = val, b = ret;
  std::sort(a.begin(), a.end());
  std::sort(b.begin(), b.end());
  if (a != b || !h.empty() || h.size() != 0) {
    c.viol("drain-mismatch", J().kv("size()", (uint64_t)h.size()));
    return;
  }
  // the heap is empty: remove(x) must report false for every x and leave it empty
  std::vector<long> keys{-5, 1000000};
  for (size_t i = 0; i < a.size() && keys.size() < 40; i += 1 + a.size() / 32)
    keys.push_back(a[i]);
  keys.push_back(a.back()); // the largest value = the last one popped
  for (long k : keys) {     // serial; stop at the first wrong answer (the heap is then corrupt)
    bool r = h.remove(k);
    c.add("heap_removes_on_empty", 1);
    if (r || h.size() != 0 || !h.empty()) {
      c.viol("remove-returns-true", J().kv("value", k).kv("returned", r).kv("size()", (uint64_t)h.size()).kv("empty()", h.empty()));
      return;
    }
  }
  h.clear();
}

// ------------------------------------------------------------------ UnionFind
struct UFNode : public galois::UnionFindNode<UFNode> {
  uint32_t id = 0;
  UFNode() : galois::UnionFindNode<UFNode>(this) {}
};

void unionFind(Case& c) {
  uint32_t N  = c.rng.pick({2u, 10u, 100u, 2000u, 20000u});
  int shape   = (int)c.rng.below(6);
  Plan p      = makePlan(c);
  Plan pc     = makePlan(c);
  std::vector<std::pair<uint32_t, uint32_t>> edges;
  auto rnd = [&]() { return (uint32_t)c.rng.below(N); };
  switch (shape) {
  case 0: for (uint32_t i = 0; i < N / 2; ++i) edges.push_back({rnd(), rnd()}); break;          // sparse
  case 1: for (uint32_t i = 0; i < 2 * N; ++i) edges.push_back({rnd(), rnd()}); break;          // dense
  case 2: for (uint32_t i = 0; i + 1 < N; ++i) edges.push_back({i, i + 1}); break;              // chain (long paths)
  case 3: { uint32_t hub = rnd(); for (uint32_t i = 0; i < N; ++i) edges.push_back({i, hub}); break; } // star
  case 4: { uint32_t a = rnd(), b = rnd(); for (uint32_t i = 0; i < 200; ++i) edges.push_back({a, b});     // one hot pair
            for (uint32_t i = 0; i < N / 4; ++i) edges.push_back({rnd(), rnd()}); break; }
  default: { // two halves joined internally, then many bridges at once
    uint32_t h = N / 2;
    for (uint32_t i = 0; i + 1 < h; ++i) edges.push_back({i, (uint32_t)c.rng.below(i + 1)});
    for (uint32_t i = h; i + 1 < N; ++i) edges.push_back({i + 1, h + (uint32_t)c.rng.below(i + 1 - h)});
    for (uint32_t i = 0; i < 64 && h; ++i) edges.push_back({(uint32_t)c.rng.below(h), h + (uint32_t)c.rng.below(N - h)});
    break;
  }
  }
  if (shape == 2 && c.rng.below(2))
    std::reverse(edges.begin(), edges.end());
  if (c.rng.below(2))
    for (size_t i = edges.size(); i > 1; --i)
      std::swap(edges[i - 1], edges[c.rng.below(i)]);
  // operations: merges interleaved with find / findAndCompress
  struct Op {
    uint8_t kind; // 0 merge, 1 find, 2 findAndCompress, 3 const find
    uint32_t a, b;
  };
  std::vector<Op> ops;
  unsigned findRatio = c.rng.pick({0u, 1u, 3u});
  for (auto& e : edges) {
    ops.push_back({0, e.first, e.second});
    for (unsigned f = 0; f < findRatio; ++f)
      if (c.rng.below(2))
        ops.push_back({(uint8_t)(1 + c.rng.below(3)), rnd(), 0});
  }
  static const char* SH[] = {"sparse", "dense", "chain", "star", "hot-pair", "two-halves+bridges"};
  c.begin("UnionFind", J().kv("nodes", N).kv("shape", SH[shape]).kv("merges", edges.size()).kv("ops", ops.size())
                           .kv("plan", p.name()).kv("threads", p.threads).kv("noise", p.noise));
  c.sig = std::string("UnionFind|") + SH[shape] + "|N" + std::to_string(N) + "|" + p.name() + "@" + std::to_string(p.threads) +
          "|f" + std::to_string(findRatio);
  std::unique_ptr<UFNode[]> nodes(new UFNode[N]);
  for (uint32_t i = 0; i < N; ++i)
    nodes[i].id = i;
  c15ref::SeqUnionFind ref(N);
  for (auto& e : edges)
    ref.unite(e.first, e.second);
  std::vector<uint32_t> out(ops.size(), UINT32_MAX); // merge: 1/0 ; find: id of the returned node
  std::vector<uint32_t> mergeRoot(ops.size(), UINT32_MAX);
  ExecResult res = execPlan(c, p, ops.size(), [&](uint32_t i, unsigned) {
    const Op& o = ops[i];
    switch (o.kind) {
    case 0: {
      UFNode* r = nodes[o.a].merge(&nodes[o.b]);
      out[i]    = r != nullptr;
      if (r)
        mergeRoot[i] = r->id;
      break;
    }
    case 1: out[i] = nodes[o.a].find()->id; break;
    case 2: out[i] = nodes[o.a].findAndCompress()->id; break;
    default: out[i] = const_cast<const UFNode&>(nodes[o.a]).find()->id; break;
    }
  });
  if (!res.exactlyOnce)
    return;
  c.add("uf_merges", edges.size());
  c.add("uf_finds", ops.size() - edges.size());
  // final partition
  std::vector<uint32_t> rep(N), refRep(N);
  for (uint32_t i = 0; i < N; ++i) {
    UFNode* r = nodes[i].find();
    if (!r || r < &nodes[0] || r >= &nodes[0] + N || !r->isRep()) {
      c.viol("find-not-a-representative", J().kv("node", i));
      return;
    }
    rep[i]    = r->id;
    refRep[i] = ref.find(i);
  }
  auto got = c15ref::canonical_partition(rep), want = c15ref::canonical_partition(refRep);
  if (got != want) {
    uint32_t i = 0;
    while (got[i] == want[i])
      ++i;
    c.viol("partition-differs", J().kv("node", i).kv("class_min_got", got[i]).kv("class_min_want", want[i])
                                    .kv("shape", SH[shape]).kv("plan", p.name()).kv("workers", res.workers));
    return;
  }
  uint64_t merged = 0;
  for (size_t i = 0; i < ops.size(); ++i) {
    const Op& o = ops[i];
    if (o.kind == 0) {
      merged += out[i];
      if (out[i] && want[mergeRoot[i]] != want[o.a]) {
        c.viol("merge-returns-foreign-node", J().kv("a", o.a).kv("b", o.b).kv("returned", mergeRoot[i]));
        return;
      }
    } else if (out[i] >= N || want[out[i]] != want[o.a]) {
      c.viol("find-outside-component", J().kv("node", o.a).kv("returned", out[i]).kv("kind", (int)o.kind));
      return;
    }
  }
  size_t comps = ref.components();
  if (merged != N - comps) {
    c.viol("successful-merge-count", J().kv("merges_reporting_success", merged).kv("want", (uint64_t)(N - comps))
                                         .kv("shape", SH[shape]).kv("plan", p.name()));
    return;
  }
  // concurrent compress() of every node (no merges in flight): each node then points at its root
  ExecResult r2 = execPlan(c, pc, N, [&](uint32_t i, unsigned) { nodes[i].compress(); });
  if (!r2.exactlyOnce)
    return;
  for (uint32_t i = 0; i < N; ++i) {
    UFNode* r = nodes[i].get();
    if (r->id != rep[i] || nodes[i].findAndCompress()->id != rep[i]) {
      c.viol("compress-wrong", J().kv("node", i).kv("points_to", r->id).kv("root", rep[i]));
      return;
    }
  }
  c.add("uf_compress", N);
}

} // namespace

void run_sets(Case& c, int which) {
  bool g = c.rng.below(3) == 0;
  switch (which) {
  case 0:
    if (g) orderedSet<std::greater<long>>(c);
    else orderedSet<std::less<long>>(c);
    break;
  case 1:
    if (g) minHeap<std::greater<long>>(c);
    else minHeap<std::less<long>>(c);
    break;
  case 2: unionFind(c); break;
  default: drainedRemove(c); break;
  }
}

} // namespace c15
