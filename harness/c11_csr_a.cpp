// C11: LC_CSR_Graph, edge data void and uint32 (default options: every operation)
#include "c11_csr_ops.h"
namespace c11 {
void registerCsrA() {
  regCsr<Csr<void, false, false, false>>("lock", O_ALL);
  regCsr<Csr<void, true, true, false>>("nolock+numa", O_CORE | O_MANUAL);
  regCsr<Csr<void, false, true, true>>("ool+numa", O_CORE);
  regCsr<Csr<uint32_t, false, false, false>>("lock", O_ALL);
  regCsr<Csr<uint32_t, false, true, false>>("lock+numa", O_ALL);
}
} // namespace c11
