verif_harness(c10_morph c10_main.cpp c10_model.cpp c10_f_dir.cpp c10_f_inout.cpp c10_f_undir.cpp c10_f_nolock.cpp)
verif_harness(c10_sepinout c10_main.cpp c10_model.cpp c10_f_sep.cpp c10_f_sep2.cpp)
