if(VERIF_DIST)
  verif_dist_harness(c18_gluon c18_main.cpp
                     c18_g_nocomm.cpp c18_g_hvc.cpp c18_g_cvc.cpp c18_g_cvcflip.cpp
                     c18_g_ginger.cpp c18_g_fennel.cpp c18_g_sugar.cpp c18_g_sugarflip.cpp
                     c18_f_min.cpp c18_f_max.cpp c18_f_add.cpp c18_f_sum.cpp c18_f_set.cpp c18_f_vec.cpp c18_f_arr.cpp)
endif()
