verif_harness(c05_barriers c05_barriers.cpp)
