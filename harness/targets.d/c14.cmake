# C14: one executable, one TU per container family (keeps every TU's rebuild short)
verif_harness(c14_containers c14_main.cpp c14_deque.cpp c14_ring.cpp c14_slist.cpp c14_bag.cpp c14_map.cpp
              c14_arrays.cpp c14_pq.cpp c14_twolevel.cpp)
