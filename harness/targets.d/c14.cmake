verif_harness(c14_containers c14_main.cpp c14_deque.cpp c14_ring.cpp c14_stubs.cpp)
