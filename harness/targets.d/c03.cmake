verif_harness(c03_doall c03_main.cpp c03_inst_a.cpp c03_inst_b.cpp c03_inst_c.cpp)
