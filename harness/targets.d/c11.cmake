# C11 — static graphs present exactly the input graph
# c11_graphs: representative subset of the (graph type x edge data x options) matrix, used by both tiers.
# c11_graphs_full: the same plus the full matrix (c11_x_*.cpp), thorough tier only.
set(C11_QUICK_SRCS c11_main.cpp c11_csr_a.cpp c11_csr_b.cpp c11_csr_c.cpp c11_csc.cpp c11_hyper.cpp
    c11_linear.cpp c11_inline.cpp c11_morph.cpp c11_inout.cpp c11_adaptor.cpp)
set(C11_EXTRA_SRCS c11_x_csr_void.cpp c11_x_csr_u64.cpp c11_x_csr_f32.cpp c11_x_csr_e12.cpp c11_x_csc_void.cpp c11_x_csc_u32.cpp c11_x_csc_u64.cpp c11_x_csc_f32.cpp c11_x_csc_e12.cpp c11_x_hyper_a.cpp c11_x_hyper_b.cpp c11_x_linear_a.cpp c11_x_linear_b.cpp c11_x_inline_a.cpp c11_x_inline_b.cpp c11_x_morph.cpp c11_x_inout_void.cpp c11_x_inout_u32.cpp c11_x_inout_u64.cpp c11_x_inout_f32.cpp c11_x_inout_e12.cpp c11_x_adaptor.cpp)
# the representative TUs are compiled once and shared by both executables
add_library(c11_objs OBJECT ${C11_QUICK_SRCS})
target_link_libraries(c11_objs PRIVATE Galois::shmem)
target_compile_options(c11_objs PRIVATE -Wno-unused-parameter -Wno-unused-variable)
verif_harness(c11_graphs $<TARGET_OBJECTS:c11_objs> c11_extra_none.cpp)
verif_harness(c11_graphs_full $<TARGET_OBJECTS:c11_objs> ${C11_EXTRA_SRCS} c11_extra_all.cpp)
