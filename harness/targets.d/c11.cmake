# C11 — static graphs present exactly the input graph
set(C11_QUICK_SRCS c11_main.cpp c11_csr_a.cpp c11_csr_b.cpp c11_csr_c.cpp c11_csc.cpp c11_hyper.cpp
    c11_linear.cpp c11_inline.cpp c11_morph.cpp c11_inout.cpp c11_adaptor.cpp)
verif_harness(c11_graphs ${C11_QUICK_SRCS} c11_extra_none.cpp)
