verif_harness(c07_deterministic c07_main.cpp)
