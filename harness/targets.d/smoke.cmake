verif_harness(smoke smoke.cpp)
