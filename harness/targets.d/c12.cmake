verif_harness(c12_files c12_main.cpp c12_write.cpp c12_read.cpp c12_ooc.cpp)
