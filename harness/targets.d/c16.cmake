# C16: ParallelSTL vs std:: (one executable, one TU per group of algorithms to bound compile time)
verif_harness(c16_pstl c16_pstl.cpp c16_sort.cpp c16_partition.cpp c16_reduce.cpp c16_find.cpp c16_scan.cpp)
