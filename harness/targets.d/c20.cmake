# C20: helper that runs the real independent-set algorithms (application source included unmodified) and dumps
# the per-node result, which the application itself does not print. Everything else in C20 is script-driven
# (lib/specs/c20.py) and uses the repo's own application targets.
verif_harness(c20_mis_dump c20_mis_dump.cpp)
target_link_libraries(c20_mis_dump PRIVATE lonestar)
target_include_directories(c20_mis_dump PRIVATE ${VERIF_REPO}/lonestar/analytics/cpu/independentset)
