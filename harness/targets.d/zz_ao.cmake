verif_harness(zz_ao_probe zz_ao_probe.cpp)
