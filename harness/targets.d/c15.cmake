verif_harness(c15_collections c15_main.cpp c15_reduce.cpp c15_bag.cpp c15_bits.cpp c15_sets.cpp)
