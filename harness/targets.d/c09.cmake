verif_harness(c09_alloc c09_main.cpp c09_heaps.cpp c09_pts.cpp c09_large.cpp c09_gstl.cpp c09_iter.cpp)
target_link_libraries(c09_alloc PRIVATE ${CMAKE_DL_LIBS})
