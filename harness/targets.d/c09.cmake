verif_harness(c09_alloc c09_main.cpp c09_heaps.cpp)
target_link_libraries(c09_alloc PRIVATE ${CMAKE_DL_LIBS})
