verif_harness(c13_blocks c13_blocks.cpp)
verif_harness(c13_graphdiv c13_graphdiv.cpp c13_graphobj.cpp)
