if(VERIF_DIST)
  verif_dist_harness(c19_partition c19_main.cpp c19_p_nocomm.cpp c19_p_hvc.cpp c19_p_cvc.cpp c19_p_cvcflip.cpp
                     c19_p_ginger.cpp c19_p_fennel.cpp c19_p_sugar.cpp c19_p_sugarflip.cpp c19_p_mining.cpp)
endif()
