verif_harness(c06_locks c06_locks.cpp)
