if(VERIF_DIST)
  verif_dist_harness(c17_net c17_net.cpp)
  verif_dist_harness(c17_ser c17_ser_main.cpp c17_ser_t1.cpp c17_ser_t2.cpp c17_ser_t3.cpp)
endif()
