if(VERIF_DIST)
  verif_dist_harness(c17_net c17_net.cpp)
endif()
