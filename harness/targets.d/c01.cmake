verif_harness(c01_foreach c01_main.cpp c01_wl_a.cpp c01_wl_b.cpp c01_wl_c.cpp c01_wl_d.cpp c01_wl_e.cpp c01_wl_f.cpp c01_wl_g.cpp)
verif_harness(c01_direct c01_direct.cpp)
