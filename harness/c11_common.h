// C11 — static (local-computation) graphs present exactly the input graph.
//
// Shared declarations of the c11_graphs harness: edge-data types, the case
// context, the non-template oracles (implemented in c11_main.cpp) and the
// generic observation templates that enumerate a real Galois graph through its
// public API into a plain adjacency structure that is compared with the
// generator's edge list (ref::RefGraph, /verif/ref/gr_codec.h).
#pragma once

#include "verif.h"
#include "gr_codec.h"

#include "galois/Galois.h"
#include "galois/graphs/LCGraph.h"
#include "galois/graphs/LC_CSR_CSC_Graph.h"
#include "galois/graphs/LC_CSR_Hypergraph.h"

#include <atomic>
#include <functional>
#include <string>
#include <type_traits>
#include <unordered_map>
#include <vector>

namespace c11 {

namespace gg = galois::graphs;
using verif::J;

// ---------------------------------------------------------------- edge data
struct E12 { // 12-byte, 4-aligned, padding-free struct edge data
  uint32_t a, b, c;
};
inline bool operator<(const E12& x, const E12& y) {
  if (x.a != y.a)
    return x.a < y.a;
  if (x.b != y.b)
    return x.b < y.b;
  return x.c < y.c;
}
inline bool operator==(const E12& x, const E12& y) { return x.a == y.a && x.b == y.b && x.c == y.c; }

template <class E>
struct ED {
  static constexpr unsigned size = sizeof(E);
  static constexpr bool isVoid   = false;
};
template <>
struct ED<void> {
  static constexpr unsigned size = 0;
  static constexpr bool isVoid   = true;
};
template <class E>
inline const char* etypeName() {
  if constexpr (std::is_void_v<E>)
    return "void";
  else if constexpr (std::is_same_v<E, uint32_t>)
    return "uint32";
  else if constexpr (std::is_same_v<E, uint64_t>)
    return "uint64";
  else if constexpr (std::is_same_v<E, float>)
    return "float";
  else if constexpr (std::is_same_v<E, E12>)
    return "struct12";
  else
    return "?";
}

// raw bytes of an edge value <-> reference edge (file encoding, little endian)
template <class E>
inline void toRef(const E& v, ref::RefEdge& r) {
  unsigned char b[sizeof(E)];
  std::memcpy(b, &v, sizeof(E));
  r.data = 0;
  for (unsigned i = 0; i < sizeof(E) && i < 8; ++i)
    r.data |= (uint64_t)b[i] << (8 * i);
  r.ext.clear();
  if (sizeof(E) > 8)
    r.ext.assign((const char*)b + 8, sizeof(E) - 8);
}
template <class E>
inline E fromRef(const ref::RefEdge& r) {
  unsigned char b[sizeof(E)] = {};
  for (unsigned i = 0; i < sizeof(E) && i < 8; ++i)
    b[i] = (unsigned char)(r.data >> (8 * i));
  for (unsigned i = 8; i < sizeof(E) && i - 8 < r.ext.size(); ++i)
    b[i] = (unsigned char)r.ext[i - 8];
  E v;
  std::memcpy(&v, b, sizeof(E));
  return v;
}
template <class E>
inline bool refLess(const ref::RefEdge& a, const ref::RefEdge& b) {
  if constexpr (std::is_void_v<E>)
    return false;
  else
    return fromRef<E>(a) < fromRef<E>(b);
}
using RefLess = bool (*)(const ref::RefEdge&, const ref::RefEdge&);

// ---------------------------------------------------------------- observation
struct Obs {
  uint64_t size = 0, sizeEdges = 0; // as reported by the graph (if it reports)
  std::vector<std::vector<ref::RefEdge>> adj;
  std::string err; // structural problem met while enumerating (non-empty => violation)
};

// how edge data of the graph relates to the data in the input
enum class DataCheck { Exact, None };

// ---------------------------------------------------------------- case context
struct Ctx {
  verif::Harness* H = nullptr;
  verif::Rng rng{1};
  std::string family, op, cfg, etype;
  unsigned threads = 1, maxThreads = 1, sockets = 1;
  ref::RefGraph X;  // the truth; edge data in file encoding (esz bytes)
  unsigned esz = 0; // edge data bytes in the file
  int version  = 1; // .gr version used for files of this case
  DataCheck dataCheck = DataCheck::Exact;
  RefLess less        = nullptr; // order of the graph's edge data type
  std::string dir;               // scratch directory of this process
  std::vector<std::string> files;
  bool perturb = false;
  uint64_t perturbSeed = 0;

  // measured
  uint64_t builds = 0, nodesChecked = 0, edgesChecked = 0, inEdgesChecked = 0, findQueries = 0,
           findHits = 0, sortedLists = 0, transposes = 0, localRangeChecks = 0, doAllVisits = 0,
           parallelBuilds = 0, v2Files = 0;
  bool failed = false;
  bool skipped = false; // precondition of the op not met by this input (case is trivial)

  // lazily computed
  const ref::RefGraph& XT(); // transpose of X
  std::string fileOf(const ref::RefGraph& g, const char* tag, unsigned esz, int version);
  std::string file() { return fileOf(X, "g", esz, version); }
  std::string fileT() { return fileOf(XT(), "t", esz, version); }
  void cleanup();

  void fail(const std::string& kind, const std::string& detailJson);
  void noiseOn();  // seeded failpoint noise for the following parallel section
  void noiseOff();

private:
  ref::RefGraph xt_;
  bool haveXT_ = false;
};

// non-template oracles (c11_main.cpp). Each returns true when the check passed.
bool checkCounts(Ctx& c, const Obs& got, const ref::RefGraph& want, const char* what, bool haveSize,
                 bool haveSizeEdges);
bool checkOrdered(Ctx& c, const Obs& got, const ref::RefGraph& want, const char* what);
bool checkMultiset(Ctx& c, const Obs& got, const ref::RefGraph& want, const char* what, bool inEdges = false);
bool checkSortedByDst(Ctx& c, const Obs& got, const char* what);
bool checkSortedBy(Ctx& c, const Obs& got, RefLess less, const char* what);
bool checkVisits(Ctx& c, const std::vector<std::atomic<uint32_t>>& visits, const char* what);
// up to isomorphism (graphs whose nodes carry no identity: LC_Morph_Graph)
bool checkIsomorphic(Ctx& c, const Obs& got, const ref::RefGraph& want, const char* what);
ref::RefGraph symmetrize(const ref::RefGraph& g);
// query destinations for membership tests on node n: present ones and absent ones
std::vector<uint64_t> queryDsts(Ctx& c, const ref::RefGraph& g, uint64_t n, unsigned maxQ);
std::vector<uint64_t> sampleNodes(Ctx& c, uint64_t numNodes, unsigned maxN);

// ---------------------------------------------------------------- registry
enum EntryFlags : unsigned {
  F_NONE         = 0,
  F_SYMMETRIC    = 1,  // input must be a symmetric graph
  F_NONVOID_FILE = 2,  // (informational)
  F_NO_V2        = 4,  // op reads the file itself and is only specified for version 1
  F_SMALL        = 8,  // keep the graph small (quadratic checks)
  F_UNIQUE_DATA  = 16, // wants unique edge data (identity of edges)
  F_FLOAT        = 32, // file data must be valid finite floats
  F_STRUCT_ONLY  = 64, // only the structure is specified (no edge data comparison)
};
struct Entry {
  std::string family, cfg, etype, op;
  unsigned fileEsz = 0;
  unsigned flags   = 0;
  RefLess less     = nullptr;
  void (*fn)(Ctx&) = nullptr;
  unsigned weight  = 1;
};
std::vector<Entry>& registry();

template <class E>
inline Entry mkEntry(const char* family, const std::string& cfg, const char* op, void (*fn)(Ctx&),
                     unsigned flags = 0, unsigned weight = 1) {
  Entry e;
  e.family  = family;
  e.cfg     = cfg;
  e.etype   = etypeName<E>();
  e.op      = op;
  e.fileEsz = ED<E>::size;
  e.flags   = flags | (std::is_same_v<E, float> ? (unsigned)F_FLOAT : 0u);
  e.less    = &refLess<E>;
  e.fn      = fn;
  e.weight  = weight;
  return e;
}

// ---------------------------------------------------------------- node index
// Maps a graph's GraphNode handles to input node ids. For array graphs the
// handle is the id; for pointer graphs the id is the position in begin()..end().
template <class G>
struct Indexer {
  using GN                     = typename G::GraphNode;
  static constexpr bool direct = std::is_integral_v<GN>;
  std::vector<GN> nodes;
  std::unordered_map<const void*, uint64_t> map;
  bool orderOk = true; // direct graphs: *it == position

  void build(G& g, uint64_t limit) {
    uint64_t i = 0;
    for (auto it = g.begin(), e = g.end(); it != e; ++it, ++i) {
      if (i > limit) // runaway iteration
        break;
      GN n = *it;
      nodes.push_back(n);
      if constexpr (direct) {
        if ((uint64_t)n != i)
          orderOk = false;
      } else {
        if (!map.emplace((const void*)n, i).second)
          orderOk = false; // same handle twice
      }
    }
  }
  int64_t ix(GN n) const {
    if constexpr (direct) {
      return (int64_t)n;
    } else {
      auto it = map.find((const void*)n);
      return it == map.end() ? -1 : (int64_t)it->second;
    }
  }
};

template <class G>
inline constexpr bool graphHasEdgeData = !std::is_void_v<typename G::edge_data_type>;

// enumerate the out-edges of every node through edge_begin/edge_end/getEdgeDst/getEdgeData
template <class G>
void observeOut(G& g, const Indexer<G>& ix, Obs& o, galois::MethodFlag flag) {
  o.adj.assign(ix.nodes.size(), {});
  for (size_t i = 0; i < ix.nodes.size(); ++i) {
    auto n = ix.nodes[i];
    auto b = g.edge_begin(n, flag);
    auto e = g.edge_end(n, flag);
    auto d = std::distance(b, e);
    if (d < 0 || (uint64_t)d > (1ull << 32)) {
      if (o.err.empty())
        o.err = "node " + std::to_string(i) + ": edge_end precedes edge_begin (distance " + std::to_string((long long)d) + ")";
      continue;
    }
    auto& a = o.adj[i];
    a.reserve((size_t)d);
    for (auto it = b; it != e; ++it) {
      int64_t dst = ix.ix(g.getEdgeDst(it));
      if (dst < 0 || (uint64_t)dst >= ix.nodes.size()) {
        if (o.err.empty())
          o.err = "node " + std::to_string(i) + " edge " + std::to_string(a.size()) + ": destination is not a node of the graph";
        dst = (int64_t)ix.nodes.size(); // out-of-range marker, compared as a mismatch
      }
      ref::RefEdge r((uint64_t)dst);
      if constexpr (graphHasEdgeData<G>)
        toRef<typename G::edge_data_type>(g.getEdgeData(it), r);
      a.push_back(std::move(r));
    }
  }
}

// the C++11 range forms must denote the same edge sequences
template <class G, bool HasEdgesFn = true>
void checkEdgeRanges(Ctx& c, G& g, const Indexer<G>& ix) {
  for (uint64_t i : sampleNodes(c, ix.nodes.size(), 64)) {
    auto n = ix.nodes[i];
    auto it = g.edge_begin(n, galois::MethodFlag::UNPROTECTED);
    auto e  = g.edge_end(n, galois::MethodFlag::UNPROTECTED);
    uint64_t k = 0, limit = (uint64_t)std::distance(it, e) + 4;
    bool ok = true;
    if constexpr (HasEdgesFn) {
      for (auto ii : g.edges(n, galois::MethodFlag::UNPROTECTED)) {
        if (k++ > limit || it == e || !(ii == it)) {
          ok = false;
          break;
        }
        ++it;
      }
      if (ok && it != e)
        ok = false;
    }
    if (ok) {
      it = g.edge_begin(n, galois::MethodFlag::UNPROTECTED);
      k  = 0;
      for (auto ii : g.out_edges(n, galois::MethodFlag::UNPROTECTED)) {
        if (k++ > limit || it == e || !(ii == it)) {
          ok = false;
          break;
        }
        ++it;
      }
      if (ok && it != e)
        ok = false;
    }
    if (!ok) {
      c.fail("edges-range-differs", J().kv("node", i).str());
      return;
    }
  }
}

// per-thread local ranges partition the node set; do_all(iterate(g)) visits every node once
template <class G>
void checkLocalRanges(Ctx& c, G& g, const Indexer<G>& ix) {
  size_t N = ix.nodes.size();
  std::vector<std::atomic<uint32_t>> visits(N + 1);
  std::atomic<uint32_t> badHandle{0};
  galois::on_each([&](unsigned, unsigned) {
    uint64_t k = 0;
    for (auto it = g.local_begin(), e = g.local_end(); it != e; ++it) {
      if (++k > N + 8)
        break; // runaway guard
      int64_t i = ix.ix(*it);
      if (i < 0 || (uint64_t)i >= N)
        badHandle.fetch_add(1, std::memory_order_relaxed);
      else
        visits[(size_t)i].fetch_add(1, std::memory_order_relaxed);
    }
  });
  if (badHandle.load())
    c.fail("local-range-unknown-node", J().kv("count", badHandle.load()).str());
  else if (checkVisits(c, visits, "local-range"))
    c.localRangeChecks += c.threads;
  for (auto& v : visits)
    v.store(0, std::memory_order_relaxed);
  badHandle.store(0);
  galois::do_all(
      galois::iterate(g),
      [&](typename G::GraphNode n) {
        int64_t i = ix.ix(n);
        if (i < 0 || (uint64_t)i >= N)
          badHandle.fetch_add(1, std::memory_order_relaxed);
        else
          visits[(size_t)i].fetch_add(1, std::memory_order_relaxed);
      },
      galois::no_stats());
  if (badHandle.load())
    c.fail("do_all-unknown-node", J().kv("count", badHandle.load()).str());
  else if (checkVisits(c, visits, "do_all-iterate"))
    c.doAllVisits += N;
}

// write the reference file, load through FileGraph, return f
inline void loadFileGraph(Ctx& c, gg::FileGraph& f, const std::string& path, bool interleaved, unsigned esz) {
  if (interleaved) {
    if (esz == 0)
      f.fromFileInterleaved<void>(path);
    else if (esz == 4)
      f.fromFileInterleaved<uint32_t>(path);
    else if (esz == 8)
      f.fromFileInterleaved<uint64_t>(path);
    else
      f.fromFileInterleaved<E12>(path);
  } else {
    f.fromFile(path);
  }
}

void registerCsr();
void registerCsc();
void registerHyper();
void registerLinear();
void registerInline();
void registerMorph();
void registerInOut();
void registerAdaptor();
void registerExtra();

} // namespace c11
