#include "c03_inst.h"
namespace c03 {
RunFn lookupB(unsigned kind, bool steal, unsigned ci) {
  switch (kind) {
  case K_LIST: return lookupKind<K_LIST>(steal, ci);
  case K_FWDLIST: return lookupKind<K_FWDLIST>(steal, ci);
  case K_INSERTBAG: return lookupKind<K_INSERTBAG>(steal, ci);
  case K_SPECIFIC: return lookupKind<K_SPECIFIC>(steal, ci);
  }
  return nullptr;
}
} // namespace c03
