// C11 full template matrix (c11_graphs_full only): LC_InlineEdge_Graph x options (void, uint32, uint64)
#include "c11_fam_inline.h"

namespace c11 {
void registerX_inline_a() {
  regInlFull<void>();
  regInlFull<uint32_t>();
  regInlFull<uint64_t>();
}
} // namespace c11
