// C12 -- graph files round-trip: shared declarations of the c12_files harness.
//
// Parts (see DESIGN.md section 4, C12):
//   (a) c12_write.cpp  FileGraphWriter / FileGraph copy / fromGraph + toFile, decoded by the
//                      independent codec (ref/gr_codec.h) and read back by the library
//   (b) c12_read.cpp   reference-written files through fromFile / fromFileInterleaved / partFromFile
//       c12_ooc.cpp    ... through OCFileGraph / OCImmutableEdgeGraph / OfflineGraph / BufferedGraph
//   (c) is script driven (lib/specs/c12.py runs the real graph-convert binaries).
#pragma once

#include "verif.h"
#include "gr_codec.h"

#include <set>
#include <string>
#include <vector>

namespace c12 {

using Adj = std::vector<std::vector<ref::RefEdge>>;

// edge-data payload types by width (only the width matters to the file format)
struct W12 {
  uint32_t a[3];
};
struct W16 {
  uint64_t a[2];
};
template <unsigned W>
struct WidthType;
template <>
struct WidthType<0> {
  using type = void;
};
template <>
struct WidthType<1> {
  using type = uint8_t;
};
template <>
struct WidthType<2> {
  using type = uint16_t;
};
template <>
struct WidthType<4> {
  using type = uint32_t;
};
template <>
struct WidthType<8> {
  using type = uint64_t;
};
template <>
struct WidthType<12> {
  using type = W12;
};
template <>
struct WidthType<16> {
  using type = W16;
};

template <typename T>
inline T valueOf(const ref::RefEdge& e) {
  unsigned char buf[sizeof(T)];
  for (unsigned i = 0; i < sizeof(T); ++i)
    buf[i] = i < 8 ? (unsigned char)(e.data >> (8 * i)) : (unsigned char)(i - 8 < e.ext.size() ? e.ext[i - 8] : 0);
  T v;
  std::memcpy(&v, buf, sizeof(T));
  return v;
}
template <typename T>
inline ref::RefEdge edgeOf(uint64_t dst, const T& v) {
  unsigned char buf[sizeof(T)];
  std::memcpy(buf, &v, sizeof(T));
  ref::RefEdge e;
  e.dst = dst;
  for (unsigned i = 0; i < sizeof(T) && i < 8; ++i)
    e.data |= (uint64_t)buf[i] << (8 * i);
  if (sizeof(T) > 8)
    e.ext.assign((const char*)buf + 8, sizeof(T) - 8);
  return e;
}
inline ref::RefEdge edgeOfBytes(uint64_t dst, const unsigned char* p, unsigned w) {
  ref::RefEdge e;
  e.dst = dst;
  for (unsigned i = 0; i < w && i < 8; ++i)
    e.data |= (uint64_t)p[i] << (8 * i);
  if (w > 8)
    e.ext.assign((const char*)p + 8, w - 8);
  return e;
}

struct Case {
  verif::Harness* H = nullptr;
  long k            = 0;
  verif::Rng rng{1};
  std::string comp;  // component under test (first part of violation keys)
  ref::RefGraph g;   // source graph, data assigned and masked to `width`
  unsigned width = 0;
  int version    = 1;
  bool odd       = false;
  unsigned variant = 0; // component-specific mode
  std::string dir;      // scratch directory (per process)
  std::vector<std::string> files; // removed at the end of the case

  // measured
  uint64_t edgesCompared = 0, nodesCompared = 0, filesDecoded = 0, filesWrittenByLib = 0,
           libReads = 0, partRanges = 0, segments = 0, orderSame = 0, orderDiff = 0,
           v2OddDataFiles = 0;
  std::set<std::string> fired;
  std::string sigExtra;

  std::string path(const char* tag) {
    std::string p = dir + "/k" + std::to_string(k) + "_" + tag + ".gr";
    files.push_back(p);
    return p;
  }
  std::string key(const std::string& kind, const std::string& cls = "") const {
    return "C12:" + comp + ":" + kind + (cls.empty() ? "" : ":" + cls);
  }
  // config class of the v2/odd/data corner the padding question is about
  std::string v2class() const {
    if (version == 2 && odd && width)
      return "v2-odd";
    return version == 2 ? "v2" : "";
  }
  void violation(const std::string& key, const std::string& detail) {
    if (fired.insert(key).second)
      H->violation(key, detail);
  }
};

inline std::string showEdges(const std::vector<ref::RefEdge>& a, size_t from = 0, size_t maxn = 6) {
  std::string s = "[";
  for (size_t i = from; i < a.size() && i < from + maxn; ++i) {
    if (i > from)
      s += ",";
    char b[64];
    snprintf(b, sizeof b, "\"%llu:%llx", (unsigned long long)a[i].dst, (unsigned long long)a[i].data);
    s += b;
    if (!a[i].ext.empty()) {
      s += "+";
      for (unsigned char ch : a[i].ext) {
        snprintf(b, sizeof b, "%02x", ch);
        s += b;
      }
    }
    s += "\"";
  }
  if (a.size() > from + maxn)
    s += ",\"...\"";
  return s + "]";
}

// Compare what a reader/writer presented for the nodes [a,b) (obs[i] = edges of node a+i, in the
// order presented) with the source graph. The verdict is per-node MULTISET equality of
// (destination, data); whether the order also matched is only counted.
// Returns "" if equal, else a JSON witness.
inline std::string diffRange(Case& c, const ref::RefGraph& src, uint64_t a, uint64_t b, const Adj& obs) {
  using verif::J;
  if (obs.size() != b - a)
    return J().kv("what", "node count of range").kv("expected", b - a).kv("observed", (uint64_t)obs.size()).str();
  for (uint64_t n = a; n < b; ++n) {
    const auto& e = src.adj[n];
    const auto& o = obs[n - a];
    c.nodesCompared++;
    c.edgesCompared += e.size();
    if (e == o) {
      c.orderSame++;
      continue;
    }
    auto es = e, os = o;
    std::sort(es.begin(), es.end());
    std::sort(os.begin(), os.end());
    if (es == os) {
      c.orderDiff++;
      continue;
    }
    size_t i = 0;
    while (i < e.size() && i < o.size() && e[i] == o[i])
      ++i;
    return J().kv("what", "edges of node").kv("node", n).kv("expected_degree", (uint64_t)e.size())
        .kv("observed_degree", (uint64_t)o.size()).kv("first_diff_at", (uint64_t)i)
        .raw("expected_dst:data", showEdges(e, i)).raw("observed_dst:data", showEdges(o, i)).str();
  }
  return "";
}
inline std::string diffWhole(Case& c, const ref::RefGraph& src, const Adj& obs) {
  return diffRange(c, src, 0, src.numNodes, obs);
}

inline uint64_t fileSize(const std::string& p) {
  FILE* f = fopen(p.c_str(), "rb");
  if (!f)
    return ~0ull;
  fseek(f, 0, SEEK_END);
  uint64_t n = (uint64_t)ftell(f);
  fclose(f);
  return n;
}

// components
void run_writer(Case& c);       // FileGraphWriter phase1/phase2/finish + toFile
void run_copy(Case& c);         // FileGraph(const FileGraph&) + toFile
void run_fromgraph(Case& c);    // fromGraph<T> + toFile
void run_fromfile(Case& c);     // fromFile / fromFileInterleaved
void run_partfromfile(Case& c); // partFromFile at node split points
void run_v2layout(Case& c);     // all v2-capable readers on the two padding conventions
void run_ocfile(Case& c);       // OCFileGraph segments
void run_ocgraph(Case& c);      // OCImmutableEdgeGraph segments (+ transpose for in-edges)
void run_offline(Case& c);      // OfflineGraph
void run_buffered(Case& c);     // BufferedGraph loadGraph / loadPartialGraph

// enumerate a FileGraph-like object (whole or part) through its public API
template <typename T, typename G>
inline Adj enumerateFileGraph(G& g) {
  Adj out;
  for (auto ii = g.begin(), ei = g.end(); ii != ei; ++ii) {
    out.emplace_back();
    auto& v = out.back();
    for (auto jj = g.edge_begin(*ii), ej = g.edge_end(*ii); jj != ej; ++jj) {
      uint64_t dst = g.getEdgeDst(jj);
      if constexpr (std::is_void<T>::value)
        v.emplace_back(dst, 0);
      else
        v.push_back(edgeOf<T>(dst, g.template getEdgeData<T>(jj)));
    }
  }
  return out;
}

#define C12_WIDTH_SWITCH(W, F, ...)                                                                                    \
  switch (W) {                                                                                                         \
  case 0: F<void>(__VA_ARGS__); break;                                                                                 \
  case 1: F<uint8_t>(__VA_ARGS__); break;                                                                              \
  case 2: F<uint16_t>(__VA_ARGS__); break;                                                                             \
  case 4: F<uint32_t>(__VA_ARGS__); break;                                                                             \
  case 8: F<uint64_t>(__VA_ARGS__); break;                                                                             \
  case 12: F<c12::W12>(__VA_ARGS__); break;                                                                            \
  case 16: F<c12::W16>(__VA_ARGS__); break;                                                                            \
  default: fprintf(stderr, "c12: unsupported width %u\n", (unsigned)(W)); exit(2);                                     \
  }

} // namespace c12
