// C11 full template matrix (c11_graphs_full only): LC_CSR_Hypergraph x options (float, struct)
#include "c11_fam_hyper.h"

namespace c11 {
void registerX_hyper_b() {
  regHyperFull<float>();
  regHyperFull<E12>();
}
} // namespace c11
