// C14 — galois::InsertBag used from one thread: push / pop / iterate / clear /
// move, against an unordered-bag model (contents as a multiset; the documented
// pop() removes the element pushed last by this thread).
#include "c14_common.h"

#include "galois/Bag.h"

#include <memory>
#include <stdexcept>

namespace c14 {
namespace {

template <typename B>
void checkBagAll(Case& c, B& b, const std::vector<int>& m, unsigned cap, bool tracked) {
  if (!c.regOk())
    return;
  const B& cb = b;
  c.eq("empty", cb.empty(), m.empty());
  if (c.bad)
    return;
  std::vector<int> a, k, l;
  checkBag(c, "forward-traversal", b.begin(), b.end(), m, &a);
  // No const traversal: InsertBag::begin() const / end() const do not compile (Bag.h:240-241, a const_iterator
  // cannot be built from a const PerThreadStorage*), nor does the iterator -> const_iterator conversion
  // (Bag.h:114, private members of another specialisation). Reported, cannot be monitored at run time.
  k = a;
  checkBag(c, "local-traversal", b.local_begin(), b.local_end(), m, &l);
  if (!c.bad && (a != k || a != l))
    c.fail("traversals-differ",
           J().raw("forward", jarr(a, 48)).raw("const_forward", jarr(k, 48)).raw("local", jarr(l, 48)));
  if (!c.bad && a == m)
    c.count("traversals_in_insertion_order");
  c.lifetimesOk(tracked ? (long)m.size() : -1);
  c.sawSize(m.size(), cap);
}

template <typename T, unsigned BS>
void bagT(Case& c, bool pops, unsigned cap, unsigned nops) {
  typedef galois::InsertBag<T, BS> B;
  constexpr bool tracked = ElemName<T>::tracked;
  Rng& rng               = c.rng;
  std::vector<int> m; // insertion order
  {
    std::unique_ptr<B> bp(new B());
    checkBagAll(c, *bp, m, cap, tracked);
    unsigned grow   = 70;
    bool canPop     = false; // a push happened and no clear/move since
    bool lastWasPush = false;
    for (unsigned step = 0; step < nops && !c.bad; ++step) {
      B& b = *bp;
      if (rng.below(12) == 0)
        grow = (unsigned)rng.pick({40, 60, 70, 90});
      unsigned x = (unsigned)rng.below(100);
      if (x < 6) {
        canPop = lastWasPush = false;
        switch (rng.below(5)) {
        case 0:
          c.op("clear");
          b.clear();
          m.clear();
          break;
        case 1:
          c.op("clear_serial");
          b.clear_serial();
          m.clear();
          break;
        case 2: {
          c.op("move-construct");
          std::unique_ptr<B> np(new B(std::move(b)));
          bp = std::move(np);
          break;
        }
        case 3: {
          unsigned pre = (unsigned)rng.below(2 * std::min(cap, 4u) + 2);
          c.op("move-assign", pre);
          std::unique_ptr<B> np(new B());
          for (unsigned i = 0; i < pre; ++i)
            np->push(T(c.nextVal()));
          *np = std::move(b);
          bp  = std::move(np);
          break;
        }
        default: {
          unsigned pre = (unsigned)rng.below(2 * std::min(cap, 4u) + 2);
          c.op("swap", pre);
          std::unique_ptr<B> np(new B());
          std::vector<int> other;
          for (unsigned i = 0; i < pre; ++i) {
            int v = c.nextVal();
            np->push(T(v));
            other.push_back(v);
          }
          np->swap(b);
          // np has the old contents of b, b has `other`
          checkBag(c, "swapped-in-traversal", b.begin(), b.end(), other);
          bp = std::move(np);
          break;
        }
        }
      } else if (!pops || !canPop || m.empty() || x < 6 + grow * 94 / 100) {
        int v = c.nextVal();
        T* p;
        switch (rng.below(4)) {
        case 0:
          c.op("push", v);
          p = &b.push(T(v));
          break;
        case 1: {
          T tmp(v);
          c.op("push_back-copy", v);
          p = &b.push_back(tmp);
          break;
        }
        case 2:
          c.op("emplace", v);
          p = &b.emplace(v);
          break;
        default:
          c.op("emplace_back", v);
          p = &b.emplace_back(v);
          break;
        }
        c.eq("result-value", val(*p), v);
        m.push_back(v);
        canPop = lastWasPush = true;
      } else {
        c.op("pop");
        bool threw = false;
        try {
          b.pop();
        } catch (const std::out_of_range&) {
          threw = true;
        }
        if (threw) {
          // documented: only the number of consecutive pops is implementation dependent;
          // the first pop after a push must work
          if (lastWasPush)
            c.fail("pop-directly-after-push-throws");
          else
            c.count("consecutive_pops_refused");
          canPop = false;
        } else {
          m.pop_back();
          c.count("pops");
        }
        lastWasPush = false;
      }
      checkBagAll(c, *bp, m, cap, tracked);
    }
    c.phase("destructor");
  }
  c.lifetimesOk(tracked ? 0 : -1);
}

// sizeof(T) == 8 and sizeof(header) == 32: a block of BS bytes holds BS/8 - 5 elements
template <typename T>
void bagBS(Case& c, unsigned cap, bool pops, unsigned nops) {
  switch (cap) {
  case 1: return bagT<T, 48>(c, pops, cap, nops);
  case 2: return bagT<T, 56>(c, pops, cap, nops);
  case 3: return bagT<T, 64>(c, pops, cap, nops);
  case 4: return bagT<T, 72>(c, pops, cap, nops);
  case 64: return bagT<T, 552>(c, pops, cap, nops);
  default: return bagT<T, 0>(c, pops, cap, nops); // page-sized blocks
  }
}

} // namespace

void run_InsertBag(Case& c) {
  static_assert(sizeof(Tracked) == 8 && sizeof(Pod) == 8, "block capacities below assume 8-byte elements");
  unsigned cap  = c.rng.pick({1u, 2u, 2u, 3u, 3u, 4u, 4u, 64u, 0u});
  bool tracked  = c.rng.below(3) != 0;
  bool pops     = c.rng.below(4) != 0;
  unsigned nops = c.pickOps();
  std::string cfg = "cap" + std::to_string(cap) + (tracked ? "|tracked" : "|pod") + (pops ? "|pop" : "");
  if (!c.begin("InsertBag", cfg,
          J().kv("block_capacity", cap ? std::to_string(cap) : std::string("page"))
              .kv("elem", tracked ? "tracked" : "pod").kv("pop_enabled", pops).kv("nops", nops)))
    return;
  unsigned capForStats = cap ? cap : 1u << 30;
  (void)capForStats;
  if (tracked)
    bagBS<Tracked>(c, cap, pops, nops);
  else
    bagBS<Pod>(c, cap, pops, nops);
}

} // namespace c14
