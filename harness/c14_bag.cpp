// C14 — galois::InsertBag used from one thread: push / pop / iterate / clear /
// move, against an unordered-bag model (contents as a multiset; the documented
// pop() removes the element pushed last by this thread).
//
// Element sizes 8, 12, 20 and 24 bytes (sizes that do and do not divide the block header) with small explicit
// BlockSizes, optionally two bags of the same type filled alternately (their blocks come from the same heap and
// lie next to each other, so a bag that writes outside its block damages the other one). Besides the model
// comparison: no block may hold more elements than BlockSize / sizeof(T) (read off the addresses push returns).
#include "c14_common.h"

#include "galois/Bag.h"

#include <memory>
#include <stdexcept>

namespace c14 {
namespace {

template <typename B>
void checkOne(Case& c, B& b, const std::vector<int>& m, const char* which) {
  const B& cb = b;
  c.eq(which[0] == 'o' ? "empty-other-bag" : "empty", cb.empty(), m.empty());
  if (c.bad)
    return;
  std::vector<int> a, l;
  bool other = which[0] == 'o';
  checkBag(c, other ? "forward-traversal-other-bag" : "forward-traversal", b.begin(), b.end(), m, &a);
  // No const traversal: InsertBag::begin() const / end() const do not compile (Bag.h, a const_iterator cannot be
  // built from a const PerThreadStorage*), nor does the iterator -> const_iterator conversion. Reported, cannot be
  // monitored at run time.
  checkBag(c, other ? "local-traversal-other-bag" : "local-traversal", b.local_begin(), b.local_end(), m, &l);
  if (!c.bad && a != l)
    c.fail("traversals-differ", J().raw("forward", jarr(a, 48)).raw("local", jarr(l, 48)));
  if (!c.bad && a == m)
    c.count("traversals_in_insertion_order");
}

template <typename T, unsigned BS>
void bagT(Case& c, bool pops, bool pair, unsigned nops) {
  typedef galois::InsertBag<T, BS> B;
  constexpr bool tracked = ElemName<T>::tracked;
  // a block of BS bytes cannot hold more elements than this, whatever its header needs
  constexpr size_t blockBound = BS ? BS / sizeof(T) : (size_t)-1;
  constexpr unsigned cap      = BS ? (unsigned)(BS / sizeof(T)) : 0;
  Rng& rng                    = c.rng;
  struct Side {
    std::unique_ptr<B> bp;
    std::vector<int> m; // insertion order
    bool canPop = false, lastWasPush = false;
    const T* lastAddr = nullptr;
    size_t run        = 0; // elements pushed to consecutive addresses (= into one block)
  } side[2];
  unsigned nb = pair ? 2 : 1;
  auto checkAll = [&](unsigned w) {
    if (!c.regOk())
      return;
    checkOne(c, *side[w].bp, side[w].m, "this");
    if (nb == 2)
      checkOne(c, *side[1 - w].bp, side[1 - w].m, "other");
    c.lifetimesOk(tracked ? (long)(side[0].m.size() + (nb == 2 ? side[1].m.size() : 0)) : -1);
    c.sawSize(side[w].m.size(), cap);
  };
  {
    for (unsigned i = 0; i < nb; ++i)
      side[i].bp.reset(new B());
    checkAll(0);
    unsigned grow = 70, w = 0;
    for (unsigned step = 0; step < nops && !c.bad; ++step) {
      // two bags: mostly strict alternation, sometimes a longer stretch on one of them
      if (nb == 2 && rng.below(4) != 0)
        w = 1 - w;
      Side& S = side[w];
      B& b    = *S.bp;
      auto& m = S.m;
      if (rng.below(12) == 0)
        grow = (unsigned)rng.pick({40, 60, 70, 90});
      unsigned x = (unsigned)rng.below(100);
      if (x < 6) {
        S.canPop = S.lastWasPush = false;
        S.lastAddr               = nullptr;
        S.run                    = 0;
        unsigned preMax = 2 * std::min(cap ? cap : 4u, 4u) + 2;
        switch (rng.below(5)) {
        case 0:
          c.op("clear");
          b.clear();
          m.clear();
          break;
        case 1:
          c.op("clear_serial");
          b.clear_serial();
          m.clear();
          break;
        case 2: {
          c.op("move-construct");
          std::unique_ptr<B> np(new B(std::move(b)));
          S.bp = std::move(np);
          break;
        }
        case 3: {
          unsigned pre = (unsigned)rng.below(preMax);
          c.op("move-assign", pre);
          std::unique_ptr<B> np(new B());
          for (unsigned i = 0; i < pre; ++i)
            np->push(T(c.nextVal()));
          *np  = std::move(b);
          S.bp = std::move(np);
          break;
        }
        default: {
          unsigned pre = (unsigned)rng.below(preMax);
          c.op("swap", pre);
          std::unique_ptr<B> np(new B());
          std::vector<int> other;
          for (unsigned i = 0; i < pre; ++i) {
            int v = c.nextVal();
            np->push(T(v));
            other.push_back(v);
          }
          np->swap(b);
          // np has the old contents of b, b has `other`
          checkBag(c, "swapped-in-traversal", b.begin(), b.end(), other);
          S.bp = std::move(np);
          break;
        }
        }
      } else if (!pops || !S.canPop || m.empty() || x < 6 + grow * 94 / 100) {
        int v = c.nextVal();
        T* p;
        switch (rng.below(4)) {
        case 0:
          c.op("push", v, w);
          p = &b.push(T(v));
          break;
        case 1: {
          T tmp(v);
          c.op("push_back-copy", v, w);
          p = &b.push_back(tmp);
          break;
        }
        case 2:
          c.op("emplace", v, w);
          p = &b.emplace(v);
          break;
        default:
          c.op("emplace_back", v, w);
          p = &b.emplace_back(v);
          break;
        }
        c.eq("result-value", val(*p), v);
        m.push_back(v);
        S.canPop = S.lastWasPush = true;
        // elements of one block are laid out consecutively
        S.run      = (S.lastAddr && p == S.lastAddr + 1) ? S.run + 1 : 1;
        S.lastAddr = p;
        if (!c.bad && S.run > blockBound)
          c.fail("more-elements-in-one-block-than-fit",
                 J().kv("consecutive_elements", (uint64_t)S.run).kv("block_bytes", BS).kv("element_bytes", (unsigned)sizeof(T)));
      } else {
        c.op("pop", NOARG, w);
        bool threw = false;
        try {
          b.pop();
        } catch (const std::out_of_range&) {
          threw = true;
        }
        if (threw) {
          // documented: only the number of consecutive pops is implementation dependent;
          // the first pop after a push must work
          if (S.lastWasPush)
            c.fail("pop-directly-after-push-throws");
          else
            c.count("consecutive_pops_refused");
          S.canPop = false;
        } else {
          m.pop_back();
          c.count("pops");
          if (S.run)
            --S.run;
          S.lastAddr = S.run ? S.lastAddr - 1 : nullptr;
        }
        S.lastWasPush = false;
      }
      checkAll(w);
    }
    c.phase("destructor");
    for (unsigned i = 0; i < nb; ++i)
      side[i].bp.reset();
  }
  c.lifetimesOk(tracked ? 0 : -1);
}

// 8-byte elements: a block of BS bytes holds BS/8 - 5 elements (sizeof(header) == 32)
template <typename T>
void bag8(Case& c, unsigned cap, bool pops, bool pair, unsigned nops) {
  switch (cap) {
  case 1: return bagT<T, 48>(c, pops, pair, nops);
  case 2: return bagT<T, 56>(c, pops, pair, nops);
  case 3: return bagT<T, 64>(c, pops, pair, nops);
  case 4: return bagT<T, 72>(c, pops, pair, nops);
  case 64: return bagT<T, 552>(c, pops, pair, nops);
  default: return bagT<T, 0>(c, pops, pair, nops); // page-sized blocks
  }
}
// other element sizes: explicit block sizes in bytes
template <typename T>
void bagBytes(Case& c, unsigned bs, bool pops, bool pair, unsigned nops) {
  switch (bs) {
  case 128: return bagT<T, 128>(c, pops, pair, nops);
  case 256: return bagT<T, 256>(c, pops, pair, nops);
  default: return bagT<T, 1024>(c, pops, pair, nops);
  }
}

} // namespace

void run_InsertBag(Case& c) {
  static_assert(sizeof(Tracked) == 8 && sizeof(Pod) == 8, "block capacities above assume 8-byte elements");
  static const char* EN[] = {"tracked", "pod", "tracked12", "pod12", "tracked20", "pod20", "tracked24", "pod24"};
  unsigned elem = c.rng.below(2) ? (unsigned)c.rng.below(2) : 2 + (unsigned)c.rng.below(6);
  unsigned cap  = c.rng.pick({1u, 2u, 2u, 3u, 3u, 4u, 4u, 64u, 0u}); // 8-byte elements: capacity of a block
  unsigned bs   = c.rng.pick({128u, 128u, 256u, 1024u});             // other sizes: bytes of a block
  bool pops     = c.rng.below(4) != 0;
  bool pair     = c.rng.below(5) < 2; // two bags filled alternately
  unsigned nops = c.pickOps();
  std::string blk = elem < 2 ? (cap ? "cap" + std::to_string(cap) : std::string("page")) : "bytes" + std::to_string(bs);
  std::string cfg = blk + "|" + EN[elem] + (pops ? "|pop" : "") + (pair ? "|pair" : "");
  if (!c.begin("InsertBag", cfg,
               J().kv("block", blk).kv("elem", EN[elem]).kv("pop_enabled", pops).kv("two_bags_alternating", pair)
                   .kv("nops", nops)))
    return;
  switch (elem) {
  case 0: return bag8<Tracked>(c, cap, pops, pair, nops);
  case 1: return bag8<Pod>(c, cap, pops, pair, nops);
  case 2: return bagBytes<Tracked12>(c, bs, pops, pair, nops);
  case 3: return bagBytes<Pod12>(c, bs, pops, pair, nops);
  case 4: return bagBytes<Tracked20>(c, bs, pops, pair, nops);
  case 5: return bagBytes<Pod20>(c, bs, pops, pair, nops);
  case 6: return bagBytes<Tracked24>(c, bs, pops, pair, nops);
  default: return bagBytes<Pod24>(c, bs, pops, pair, nops);
  }
}

} // namespace c14
