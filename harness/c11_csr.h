// C11: drivers shared by the CSR-layout families (LC_CSR_Graph,
// LC_CSR_CSC_Graph, LC_CSR_Hypergraph). Included by c11_csr*.cpp, c11_csc.cpp,
// c11_hyper.cpp.
#pragma once
#include "c11_common.h"

namespace c11 {

struct CsrFam {
  static constexpr const char* name      = "LC_CSR_Graph";
  static constexpr bool hasDegree        = true;
  static constexpr bool hasReadGraph     = true; // readGraph(g, ...) compiles
  static constexpr bool hasInitLocal     = true; // initializeLocalRanges()
};
struct CscFam {
  static constexpr const char* name      = "LC_CSR_CSC_Graph";
  static constexpr bool hasDegree        = true;
  static constexpr bool hasReadGraph     = true;
  static constexpr bool hasInitLocal     = true;
};
struct HyperFam {
  static constexpr const char* name      = "LC_CSR_Hypergraph";
  static constexpr bool hasDegree        = false;
  // ReadGraph.h passes a 4th argument that LC_CSR_Hypergraph::constructFrom
  // does not take (does not compile): built by allocateFrom + constructFrom
  static constexpr bool hasReadGraph     = false;
  static constexpr bool hasInitLocal     = false;
};

// ---- loading from a reference-written file
template <class G, class F>
void loadCsr(Ctx& c, G& g, const std::string& path, unsigned fileEsz, int mode = -1) {
  if (mode < 0)
    mode = (int)c.rng.below(3);
  if constexpr (!F::hasReadGraph)
    mode = 2;
  if constexpr (F::hasReadGraph) {
    if (mode == 0) {
      gg::readGraph(g, path);
    } else if (mode == 1) {
      gg::FileGraph f;
      f.fromFile(path);
      gg::readGraph(g, f);
    }
  }
  if (mode == 2) {
    gg::FileGraph f;
    loadFileGraph(c, f, path, c.rng.below(2), fileEsz);
    g.allocateFrom(f);
    galois::on_each([&](unsigned tid, unsigned total) { g.constructFrom(f, tid, total); });
  }
  ++c.builds;
  c.parallelBuilds += c.threads > 1;
}

// ---- complete comparison of a built graph with `want`
template <class G, class F>
bool verifyCsr(Ctx& c, G& g, const ref::RefGraph& want, bool ordered, const char* what, bool localRanges = true) {
  Indexer<G> ix;
  ix.build(g, want.numNodes + 8);
  if (!ix.orderOk) {
    c.fail(std::string(what) + "-node-order", J().kv("nodes", want.numNodes).str());
    return false;
  }
  Obs o;
  o.size      = g.size();
  o.sizeEdges = g.sizeEdges();
  observeOut(g, ix, o, c.rng.below(2) ? galois::MethodFlag::UNPROTECTED : galois::MethodFlag::WRITE);
  if (!checkCounts(c, o, want, what, true, true))
    return false;
  if (!(ordered ? checkOrdered(c, o, want, what) : checkMultiset(c, o, want, what)))
    return false;
  // degree, edge_begin/edge_end chaining, prefix sum
  uint64_t run = 0;
  for (uint64_t n = 0; n < want.numNodes; ++n) {
    uint64_t b = *g.edge_begin((uint32_t)n, galois::MethodFlag::UNPROTECTED);
    uint64_t e = *g.edge_end((uint32_t)n, galois::MethodFlag::UNPROTECTED);
    run += want.adj[n].size();
    bool bad = (b != run - want.adj[n].size()) || e != run || g[n] != run;
    if constexpr (F::hasDegree)
      bad = bad || g.getDegree((uint32_t)n) != want.adj[n].size();
    if (bad) {
      c.fail(std::string(what) + "-edge-range",
             J().kv("node", n).kv("edge_begin", b).kv("edge_end", e).kv("expected_end", run).kv("operator[]", g[n]).str());
      return false;
    }
  }
  checkEdgeRanges(c, g, ix);
  if (localRanges)
    checkLocalRanges(c, g, ix);
  return !c.failed;
}

// membership queries; sortedByDst selects the binary-search lookup as well
template <class G>
void checkFind(Ctx& c, G& g, const ref::RefGraph& want, bool sortedByDst) {
  if (want.numNodes == 0)
    return;
  for (uint64_t n : sampleNodes(c, want.numNodes, 48)) {
    std::vector<bool> present;
    auto qs = queryDsts(c, want, n, 12);
    for (uint64_t d : qs) {
      bool has = false;
      for (auto& e : want.adj[n])
        if (e.dst == d) {
          has = true;
          break;
        }
      auto b = g.edge_begin((uint32_t)n, galois::MethodFlag::UNPROTECTED);
      auto e = g.edge_end((uint32_t)n, galois::MethodFlag::UNPROTECTED);
      for (int which = 0; which < (sortedByDst ? 2 : 1); ++which) {
        auto it   = which == 0 ? g.findEdge((uint32_t)n, (uint32_t)d) : g.findEdgeSortedByDst((uint32_t)n, (uint32_t)d);
        bool ok;
        if (has)
          ok = *it >= *b && *it < *e && g.getEdgeDst(it) == d;
        else
          ok = (it == e);
        ++c.findQueries;
        c.findHits += has;
        if (!ok) {
          c.fail(which == 0 ? "findEdge-wrong-answer" : "findEdgeSortedByDst-wrong-answer",
                 J().kv("src", n).kv("dst", d).kv("edge_exists", has).kv("returned", (uint64_t)*it)
                     .kv("edge_begin", (uint64_t)*b).kv("edge_end", (uint64_t)*e).str());
          return;
        }
      }
    }
  }
}

// ---------------------------------------------------------------- operations
template <class G, class F>
void opRead(Ctx& c) {
  G g;
  loadCsr<G, F>(c, g, c.file(), c.esz);
  verifyCsr<G, F>(c, g, c.X, true, "read");
}

template <class G, class F>
void opFind(Ctx& c) {
  G g;
  loadCsr<G, F>(c, g, c.file(), c.esz);
  Indexer<G> ix;
  ix.build(g, c.X.numNodes + 8);
  Obs o;
  observeOut(g, ix, o, galois::MethodFlag::UNPROTECTED);
  if (!checkOrdered(c, o, c.X, "read"))
    return;
  checkFind(c, g, c.X, false);
}

template <class G, class F>
void opGRFile(Ctx& c) {
  G g;
  g.readGraphFromGRFile(c.file());
  ++c.builds;
  verifyCsr<G, F>(c, g, c.X, true, "read");
}

// readGraph(g, file, readUnweighted = true): structure only
template <class G, class F>
void opUnweighted(Ctx& c) {
  G g;
  gg::readGraph(g, c.file(), true);
  ++c.builds;
  c.parallelBuilds += c.threads > 1;
  verifyCsr<G, F>(c, g, c.X, true, "read");
}

template <class G, class F>
void opManual(Ctx& c) {
  using E = typename G::edge_data_type;
  G g;
  uint64_t N = c.X.numNodes, m = c.X.numEdges();
  g.allocateFrom((uint32_t)N, m);
  g.constructNodes();
  std::vector<uint64_t> start(N + 1, 0);
  for (uint64_t n = 0; n < N; ++n)
    start[n + 1] = start[n] + c.X.adj[n].size();
  auto body = [&](uint64_t n) {
    uint64_t e = start[n];
    for (auto& r : c.X.adj[n]) {
      if constexpr (std::is_void_v<E>)
        g.constructEdge(e, (uint32_t)r.dst);
      else
        g.constructEdge(e, (uint32_t)r.dst, fromRef<E>(r));
      ++e;
    }
    g.fixEndEdge((uint32_t)n, e);
  };
  if (c.rng.below(2)) {
    galois::do_all(galois::iterate(uint64_t{0}, N), body, galois::no_stats(), galois::steal());
    c.parallelBuilds += c.threads > 1;
  } else {
    for (uint64_t n = 0; n < N; ++n)
      body(n);
  }
  if constexpr (F::hasInitLocal)
    g.initializeLocalRanges();
  ++c.builds;
  // without initializeLocalRanges() a numa-blocked graph has no local ranges yet
  verifyCsr<G, F>(c, g, c.X, true, "build", F::hasInitLocal);
}

template <class G, class F>
void opTranspose(Ctx& c) {
  G g;
  loadCsr<G, F>(c, g, c.file(), c.esz);
  g.transpose();
  ++c.transposes;
  if (!verifyCsr<G, F>(c, g, c.XT(), false, "transposed"))
    return;
  g.transpose();
  ++c.transposes;
  verifyCsr<G, F>(c, g, c.X, false, "transposed-twice");
}

// sort every adjacency list by destination (serially, with sortAllEdgesByDst,
// or from a user do_all); withFind: then query findEdgeSortedByDst / findEdge
template <class G, class F, bool WithFind>
void opSortDst(Ctx& c) {
  G g;
  loadCsr<G, F>(c, g, c.file(), c.esz);
  switch (c.rng.below(3)) {
  case 0:
    for (uint64_t n = 0; n < c.X.numNodes; ++n)
      g.sortEdgesByDst((uint32_t)n);
    break;
  case 1: g.sortAllEdgesByDst(); break;
  default:
    galois::do_all(
        galois::iterate(g), [&](uint32_t n) { g.sortEdgesByDst(n, galois::MethodFlag::UNPROTECTED); },
        galois::no_stats(), galois::steal());
    break;
  }
  Indexer<G> ix;
  ix.build(g, c.X.numNodes + 8);
  Obs o;
  o.size      = g.size();
  o.sizeEdges = g.sizeEdges();
  observeOut(g, ix, o, galois::MethodFlag::UNPROTECTED);
  if (!checkCounts(c, o, c.X, "sorted", true, true) || !checkMultiset(c, o, c.X, "sorted") ||
      !checkSortedByDst(c, o, "sorted"))
    return;
  if constexpr (WithFind) {
    ref::RefGraph sorted(c.X.numNodes);
    sorted.adj = o.adj;
    checkFind(c, g, sorted, true);
  }
}

template <class G, class F>
void opSortData(Ctx& c) {
  using E = typename G::edge_data_type;
  G g;
  loadCsr<G, F>(c, g, c.file(), c.esz);
  if (c.rng.below(2)) {
    for (uint64_t n = 0; n < c.X.numNodes; ++n)
      g.sortEdgesByEdgeData((uint32_t)n, std::less<E>());
  } else {
    galois::do_all(
        galois::iterate(g),
        [&](uint32_t n) { g.sortEdgesByEdgeData(n, std::less<E>(), galois::MethodFlag::UNPROTECTED); },
        galois::no_stats(), galois::steal());
  }
  Indexer<G> ix;
  ix.build(g, c.X.numNodes + 8);
  Obs o;
  observeOut(g, ix, o, galois::MethodFlag::UNPROTECTED);
  if (!checkMultiset(c, o, c.X, "sorted"))
    return;
  checkSortedBy(c, o, c.less, "sorted");
}

// sortEdges with a user comparator over EdgeSortValue: destination descending
template <class G, class F>
void opSortCustom(Ctx& c) {
  using E  = typename G::edge_data_type;
  using SV = gg::EdgeSortValue<uint32_t, E>;
  G g;
  loadCsr<G, F>(c, g, c.file(), c.esz);
  for (uint64_t n = 0; n < c.X.numNodes; ++n)
    g.sortEdges((uint32_t)n, [](const SV& a, const SV& b) { return a.dst > b.dst; });
  Indexer<G> ix;
  ix.build(g, c.X.numNodes + 8);
  Obs o;
  observeOut(g, ix, o, galois::MethodFlag::UNPROTECTED);
  if (!checkMultiset(c, o, c.X, "sorted"))
    return;
  checkSortedBy(
      c, o, +[](const ref::RefEdge& a, const ref::RefEdge& b) { return a.dst > b.dst; }, "sorted");
}

} // namespace c11
