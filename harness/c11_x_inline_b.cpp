// C11 full template matrix (c11_graphs_full only): LC_InlineEdge_Graph x options (float, struct)
#include "c11_fam_inline.h"

namespace c11 {
void registerX_inline_b() {
  regInlFull<float>();
  regInlFull<E12>();
}
} // namespace c11
