// C11: LC_CSR_Graph, option combinations (no-lockable, numa-blocked,
// out-of-line lockable), void node data, file edge type different from the
// graph's edge type
#include "c11_csr_ops.h"
namespace c11 {

// EdgeTy != FileEdgeTy: the file's datum is converted (or absent / ignored)
template <class G, class FE>
void regCsrFileEdge(const std::string& cfg, unsigned flags) {
  using E = typename G::edge_data_type;
  Entry e   = mkEntry<E>(CsrFam::name, cfg, "read-file-edge-type", &opRead<G, CsrFam>, flags);
  e.fileEsz = ED<FE>::size;
  e.flags &= ~(unsigned)F_FLOAT;
  registry().push_back(e);
}

void registerCsrC() {
  regCsr<Csr<uint32_t, true, false, false>>("nolock", O_ALL);
  regCsr<Csr<uint32_t, false, false, true>>("ool", O_ALL);
  regCsr<Csr<uint32_t, true, true, false>>("nolock+numa", O_CORE | O_MANUAL | O_VECTORS);
  regCsr<Csr<uint32_t, false, true, true>>("ool+numa", O_CORE | O_MANUAL | O_VECTORS);
  regCsr<Csr<uint32_t, false, false, false, void>>("lock+voidnode", O_CORE | O_MANUAL);
  regCsr<Csr<void, true, false, false, void>>("nolock+voidnode", O_CORE);
  // uint32 in the file widened to uint64 in the graph: same numeric value
  regCsrFileEdge<gg::LC_CSR_Graph<uint32_t, uint64_t, false, false, false, uint32_t>, uint32_t>("file-uint32", 0);
  // no data in the file, default-constructed data in the graph: structure only
  regCsrFileEdge<gg::LC_CSR_Graph<uint32_t, uint32_t, false, false, false, void>, void>("file-void", F_STRUCT_ONLY);
  // data in the file, none in the graph
  regCsrFileEdge<gg::LC_CSR_Graph<uint32_t, void, false, false, false, uint32_t>, uint32_t>("file-uint32", F_STRUCT_ONLY);
}
void registerCsr() {
  registerCsrA();
  registerCsrB();
  registerCsrC();
}
} // namespace c11
