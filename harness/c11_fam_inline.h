#pragma once
// C11: LC_InlineEdge_Graph — edge data stored inline with the destination,
// node pointers optionally compressed to 32-bit indices. readGraph() does not
// compile for this type (ReadGraph.h passes a 4th constructFrom argument), so
// it is built the way its public API allows: allocateFrom(FileGraph) and one
// constructFrom(FileGraph, tid, total) call per thread.
#include "c11_ptr.h"

namespace c11 {

static const char* INL = "LC_InlineEdge_Graph";

template <class G>
void opInlRead(Ctx& c) {
  G g;
  gg::FileGraph f;
  loadFileGraph(c, f, c.file(), c.rng.below(2), c.esz);
  g.allocateFrom(f);
  galois::on_each([&](unsigned tid, unsigned total) { g.constructFrom(f, tid, total); });
  ++c.builds;
  c.parallelBuilds += c.threads > 1;
  verifyPtr<G>(c, g, c.X, true, "read");
}

template <class G>
void regInl(const std::string& cfg) {
  using E = typename G::edge_data_type;
  registry().push_back(mkEntry<E>(INL, cfg, "read", &opInlRead<G>, 0, 4));
}

// LC_InlineEdge_Graph<NodeTy, EdgeTy, HasNoLockable, UseNumaAlloc, HasOutOfLineLockable, HasCompressedNodePtr>
template <class E, bool NL = false, bool NU = false, bool OOL = false, bool CP = false, class N = uint32_t>
using Inl = gg::LC_InlineEdge_Graph<N, E, NL, NU, OOL, CP>;

template <class E>
void regInlFull() {
  regInl<Inl<E>>("lock");
  regInl<Inl<E, false, false, false, true>>("lock+compressed");
  regInl<Inl<E, true>>("nolock");
  regInl<Inl<E, true, false, false, true>>("nolock+compressed");
  regInl<Inl<E, false, true>>("lock+numa");
  regInl<Inl<E, false, true, false, true>>("lock+numa+compressed");
  regInl<Inl<E, false, false, true>>("ool");
  regInl<Inl<E, false, false, true, true>>("ool+compressed");
  regInl<Inl<E, true, true>>("nolock+numa");
  regInl<Inl<E, false, true, true>>("ool+numa");
  regInl<Inl<E, false, true, true, true>>("ool+numa+compressed");
}


} // namespace c11
