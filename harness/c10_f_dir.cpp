// C10 flavours: directed MorphGraph (out-edges only), plain and sorted neighbours.
#include "galois/graphs/MorphGraph.h"
#include "c10_graph.h"
using namespace c10;
typedef galois::graphs::MorphGraph<ND, uint64_t, true, false, false, false> GDir;
typedef galois::graphs::MorphGraph<ND, uint64_t, true, false, false, true> GDirSorted;
C10_FLAVOUR(dir, "directed", "directed", F_DIRECTED, GDir)
C10_FLAVOUR(dirs, "directed-sorted", "directed", F_DIRECTED | F_SORTED, GDirSorted)
