// C11: registration helpers for LC_CSR_Graph instantiations (c11_csr_*.cpp)
#pragma once
#include "c11_csr.h"
#include "galois/PODResizeableArray.h"
#include "galois/gstl.h"

namespace c11 {

// constructFrom(numNodes, numEdges, prefix_sum, edges_id, edges_data)
template <class G, class F, bool Pod, bool Reuse = false>
void opVectors(Ctx& c) {
  using E    = typename G::edge_data_type;
  uint64_t N = c.X.numNodes, m = c.X.numEdges();
  std::vector<uint64_t> prefix(N);
  std::vector<std::vector<E>> data(N);
  std::vector<std::vector<uint32_t>> ids(N);
  galois::gstl::Vector<galois::PODResizeableArray<uint32_t>> pods(N);
  uint64_t run = 0;
  for (uint64_t n = 0; n < N; ++n) {
    run += c.X.adj[n].size();
    prefix[n] = run;
    for (auto& r : c.X.adj[n]) {
      if (Pod)
        pods[n].push_back((uint32_t)r.dst);
      else
        ids[n].push_back((uint32_t)r.dst);
      data[n].push_back(fromRef<E>(r));
    }
  }
  G g;
  if constexpr (Pod) {
    g.constructFrom((uint32_t)N, m, prefix, pods, data);
  } else {
    if (Reuse) {
      // "Deallocate if reusing the graph": build something else first
      std::vector<uint64_t> p2{1, 2, 2};
      std::vector<std::vector<uint32_t>> i2{{1}, {2}, {}};
      std::vector<std::vector<E>> d2(3);
      d2[0].push_back(E{});
      d2[1].push_back(E{});
      g.constructFrom(3, 2, p2, i2, d2);
      ++c.builds;
    }
    g.constructFrom((uint32_t)N, m, prefix, ids, data);
  }
  ++c.builds;
  c.parallelBuilds += c.threads > 1;
  verifyCsr<G, F>(c, g, c.X, true, "build");
}

enum CsrOps : unsigned {
  O_READ      = 1,
  O_FIND      = 2,
  O_GRFILE    = 4,
  O_UNWEIGHTED = 8,
  O_MANUAL    = 16,
  O_VECTORS   = 32,
  O_PODVEC    = 64,
  O_TRANSPOSE = 128,
  O_SORTDST   = 256,
  O_SORTDATA  = 512,
  O_SORTCUSTOM = 1024,
  O_FINDSORTED = 2048,
  O_ALL       = 4095,
  O_CORE      = O_READ | O_TRANSPOSE | O_SORTDST | O_FINDSORTED,
};

template <class G>
void regCsr(const std::string& cfg, unsigned ops) {
  using E = typename G::edge_data_type;
  using F = CsrFam;
  auto& R = registry();
  if (ops & O_READ)
    R.push_back(mkEntry<E>(F::name, cfg, "read", &opRead<G, F>, 0, 2));
  if (ops & O_FIND)
    R.push_back(mkEntry<E>(F::name, cfg, "findEdge", &opFind<G, F>));
  if (ops & O_GRFILE)
    R.push_back(mkEntry<E>(F::name, cfg, "readGraphFromGRFile", &opGRFile<G, F>));
  if (ops & O_MANUAL)
    R.push_back(mkEntry<E>(F::name, cfg, "constructEdge", &opManual<G, F>));
  if (ops & O_TRANSPOSE)
    R.push_back(mkEntry<E>(F::name, cfg, "transpose", &opTranspose<G, F>, 0, 2));
  if (ops & O_SORTDST)
    R.push_back(mkEntry<E>(F::name, cfg, "sortEdgesByDst", &opSortDst<G, F, false>, 0, 2));
  if (ops & O_FINDSORTED)
    R.push_back(mkEntry<E>(F::name, cfg, "findEdgeSortedByDst", &opSortDst<G, F, true>, 0, 2));
  if (ops & O_SORTCUSTOM)
    R.push_back(mkEntry<E>(F::name, cfg, "sortEdges", &opSortCustom<G, F>));
  if constexpr (!std::is_void_v<E>) {
    if (ops & O_UNWEIGHTED) {
      Entry e   = mkEntry<E>(F::name, cfg, "readUnweighted", &opUnweighted<G, F>, F_STRUCT_ONLY);
      e.fileEsz = 0;
      e.flags &= ~(unsigned)F_FLOAT;
      R.push_back(e);
    }
    if (ops & O_VECTORS) {
      R.push_back(mkEntry<E>(F::name, cfg, "constructFrom-vectors", &opVectors<G, F, false>));
      R.push_back(mkEntry<E>(F::name, cfg, "constructFrom-vectors-reuse", &opVectors<G, F, false, true>));
    }
    if (ops & O_PODVEC)
      R.push_back(mkEntry<E>(F::name, cfg, "constructFrom-podvectors", &opVectors<G, F, true>));
    if (ops & O_SORTDATA)
      R.push_back(mkEntry<E>(F::name, cfg, "sortEdgesByEdgeData", &opSortData<G, F>));
  }
}

// LC_CSR_Graph<NodeTy, EdgeTy, HasNoLockable, UseNumaAlloc, HasOutOfLineLockable, FileEdgeTy>
template <class E, bool NL, bool NU, bool OOL, class N = uint32_t>
using Csr = gg::LC_CSR_Graph<N, E, NL, NU, OOL>;

inline std::string optName(bool nl, bool nu, bool ool) {
  std::string s = nl ? "nolock" : (ool ? "ool" : "lock");
  if (nu)
    s += "+numa";
  return s;
}

// all six meaningful option combinations of one edge type
template <class E>
void regCsrOptions(unsigned opsDefault, unsigned opsOther) {
  regCsr<Csr<E, false, false, false>>(optName(false, false, false), opsDefault);
  regCsr<Csr<E, true, false, false>>(optName(true, false, false), opsOther);
  regCsr<Csr<E, false, true, false>>(optName(false, true, false), opsOther);
  regCsr<Csr<E, false, false, true>>(optName(false, false, true), opsOther);
  regCsr<Csr<E, true, true, false>>(optName(true, true, false), opsOther);
  regCsr<Csr<E, false, true, true>>(optName(false, true, true), opsOther);
}

void registerCsrA();
void registerCsrB();
void registerCsrC();

} // namespace c11
