// C20 helper: the maximal-independentset-cpu application prints only the cardinality of the set it computed.
// This executable compiles the application's own source (all algorithm structs, command line options and graph
// types of lonestar/analytics/cpu/independentset/IndependentSet.cpp, unmodified, its main() renamed), runs the
// selected algorithm exactly as the application's run<Algo>() does (same graph loading, same preAlloc, same
// algo(graph) call) and then writes one character per node to the file given with -c20dump:
//   '1' node is in the set, '0' node is marked as excluded, 'u' node was left undecided by the algorithm.
// The oracle (independent AND maximal) lives in lib/specs/c20.py; nothing is decided here.
#define main c20_lonestar_independentset_main
#include "IndependentSet.cpp"
#undef main

#include <cstdio>

static cll::opt<std::string> c20DumpFile("c20dump", cll::desc("file to write the per-node result to"),
                                         cll::Required);

template <typename NodeTy>
static char classify(const NodeTy& n);

template <>
char classify<Node>(const Node& n) {
  return n.flag == MATCHED ? '1' : (n.flag == OTHER_MATCHED ? '0' : 'u');
}

// prio algorithms: 0xfe = permanently in the set, 0x00 = permanently out (see the comments in PrioAlgo and
// verify() of the application); anything else still carries the "undecided" bit
template <>
char classify<prioNode>(const prioNode& n) {
  return n.flag == (unsigned char)0xfe ? '1' : (n.flag == (unsigned char)0x00 ? '0' : 'u');
}

template <typename Algo>
static int dumpRun() {
  using Graph = typename Algo::Graph;
  using GNode = typename Graph::GraphNode;

  Algo algo;
  Graph graph;
  galois::graphs::readGraph(graph, inputFile);

  if (std::is_same<Algo, DefaultAlgo<nondet>>::value) {
    galois::preAlloc(numThreads + 16 * graph.size() / galois::runtime::pagePoolSize());
  } else {
    galois::preAlloc(numThreads + 64 * (sizeof(GNode) + sizeof(Node)) * graph.size() /
                                      galois::runtime::pagePoolSize());
  }

  algo(graph);

  std::string out;
  out.reserve(graph.size() + 1);
  for (auto n : graph)
    out.push_back(classify(graph.getData(n, galois::MethodFlag::UNPROTECTED)));
  out.push_back('\n');
  FILE* f = std::fopen(c20DumpFile.c_str(), "w");
  if (!f)
    return 2;
  std::fwrite(out.data(), 1, out.size(), f);
  std::fclose(f);
  std::printf("c20dump: %zu nodes written\n", (size_t)graph.size());
  return 0;
}

int main(int argc, char** argv) {
  galois::SharedMemSys G;
  LonestarStart(argc, argv, name, desc, url, &inputFile);
  if (!symmetricGraph) {
    GALOIS_DIE("independent set requires a symmetric graph input");
  }
  switch (algo) {
  case serial:
    return dumpRun<SerialAlgo>();
  case nondet:
    return dumpRun<DefaultAlgo<nondet>>();
  case detBase:
    return dumpRun<DefaultAlgo<detBase>>();
  case pull:
    return dumpRun<PullAlgo>();
  case prio:
    return dumpRun<PrioAlgo>();
  case edgetiledprio:
    return dumpRun<EdgeTiledPrioAlgo>();
  default:
    return 2;
  }
}
