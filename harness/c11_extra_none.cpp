// C11: the quick executable carries the representative subset only
namespace c11 {
void registerExtra() {}
} // namespace c11
