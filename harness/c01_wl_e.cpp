// worklist instantiations, part E: level-synchronous schedulers
#include "c01_common.h"
using namespace c01;
using namespace galois::worklists;

typedef OrderedByIntegerMetric<PrioIndexer, PerSocketChunkFIFO<8>> OBIM;
C01_WL(OBIM_barrier, "OBIM-barrier", F_PRIO | F_BARRIER | F_QUICK, OBIM::with_barrier<true>::type)
C01_WL(OBIM_barrier_monotonic, "OBIM-barrier", F_PRIO | F_BARRIER | F_MONOTONE,
       OBIM::with_barrier<true>::type::with_monotonic<true>::type)
C01_WL(OBIM_barrier_desc, "OBIM-barrier", F_PRIO | F_BARRIER | F_DESC,
       OBIM::with_barrier<true>::type::with_descending<true>::type)
C01_WL(OBIM_barrier_chunk1, "OBIM-barrier", F_PRIO | F_BARRIER,
       OBIM::with_barrier<true>::type::with_container<ChunkFIFO<1>>::type)
C01_WL(BulkSynchronous_default, "BulkSynchronous", F_BSP | F_QUICK, BulkSynchronous<>)
C01_WL(BulkSynchronous_psc8, "BulkSynchronous", F_BSP, BulkSynchronous<PerSocketChunkFIFO<8>>)
C01_WL(BulkSynchronous_chunklifo2, "BulkSynchronous", F_BSP, BulkSynchronous<ChunkLIFO<2>>)
