// C03 — do_all / on_each / ThreadPool::run: exactly once, right thread ids, join.
#pragma once
#include "verif.h"

#include "galois/Galois.h"
#include "galois/Bag.h"

#include <deque>
#include <forward_list>
#include <list>

namespace c03 {
using namespace verif;

struct Case {
  uint32_t n      = 0;   // elements in the range
  uint32_t total  = 0;   // counters allocated (>= n; extra ones must stay 0)
  uint32_t base   = 0;   // value of the first element (value - base = index)
  unsigned threads = 1;
  std::unique_ptr<std::atomic<uint32_t>[]> count;
  std::unique_ptr<std::atomic<uint8_t>[]> execBy; // executing tid + 1
  std::vector<uint8_t> delay;                     // per element: 0 none, 1 busy, 2 sleep
  std::atomic<int> active{0};
  std::atomic<uint32_t> bad{0};     // violations recorded by the function
  std::atomic<uint32_t> badIdx{0};
  std::atomic<uint32_t> badKind{0}; // 1 out of range, 2 ran outside region
  void init(uint32_t n_, uint32_t extra) {
    n     = n_;
    total = n_ + extra;
    count.reset(new std::atomic<uint32_t>[total + 1]);
    execBy.reset(new std::atomic<uint8_t>[total + 1]);
    for (uint32_t i = 0; i <= total; ++i) {
      count[i].store(0, std::memory_order_relaxed);
      execBy[i].store(0, std::memory_order_relaxed);
    }
  }
  void hit(uint64_t v) {
    uint64_t idx = v - base;
    if (!active.load(std::memory_order_relaxed)) {
      badKind.store(2, std::memory_order_relaxed);
      bad.fetch_add(1, std::memory_order_relaxed);
    }
    if (idx >= total) {
      badKind.store(1, std::memory_order_relaxed);
      badIdx.store((uint32_t)idx, std::memory_order_relaxed);
      bad.fetch_add(1, std::memory_order_relaxed);
      return;
    }
    count[idx].fetch_add(1, std::memory_order_relaxed);
    execBy[idx].store((uint8_t)(galois::substrate::ThreadPool::getTID() + 1), std::memory_order_relaxed);
    if (idx < delay.size() && delay[idx]) {
      if (delay[idx] == 1)
        busy_delay_ns(2000 + (idx % 7) * 1000);
      else
        sleep_us(60 + (unsigned)(idx % 5) * 40);
    }
    progress();
  }
};

struct Fn {
  Case* c;
  template <typename T>
  void operator()(const T& v) const {
    c->hit((uint64_t)v);
  }
};

enum Kind {
  K_POINTER = 0,
  K_VECTOR,
  K_DEQUE,
  K_LIST,
  K_FWDLIST,
  K_COUNT_U32,
  K_COUNT_I64,
  K_COUNT_U16,
  K_INSERTBAG,
  K_SPECIFIC,
  K_SUBRANGE,
  K_NUM
};
inline const char* kindName(unsigned k) {
  static const char* n[] = {"pointer", "vector", "deque", "list", "forward_list", "counting_u32",
                            "counting_i64", "counting_u16", "InsertBag", "SpecificRange", "vector_subrange"};
  return k < K_NUM ? n[k] : "?";
}

// chunk index: 0..4 -> {1,2,3,64,4096}; steal false ignores chunk
typedef void (*RunFn)(Case&, const void* data);
RunFn lookup(unsigned kind, bool steal, unsigned chunkIdx);

template <typename Maker, unsigned CS, bool ST>
inline void doAll(Case& c, const Maker& mk) {
  Fn fn{&c};
  if constexpr (ST)
    galois::do_all(mk, fn, galois::steal(), galois::chunk_size<CS>(), galois::no_stats());
  else
    galois::do_all(mk, fn, galois::chunk_size<CS>(), galois::no_stats());
}

} // namespace c03
