// worklist instantiations, part A: simple, chunked
#include "c01_common.h"
using namespace c01;
using namespace galois::worklists;

C01_WL(FIFO, "Simple", F_QUICK, FIFO<>)
C01_WL(LIFO, "Simple", 0, LIFO<>)
C01_WL(GFIFO, "Simple", 0, GFIFO<>)
C01_WL(GLIFO, "Simple", F_QUICK, GLIFO<>)
C01_WL(ChunkFIFO_1, "Chunk", 0, ChunkFIFO<1>)
C01_WL(ChunkFIFO_2, "Chunk", F_QUICK, ChunkFIFO<2>)
C01_WL(ChunkFIFO_64, "Chunk", 0, ChunkFIFO<64>)
C01_WL(ChunkLIFO_1, "Chunk", 0, ChunkLIFO<1>)
C01_WL(ChunkLIFO_8, "Chunk", F_QUICK, ChunkLIFO<8>)
C01_WL(ChunkLIFO_64, "Chunk", 0, ChunkLIFO<64>)
