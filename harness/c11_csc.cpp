// C11: csc family, representative subset of the template matrix (quick + thorough)
#include "c11_fam_csc.h"

namespace c11 {

void registerCsc() {
  regCsc<Csc<void, true>>("byvalue", C_ALL);
  regCsc<Csc<void, false>>("shared", C_ALL);
  regCsc<Csc<uint32_t, true>>("byvalue", C_ALL);
  regCsc<Csc<uint32_t, false>>("shared", C_ALL);
  regCsc<Csc<E12, true>>("byvalue", C_IN | C_SORTIN);
  regCsc<Csc<E12, false>>("shared", C_IN | C_SORTIN);
  regCsc<Csc<uint64_t, false, true, true, false>>("shared+nolock+numa", C_IN | C_SORTIN);
  regCsc<Csc<float, true, false, true, true>>("byvalue+ool+numa", C_IN | C_SORTIN | C_BIGR);
}

} // namespace c11
