// C16 — ParallelSTL algorithms equal their std:: counterparts.
// Shared declarations of the c16_pstl harness (several TUs to bound compile time).
//
// One case = one algorithm x one generated input x one thread count. The real
// galois::ParallelSTL entry points are called exactly as a user would call them
// (iterators of std::vector / raw pointers / std::deque / std::list /
// boost::counting_iterator, function objects for predicates, comparators, map
// and reduce functions). All observation happens in code the harness supplies:
//   * the function objects count their invocations per pool thread, apply
//     value-/position-/thread-dependent busy delays (to steer which thread
//     finishes first) and check that the element they are applied to lies inside
//     the input range (a predicate applied to *last is how the partition defect
//     shows without relying on a crash);
//   * the results are compared with the std:: algorithms by ref/c16_ref.h.
#pragma once

#include "verif.h"
#include "c16_ref.h"

#include "galois/Galois.h"
#include "galois/ParallelSTL.h"
#include "galois/substrate/ThreadPool.h"

#include <boost/iterator/counting_iterator.hpp>

#include <deque>
#include <list>
#include <sys/mman.h>

namespace c16 {

using verif::J;
using verif::Rng;

// ------------------------------------------------------------------ elements
struct Elem {
  uint32_t key;
  uint32_t id; // original position: makes every element unique (permutation oracle, instability visible)
  bool operator<(const Elem& o) const { return key < o.key || (key == o.key && id < o.id); }
  bool operator==(const Elem& o) const { return key == o.key && id == o.id; }
};
inline uint32_t keyOf(uint32_t v) { return v; }
inline uint32_t keyOf(const Elem& e) { return e.key; }
inline uint32_t keyOf(double d) { return (uint32_t)d; }
inline Elem makeElem(Elem*, uint32_t key, uint32_t id) { return Elem{key, id}; }
inline uint32_t makeElem(uint32_t*, uint32_t key, uint32_t) { return key; }
inline double makeElem(double*, uint32_t key, uint32_t) { return (double)key; }
struct TotalLess {
  bool operator()(uint32_t a, uint32_t b) const { return a < b; }
  bool operator()(double a, double b) const { return a < b; }
  bool operator()(const Elem& a, const Elem& b) const { return a < b; }
};

enum Comp : unsigned { SORT, PARTITION, COUNT_IF, FIND_IF, ACCUMULATE, MAP_REDUCE, PARTIAL_SUM, DESTROY, NCOMP };
inline const char* const COMP_NAME[NCOMP] = {"sort",       "partition",  "count_if",    "find_if",
                                             "accumulate", "map_reduce", "partial_sum", "destroy"};
enum IterKind : unsigned { IT_VECTOR, IT_POINTER, IT_DEQUE, IT_LIST, IT_COUNTING, IT_CHECKED, NITER };
inline const char* const ITER_NAME[NITER] = {"vector", "pointer", "deque", "list", "counting", "checked"};

// ------------------------------------------------------------------ case description
struct DelayCfg {
  unsigned kind   = 0; // 0 none, 1 position block, 2 position >= a, 3 position < a, 4 tid == a, 5 tid parity, 6 value hash
  uint64_t a      = 0;
  unsigned ns     = 0;
  unsigned budget = 0; // max delayed calls per thread
};
struct IterDelayCfg { // delay inside operator+ of the user-defined random-access iterator (IT_CHECKED)
  unsigned ns     = 0; // 0 none, 1 sched_yield, else busy delay
  unsigned budget = 0; // delayed calls per thread (the first ones: in partition these are the block claims)
  unsigned who    = 0; // 0 every thread, 1 even tids, 2 odd tids, 3 only tid == a
  unsigned a      = 0;
};
struct PredSpec {
  unsigned kind = 0; // 0 odd key, 1 key >= 2^31, 2 key % 7 < 3
};
inline bool predPure(const PredSpec& s, uint32_t key) {
  switch (s.kind) {
  case 0: return key & 1;
  case 1: return key >= 0x80000000u;
  default: return key % 7 < 3;
  }
}
struct CmpSpec {
  unsigned kind = 0; // 0 key <, 1 key >, 2 (key % mod) <, 3 total order (key,id), 4 two-argument sort() (operator<)
  uint32_t mod  = 1;
};
template <class T>
inline bool cmpPure(const CmpSpec& s, const T& a, const T& b) {
  switch (s.kind) {
  case 0: return keyOf(a) < keyOf(b);
  case 1: return keyOf(a) > keyOf(b);
  case 2: return keyOf(a) % s.mod < keyOf(b) % s.mod;
  default: return TotalLess()(a, b);
  }
}

struct CaseCfg {
  unsigned comp = 0, threads = 1, maxT = 1, sockets = 1;
  size_t n      = 0;
  unsigned elem = 0; // 0 uint32_t, 1 Elem{key,id}, 2 double (accumulate only)
  unsigned iter = 0;
  unsigned keyPat = 0, boolPat = 0, opKind = 0, variant = 0;
  PredSpec pred;
  CmpSpec cmp;
  DelayCfg delay;
  IterDelayCfg iterDelay;
  unsigned gateK    = 0; // first element callback of a pool thread waits (bounded) until gateK threads got that far
  uint64_t dataSeed = 1;
  bool thorough     = false;
};

struct Outcome {
  struct V {
    std::string key, detail;
  };
  std::vector<V> violations;
  std::vector<std::pair<std::string, uint64_t>> obs;
  std::string cls; // observed outcome class (part of the signature)
  void violation(const std::string& key, const std::string& detail) { violations.push_back({key, detail}); }
  void add(const std::string& k, uint64_t v) { obs.emplace_back(k, v); }
};

// ------------------------------------------------------------------ monitor shared with the function objects
struct alignas(128) ThreadMon {
  uint64_t calls       = 0; // invocations of a harness function object by this pool thread
  uint64_t serialCalls = 0; // ... of those, outside any parallel region (the caller's serial clean-up)
  uint64_t delays      = 0;
  int64_t budget       = 0;
  int64_t iterBudget   = 0;
  uint64_t iterDelays  = 0;
  bool gated           = false;
};
struct AddrRun {
  const char* lo;
  const char* hi;
  long base; // position of the first element of the run
};
struct OobEscape { // thrown by a function object applied outside the input, on the calling thread only
  long index;
};
struct Monitor {
  ThreadMon t[verif::MAXT];
  // address map of the input range: sorted, maximal runs of contiguous elements
  std::vector<AddrRun> runs;
  size_t stride = 1;
  size_t n      = 0;
  bool haveMap  = false;
  std::vector<uint8_t> seen; // position examined during the parallel phase (only when haveMap)
  DelayCfg delay;
  IterDelayCfg iterDelay;
  unsigned gateK = 0;
  std::atomic<unsigned> arrived{0};
  const char* comp = "";
  uint64_t oobSerial = 0;
  long oobIndex      = 0;

  void reset(const CaseCfg& c) {
    for (unsigned i = 0; i < verif::MAXT; ++i) {
      t[i]        = ThreadMon();
      t[i].budget = c.delay.budget;
      t[i].iterBudget = c.iterDelay.budget;
    }
    iterDelay = c.iterDelay;
    gateK     = c.gateK;
    arrived.store(0, std::memory_order_relaxed);
    runs.clear();
    haveMap   = false;
    n         = c.n;
    delay     = c.delay;
    comp      = COMP_NAME[c.comp];
    oobSerial = 0;
    oobIndex  = 0;
    seen.clear();
  }
  template <class It>
  void mapRange(It first, It last, size_t elemSize) {
    runs.clear();
    stride = elemSize;
    long i = 0;
    for (It it = first; it != last; ++it, ++i) {
      const char* p = (const char*)&*it;
      if (!runs.empty() && runs.back().hi == p)
        runs.back().hi = p + elemSize;
      else
        runs.push_back({p, p + elemSize, i});
    }
    std::sort(runs.begin(), runs.end(), [](const AddrRun& a, const AddrRun& b) { return a.lo < b.lo; });
    seen.assign(n, 0);
    haveMap = true;
#if VERIF_TSAN
    // observation only (never a verdict for C16): TSan reports whose address lies in the user's input
    verif::clear_payloads();
    if (runs.size() == 1)
      verif::register_payload(runs[0].lo, (size_t)(runs[0].hi - runs[0].lo), "c16-input");
#endif
  }
  void unmap() { haveMap = false; }
  // position of the element at address p, or LONG_MIN if p is not an element of the input
  long locate(const char* p, long* nearest) const {
    size_t lo = 0, hi = runs.size();
    while (lo < hi) {
      size_t mid = (lo + hi) / 2;
      if (runs[mid].hi <= p)
        lo = mid + 1;
      else
        hi = mid;
    }
    if (lo < runs.size() && runs[lo].lo <= p)
      return runs[lo].base + (long)((p - runs[lo].lo) / (long)stride);
    if (nearest) { // signed position relative to the closest run, for the witness
      if (lo > 0)
        *nearest = runs[lo - 1].base + (long)((p - runs[lo - 1].lo) / (long)stride);
      else if (!runs.empty())
        *nearest = runs[0].base - (long)((runs[0].lo - p + (long)stride - 1) / (long)stride);
    }
    return LONG_MIN;
  }
  uint64_t totalCalls() const {
    uint64_t s = 0;
    for (auto& x : t)
      s += x.calls;
    return s;
  }
  uint64_t totalSerial() const {
    uint64_t s = 0;
    for (auto& x : t)
      s += x.serialCalls;
    return s;
  }
  uint64_t totalDelays() const {
    uint64_t s = 0;
    for (auto& x : t)
      s += x.delays + x.iterDelays;
    return s;
  }
  unsigned threadsUsed() const { // pool threads that executed a function object inside a parallel region
    unsigned k = 0;
    for (auto& x : t)
      k += (x.calls - x.serialCalls) > 0;
    return k;
  }
  bool allSeen() const {
    if (seen.empty())
      return false;
    for (uint8_t b : seen)
      if (!b)
        return false;
    return true;
  }
};
inline Monitor g_mon;

inline bool in_parallel_region() { return verif::me().inRegion.load(std::memory_order_relaxed) != 0; }

// A harness function object was applied to an object that is not an element of the input.
inline void on_oob(long nearestIndex) {
  Monitor& m = g_mon;
  if (!in_parallel_region()) {
    // the caller's own thread, outside on_each/do_all/for_each: unwinding is safe
    m.oobSerial++;
    m.oobIndex = nearestIndex;
    throw OobEscape{nearestIndex};
  }
  // inside a parallel region we cannot unwind through the thread pool: report and stop this process
  verif::g_harness->violation(std::string("C16:") + m.comp + ":oob:in-parallel-phase",
                              J().kv("what", "function object applied to an object outside [first,last) by a pool thread")
                                  .kv("nearest_position", nearestIndex).kv("n", m.n).str());
  fflush(nullptr);
  _exit(4);
}

inline void maybe_delay(ThreadMon& tm, unsigned tid, long idx, uint32_t key) {
  const DelayCfg& d = g_mon.delay;
  if (!d.kind || tm.budget <= 0)
    return;
  bool hit = false;
  switch (d.kind) {
  case 1: hit = idx >= 0 && (uint64_t)(idx >> 10) == d.a; break;
  case 2: hit = idx >= 0 && (uint64_t)idx >= d.a; break;
  case 3: hit = idx >= 0 && (uint64_t)idx < d.a; break;
  case 4: hit = tid == d.a; break;
  case 5: hit = (tid & 1) == (d.a & 1); break;
  default: hit = ((key * 0x9E3779B1u) >> 24) < d.a; break;
  }
  if (hit) {
    --tm.budget;
    ++tm.delays;
    verif::busy_delay_ns(d.ns);
  }
}

// bookkeeping common to every function object applied to an element `v` of the input
template <class T>
inline uint32_t observe_element(const T& v) {
  Monitor& m    = g_mon;
  unsigned tid  = galois::substrate::ThreadPool::getTID();
  ThreadMon& tm = m.t[tid < verif::MAXT ? tid : 0];
  long idx      = -1;
  bool inReg    = in_parallel_region();
  if (m.haveMap) {
    long nearest = 0;
    idx          = m.locate((const char*)&v, &nearest);
    if (idx == LONG_MIN)
      on_oob(nearest); // does not return normally
    if (inReg)
      __atomic_store_n(&m.seen[idx], (uint8_t)1, __ATOMIC_RELAXED);
  }
  ++tm.calls;
  if (!inReg)
    ++tm.serialCalls;
  else if (m.gateK && !tm.gated) {
    // start gate: a thread that has just claimed its first block(s) lets up to gateK-1 others claim theirs
    // before it goes on (bounded wait, at most 1.5 ms; whoever does not come is not waited for)
    tm.gated = true;
    m.arrived.fetch_add(1, std::memory_order_relaxed);
    double t0 = verif::now_s();
    while (m.arrived.load(std::memory_order_relaxed) < m.gateK && verif::now_s() - t0 < 1500e-6)
      asm volatile("pause");
  }
  uint32_t key = keyOf(v);
  maybe_delay(tm, tid, idx, key);
  if ((tm.calls & 127) == 0)
    verif::progress();
  return key;
}
// same for a function object that sees values only (comparators get copies; counting iterators yield indices)
inline void observe_value(uint32_t key) {
  Monitor& m    = g_mon;
  unsigned tid  = galois::substrate::ThreadPool::getTID();
  ThreadMon& tm = m.t[tid < verif::MAXT ? tid : 0];
  ++tm.calls;
  if (!in_parallel_region())
    ++tm.serialCalls;
  maybe_delay(tm, tid, -1, key);
  if ((tm.calls & 127) == 0)
    verif::progress();
}

template <class T>
struct Pred {
  PredSpec s;
  bool operator()(const T& v) const { return predPure(s, observe_element(v)); }
};
// predicate over positions (boost::counting_iterator ranges, the way graph.begin()/end() are used)
struct PredByIndex {
  PredSpec s;
  const uint32_t* keys;
  size_t n;
  bool operator()(const uint32_t& i) const {
    if (i >= n)
      on_oob((long)i);
    uint32_t key = keys[i];
    observe_value(key);
    return predPure(s, key);
  }
};
template <class T>
struct Cmp {
  CmpSpec s;
  bool operator()(const T& a, const T& b) const {
    observe_value(keyOf(a));
    return cmpPure(s, a, b);
  }
};

// ------------------------------------------------------------------ user-defined random-access iterator
// A bounds-checked pointer wrapper, the kind of iterator a careful user passes. Dereferencing it outside the
// input is reported like a predicate applied outside the input. Its operator+ can be slow for chosen threads
// (IterDelayCfg): ParallelSTL::partition evaluates `rv + BS` between releasing the block lock in takeLow and
// taking it again in takeHigh, so this steers which thread claims which block.
inline void iter_plus_delay() {
  Monitor& m = g_mon;
  if (!m.iterDelay.ns || !in_parallel_region())
    return;
  unsigned tid  = galois::substrate::ThreadPool::getTID();
  ThreadMon& tm = m.t[tid < verif::MAXT ? tid : 0];
  if (tm.iterBudget <= 0)
    return;
  switch (m.iterDelay.who) {
  case 1: if (tid & 1) return; break;
  case 2: if (!(tid & 1)) return; break;
  case 3: if (tid != m.iterDelay.a) return; break;
  default: break;
  }
  --tm.iterBudget;
  ++tm.iterDelays;
  if (m.iterDelay.ns == 1)
    sched_yield();
  else
    verif::busy_delay_ns(m.iterDelay.ns);
}
inline void iter_check(const void* p) {
  Monitor& m = g_mon;
  if (!m.haveMap)
    return;
  long nearest = 0;
  if (m.locate((const char*)p, &nearest) == LONG_MIN)
    on_oob(nearest);
}
template <class T>
class ChkIt {
  T* p;

public:
  using iterator_category = std::random_access_iterator_tag;
  using value_type        = T;
  using difference_type   = std::ptrdiff_t;
  using pointer           = T*;
  using reference         = T&;
  ChkIt() : p(nullptr) {}
  explicit ChkIt(T* q) : p(q) {}
  reference operator*() const {
    iter_check(p);
    return *p;
  }
  pointer operator->() const {
    iter_check(p);
    return p;
  }
  reference operator[](difference_type n) const {
    iter_check(p + n);
    return p[n];
  }
  ChkIt& operator++() { ++p; return *this; }
  ChkIt operator++(int) { ChkIt t(*this); ++p; return t; }
  ChkIt& operator--() { --p; return *this; }
  ChkIt operator--(int) { ChkIt t(*this); --p; return t; }
  ChkIt& operator+=(difference_type n) { p += n; return *this; }
  ChkIt& operator-=(difference_type n) { p -= n; return *this; }
  friend ChkIt operator+(const ChkIt& a, difference_type n) {
    iter_plus_delay();
    return ChkIt(a.p + n);
  }
  friend ChkIt operator+(difference_type n, const ChkIt& a) { return ChkIt(a.p + n); }
  friend ChkIt operator-(const ChkIt& a, difference_type n) { return ChkIt(a.p - n); }
  friend difference_type operator-(const ChkIt& a, const ChkIt& b) { return a.p - b.p; }
  friend bool operator==(const ChkIt& a, const ChkIt& b) { return a.p == b.p; }
  friend bool operator!=(const ChkIt& a, const ChkIt& b) { return a.p != b.p; }
  friend bool operator<(const ChkIt& a, const ChkIt& b) { return a.p < b.p; }
  friend bool operator>(const ChkIt& a, const ChkIt& b) { return a.p > b.p; }
  friend bool operator<=(const ChkIt& a, const ChkIt& b) { return a.p <= b.p; }
  friend bool operator>=(const ChkIt& a, const ChkIt& b) { return a.p >= b.p; }
  T* raw() const { return p; }
};

// ------------------------------------------------------------------ containers
// raw-pointer ranges live between two inaccessible pages (one side flush with the array), so an
// out-of-range access by the library traps deterministically in every build config
struct GuardedBuf {
  char* map     = nullptr;
  size_t mapLen = 0;
  char* data    = nullptr;
  GuardedBuf(size_t bytes, bool flushWithEnd) {
    const size_t pg = 4096;
    size_t body     = ((bytes ? bytes : 1) + pg - 1) / pg * pg;
    mapLen          = body + 2 * pg;
    map = (char*)mmap(nullptr, mapLen, PROT_READ | PROT_WRITE, MAP_PRIVATE | MAP_ANONYMOUS, -1, 0);
    if (map == MAP_FAILED) {
      perror("mmap");
      exit(2);
    }
    mprotect(map, pg, PROT_NONE);
    mprotect(map + pg + body, pg, PROT_NONE);
    data = flushWithEnd ? map + pg + body - bytes : map + pg;
  }
  ~GuardedBuf() { munmap(map, mapLen); }
  GuardedBuf(const GuardedBuf&) = delete;
};

// run f(first,last) on a fresh container of the chosen kind holding a copy of `input`; `out` = final contents.
// f returns nothing; it may throw OobEscape (propagated after `out` has been captured).
template <class T, class F>
void with_ra_range(const CaseCfg& c, const std::vector<T>& input, std::vector<T>& out, F&& f) {
  auto body = [&](auto first, auto last) {
    g_mon.mapRange(first, last, sizeof(T));
    try {
      f(first, last);
    } catch (const OobEscape&) {
      g_mon.unmap();
      out.assign(first, last);
      throw;
    }
    g_mon.unmap();
    out.assign(first, last);
  };
  switch (c.iter) {
  case IT_POINTER: {
    GuardedBuf b(input.size() * sizeof(T), c.variant & 1);
    T* p = reinterpret_cast<T*>(b.data);
    std::copy(input.begin(), input.end(), p);
    body(p, p + input.size());
    break;
  }
  case IT_DEQUE: {
    std::deque<T> d(input.begin(), input.end());
    body(d.begin(), d.end());
    break;
  }
  case IT_CHECKED: {
    GuardedBuf b(input.size() * sizeof(T), c.variant & 1);
    T* p = reinterpret_cast<T*>(b.data);
    std::copy(input.begin(), input.end(), p);
    body(ChkIt<T>(p), ChkIt<T>(p + input.size()));
    break;
  }
  default: {
    std::vector<T> v(input);
    body(v.begin(), v.end());
    break;
  }
  }
}
template <class T, class F>
void with_any_range(const CaseCfg& c, const std::vector<T>& input, std::vector<T>& out, F&& f) {
  if (c.iter == IT_LIST) {
    std::list<T> l(input.begin(), input.end());
    g_mon.mapRange(l.begin(), l.end(), sizeof(T));
    f(l.begin(), l.end());
    g_mon.unmap();
    out.assign(l.begin(), l.end());
  } else
    with_ra_range<T>(c, input, out, std::forward<F>(f));
}

// ------------------------------------------------------------------ input generation (c16_pstl.cpp)
std::vector<uint8_t> gen_bools(Rng& rng, unsigned pat, size_t n);
std::vector<uint32_t> gen_keys(Rng& rng, unsigned pat, size_t n);
uint32_t key_for(Rng& rng, const PredSpec& s, bool want);
extern const char* const BOOLPAT_NAME[];
extern const unsigned NBOOLPAT;
extern const char* const KEYPAT_NAME[];
extern const unsigned NKEYPAT;

template <class T>
std::vector<T> make_input_from_keys(const std::vector<uint32_t>& keys) {
  std::vector<T> v(keys.size());
  for (size_t i = 0; i < keys.size(); ++i)
    v[i] = makeElem((T*)nullptr, keys[i], (uint32_t)i);
  return v;
}
// keys whose predicate values follow the boolean pattern of the case
inline std::vector<uint32_t> keys_for_pred(const CaseCfg& c, Rng& rng) {
  std::vector<uint8_t> b = gen_bools(rng, c.boolPat, c.n);
  std::vector<uint32_t> keys(c.n);
  bool constKeys = (c.variant & 2) != 0; // all-equal keys inside each class
  uint32_t kt = key_for(rng, c.pred, true), kf = key_for(rng, c.pred, false);
  for (size_t i = 0; i < c.n; ++i)
    keys[i] = constKeys ? (b[i] ? kt : kf) : key_for(rng, c.pred, b[i]);
  return keys;
}

// ------------------------------------------------------------------ per-component runners
void run_sort(const CaseCfg& c, Rng& rng, Outcome& o);        // c16_sort.cpp
void run_partition(const CaseCfg& c, Rng& rng, Outcome& o);   // c16_partition.cpp
void run_count_if(const CaseCfg& c, Rng& rng, Outcome& o);    // c16_reduce.cpp
void run_accumulate(const CaseCfg& c, Rng& rng, Outcome& o);  // c16_reduce.cpp
void run_map_reduce(const CaseCfg& c, Rng& rng, Outcome& o);  // c16_reduce.cpp
void run_find_if(const CaseCfg& c, Rng& rng, Outcome& o);     // c16_find.cpp
void run_partial_sum(const CaseCfg& c, Rng& rng, Outcome& o); // c16_scan.cpp
void run_destroy(const CaseCfg& c, Rng& rng, Outcome& o);     // c16_scan.cpp

} // namespace c16
