// C11 full template matrix (c11_graphs_full only): LC_InOut_Graph<uint32_t> over CSR and Linear x options
#include "c11_fam_inout.h"

namespace c11 {
void registerX_inout_u32() {
  regIOFull<uint32_t>();
}
} // namespace c11
