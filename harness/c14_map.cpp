// C14 — galois::flat_map vs std::map.
#include "c14_common.h"

#include "galois/FlatMap.h"

#include <map>
#include <memory>
#include <stdexcept>

namespace c14 {
namespace {

inline int keyOf(int k) { return k; }
inline int keyOf(const Tracked& k) { return k.get("key"); }

template <typename F, typename Model>
void checkMap(Case& c, F& f, const Model& m, long liveExpected) {
  if (!c.regOk())
    return;
  const F& cf = f;
  c.eq("size", f.size(), m.size());
  c.eq("empty", f.empty(), m.empty());
  if (c.bad)
    return;
  // traversals compared as interleaved key,value sequences
  std::vector<int> fwd, bwd;
  for (auto& kv : m) {
    fwd.push_back(kv.first);
    fwd.push_back(kv.second);
  }
  for (auto it = m.rbegin(); it != m.rend(); ++it) {
    bwd.push_back(it->first);
    bwd.push_back(it->second);
  }
  auto walk = [&](const char* what, auto b, auto e, const std::vector<int>& exp) {
    ++c.checks;
    if (c.bad)
      return;
    std::vector<int> got;
    bool tooLong = false;
    for (; !(b == e); ++b) {
      if (got.size() >= exp.size()) {
        tooLong = true;
        break;
      }
      got.push_back(keyOf((*b).first));
      got.push_back(val((*b).second));
    }
    c.visited += got.size() / 2;
    if (tooLong || got != exp)
      c.fail(what, J().raw("expected_key_value_pairs", jarr(exp, 48)).raw("actual_key_value_pairs", jarr(got, 48)));
  };
  walk("forward-traversal", f.begin(), f.end(), fwd);
  walk("backward-traversal", f.rbegin(), f.rend(), bwd);
  walk("const-forward-traversal", cf.begin(), cf.end(), fwd);
  walk("const-backward-traversal", cf.rbegin(), cf.rend(), bwd);
  walk("cbegin-traversal", cf.cbegin(), cf.cend(), fwd);
  walk("crbegin-traversal", cf.crbegin(), cf.crend(), bwd);
  c.lifetimesOk(liveExpected);
  c.sawSize(m.size(), 0);
}

// Input ranges for the range constructors and insert(first,last): 0..~200 elements (well above libstdc++'s
// 16-element insertion-sort threshold, below which std::sort happens to be stable) with duplicate-key patterns.
// The model is built by inserting the same range into a std::map in order: the FIRST element of several with
// equivalent keys survives.
inline std::vector<std::pair<int, int>> makeRange(Case& c, unsigned keyRange, unsigned maxLen) {
  Rng& rng   = c.rng;
  unsigned n = (unsigned)rng.below(rng.pick({4u, 17u, 40u, maxLen + 1}));
  std::vector<std::pair<int, int>> r;
  switch (rng.below(4)) {
  case 0: // few distinct keys, many duplicates
  {
    unsigned kr = 1 + (unsigned)rng.below(6);
    for (unsigned i = 0; i < n; ++i)
      r.emplace_back((int)rng.below(kr), c.nextVal());
    break;
  }
  case 1: // d distinct keys first (descending), then duplicates of a few of them far behind
  {
    unsigned d = n ? 1 + (unsigned)rng.below(n) : 0;
    for (unsigned i = 0; i < n; ++i)
      r.emplace_back(i < d ? (int)(d - 1 - i) : (int)rng.below(d / 4 + 1), c.nextVal());
    break;
  }
  case 2: // descending keys, each repeated a few times, interleaved
  {
    unsigned rep = 1 + (unsigned)rng.below(4);
    for (unsigned i = 0; i < n; ++i)
      r.emplace_back((int)((n - i) / rep) + (int)(i % rep == 0 ? 0 : (int)rng.below(3)), c.nextVal());
    break;
  }
  default: // random keys from the case's key range
    for (unsigned i = 0; i < n; ++i)
      r.emplace_back((int)rng.below(keyRange), c.nextVal());
    break;
  }
  return r;
}

//! every element of the model is looked up (find / const find / at / count / lower_bound), plus a few absent keys
template <typename K, typename F, typename Model>
void lookupSweep(Case& c, F& f, const Model& m) {
  const F& cf = f;
  long pos    = 0;
  for (auto& kv : m) {
    if (c.bad)
      return;
    K key(kv.first);
    auto it = f.find(key);
    c.eq("sweep-find-position", it == f.end() ? -1L : (long)std::distance(f.begin(), it), pos);
    if (c.bad)
      return;
    c.eq("sweep-find-value", val((*it).second), kv.second);
    auto ci = cf.find(key);
    c.eq("sweep-const-find-position", ci == cf.end() ? -1L : (long)std::distance(cf.begin(), ci), pos);
    c.eq("sweep-count", f.count(key), (size_t)1);
    c.eq("sweep-lower_bound", (long)std::distance(f.begin(), f.lower_bound(key)), pos);
    if (c.bad)
      return;
    c.eq("sweep-at", val(f.at(key)), kv.second);
    c.eq("sweep-const-at", val(cf.at(key)), kv.second);
    ++pos;
  }
  for (int probe : {-1, 3, 999999}) {
    if (c.bad || m.count(probe))
      continue;
    K key(probe);
    c.eq("sweep-absent-find", f.find(key) == f.end(), true);
    c.eq("sweep-absent-count", f.count(key), (size_t)0);
  }
}

template <typename K, typename V, typename Cmp>
void mapT(Case& c, unsigned keyRange, unsigned nops) {
  typedef galois::flat_map<K, V, Cmp> F;
  typedef std::map<int, int, Cmp> Model;
  typedef typename F::value_type Pair;
  constexpr bool tk = ElemName<K>::tracked, tv = ElemName<V>::tracked;
  Rng& rng          = c.rng;
  Model m;
  auto live = [&]() -> long { return (tk || tv) ? (long)m.size() * ((tk ? 1 : 0) + (tv ? 1 : 0)) : -1; };
  auto randKey = [&]() { return (int)rng.below(keyRange); };
  auto posOf   = [&](int k) { return (long)std::distance(m.begin(), m.find(k)); };
  {
    std::unique_ptr<F> fp;
    if (rng.below(3) == 0) {
      // range construction; with duplicate keys std::map keeps the first element per key
      auto in = makeRange(c, keyRange, 200);
      std::vector<Pair> init;
      for (auto& kv : in) {
        init.emplace_back(K(kv.first), V(kv.second));
        m.emplace(kv.first, kv.second);
      }
      c.op("range-construct", (long)init.size(), (long)m.size());
      if (rng.below(2))
        fp.reset(new F(init.begin(), init.end()));
      else
        fp.reset(new F(init.begin(), init.end(), Cmp()));
      init.clear();
      checkMap(c, *fp, m, live());
      lookupSweep<K>(c, *fp, m);
    } else if (rng.below(2))
      fp.reset(new F());
    else
      fp.reset(new F(Cmp()));
    checkMap(c, *fp, m, live());
    for (unsigned step = 0; step < nops && !c.bad; ++step) {
      F& f        = *fp;
      const F& cf = f;
      int k       = randKey();
      bool has    = m.count(k) != 0;
      unsigned x  = (unsigned)rng.below(100);
      if (x < 22) {
        int v = c.nextVal();
        std::pair<typename F::iterator, bool> r;
        switch (rng.below(3)) {
        case 0:
          c.op("insert", k, v, "insert");
          r = f.insert(Pair(K(k), V(v)));
          break;
        case 1: {
          Pair p{K(k), V(v)};
          c.op("insert-copy", k, v, "insert");
          r = f.insert(p);
          break;
        }
        default:
          c.op("emplace", k, v, "insert");
          r = f.emplace(K(k), V(v));
          break;
        }
        c.eq("result-inserted", r.second, !has);
        if (!has)
          m.emplace(k, v);
        if (!c.bad) {
          c.eq("result-position", (long)std::distance(f.begin(), r.first), posOf(k));
          c.eq("result-key", keyOf((*r.first).first), k);
          c.eq("result-value", val((*r.first).second), m[k]);
        }
      } else if (x < 34) {
        int v = c.nextVal();
        if (rng.below(2)) {
          c.op("subscript-assign", k, v, "subscript");
          K key(k);
          f[key] = V(v);
        } else {
          c.op("subscript-rvalue-key-assign", k, v, "subscript");
          f[K(k)] = V(v);
        }
        m[k]     = v;
      } else if (x < 40) {
        c.op("subscript-read", k, NOARG, "subscript");
        K key(k);
        int got = val(f[key]);
        // a missing key is inserted with a value-initialised mapped value
        if (has)
          c.eq("result-value", got, m[k]);
        else {
          m[k] = 0;
          if (tv) // Tracked() holds 0
            c.eq("result-value", got, 0);
          else
            m[k] = got; // a value-initialised Pod is all-zero (its redundancy word too): adopt what val() reports
        }
      } else if (x < 50) {
        bool constv = rng.below(2);
        c.op(constv ? "const-at" : "at", k);
        bool threw = false;
        int got    = 0;
        K key(k);
        try {
          got = constv ? val(cf.at(key)) : val(f.at(key));
        } catch (const std::out_of_range&) {
          threw = true;
        }
        c.eq("result-throws-out_of_range", threw, !has);
        if (!c.bad && has)
          c.eq("result-value", got, m[k]);
      } else if (x < 62) {
        K key(k);
        switch (rng.below(4)) {
        case 0: {
          c.op("find", k);
          auto it = f.find(key);
          c.eq("result-found", !(it == f.end()), has);
          if (!c.bad && has)
            c.eq("result-position", (long)std::distance(f.begin(), it), posOf(k));
          break;
        }
        case 1: {
          c.op("const-find", k);
          auto it = cf.find(key);
          c.eq("result-found", !(it == cf.end()), has);
          if (!c.bad && has)
            c.eq("result-position", (long)std::distance(cf.begin(), it), posOf(k));
          break;
        }
        case 2:
          c.op("count", k);
          c.eq("result-count", f.count(key), m.count(k));
          break;
        default: {
          bool constv = rng.below(2);
          c.op(constv ? "const-lower_bound" : "lower_bound", k);
          long pos = constv ? (long)std::distance(cf.begin(), cf.lower_bound(key))
                            : (long)std::distance(f.begin(), f.lower_bound(key));
          c.eq("result-position", pos, (long)std::distance(m.begin(), m.lower_bound(k)));
          break;
        }
        }
      } else if (x < 78) {
        switch (rng.below(4)) {
        case 0:
        case 1: {
          c.op("erase-key", k);
          K key(k);
          auto n = f.erase(key);
          c.eq("result-erased", n, m.erase(k));
          break;
        }
        case 2:
          if (!m.empty()) {
            size_t idx = rng.below(m.size());
            bool constv = rng.below(2);
            c.op(constv ? "erase-const_iterator" : "erase-iterator", (long)idx, NOARG, "erase-iterator");
            typename F::iterator r =
                constv ? f.erase(typename F::const_iterator(f.begin() + idx)) : f.erase(f.begin() + idx);
            c.eq("result-position", (long)std::distance(f.begin(), r), (long)idx);
            m.erase(std::next(m.begin(), idx));
            break;
          }
          // fallthrough
        default: {
          size_t a = rng.below(m.size() + 1), b = a + rng.below(m.size() - a + 1);
          c.op("erase-range", (long)a, (long)b);
          auto r = f.erase(typename F::const_iterator(f.begin() + a), typename F::const_iterator(f.begin() + b));
          c.eq("result-position", (long)std::distance(f.begin(), r), (long)a);
          m.erase(std::next(m.begin(), a), std::next(m.begin(), b));
          break;
        }
        }
      } else if (x < 84) {
        auto in = makeRange(c, keyRange, rng.below(4) ? 12 : 120);
        std::vector<Pair> more;
        for (auto& kv : in) {
          more.emplace_back(K(kv.first), V(kv.second));
          m.emplace(kv.first, kv.second); // first of equal keys wins, existing keys stay
        }
        c.op("insert-range", (long)more.size());
        f.insert(more.begin(), more.end());
        more.clear();
        if (rng.below(4) == 0) {
          checkMap(c, f, m, live());
          lookupSweep<K>(c, f, m);
        }
      } else if (x < 87) {
        c.op("clear");
        f.clear();
        m.clear();
      } else {
        // whole-container operations; `other` is built with a few elements first
        std::unique_ptr<F> np;
        Model om;
        auto fill = [&](F& o) {
          unsigned n = (unsigned)rng.below(rng.below(4) ? 5 : 60);
          for (unsigned i = 0; i < n; ++i) {
            int kk = randKey(), v = c.nextVal();
            o.insert(Pair(K(kk), V(v)));
            om.emplace(kk, v);
          }
        };
        bool sweepAfter = false;
        switch (rng.below(7)) {
        case 5:
        case 6: {
          // a new map range-constructed from a fresh input replaces the current one
          auto in = makeRange(c, keyRange, 200);
          std::vector<Pair> init;
          Model nm;
          for (auto& kv : in) {
            init.emplace_back(K(kv.first), V(kv.second));
            nm.emplace(kv.first, kv.second);
          }
          c.op("range-construct", (long)init.size(), (long)nm.size());
          if (rng.below(2))
            np.reset(new F(init.begin(), init.end()));
          else
            np.reset(new F(init.begin(), init.end(), Cmp()));
          init.clear();
          m.swap(nm);
          sweepAfter = true;
          break;
        }
        case 0:
          c.op("copy-construct");
          np.reset(new F(cf));
          checkMap(c, *np, m, live() < 0 ? -1 : 2 * live());
          break;
        case 1:
          c.op("move-construct");
          np.reset(new F(std::move(f)));
          break;
        case 2:
          np.reset(new F());
          fill(*np);
          c.op("copy-assign", (long)om.size());
          *np = cf;
          checkMap(c, *np, m, live() < 0 ? -1 : 2 * live());
          break;
        case 3:
          np.reset(new F());
          fill(*np);
          c.op("move-assign", (long)om.size());
          *np = std::move(f);
          break;
        default: {
          np.reset(new F());
          fill(*np);
          bool viaStd = rng.below(2);
          c.op(viaStd ? "std-swap" : "swap", (long)om.size(), NOARG, "swap");
          if (viaStd)
            std::swap(*np, f);
          else
            np->swap(f);
          long lv  = live() < 0 ? -1 : (long)(m.size() + om.size()) * ((tk ? 1 : 0) + (tv ? 1 : 0));
          checkMap(c, f, om, lv);
          break;
        }
        }
        if (!c.bad)
          fp = std::move(np); // the old object (copied-from / moved-from / swapped-out) is destroyed
        if (sweepAfter && !c.bad) {
          checkMap(c, *fp, m, live());
          lookupSweep<K>(c, *fp, m);
        }
      }
      checkMap(c, *fp, m, live());
    }
    c.phase("destructor");
  }
  c.lifetimesOk((tk || tv) ? 0 : -1);
}

} // namespace

void run_flat_map(Case& c) {
  unsigned types    = (unsigned)c.rng.below(4); // 0 int->Tracked, 1 int->Pod, 2 Tracked->Tracked, 3 int->Tracked with std::greater
  unsigned keyRange = c.rng.pick({4u, 12u, 40u, 300u});
  unsigned nops     = c.pickOps();
  static const char* TN[] = {"int->tracked", "int->pod", "tracked->tracked", "int->tracked,greater"};
  std::string cfg = std::string(TN[types]) + "|keys" + std::to_string(keyRange);
  if (!c.begin("flat_map", cfg,
          J().kv("types", TN[types]).kv("key_range", keyRange).kv("nops", nops)))
    return;
  switch (types) {
  case 0: return mapT<int, Tracked, std::less<>>(c, keyRange, nops);
  case 1: return mapT<int, Pod, std::less<>>(c, keyRange, nops);
  case 2: return mapT<Tracked, Tracked, std::less<>>(c, keyRange, nops);
  default: return mapT<int, Tracked, std::greater<>>(c, keyRange, nops);
  }
}

} // namespace c14
