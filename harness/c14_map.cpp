// C14 — galois::flat_map vs std::map.
#include "c14_common.h"

#include "galois/FlatMap.h"

#include <map>
#include <memory>
#include <stdexcept>

namespace c14 {
namespace {

inline int keyOf(int k) { return k; }
inline int keyOf(const Tracked& k) { return k.get("key"); }

template <typename F, typename Model>
void checkMap(Case& c, F& f, const Model& m, long liveExpected) {
  if (!c.regOk())
    return;
  const F& cf = f;
  c.eq("size", f.size(), m.size());
  c.eq("empty", f.empty(), m.empty());
  if (c.bad)
    return;
  // traversals compared as interleaved key,value sequences
  std::vector<int> fwd, bwd;
  for (auto& kv : m) {
    fwd.push_back(kv.first);
    fwd.push_back(kv.second);
  }
  for (auto it = m.rbegin(); it != m.rend(); ++it) {
    bwd.push_back(it->first);
    bwd.push_back(it->second);
  }
  auto walk = [&](const char* what, auto b, auto e, const std::vector<int>& exp) {
    ++c.checks;
    if (c.bad)
      return;
    std::vector<int> got;
    bool tooLong = false;
    for (; !(b == e); ++b) {
      if (got.size() >= exp.size()) {
        tooLong = true;
        break;
      }
      got.push_back(keyOf((*b).first));
      got.push_back(val((*b).second));
    }
    c.visited += got.size() / 2;
    if (tooLong || got != exp)
      c.fail(what, J().raw("expected_key_value_pairs", jarr(exp, 48)).raw("actual_key_value_pairs", jarr(got, 48)));
  };
  walk("forward-traversal", f.begin(), f.end(), fwd);
  walk("backward-traversal", f.rbegin(), f.rend(), bwd);
  walk("const-forward-traversal", cf.begin(), cf.end(), fwd);
  walk("const-backward-traversal", cf.rbegin(), cf.rend(), bwd);
  walk("cbegin-traversal", cf.cbegin(), cf.cend(), fwd);
  walk("crbegin-traversal", cf.crbegin(), cf.crend(), bwd);
  c.lifetimesOk(liveExpected);
  c.sawSize(m.size(), 0);
}

template <typename K, typename V, typename Cmp>
void mapT(Case& c, bool dupRange, unsigned keyRange, unsigned nops) {
  typedef galois::flat_map<K, V, Cmp> F;
  typedef std::map<int, int, Cmp> Model;
  typedef typename F::value_type Pair;
  constexpr bool tk = ElemName<K>::tracked, tv = ElemName<V>::tracked;
  Rng& rng          = c.rng;
  Model m;
  auto live = [&]() -> long { return (tk || tv) ? (long)m.size() * ((tk ? 1 : 0) + (tv ? 1 : 0)) : -1; };
  auto randKey = [&]() { return (int)rng.below(keyRange); };
  auto posOf   = [&](int k) { return (long)std::distance(m.begin(), m.find(k)); };
  {
    std::unique_ptr<F> fp;
    if (rng.below(4) == 0) {
      // range construction; with duplicate keys std::map keeps one element per key (the first)
      unsigned n = (unsigned)rng.below(12);
      std::vector<Pair> init;
      std::set<int> used;
      for (unsigned i = 0; i < n; ++i) {
        int k = randKey();
        if (!dupRange && used.count(k))
          continue;
        used.insert(k);
        int v = c.nextVal();
        init.emplace_back(K(k), V(v));
        m.emplace(k, v);
      }
      c.op(dupRange ? "range-construct-with-duplicate-keys-allowed" : "range-construct", (long)init.size());
      if (rng.below(2))
        fp.reset(new F(init.begin(), init.end()));
      else
        fp.reset(new F(init.begin(), init.end(), Cmp()));
      // which of several equal keys survives is not demanded: adopt the value that is there
      if (dupRange)
        for (auto& kv : *fp) {
          auto it = m.find(keyOf(kv.first));
          if (it != m.end())
            it->second = val(kv.second);
        }
    } else if (rng.below(2))
      fp.reset(new F());
    else
      fp.reset(new F(Cmp()));
    checkMap(c, *fp, m, live());
    for (unsigned step = 0; step < nops && !c.bad; ++step) {
      F& f        = *fp;
      const F& cf = f;
      int k       = randKey();
      bool has    = m.count(k) != 0;
      unsigned x  = (unsigned)rng.below(100);
      if (x < 22) {
        int v = c.nextVal();
        std::pair<typename F::iterator, bool> r;
        switch (rng.below(3)) {
        case 0:
          c.op("insert", k, v, "insert");
          r = f.insert(Pair(K(k), V(v)));
          break;
        case 1: {
          Pair p{K(k), V(v)};
          c.op("insert-copy", k, v, "insert");
          r = f.insert(p);
          break;
        }
        default:
          c.op("emplace", k, v, "insert");
          r = f.emplace(K(k), V(v));
          break;
        }
        c.eq("result-inserted", r.second, !has);
        if (!has)
          m.emplace(k, v);
        if (!c.bad) {
          c.eq("result-position", (long)std::distance(f.begin(), r.first), posOf(k));
          c.eq("result-key", keyOf((*r.first).first), k);
          c.eq("result-value", val((*r.first).second), m[k]);
        }
      } else if (x < 34) {
        int v = c.nextVal();
        if (rng.below(2)) {
          c.op("subscript-assign", k, v, "subscript");
          K key(k);
          f[key] = V(v);
        } else {
          c.op("subscript-rvalue-key-assign", k, v, "subscript");
          f[K(k)] = V(v);
        }
        m[k]     = v;
      } else if (x < 40) {
        c.op("subscript-read", k, NOARG, "subscript");
        K key(k);
        int got = val(f[key]);
        // a missing key is inserted with a value-initialised mapped value
        if (has)
          c.eq("result-value", got, m[k]);
        else {
          m[k] = 0;
          if (tv) // Tracked() holds 0
            c.eq("result-value", got, 0);
          else
            m[k] = got; // a value-initialised Pod is all-zero (its redundancy word too): adopt what val() reports
        }
      } else if (x < 50) {
        bool constv = rng.below(2);
        c.op(constv ? "const-at" : "at", k);
        bool threw = false;
        int got    = 0;
        K key(k);
        try {
          got = constv ? val(cf.at(key)) : val(f.at(key));
        } catch (const std::out_of_range&) {
          threw = true;
        }
        c.eq("result-throws-out_of_range", threw, !has);
        if (!c.bad && has)
          c.eq("result-value", got, m[k]);
      } else if (x < 62) {
        K key(k);
        switch (rng.below(4)) {
        case 0: {
          c.op("find", k);
          auto it = f.find(key);
          c.eq("result-found", !(it == f.end()), has);
          if (!c.bad && has)
            c.eq("result-position", (long)std::distance(f.begin(), it), posOf(k));
          break;
        }
        case 1: {
          c.op("const-find", k);
          auto it = cf.find(key);
          c.eq("result-found", !(it == cf.end()), has);
          if (!c.bad && has)
            c.eq("result-position", (long)std::distance(cf.begin(), it), posOf(k));
          break;
        }
        case 2:
          c.op("count", k);
          c.eq("result-count", f.count(key), m.count(k));
          break;
        default: {
          bool constv = rng.below(2);
          c.op(constv ? "const-lower_bound" : "lower_bound", k);
          long pos = constv ? (long)std::distance(cf.begin(), cf.lower_bound(key))
                            : (long)std::distance(f.begin(), f.lower_bound(key));
          c.eq("result-position", pos, (long)std::distance(m.begin(), m.lower_bound(k)));
          break;
        }
        }
      } else if (x < 78) {
        switch (rng.below(4)) {
        case 0:
        case 1: {
          c.op("erase-key", k);
          K key(k);
          auto n = f.erase(key);
          c.eq("result-erased", n, m.erase(k));
          break;
        }
        case 2:
          if (!m.empty()) {
            size_t idx = rng.below(m.size());
            bool constv = rng.below(2);
            c.op(constv ? "erase-const_iterator" : "erase-iterator", (long)idx, NOARG, "erase-iterator");
            typename F::iterator r =
                constv ? f.erase(typename F::const_iterator(f.begin() + idx)) : f.erase(f.begin() + idx);
            c.eq("result-position", (long)std::distance(f.begin(), r), (long)idx);
            m.erase(std::next(m.begin(), idx));
            break;
          }
          // fallthrough
        default: {
          size_t a = rng.below(m.size() + 1), b = a + rng.below(m.size() - a + 1);
          c.op("erase-range", (long)a, (long)b);
          auto r = f.erase(typename F::const_iterator(f.begin() + a), typename F::const_iterator(f.begin() + b));
          c.eq("result-position", (long)std::distance(f.begin(), r), (long)a);
          m.erase(std::next(m.begin(), a), std::next(m.begin(), b));
          break;
        }
        }
      } else if (x < 84) {
        unsigned n = (unsigned)rng.below(6);
        std::vector<Pair> more;
        for (unsigned i = 0; i < n; ++i) {
          int kk = randKey(), v = c.nextVal();
          more.emplace_back(K(kk), V(v));
          m.emplace(kk, v); // first of equal keys wins, existing keys stay
        }
        c.op("insert-range", n);
        f.insert(more.begin(), more.end());
      } else if (x < 87) {
        c.op("clear");
        f.clear();
        m.clear();
      } else {
        // whole-container operations; `other` is built with a few elements first
        std::unique_ptr<F> np;
        Model om;
        auto fill = [&](F& o) {
          unsigned n = (unsigned)rng.below(5);
          for (unsigned i = 0; i < n; ++i) {
            int kk = randKey(), v = c.nextVal();
            o.insert(Pair(K(kk), V(v)));
            om.emplace(kk, v);
          }
        };
        switch (rng.below(5)) {
        case 0:
          c.op("copy-construct");
          np.reset(new F(cf));
          checkMap(c, *np, m, live() < 0 ? -1 : 2 * live());
          break;
        case 1:
          c.op("move-construct");
          np.reset(new F(std::move(f)));
          break;
        case 2:
          np.reset(new F());
          fill(*np);
          c.op("copy-assign", (long)om.size());
          *np = cf;
          checkMap(c, *np, m, live() < 0 ? -1 : 2 * live());
          break;
        case 3:
          np.reset(new F());
          fill(*np);
          c.op("move-assign", (long)om.size());
          *np = std::move(f);
          break;
        default: {
          np.reset(new F());
          fill(*np);
          bool viaStd = rng.below(2);
          c.op(viaStd ? "std-swap" : "swap", (long)om.size(), NOARG, "swap");
          if (viaStd)
            std::swap(*np, f);
          else
            np->swap(f);
          long lv  = live() < 0 ? -1 : (long)(m.size() + om.size()) * ((tk ? 1 : 0) + (tv ? 1 : 0));
          checkMap(c, f, om, lv);
          break;
        }
        }
        if (!c.bad)
          fp = std::move(np); // the old object (copied-from / moved-from / swapped-out) is destroyed
      }
      checkMap(c, *fp, m, live());
    }
    c.phase("destructor");
  }
  c.lifetimesOk((tk || tv) ? 0 : -1);
}

} // namespace

void run_flat_map(Case& c) {
  unsigned types    = (unsigned)c.rng.below(4); // 0 int->Tracked, 1 int->Pod, 2 Tracked->Tracked, 3 int->Tracked with std::greater
  bool dupRange     = c.rng.below(4) == 0;
  unsigned keyRange = c.rng.pick({4u, 12u, 40u});
  unsigned nops     = c.pickOps();
  static const char* TN[] = {"int->tracked", "int->pod", "tracked->tracked", "int->tracked,greater"};
  std::string cfg = std::string(TN[types]) + "|keys" + std::to_string(keyRange) + (dupRange ? "|duprange" : "");
  if (!c.begin("flat_map", cfg,
          J().kv("types", TN[types]).kv("key_range", keyRange).kv("range_ctor_may_get_duplicate_keys", dupRange)
              .kv("nops", nops)))
    return;
  switch (types) {
  case 0: return mapT<int, Tracked, std::less<>>(c, dupRange, keyRange, nops);
  case 1: return mapT<int, Pod, std::less<>>(c, dupRange, keyRange, nops);
  case 2: return mapT<Tracked, Tracked, std::less<>>(c, dupRange, keyRange, nops);
  default: return mapT<int, Tracked, std::greater<>>(c, dupRange, keyRange, nops);
  }
}

} // namespace c14
