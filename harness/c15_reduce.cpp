// C15 — reducibles: GAccumulator (+=, -=, update, getLocal), GReduceMax/Min,
// GReduceLogicalAnd/Or, make_reducible with user merge + identity (by-value
// merges, std::function merge, move-only payload, map payload), reset().
//
// Oracle: sequential fold of the generated updates (in index order; all merges
// used are commutative and associative, floating-point inputs are chosen so
// that every partial sum is exactly representable).
#include "c15_common.h"

#include "galois/Galois.h"
#include "galois/Reduction.h"

#include <cmath>
#include <limits>
#include <set>
#include <memory>
#include <numeric>

using namespace verif;

namespace c15 {
namespace {

struct RedDriver {
  virtual ~RedDriver() {}
  virtual std::string type() const                                              = 0;
  virtual void generate(Rng& rng, size_t n, int flavour)                        = 0;
  virtual void apply(uint32_t i)                                                = 0;
  virtual bool reduceCheck(std::string& kind, std::string& got, std::string& want) = 0;
  virtual bool resetCheck(std::string& kind, std::string& got, std::string& want)  = 0;
  virtual std::string witness() const { return "[]"; }
};

template <typename T>
const char* tname() {
  if (std::is_same_v<T, int>) return "int";
  if (std::is_same_v<T, long>) return "long";
  if (std::is_same_v<T, unsigned>) return "unsigned";
  if (std::is_same_v<T, uint64_t>) return "uint64_t";
  if (std::is_same_v<T, float>) return "float";
  if (std::is_same_v<T, double>) return "double";
  if (std::is_same_v<T, bool>) return "bool";
  return "?";
}

// OP: 0 sum (GAccumulator), 1 max, 2 min
template <typename Red, typename T, int OP>
struct NumDriver : RedDriver {
  Red red;
  struct U {
    int form; // 0 update(const&), 1 +=, 2 -=, 3 getLocal() +=, 4 update(T&&)
    T v;
  };
  std::vector<U> ups;
  T model, alt;
  bool hasMinus = false, anyUpdate = false;

  static T identityModel() {
    if (OP == 0) return T(0);
    if (OP == 1) return std::numeric_limits<T>::lowest();
    return std::numeric_limits<T>::max();
  }
  NumDriver() : model(identityModel()), alt(identityModel()) {}
  std::string type() const override { return tname<T>(); }

  T genSum(Rng& rng, int flavour) {
    constexpr bool fp = std::is_floating_point_v<T>, sg = std::is_signed_v<T>;
    if (fp) {
      // integers or dyadic fractions small enough that every partial sum is exact
      int64_t lim = std::is_same_v<T, float> ? 256 : (int64_t)1 << 30;
      int64_t k;
      switch (flavour) {
      case 1: k = -1 - (int64_t)rng.below(lim); break;
      case 2: k = 1 + (int64_t)rng.below(lim); break;
      case 4: k = 3; break;
      default: k = rng.range(-lim, lim); break;
      }
      if (flavour == 5)
        return (T)k / (T)(std::is_same_v<T, float> ? 8 : 1024);
      return (T)k;
    }
    int64_t lim = sizeof(T) == 4 ? (1 << 15) : ((int64_t)1 << 40);
    switch (flavour) {
    case 1: return sg ? (T)(-1 - (int64_t)rng.below(lim)) : (T)rng.below(lim);
    case 2: return (T)(1 + rng.below(lim));
    case 3: return sg ? (T)rng.range(-lim, lim) : (T)rng.next(); // unsigned: full range, wraps
    case 4: return (T)7;
    case 5: return (T)1;
    default: return sg ? (T)rng.range(-100, 100) : (T)rng.below(200);
    }
  }
  T genMinMax(Rng& rng, int flavour, size_t i) {
    using L           = std::numeric_limits<T>;
    constexpr bool fp = std::is_floating_point_v<T>, sg = std::is_signed_v<T>;
    auto mag          = [&]() -> T {
      if (fp) {
        // finite, non-zero magnitudes over many binades
        double m = (double)(1 + rng.below(1000000)) * std::pow(2.0, (double)rng.range(-20, 20));
        return (T)m;
      }
      return (T)(1 + rng.below(sizeof(T) == 4 ? 2000000000u : 4000000000000000000ull));
    };
    switch (flavour) {
    case 1: return sg ? (T)(-mag()) : mag();
    case 2: return mag();
    case 3: {
      switch (rng.below(fp ? 6 : 4)) {
      case 0: return L::lowest();
      case 1: return L::max();
      case 2: return sg ? (T)(-mag()) : mag();
      case 3: return (T)0;
      case 4: return L::min();         // smallest positive normal
      default: return (T)(-L::min());
      }
    }
    case 4: return sg ? (T)-42 : (T)42;
    case 5: return sg ? (T)((int64_t)i - 1000000) : (T)i;
    default: return sg && rng.below(2) ? (T)(-mag()) : mag();
    }
  }

  void generate(Rng& rng, size_t n, int flavour) override {
    ups.clear();
    int formMode = (int)rng.below(5); // 0 += only, 1/2 mixed incl. -=, 3 -= only, 4 update only
    for (size_t i = 0; i < n; ++i) {
      U u;
      if (OP == 0) {
        u.v = genSum(rng, flavour);
        switch (formMode) {
        case 0: u.form = 1; break;
        case 1:
        case 2: u.form = (int)rng.below(4); break;
        case 3: u.form = 2; break;
        default: u.form = rng.below(2) ? 0 : 3; break;
        }
      } else {
        u.v    = genMinMax(rng, flavour, i);
        u.form = rng.below(2) ? 0 : 4;
      }
      ups.push_back(u);
      anyUpdate = true;
      if (OP == 0) {
        if (u.form == 2) {
          model = (T)(model - u.v);
          if (u.v != T(0))
            hasMinus = true;
        } else
          model = (T)(model + u.v);
        alt = (T)(alt + u.v);
      } else if (OP == 1)
        model = u.v > model ? u.v : model;
      else
        model = u.v < model ? u.v : model;
    }
  }
  void apply(uint32_t i) override {
    const U& u = ups[i];
    if constexpr (OP == 0) {
      switch (u.form) {
      case 0: red.update(u.v); break;
      case 1: red += u.v; break;
      case 2: red -= u.v; break;
      default: red.getLocal() += u.v; break;
      }
    } else {
      if (u.form == 0)
        red.update(u.v);
      else {
        T tmp = u.v;
        red.update(std::move(tmp));
      }
    }
  }
  bool identityLike(T got) const {
    if (OP == 0) return got == T(0);
    if (OP == 1) return got <= std::numeric_limits<T>::lowest();
    return got >= std::numeric_limits<T>::max();
  }
  std::string classify(T got, const char* dflt) const {
    if (OP == 0 && hasMinus && got == alt)
      return "minus-assign-adds";
    if (OP == 1 && std::is_floating_point_v<T> && got == std::numeric_limits<T>::min())
      return "fp-identity-is-smallest-positive";
    return dflt;
  }
  bool reduceCheck(std::string& kind, std::string& got, std::string& want) override {
    T g     = red.reduce();
    bool ok = (g == model) || (!anyUpdate && identityLike(g));
    if (!ok) {
      kind = classify(g, "wrong-fold");
      got  = show(g);
      want = show(model);
    }
    return ok;
  }
  bool resetCheck(std::string& kind, std::string& got, std::string& want) override {
    red.reset();
    model = alt = identityModel();
    hasMinus = anyUpdate = false;
    T g                  = red.reduce();
    if (!identityLike(g)) {
      kind = classify(g, "reset-not-identity");
      got  = show(g);
      want = show(identityModel());
      return false;
    }
    return true;
  }
  std::string witness() const override {
    std::string s = "[";
    for (size_t i = 0; i < ups.size() && i < 12; ++i) {
      static const char* F[] = {"update", "+=", "-=", "getLocal+=", "update&&"};
      s += (i ? "," : "") + jstr(std::string(F[ups[i].form]) + " " + show(ups[i].v));
    }
    if (ups.size() > 12)
      s += ",\"...\"";
    return s + "]";
  }
};

template <typename Red, bool isAnd>
struct BoolDriver : RedDriver {
  Red red;
  std::vector<uint8_t> ups;
  bool model = isAnd;
  std::string type() const override { return "bool"; }
  void generate(Rng& rng, size_t n, int flavour) override {
    ups.assign(n, 0);
    size_t ex = n ? rng.below(n) : 0;
    for (size_t i = 0; i < n; ++i) {
      bool v;
      switch (flavour % 4) {
      case 0: v = true; break;
      case 1: v = false; break;
      case 2: v = (i == ex) ? !isAnd : isAnd; break; // a single deciding update somewhere
      default: v = rng.below(2); break;
      }
      ups[i] = v;
      model  = isAnd ? (model && v) : (model || v);
    }
  }
  void apply(uint32_t i) override {
    bool v = ups[i];
    if (i & 1)
      red.update(v);
    else
      red.update(std::move(v));
  }
  bool reduceCheck(std::string& kind, std::string& got, std::string& want) override {
    bool g = red.reduce();
    if (g != model) {
      kind = "wrong-fold";
      got  = show(g);
      want = show(model);
      return false;
    }
    return true;
  }
  bool resetCheck(std::string& kind, std::string& got, std::string& want) override {
    red.reset();
    model  = isAnd;
    bool g = red.reduce();
    if (g != isAnd) {
      kind = "reset-not-identity";
      got  = show(g);
      want = show(isAnd);
      return false;
    }
    return true;
  }
};

// ---- user-defined merges by value
template <typename T, typename Merge, typename Id>
struct UserValDriver : RedDriver {
  Merge m;
  Id id;
  decltype(galois::make_reducible(std::declval<Merge>(), std::declval<Id>())) red;
  std::function<T(Rng&, int, size_t)> gen;
  std::function<std::string(const T&)> sh;
  std::string name;
  std::vector<T> ups;
  T model;
  UserValDriver(Merge m_, Id id_, std::function<T(Rng&, int, size_t)> g, std::function<std::string(const T&)> s,
                std::string n)
      : m(m_), id(id_), red(galois::make_reducible(m_, id_)), gen(g), sh(s), name(n), model(id_()) {}
  std::string type() const override { return name; }
  void generate(Rng& rng, size_t n, int flavour) override {
    ups.clear();
    for (size_t i = 0; i < n; ++i) {
      ups.push_back(gen(rng, flavour, i));
      model = m(model, ups.back());
    }
  }
  void apply(uint32_t i) override {
    if (i & 1)
      red.update(ups[i]);
    else {
      T tmp = ups[i];
      red.update(std::move(tmp));
    }
  }
  bool reduceCheck(std::string& kind, std::string& got, std::string& want) override {
    T g = red.reduce();
    if (!(g == model)) {
      kind = "wrong-fold";
      got  = sh(g);
      want = sh(model);
      return false;
    }
    return true;
  }
  bool resetCheck(std::string& kind, std::string& got, std::string& want) override {
    red.reset();
    model = id();
    T g   = red.reduce();
    if (!(g == model)) {
      kind = "reset-not-identity";
      got  = sh(g);
      want = sh(model);
      return false;
    }
    return true;
  }
};

struct XorMerge {
  uint64_t operator()(uint64_t a, uint64_t b) const { return a ^ b; }
};
struct GcdMerge {
  uint64_t operator()(uint64_t a, uint64_t b) const { return std::gcd(a, b); }
};
struct ZeroId {
  uint64_t operator()() const { return 0; }
};
constexpr uint64_t P = 1000000007ull;
struct MulModMerge {
  uint64_t operator()(const uint64_t& a, const uint64_t& b) const { return a * b % P; }
};
struct OneId {
  uint64_t operator()() const { return 1; }
};
struct Stats {
  int64_t mn = INT64_MAX, mx = INT64_MIN, sum = 0;
  uint64_t cnt = 0;
  bool operator==(const Stats& o) const { return mn == o.mn && mx == o.mx && sum == o.sum && cnt == o.cnt; }
};
struct StatsMerge {
  Stats operator()(const Stats& a, const Stats& b) const {
    Stats r;
    r.mn  = std::min(a.mn, b.mn);
    r.mx  = std::max(a.mx, b.mx);
    r.sum = a.sum + b.sum;
    r.cnt = a.cnt + b.cnt;
    return r;
  }
};
struct StatsId {
  Stats operator()() const { return Stats(); }
};
struct IntLowestId {
  int operator()() const { return std::numeric_limits<int>::lowest(); }
};

// ---- move-only payload, merge by reference (T& (T&, T&&))
std::atomic<long> g_moveBagLive{0};
struct MoveBag {
  std::unique_ptr<std::vector<int64_t>> p;
  MoveBag() { g_moveBagLive.fetch_add(1, std::memory_order_relaxed); }
  explicit MoveBag(int64_t v) : p(new std::vector<int64_t>{v}) { g_moveBagLive.fetch_add(1, std::memory_order_relaxed); }
  MoveBag(MoveBag&& o) noexcept : p(std::move(o.p)) { g_moveBagLive.fetch_add(1, std::memory_order_relaxed); }
  MoveBag& operator=(MoveBag&& o) noexcept {
    p = std::move(o.p);
    return *this;
  }
  MoveBag(const MoveBag&) = delete;
  MoveBag& operator=(const MoveBag&) = delete;
  ~MoveBag() { g_moveBagLive.fetch_sub(1, std::memory_order_relaxed); }
};
struct MoveMerge {
  MoveBag& operator()(MoveBag& a, MoveBag&& b) const {
    if (b.p) {
      if (!a.p)
        a.p = std::move(b.p);
      else {
        a.p->insert(a.p->end(), b.p->begin(), b.p->end());
        b.p.reset();
      }
    }
    return a;
  }
};
struct MoveId {
  MoveBag operator()() const { return MoveBag(); }
};
struct MoveDriver : RedDriver {
  decltype(galois::make_reducible(MoveMerge(), MoveId())) red;
  std::vector<MoveBag> ups;
  std::vector<int64_t> model;
  MoveDriver() : red(galois::make_reducible(MoveMerge(), MoveId())) {}
  std::string type() const override { return "move-only unique_ptr<vector>, merge T&(T&,T&&)"; }
  void generate(Rng& rng, size_t n, int) override {
    ups.clear();
    ups.reserve(n);
    for (size_t i = 0; i < n; ++i) {
      int64_t v = (int64_t)rng.next();
      if (rng.below(16) == 0) {
        ups.emplace_back(); // an identity-valued update
      } else {
        ups.emplace_back(v);
        model.push_back(v);
      }
    }
  }
  void apply(uint32_t i) override { red.update(std::move(ups[i])); }
  bool cmp(std::string& got, std::string& want) {
    MoveBag& r = red.reduce();
    std::vector<int64_t> g;
    if (r.p)
      g = *r.p;
    std::sort(g.begin(), g.end());
    std::sort(model.begin(), model.end());
    if (g != model) {
      got  = "multiset of " + std::to_string(g.size()) + " elements";
      want = "multiset of " + std::to_string(model.size()) + " elements";
      // first difference
      size_t i = 0;
      while (i < g.size() && i < model.size() && g[i] == model[i])
        ++i;
      got += " (first difference at sorted position " + std::to_string(i) + ")";
      return false;
    }
    return true;
  }
  bool reduceCheck(std::string& kind, std::string& got, std::string& want) override {
    kind = "wrong-fold";
    return cmp(got, want);
  }
  bool resetCheck(std::string& kind, std::string& got, std::string& want) override {
    red.reset();
    model.clear();
    kind = "reset-not-identity";
    return cmp(got, want);
  }
};

// ---- copyable map payload with a moving merge (as in the unit test)
using SMap = std::map<std::string, int>;
struct MapMerge {
  SMap& operator()(SMap& a, SMap&& b) const {
    SMap v{std::move(b)};
    for (auto& kv : v)
      a[kv.first] += kv.second;
    return a;
  }
};
struct MapId {
  SMap operator()() const { return SMap(); }
};
struct MapDriver : RedDriver {
  decltype(galois::make_reducible(MapMerge(), MapId())) red;
  std::vector<SMap> ups;
  SMap model;
  MapDriver() : red(galois::make_reducible(MapMerge(), MapId())) {}
  std::string type() const override { return "std::map<string,int>, merge T&(T&,T&&)"; }
  void generate(Rng& rng, size_t n, int flavour) override {
    ups.clear();
    unsigned keys = flavour % 2 ? 3 : 50;
    for (size_t i = 0; i < n; ++i) {
      SMap m;
      unsigned cnt = 1 + (unsigned)rng.below(3);
      for (unsigned j = 0; j < cnt; ++j) {
        std::string key = "k" + std::to_string(rng.below(keys));
        int v           = (int)rng.range(-5, 5);
        m[key] += v;
      }
      for (auto& kv : m)
        model[kv.first] += kv.second;
      ups.push_back(std::move(m));
    }
  }
  void apply(uint32_t i) override { red.update(std::move(ups[i])); }
  static std::string sh(const SMap& m) {
    std::string s = "{";
    unsigned n    = 0;
    for (auto& kv : m) {
      if (n++ >= 8) {
        s += "...";
        break;
      }
      s += kv.first + ":" + std::to_string(kv.second) + " ";
    }
    return s + "}";
  }
  bool reduceCheck(std::string& kind, std::string& got, std::string& want) override {
    SMap& g = red.reduce();
    if (g != model) {
      kind = "wrong-fold";
      got  = sh(g);
      want = sh(model);
      return false;
    }
    return true;
  }
  bool resetCheck(std::string& kind, std::string& got, std::string& want) override {
    red.reset();
    model.clear();
    SMap& g = red.reduce();
    if (!g.empty()) {
      kind = "reset-not-identity";
      got  = sh(g);
      want = "{}";
      return false;
    }
    return true;
  }
};

void scenario(Case& c, const char* comp, const std::string& variant, RedDriver& d) {
  unsigned rounds = 1 + (unsigned)c.rng.below(3);
  int flavour     = (int)c.rng.below(6);
  std::vector<size_t> ns;
  std::vector<Plan> plans;
  std::vector<int> after;
  std::vector<unsigned> reduceThreads;
  std::vector<std::string> pnames;
  for (unsigned r = 0; r < rounds; ++r) {
    ns.push_back(c.rng.pick({(size_t)0, (size_t)1, (size_t)2, (size_t)7, (size_t)64, (size_t)300, (size_t)300,
                             (size_t)1500}));
    plans.push_back(makePlan(c));
    pnames.push_back(plans.back().name() + "@" + std::to_string(plans.back().threads));
    after.push_back((int)c.rng.below(4)); // 0 keep accumulating, 1 reset+identity check, 2 reduce twice, 3 reset silently
    reduceThreads.push_back(c.rng.below(3) == 0 ? pickThreads(c) : 0);
  }
  c.begin(comp, J().kv("variant", variant).kv("type", d.type()).kv("flavour", flavour).kv("rounds", rounds)
                    .raw("n", jarr(ns)).raw("plans", jarr(pnames)).raw("after", jarr(after)));
  for (unsigned r = 0; r < rounds; ++r) {
    d.generate(c.rng, ns[r], flavour);
    ExecResult res = execPlan(c, plans[r], ns[r], [&](uint32_t i, unsigned) { d.apply(i); });
    if (!res.exactlyOnce) {
      c.H.note("loop-not-exactly-once", J().kv("plan", plans[r].name()).str());
      break;
    }
    if (reduceThreads[r])
      galois::setActiveThreads(reduceThreads[r]);
    std::string kind, got, want;
    c.add("reduces", 1);
    c.add("updates", ns[r]);
    if (!d.reduceCheck(kind, got, want)) {
      c.viol(kind, J().kv("round", r).kv("got", got).kv("want", want).kv("plan", pnames[r])
                       .kv("workers", res.workers).raw("first_updates_of_round", d.witness()));
      break;
    }
    if (after[r] == 2) {
      if (!d.reduceCheck(kind, got, want)) {
        c.viol("second-reduce-differs", J().kv("round", r).kv("got", got).kv("want", want));
        break;
      }
    } else if (after[r] == 1 || after[r] == 3) {
      c.add("resets", 1);
      if (!d.resetCheck(kind, got, want)) {
        c.viol(kind, J().kv("round", r).kv("after", "reset()").kv("got", got).kv("want", want));
        break;
      }
    }
  }
  c.sig = std::string(comp) + "|" + variant + "|" + d.type() + "|f" + std::to_string(flavour) + "|" + pnames[0] +
          "|r" + std::to_string(rounds) + "|w" + std::to_string(c.workersMax);
}

template <typename Red, typename T, int OP>
void runNum(Case& c, const char* comp) {
  NumDriver<Red, T, OP> d;
  scenario(c, comp, OP == 0 ? "sum" : OP == 1 ? "max" : "min", d);
}

} // namespace

void run_reducible(Case& c, int which) {
  unsigned t = (unsigned)c.rng.below(2);
  switch (which) {
  case 0:
    if (t) runNum<galois::GAccumulator<int>, int, 0>(c, "GAccumulator");
    else runNum<galois::GAccumulator<long>, long, 0>(c, "GAccumulator");
    break;
  case 1:
    if (t) runNum<galois::GAccumulator<float>, float, 0>(c, "GAccumulator");
    else runNum<galois::GAccumulator<double>, double, 0>(c, "GAccumulator");
    break;
  case 11:
    if (t) runNum<galois::GAccumulator<unsigned>, unsigned, 0>(c, "GAccumulator");
    else runNum<galois::GAccumulator<uint64_t>, uint64_t, 0>(c, "GAccumulator");
    break;
  case 2:
    switch (c.rng.below(4)) {
    case 0: runNum<galois::GReduceMax<int>, int, 1>(c, "GReduceMax"); break;
    case 1: runNum<galois::GReduceMax<long>, long, 1>(c, "GReduceMax"); break;
    case 2: runNum<galois::GReduceMax<unsigned>, unsigned, 1>(c, "GReduceMax"); break;
    default: runNum<galois::GReduceMax<uint64_t>, uint64_t, 1>(c, "GReduceMax"); break;
    }
    break;
  case 3:
    if (t) runNum<galois::GReduceMax<float>, float, 1>(c, "GReduceMax");
    else runNum<galois::GReduceMax<double>, double, 1>(c, "GReduceMax");
    break;
  case 4:
    switch (c.rng.below(4)) {
    case 0: runNum<galois::GReduceMin<int>, int, 2>(c, "GReduceMin"); break;
    case 1: runNum<galois::GReduceMin<long>, long, 2>(c, "GReduceMin"); break;
    case 2: runNum<galois::GReduceMin<unsigned>, unsigned, 2>(c, "GReduceMin"); break;
    default: runNum<galois::GReduceMin<uint64_t>, uint64_t, 2>(c, "GReduceMin"); break;
    }
    break;
  case 5:
    if (t) runNum<galois::GReduceMin<float>, float, 2>(c, "GReduceMin");
    else runNum<galois::GReduceMin<double>, double, 2>(c, "GReduceMin");
    break;
  case 6: {
    BoolDriver<galois::GReduceLogicalAnd, true> d;
    scenario(c, "GReduceLogicalAnd", "and", d);
    break;
  }
  case 7: {
    BoolDriver<galois::GReduceLogicalOr, false> d;
    scenario(c, "GReduceLogicalOr", "or", d);
    break;
  }
  case 8: {
    auto shU = [](const uint64_t& v) { return std::to_string(v); };
    switch (c.rng.below(5)) {
    case 0: {
      UserValDriver<uint64_t, XorMerge, ZeroId> d(
          XorMerge(), ZeroId(), [](Rng& r, int, size_t) { return r.next(); }, shU, "uint64 xor");
      scenario(c, "make_reducible", "xor", d);
      break;
    }
    case 1: {
      uint64_t g = 1 + c.rng.below(1000);
      UserValDriver<uint64_t, GcdMerge, ZeroId> d(
          GcdMerge(), ZeroId(), [g](Rng& r, int, size_t) { return g * (1 + r.below(1000000)); }, shU, "uint64 gcd");
      scenario(c, "make_reducible", "gcd", d);
      break;
    }
    case 2: {
      UserValDriver<uint64_t, MulModMerge, OneId> d(
          MulModMerge(), OneId(), [](Rng& r, int, size_t) { return 1 + r.below(P - 1); }, shU, "uint64 mul mod p");
      scenario(c, "make_reducible", "mulmod", d);
      break;
    }
    case 3: {
      UserValDriver<Stats, StatsMerge, StatsId> d(
          StatsMerge(), StatsId(),
          [](Rng& r, int fl, size_t) {
            Stats s;
            int64_t v = fl == 1 ? -1 - (int64_t)r.below(1000000) : r.range(-1000000, 1000000);
            s.mn = s.mx = s.sum = v;
            s.cnt               = 1;
            return s;
          },
          [](const Stats& s) {
            return "{min " + std::to_string(s.mn) + " max " + std::to_string(s.mx) + " sum " + std::to_string(s.sum) +
                   " cnt " + std::to_string(s.cnt) + "}";
          },
          "struct{min,max,sum,count}");
      scenario(c, "make_reducible", "stats", d);
      break;
    }
    default: {
      const int& (*int_max)(const int&, const int&) = std::max<int>;
      using Fn                                      = std::function<const int&(const int&, const int&)>;
      Fn fn{int_max};
      UserValDriver<int, Fn, IntLowestId> d(
          fn, IntLowestId(),
          [](Rng& r, int fl, size_t) { return fl == 1 ? (int)(-1 - (int)r.below(1000000)) : (int)r.range(-1000000, 1000000); },
          [](const int& v) { return std::to_string(v); }, "int std::function max");
      scenario(c, "make_reducible", "function-max", d);
      break;
    }
    }
    break;
  }
  case 9: {
    long before = g_moveBagLive.load(std::memory_order_relaxed);
    {
      MoveDriver d;
      scenario(c, "make_reducible", "move-only", d);
    }
    long leaked = g_moveBagLive.load(std::memory_order_relaxed) - before;
    if (leaked != 0)
      c.viol("payload-live-count", J().kv("live_objects_after_destruction", leaked));
    break;
  }
  default: {
    MapDriver d;
    scenario(c, "make_reducible", "map", d);
    break;
  }
  }
}

} // namespace c15
