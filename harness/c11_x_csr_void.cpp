// C11 full template matrix (c11_graphs_full only): LC_CSR_Graph<void> x options
#include "c11_csr_ops.h"

namespace c11 {
void registerX_csr_void() {
  regCsrOptions<void>(O_ALL, O_CORE | O_MANUAL | O_VECTORS | O_SORTDATA | O_FIND | O_GRFILE);
}
} // namespace c11
