// C11 full template matrix (c11_graphs_full only): LC_InOut_Graph<uint64_t> over CSR and Linear x options
#include "c11_fam_inout.h"

namespace c11 {
void registerX_inout_u64() {
  regIOFull<uint64_t>();
}
} // namespace c11
