// worklist instantiations, part C: per-thread chunked with stealing, local queues, stable iterator
#include "c01_common.h"
using namespace c01;
using namespace galois::worklists;

C01_WL(PerThreadChunkFIFO_1, "PerThreadChunk", 0, PerThreadChunkFIFO<1>)
C01_WL(PerThreadChunkFIFO_4, "PerThreadChunk", F_QUICK, PerThreadChunkFIFO<4>)
C01_WL(PerThreadChunkFIFO_32, "PerThreadChunk", 0, PerThreadChunkFIFO<32>)
C01_WL(PerThreadChunkLIFO_1, "PerThreadChunk", 0, PerThreadChunkLIFO<1>)
C01_WL(PerThreadChunkLIFO_4, "PerThreadChunk", F_QUICK, PerThreadChunkLIFO<4>)
C01_WL(PerThreadChunkLIFO_32, "PerThreadChunk", 0, PerThreadChunkLIFO<32>)
C01_WL(LocalQueue_PSC_GFIFO, "LocalQueue", F_QUICK, LocalQueue<PerSocketChunkFIFO<8>, GFIFO<>>)
C01_WL(LocalQueue_Chunk_LIFO, "LocalQueue", 0, LocalQueue<ChunkLIFO<2>, LIFO<>>)
C01_WL(LocalQueue_NoGlobal, "LocalQueue", 0, LocalQueue<NoGlobalQueue<>, GLIFO<>>)
C01_WL(StableIterator_nosteal, "StableIterator", 0, StableIterator<false>)
C01_WL(StableIterator_steal, "StableIterator", F_QUICK, StableIterator<true>)
C01_WL(StableIterator_steal_chunk1, "StableIterator", 0, StableIterator<true, ChunkLIFO<1>>)
