# one line per harness executable
verif_harness(smoke smoke.cpp)
verif_harness(c05_barriers c05_barriers.cpp)
