# every harness/targets.d/*.cmake declares the executables of one property
file(GLOB _verif_target_files CONFIGURE_DEPENDS ${HARNESS_DIR}/targets.d/*.cmake)
foreach(_f ${_verif_target_files})
  include(${_f})
endforeach()
