// C11 full template matrix (c11_graphs_full only): LC_Morph_Graph x options
#include "c11_fam_morph.h"

namespace c11 {
void registerX_morph() {
  regMorphFull<void>();
  regMorphFull<uint32_t>();
  regMorphFull<uint64_t>();
  regMorphFull<float>();
  regMorphFull<E12>();
}
} // namespace c11
