// C14 — shared between the TUs of c14_containers: per-case context, comparison
// helpers, component runner declarations.
#pragma once

#include "verif.h"
#include "c14_tracked.h"

#include <algorithm>
#include <map>
#include <set>
#include <string>
#include <vector>

namespace c14 {

using verif::J;
using verif::jarr;
using verif::Rng;

constexpr long NOARG = -0x7fffffffL;

// progress of the (single) case thread, sampled by the CPU-time watchdog in c14_main.cpp
inline std::atomic<uint64_t> g_opSeq{0};
inline char g_curOp[96]; // kind of the operation in flight (racy read by the watchdog is fine: fixed buffer)
// Crash cap. A fatal error costs a process restart; a regression that crashes in most cases of a component would
// turn a 1-minute run into a quarter of an hour. The number of fatal errors / non-returning operations per
// (component, optional-operation-class) of one run is therefore kept in a small state file shared by the
// restarted processes of that run; after CRASH_CAP of them the remaining cases of that (component, class) are
// skipped (counted in obs as cases_skipped_after_crash_cap). By then the violations are recorded, so the verdict is
// not affected. Disabled for single-case replays.
constexpr int CRASH_CAP = 30;
inline std::map<std::string, int> g_crashCounts;
inline std::string g_capFile; // empty = disabled
inline char g_curCapKey[160];
inline uint64_t g_skippedCases = 0;
inline void loadCrashCounts() {
  if (g_capFile.empty())
    return;
  if (FILE* f = fopen(g_capFile.c_str(), "r")) {
    char key[200];
    int n;
    while (fscanf(f, "%199s %d", key, &n) == 2)
      g_crashCounts[key] = n;
    fclose(f);
  }
}
//! called on the way out of a process that dies inside a case
inline void bumpCrashCount() {
  if (g_capFile.empty() || !g_curCapKey[0])
    return;
  ++g_crashCounts[g_curCapKey];
  if (FILE* f = fopen(g_capFile.c_str(), "w")) {
    for (auto& e : g_crashCounts)
      fprintf(f, "%s %d\n", e.first.c_str(), e.second);
    fclose(f);
  }
}

// name of the check whose evaluation is in flight ("" = none): a fatal error or a non-returning call while a
// check is being evaluated is a failure of that check and gets the same key as a wrong value would
inline char g_checkCtx[96];
inline void setCheckCtx(const char* what) {
  strncpy(g_checkCtx, what ? what : "", sizeof g_checkCtx - 1);
  g_checkCtx[sizeof g_checkCtx - 1] = 0;
}
inline void noteProgress(const char* what) {
  if (what) {
    strncpy(g_curOp, what, sizeof g_curOp - 1);
    g_curOp[sizeof g_curOp - 1] = 0;
  }
  g_opSeq.store(g_opSeq.load(std::memory_order_relaxed) + 1, std::memory_order_relaxed);
}

struct Case {
  verif::Harness& H;
  long k;
  Rng rng;
  bool thorough;
  std::string component;
  std::string cfg; // configuration class (goes into the signature)
  bool begun = false, skipped = false;

  // outcome
  bool bad = false;
  std::string key, detail;

  // measured
  uint64_t ops = 0, checks = 0, visited = 0, multiBlock = 0, resultChecks = 0;
  unsigned maxSize = 0;
  std::set<std::string> kinds;
  std::vector<std::string> hist;
  std::string lastOp = "init";
  uint64_t hh        = 1469598103934665603ull;
  int counter        = 0;
  std::vector<std::pair<std::string, uint64_t>> extra;

  Case(verif::Harness& h, long k_, uint64_t seed) : H(h), k(k_), rng(seed), thorough(h.thorough) {}

  //! must be called by the runner before it touches the code under test; `optClass` names the optional
  //! operation class enabled in this case ("" = none). Returns false when the case is to be skipped (crash cap).
  bool begin(const std::string& comp, const std::string& cfgClass, J p, const std::string& optClass = "") {
    component = comp;
    cfg       = cfgClass;
    std::string capKey = comp + "|" + (optClass.empty() ? "-" : optClass);
    strncpy(g_curCapKey, capKey.c_str(), sizeof g_curCapKey - 1);
    auto cc = g_crashCounts.find(capKey);
    if (cc != g_crashCounts.end() && cc->second >= CRASH_CAP) {
      skipped = begun = true;
      ++g_skippedCases;
      return false;
    }
    J q;
    q.kv("component", comp);
    std::string rest = p.str();
    std::string s    = q.str();
    if (rest != "{}")
      s = s.substr(0, s.size() - 1) + "," + rest.substr(1);
    H.begin(k, s);
    begun = true;
    return true;
  }

  int nextVal() { return ++counter; }

  //! number of operations of a case: mostly short, up to 200
  unsigned pickOps() {
    unsigned cap = rng.pick({6u, 20u, 50u, 100u, 200u});
    return 1 + (unsigned)rng.below(cap);
  }

  //! records one operation of the sequence; keyName: the operation kind used in violation keys when several
  //! spellings of the API are one operation
  void op(const char* name, long a = NOARG, long b = NOARG, const char* keyName = nullptr) {
    ++ops;
    lastOp = keyName ? keyName : name;
    setCheckCtx(nullptr);
    noteProgress(lastOp.c_str());
    kinds.insert(name);
    std::string s = name;
    if (a != NOARG) {
      s += "(" + std::to_string(a);
      if (b != NOARG)
        s += "," + std::to_string(b);
      s += ")";
    }
    for (unsigned char ch : s)
      hh = (hh ^ ch) * 1099511628211ull;
    hh = (hh ^ 0xff) * 1099511628211ull;
    hist.push_back(std::move(s));
    if ((ops & 63) == 0)
      verif::progress();
  }

  //! phase marker that is not an operation of the sequence (e.g. "destructor")
  void phase(const char* name) {
    lastOp = name;
    setCheckCtx(nullptr);
    noteProgress(name);
  }
  //! the check `what` is about to be evaluated by calling into the container (see g_checkCtx)
  void checking(const char* what) { setCheckCtx(what); }
  std::string history(size_t maxn = 80) const {
    std::string s;
    size_t from = hist.size() > maxn ? hist.size() - maxn : 0;
    if (from)
      s = "... ";
    for (size_t i = from; i < hist.size(); ++i) {
      if (i > from)
        s += ' ';
      s += hist[i];
    }
    return s;
  }

  //! record the first violation of the case; what = failed check. The key is
  //! C14:<component>:<check>-after-<last operation kind>
  void fail(const std::string& what, J d = J(), bool afterOp = true) {
    if (bad)
      return;
    bad = true;
    key = "C14:" + component + ":" + what;
    if (afterOp)
      key += "-after-" + lastOp;
    d.kv("check", what).kv("after", lastOp).kv("step", ops).kv("config", cfg).kv("history", history());
    detail = d.str();
  }

  //! a lifetime violation recorded during the operation is reported before any value comparison
  bool regOk() {
    if (!bad && g_reg.bad)
      fail(g_reg.kind, J().kv("during", g_reg.how).kv("live_instances", (uint64_t)g_reg.liveCount()));
    return !bad;
  }

  //! registry state after a step: no lifetime violation recorded, and exactly
  //! `expectLive` live instances (pass -1 for element types without registry)
  bool lifetimesOk(long expectLive) {
    if (bad)
      return false;
    if (g_reg.bad) {
      fail(g_reg.kind, J().kv("during", g_reg.how).kv("live_instances", (uint64_t)g_reg.liveCount()));
      return false;
    }
    if (expectLive >= 0 && (long)g_reg.liveCount() != expectLive) {
      fail("live-instance-count",
           J().kv("live_instances", (uint64_t)g_reg.liveCount()).kv("elements_in_container", expectLive));
      return false;
    }
    return true;
  }

  template <typename A, typename B>
  bool eq(const char* what, const A& actual, const B& expected) {
    ++resultChecks;
    setCheckCtx(nullptr);
    if (bad)
      return false;
    if (!(actual == expected)) {
      fail(what, J().kv("actual", (long)actual).kv("expected", (long)expected));
      return false;
    }
    return true;
  }

  void sawSize(size_t n, size_t chunk) {
    if (n > maxSize)
      maxSize = (unsigned)n;
    if (chunk && n > chunk)
      ++multiBlock;
  }
  void count(const char* name, uint64_t n = 1) {
    for (auto& e : extra)
      if (e.first == name) {
        e.second += n;
        return;
      }
    extra.emplace_back(name, n);
  }
};

//! Walks [b,e) for at most expected.size() elements (never dereferences past
//! the expected length: a runaway iterator is reported, not followed).
template <typename It, typename End>
bool checkSeq(Case& c, const char* what, It b, End e, const std::vector<int>& expected) {
  ++c.checks;
  noteProgress(nullptr);
  if (c.bad)
    return false;
  std::vector<int> got;
  got.reserve(expected.size());
  bool tooLong = false;
  for (; !(b == e); ++b) {
    if (got.size() >= expected.size()) {
      tooLong = true;
      break;
    }
    got.push_back(val(*b));
  }
  c.visited += got.size();
  if (tooLong || got != expected) {
    c.fail(what, J().raw("expected", jarr(expected, 48)).raw("actual", jarr(got, 48))
                     .kv("iterator_continues_past_expected_length", tooLong));
    return false;
  }
  return true;
}

//! Same, order-insensitive; returns the traversal order in *order if wanted.
template <typename It, typename End>
bool checkBag(Case& c, const char* what, It b, End e, std::vector<int> expected, std::vector<int>* order = nullptr) {
  ++c.checks;
  noteProgress(nullptr);
  if (c.bad)
    return false;
  std::vector<int> got;
  bool tooLong = false;
  for (; !(b == e); ++b) {
    if (got.size() >= expected.size()) {
      tooLong = true;
      break;
    }
    got.push_back(val(*b));
  }
  c.visited += got.size();
  if (order)
    *order = got;
  std::vector<int> sg = got;
  std::sort(sg.begin(), sg.end());
  std::sort(expected.begin(), expected.end());
  if (tooLong || sg != expected) {
    c.fail(what, J().raw("expected_multiset", jarr(expected, 48)).raw("actual_traversal", jarr(got, 48))
                     .kv("iterator_continues_past_expected_length", tooLong));
    return false;
  }
  return true;
}

template <typename C>
std::vector<int> toVec(const C& m) {
  return std::vector<int>(m.begin(), m.end());
}
template <typename C>
std::vector<int> toRevVec(const C& m) {
  return std::vector<int>(m.rbegin(), m.rend());
}

// component runners (one TU per family)
void run_gdeque(Case&);
void run_FixedSizeRing(Case&);
void run_FixedSizeBag(Case&);
void run_ConcurrentFixedSizeBag(Case&);
void run_gslist(Case&);
void run_ConcurrentGslist(Case&);
void run_InsertBag(Case&);
void run_flat_map(Case&);
void run_PODResizeableArray(Case&);
void run_LazyArray(Case&);
void run_LazyObject(Case&);
void run_optional(Case&);
void run_LargeArray(Case&);
void run_CopyableTuple(Case&);
void run_MinHeap(Case&);
void run_ThreadSafeMinHeap(Case&);
void run_ThreadSafeOrderedSet(Case&);
void run_TwoLevelIterator(Case&);
void run_TwoLevelIteratorA(Case&);

} // namespace c14
