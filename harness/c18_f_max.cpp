// C18 — field f_max: plain uint64_t, GALOIS_SYNC_STRUCTURE_REDUCE_MAX + BITSET
#include "c18_field.h"

galois::DynamicBitSet bitset_f_max;
GALOIS_SYNC_STRUCTURE_REDUCE_MAX(f_max, uint64_t);
GALOIS_SYNC_STRUCTURE_BITSET(f_max);

namespace {
using namespace c18;
void store(Graph& g, uint32_t lid, const uint64_t* w) { g.getData(lid).f_max = w[0]; }
void load(Graph& g, uint32_t lid, uint64_t* w) { w[0] = g.getData(lid).f_max; }
bool write(Graph& g, uint32_t lid, const uint64_t* w, bool mark) {
  uint64_t nv  = w[0];
  uint64_t old = galois::max(g.getData(lid).f_max, nv);
  if (old < nv) {
    if (mark)
      bitset_f_max.set(lid);
    return true;
  }
  return false;
}
void sync(Substrate& s, unsigned W, unsigned R, bool b, bool a, const std::string& l) {
  sync_any<Reduce_max_f_max, Bitset_f_max, true>(s, W, R, b, a, l);
}
void resetMirrors(Substrate& s) { s.reset_mirrorField<Reduce_max_f_max>(); }
} // namespace
const c18::FieldVT c18::vt_f_max = {"f_max", "GALOIS_SYNC_STRUCTURE_REDUCE_MAX(uint64_t)", R_MAX, K_U64, 1, true, true,
                                    store, load, write, &bitset_f_max, sync, resetMirrors};
