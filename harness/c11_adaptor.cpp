// C11: adaptor family, representative subset of the template matrix (quick + thorough)
#include "c11_fam_adaptor.h"

namespace c11 {

void registerAdaptor() {
  auto& R = registry();
  R.push_back(mkEntry<void>(ADA, "lock", "adapt", &opAdapt<void, false>));
  R.push_back(mkEntry<uint32_t>(ADA, "lock", "adapt", &opAdapt<uint32_t, false>));
  R.push_back(mkEntry<uint32_t>(ADA, "nolock", "adapt", &opAdapt<uint32_t, true>));
  R.push_back(mkEntry<E12>(ADA, "nolock", "adapt", &opAdapt<E12, true>));
}

} // namespace c11
