// C11 full template matrix (c11_graphs_full only): remaining LC_Adaptor_Graph instantiations
#include "c11_fam_adaptor.h"

namespace c11 {
void registerX_adaptor() {
  auto& R = registry();
  R.push_back(mkEntry<void>(ADA, "nolock", "adapt", &opAdapt<void, true>));
  R.push_back(mkEntry<uint64_t>(ADA, "lock", "adapt", &opAdapt<uint64_t, false>));
  R.push_back(mkEntry<float>(ADA, "lock", "adapt", &opAdapt<float, false>));
  R.push_back(mkEntry<E12>(ADA, "lock", "adapt", &opAdapt<E12, false>));
}
} // namespace c11
