// C11: morph family, representative subset of the template matrix (quick + thorough)
#include "c11_fam_morph.h"

namespace c11 {

void registerMorph() {
  regMorph<Mor<void>>("lock");
  regMorph<Mor<uint32_t>>("lock");
  regMorph<Mor<uint64_t, true, true>>("nolock+numa");
  regMorph<Mor<E12, false, true>>("lock+numa");
  regMorph<Mor<void, true, false, void>>("nolock+voidnode");
}

} // namespace c11
