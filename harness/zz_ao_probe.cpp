// temporary probe (not part of any check): AdaptiveOBIM driven directly
#include <sstream>
#include <deque>
#include <map>
#include <vector>
#include <atomic>
#include <mutex>
#include <thread>
#include <functional>
#include <memory>
#include <algorithm>
#include <iostream>
#include <fstream>
#include <random>
#include <boost/iterator/iterator_facade.hpp>
#define private public
#include "galois/gstl.h"
#include "galois/worklists/Chunk.h"
#include "galois/FlatMap.h"
#include "galois/substrate/PerThreadStorage.h"
#include "galois/worklists/WLCompileCheck.h"
#include "galois/worklists/WorkListHelpers.h"
#ifdef AO_TRACED
#include "/var/tmp/ao/AdaptiveObim.h"
#else
struct AOTrace { struct E { int ev; long a, b, c; }; static std::vector<E>& buf() { static thread_local std::vector<E> v; return v; } };
#endif
#include "galois/Galois.h"
std::vector<AOTrace::E>* g_aoTraces[64];
#include "galois/worklists/AdaptiveObim.h"
#include "galois/worklists/Obim.h"
#include "galois/substrate/Barrier.h"
#undef private
#include <atomic>
#include <cstdio>
#include <vector>
struct Item { uint32_t id; int prio; };
struct Indexer { int operator()(const Item& i) const { return i.prio; } };

template <bool AD, typename WL, typename G>
static void inspect(WL& wl, std::vector<Item>& items, G& got, unsigned T) {
  // duplicates in the master log
  auto& ml = wl.masterLog;
  printf("  masterLog size=%zu masterVersion=%u\n", ml.size(), wl.masterVersion.load());
  for (size_t a = 0; a < ml.size(); ++a)
    for (size_t b = a + 1; b < ml.size(); ++b)
      if (!(ml[a].first < ml[b].first) && !(ml[b].first < ml[a].first))
        printf("  DUPLICATE key in masterLog: entries %zu and %zu (bins %p %p)\n", a, b, (void*)ml[a].second, (void*)ml[b].second);
  for (unsigned t = 0; t < T; ++t) {
    auto& td = *wl.data.getRemote(t);
    size_t nulls = 0, unsorted = 0;
    for (auto it = td.local.begin(); it != td.local.end(); ++it) {
      if (!it->second) ++nulls;
      auto nx = it; ++nx;
      if (nx != td.local.end() && !(it->first < nx->first)) ++unsorted;
    }
    printf("  thread %u: local bins=%zu nulls=%zu unsorted-pairs=%zu lastMasterVersion=%u", t, td.local.size(), nulls, unsorted, td.lastMasterVersion);
    if constexpr (AD) printf(" scanStart=(%d,%u) curIndex=(%d,%u) delta=%u counter=%u", td.scanStart.k, td.scanStart.d, td.curIndex.k, td.curIndex.d, wl.delta, wl.counter);
    printf("\n");
  }
  // where are the lost items?
  for (unsigned i = 0; i < items.size(); ++i) {
    if (got[i].load() == 1) continue;
    printf("  lost item id=%u prio=%d:", i, items[i].prio);
    for (size_t a = 0; a < ml.size(); ++a) {
      auto* bin = ml[a].second;
      for (unsigned t = 0; t < galois::substrate::getThreadPool().getMaxThreads(); ++t) {
        auto& pp = bin->data.get(t);
        for (auto* ch : {pp.cur, pp.next})
          if (ch) for (auto it = ch->begin(); it != ch->end(); ++it) if (it->id == i) {
            printf(" in bin entry %zu (%p) thread %u %s chunk;", a, (void*)bin, t, ch == pp.cur ? "cur" : "next");
            if (AD && g_aoTraces[t]) { auto& tr = *g_aoTraces[t]; printf("\n    trace of thread %u (%zu events), events near prio %d:\n", t, tr.size(), items[i].prio);
              long prevk = -1; for (size_t x = 0; x < tr.size(); ++x) { auto& e = tr[x];
                if (e.ev == 4 && e.a == items[i].prio) printf("      [%zu] push key=(%ld,%ld) bin=%p\n", x, e.a, e.b, (void*)e.c);
                if (e.ev == 2) { if (prevk < items[i].prio && e.a > items[i].prio) { printf("      [%zu] pop jumped from key %ld to key=(%ld,%ld) pos %ld; preceding scan: ", x, prevk, e.a, e.b, e.c); if (x > 0 && tr[x-1].ev == 1) printf("msS=(%ld,%ld) lower_bound pos %ld", tr[x-1].a, tr[x-1].b, tr[x-1].c); printf("\n"); } prevk = e.a; } } }
            // is this bin in that thread's local map?
            for (unsigned u = 0; u < T; ++u) { bool has = false; for (auto& e : wl.data.getRemote(u)->local) if (e.second == bin) has = true; printf(" t%u%s", u, has ? "+" : "-"); }
          }
      }
    }
    printf("\n");
  }
}
template <typename WL, bool AD>
static long trial(unsigned T, unsigned n, uint64_t seed, unsigned maxPrio, const char* name) {
  galois::setActiveThreads(T);
  std::vector<Item> items(n);
  uint64_t s = seed;
  for (unsigned i = 0; i < n; ++i) { s = s * 6364136223846793005ULL + 1442695040888963407ULL; items[i] = Item{i, (int)((s >> 33) % maxPrio)}; }
  WL wl;
  std::vector<std::atomic<int>> got(n);
  for (auto& g : got) g.store(0);
  auto& barrier = galois::runtime::getBarrier(T);
  std::atomic<long> left{0};
  std::vector<long> leftBy(T, 0);
  galois::on_each([&](unsigned tid, unsigned numT) {
    AOTrace::buf().clear(); g_aoTraces[tid] = &AOTrace::buf();
    unsigned b = (uint64_t)n * tid / numT, e = (uint64_t)n * (tid + 1) / numT;
    for (unsigned i = b; i < e; ++i) wl.push(items[i]);
    barrier.wait();
    for (;;) { auto it = wl.pop(); if (!it) break; got[it->id].fetch_add(1); }
    barrier.wait();
    for (;;) { auto it = wl.pop(); if (!it) break; got[it->id].fetch_add(1); left.fetch_add(1); leftBy[tid]++; }
  });
  long missing = 0;
  for (unsigned i = 0; i < n; ++i) if (got[i].load() != 1) ++missing;
  if (left.load() || missing) {
    printf("%s T=%u n=%u seed=%llu maxPrio=%u: popped-only-in-second-phase=%ld never-popped=%ld by-thread:", name, T, n, (unsigned long long)seed, maxPrio, left.load(), missing);
    for (unsigned t = 0; t < T; ++t) if (leftBy[t]) printf(" t%u:%ld", t, leftBy[t]);
    printf("\n");
    inspect<AD>(wl, items, got, T);
  }
  return left.load() + missing;
}
int main(int argc, char** argv) {
  galois::SharedMemSys G;
  unsigned reps = argc > 1 ? atoi(argv[1]) : 200;
  typedef galois::worklists::AdaptiveOrderedByIntegerMetric<Indexer>::retype<Item> AO;
  typedef galois::worklists::OrderedByIntegerMetric<Indexer>::retype<Item> OB;
  long badA = 0, badO = 0;
  for (unsigned r = 0; r < reps; ++r) {
    unsigned T = (r % 3 == 0) ? 2 : (r % 3 == 1 ? 16 : 5);
    unsigned n = (r % 2) ? 100 : 600;
    unsigned mp = (r % 4 < 2) ? 1000000 : 50;
    badA += trial<AO, true>(T, n, r + 1, mp, "AdaptiveOBIM") != 0;
    badO += trial<OB, false>(T, n, r + 1, mp, "OBIM") != 0;
  }
  printf("trials=%u bad AdaptiveOBIM=%ld OBIM=%ld\n", reps, badA, badO);
  return 0;
}
