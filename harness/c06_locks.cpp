// C06 — locks exclude; promised synchronisation edges are happens-before.
//
// (a) mutual exclusion (all configs): `inside` counters with relaxed atomics,
//     an injected delay inside the critical section, and a PLAIN counter whose
//     final value must equal the number of acquisitions.
// (b) happens-before (tsan config): the plain payload is registered with the
//     TSan report classifier; a report whose address lies in it is a violation
//     of the edge under test. Harness bookkeeping uses relaxed atomics only, so
//     it adds no edges of its own.
// Edges here: lock release -> next acquire (SimpleLock, PaddedLock, PtrLock in
// all its unlock flavours, try_lock, ThreadRWlock both sides,
// readUpdateProtected); entry to and return from on_each / do_all / for_each /
// ThreadPool::run, with and without burnPower fast mode. The barrier edge is
// in c05_barriers, lockable hand-over and worklist push->pop in c01_foreach
// (tsan runs of the C06 spec).
#define VERIF_MAIN_TU
#include "verif.h"

#include "galois/Galois.h"
#include "galois/substrate/SimpleLock.h"
#include "galois/substrate/PaddedLock.h"
#include "galois/substrate/PtrLock.h"
#include "galois/substrate/ThreadRWlock.h"

using namespace verif;
namespace gs = galois::substrate;

enum LockKind {
  L_SIMPLE = 0,
  L_SIMPLE_TRY,
  L_PADDED,
  L_PADDED_TRY,
  L_PTR,
  L_PTR_TRY,
  L_PTR_SET,   // unlock_and_set / unlock_and_clear alternate
  L_RW_WRITERS,
  L_RW_MIXED,
  L_RW_UPDATE, // readUpdateProtected
  R_ON_EACH,
  R_DO_ALL,
  R_DO_ALL_STEAL,
  R_FOR_EACH,
  R_POOL_RUN,
  K_NUM
};
static const char* KN[] = {"SimpleLock", "SimpleLock::try_lock", "PaddedLock", "PaddedLock::try_lock", "PtrLock",
                           "PtrLock::try_lock", "PtrLock::unlock_and_set", "ThreadRWlock-writers",
                           "ThreadRWlock-readers-writers", "readUpdateProtected", "region:on_each", "region:do_all",
                           "region:do_all-steal", "region:for_each", "region:ThreadPool::run"};

struct alignas(128) Payload {
  uint64_t counter; // plain, protected by the lock under test
  uint64_t a, b;    // plain pair that must always be equal inside the critical section
  char pad[128 - 24];
};
struct alignas(128) RegionPayload {
  uint64_t in[64];  // written by the main thread before the region, read inside
  uint64_t out[64]; // written inside by thread i, read by the main thread after return
};

static Payload g_pay;
static RegionPayload g_reg;
static int g_dummy[4];
static uint64_t rwPlain; // plain value protected by the reader/writer lock

int main(int argc, char** argv) {
  Harness H("C06", argc, argv);
  galois::SharedMemSys G;
  auto& tp       = gs::getThreadPool();
  unsigned maxT  = std::min(64u, tp.getMaxThreads());
  unsigned nsock = tp.getMaxSockets();
  long oversub   = H.paramInt("oversub", 0);
  long onlyKind  = H.paramInt("kind", -1);
  register_payload(&g_pay, sizeof g_pay, "lock-payload");
  register_payload(&g_reg, sizeof g_reg, "region-payload");
  register_payload(&rwPlain, sizeof rwPlain, "rw-payload");

  gs::SimpleLock simple;
  gs::PaddedLock<true> padded;
  gs::PtrLock<int> ptr;
  gs::ThreadRWlock rw;

  for (long k = H.firstCase(); k < H.endCase(); ++k) {
    Rng rng(H.caseSeed(k));
    unsigned kind = onlyKind >= 0 ? (unsigned)onlyKind : (unsigned)rng.below(K_NUM);
    unsigned n;
    switch (rng.below(5)) {
    case 0: n = maxT; break;
    case 1: n = 2; break;
    default: n = 1 + (unsigned)rng.below(maxT); break;
    }
    bool isRegion     = kind >= R_ON_EACH;
    unsigned quota    = (unsigned)rng.pick({50, 300, 2000});
    if (VERIF_TSAN)
      quota = std::min(quota, 300u);
    if (oversub)
      quota = std::min(quota, 100u);
    if (kind == L_RW_WRITERS || kind == L_RW_MIXED || kind == L_RW_UPDATE)
      quota = std::min(quota, 300u); // a write lock takes every thread's lock
    unsigned delayPct = (unsigned)rng.pick({0, 2, 10, 50});
    unsigned pointProb = (unsigned)rng.pick({0, 0, 1024, 8192});
    unsigned spinProb  = oversub ? 65535u : (unsigned)rng.pick({0, 0, 512, 8192});
    bool fast          = isRegion && rng.below(3) == 0; // burnPower fast mode
    unsigned reps      = isRegion ? (unsigned)rng.pick({5, 30, 100}) : 1;
    uint64_t pseed     = rng.next();
    std::string comp   = KN[kind];
    if (fast)
      comp += ":fastmode";
    H.hangKey = "C06:" + comp + ":hang";
    H.begin(k, J().kv("component", comp).kv("threads", n).kv("quota", quota).kv("delayPct", delayPct)
                   .kv("repetitions", reps).kv("pointProb", pointProb).kv("spinProb", spinProb)
                   .kv("sockets", nsock).str());
    galois::setActiveThreads(n);
    g_tsanPayloadReports.store(0);
    perturb_case(pseed, pointProb, spinProb, 30);

    uint64_t acquisitions = 0, trylockFailures = 0, regions = 0;
    bool bad = false;

    if (!isRegion) {
      g_pay.counter = g_pay.a = g_pay.b = 0;
      ptr.setValue(nullptr);
      std::atomic<int> inside{0}, readers{0}, writer{0};
      std::atomic<uint64_t> exclViol{0}, pairViol{0}, tryFail{0}, acq{0}, readAcq{0};
      std::atomic<uint64_t> rwShared{0}; // value protected by the rw lock (plain semantics emulated below)
      rwPlain = 0;
      galois::on_each([&](unsigned tid, unsigned numT) {
        Rng lr(mix(pseed, tid + 1));
        auto critical = [&](bool exclusive) {
          if (exclusive) {
            if (inside.fetch_add(1, std::memory_order_relaxed) != 0)
              exclViol.fetch_add(1, std::memory_order_relaxed);
            if (g_pay.a != g_pay.b)
              pairViol.fetch_add(1, std::memory_order_relaxed);
            g_pay.a++;
            if (lr.below(100) < delayPct)
              busy_delay_ns(200 + lr.below(5000));
            g_pay.counter++;
            g_pay.b++;
            inside.fetch_sub(1, std::memory_order_relaxed);
          }
          acq.fetch_add(1, std::memory_order_relaxed);
          progress();
        };
        for (unsigned i = 0; i < quota; ++i) {
          switch (kind) {
          case L_SIMPLE:
            simple.lock();
            critical(true);
            simple.unlock();
            break;
          case L_SIMPLE_TRY:
            while (!simple.try_lock()) {
              tryFail.fetch_add(1, std::memory_order_relaxed);
              gs::asmPause();
            }
            critical(true);
            simple.unlock();
            break;
          case L_PADDED:
            padded.lock();
            critical(true);
            padded.unlock();
            break;
          case L_PADDED_TRY:
            while (!padded.try_lock()) {
              tryFail.fetch_add(1, std::memory_order_relaxed);
              gs::asmPause();
            }
            critical(true);
            padded.unlock();
            break;
          case L_PTR:
            ptr.lock();
            critical(true);
            ptr.unlock();
            break;
          case L_PTR_TRY:
            while (!ptr.try_lock()) {
              tryFail.fetch_add(1, std::memory_order_relaxed);
              gs::asmPause();
            }
            critical(true);
            ptr.unlock();
            break;
          case L_PTR_SET:
            ptr.lock();
            critical(true);
            if (i & 1)
              ptr.unlock_and_set(&g_dummy[tid & 3]);
            else
              ptr.unlock_and_clear();
            break;
          case L_RW_WRITERS:
            rw.writeLock();
            critical(true);
            rw.writeUnlock();
            break;
          case L_RW_MIXED:
            if (lr.below(8) == 0) {
              rw.writeLock();
              if (readers.load(std::memory_order_relaxed) != 0)
                exclViol.fetch_add(1, std::memory_order_relaxed);
              writer.store(1, std::memory_order_relaxed);
              critical(true);
              rwPlain++;
              writer.store(0, std::memory_order_relaxed);
              rw.writeUnlock();
            } else {
              rw.readLock();
              readers.fetch_add(1, std::memory_order_relaxed);
              if (writer.load(std::memory_order_relaxed) != 0)
                exclViol.fetch_add(1, std::memory_order_relaxed);
              volatile uint64_t v = rwPlain; // plain read under the read lock
              (void)v;
              if (lr.below(100) < delayPct)
                busy_delay_ns(200 + lr.below(3000));
              readers.fetch_sub(1, std::memory_order_relaxed);
              readAcq.fetch_add(1, std::memory_order_relaxed);
              rw.readUnlock();
              critical(false);
            }
            break;
          case L_RW_UPDATE: {
            uint64_t want = (uint64_t)i / 4 + 1; // monotone target: first thread to see rwPlain < want writes it
            auto readAndCheck = [&]() -> bool { return rwPlain >= want; };
            auto write        = [&]() {
              if (inside.fetch_add(1, std::memory_order_relaxed) != 0)
                exclViol.fetch_add(1, std::memory_order_relaxed);
              rwPlain = want;
              g_pay.counter++;
              inside.fetch_sub(1, std::memory_order_relaxed);
            };
            gs::readUpdateProtected(rw, readAndCheck, write);
            critical(false);
            break;
          }
          }
          if (lr.below(100) < delayPct / 2)
            busy_delay_ns(100 + lr.below(2000));
        }
      }, galois::no_stats());
      acquisitions     = acq.load();
      trylockFailures = tryFail.load();
      uint64_t expectCounter = 0;
      bool checkCounter      = true;
      switch (kind) {
      case L_RW_MIXED: checkCounter = false; break;
      case L_RW_UPDATE: checkCounter = false; break; // a writer may skip over several targets at once
      default: expectCounter = (uint64_t)quota * n;
      }
      if (exclViol.load()) {
        bad = true;
        H.violation("C06:" + comp + ":two-holders",
                    J().kv("threads", n).kv("times_a_second_holder_was_inside", exclViol.load()).str());
      } else if (pairViol.load() || (checkCounter && g_pay.counter != expectCounter)) {
        bad = true;
        H.violation("C06:" + comp + ":lost-update-under-lock",
                    J().kv("threads", n).kv("plain_counter", g_pay.counter).kv("expected", expectCounter)
                        .kv("torn_pair_observations", pairViol.load()).str());
      }
      if (acquisitions != (uint64_t)quota * n && !bad)
        H.violation("C06:" + comp + ":quota-not-completed", J().kv("acquisitions", acquisitions).str());
      if (kind == L_RW_UPDATE && rwPlain != (uint64_t)(quota - 1) / 4 + 1 && !bad)
        H.violation("C06:" + comp + ":lost-update-under-lock",
                    J().kv("final_value", rwPlain).kv("expected", (uint64_t)(quota - 1) / 4 + 1).str());
      if (kind == L_RW_MIXED && rwPlain + readAcq.load() != (uint64_t)quota * n && !bad)
        H.violation("C06:" + comp + ":lost-update-under-lock",
                    J().kv("writes", rwPlain).kv("reads", readAcq.load()).kv("expected_total", (uint64_t)quota * n).str());
    } else {
      // ------------------------------------------------------------ region entry / return edges
      std::vector<uint32_t> elems(n * 4);
      for (uint32_t i = 0; i < elems.size(); ++i)
        elems[i] = i;
      uint64_t mismatches = 0;
      std::atomic<uint64_t> inMismatch{0};
      if (fast)
        tp.burnPower(n);
      for (unsigned r = 0; r < reps; ++r) {
        uint64_t stamp = mix(pseed, r) | 1;
        for (unsigned i = 0; i < 64; ++i)
          g_reg.in[i] = stamp + i; // plain writes before the region
        auto body = [&](unsigned tid) {
          for (unsigned i = 0; i < 64; i += 7)
            if (g_reg.in[i] != stamp + i) // plain reads after entry
              inMismatch.fetch_add(1, std::memory_order_relaxed);
          g_reg.out[tid] = stamp ^ tid; // plain write before return
          progress();
        };
        switch (kind) {
        case R_ON_EACH:
          galois::on_each([&](unsigned tid, unsigned) { body(tid); }, galois::no_stats());
          break;
        case R_DO_ALL:
          galois::do_all(galois::iterate(elems), [&](uint32_t) { body(gs::ThreadPool::getTID()); }, galois::no_stats());
          break;
        case R_DO_ALL_STEAL:
          galois::do_all(galois::iterate(elems), [&](uint32_t) { body(gs::ThreadPool::getTID()); }, galois::steal(),
                         galois::chunk_size<1>(), galois::no_stats());
          break;
        case R_FOR_EACH:
          galois::for_each(galois::iterate(elems), [&](uint32_t, auto&) { body(gs::ThreadPool::getTID()); },
                           galois::no_pushes(), galois::disable_conflict_detection(), galois::no_stats());
          break;
        case R_POOL_RUN:
          tp.run(n, [&] { body(gs::ThreadPool::getTID()); });
          break;
        }
        // plain reads after return: which threads ran is unknown for do_all/for_each, so only check slots
        // that carry this round's stamp or an older one (never a torn value)
        for (unsigned t = 0; t < n; ++t) {
          uint64_t v = g_reg.out[t];
          if (kind == R_ON_EACH || kind == R_POOL_RUN) {
            if (v != (stamp ^ t))
              mismatches++;
          }
        }
        regions++;
      }
      if (fast)
        tp.beKind();
      if (mismatches || inMismatch.load()) {
        bad = true;
        H.violation("C06:" + comp + ":stale-data-across-region-boundary",
                    J().kv("threads", n).kv("stale_reads_inside", inMismatch.load()).kv("stale_reads_after_return", mismatches).str());
      }
    }
    perturb_off();
    uint64_t pr = g_tsanPayloadReports.exchange(0);
    if (pr)
      H.violation("C06:" + comp + ":no-happens-before",
                  J().kv("tsan_reports_on_payload", pr).kv("region", std::string(g_tsanLastPayload)).kv("threads", n).str());
    std::string sig = comp + "|n" + std::to_string(n) + "|s" + std::to_string(nsock) + "|d" + std::to_string(delayPct) +
                      "|p" + std::to_string(pointProb) + "|q" + std::to_string(isRegion ? reps : quota);
    H.end(k, sig, n >= 2,
          J().kv("acquisitions", acquisitions).kv("try_lock_failures", trylockFailures).kv("regions", regions)
              .kv("tsan_internal_reports", (uint64_t)g_tsanInternalReports.exchange(0))
              .kv("tsan_build", (int)VERIF_TSAN).kv("multi_socket_cases", (int)(nsock > 1 && n > 1)).str());
  }
  return 0;
}
