// C17 part A: concrete types, group 2 (vectors of non-trivially-copyable elements, std::deque, gdeque)
#include "c17_ser.h"
namespace c17 {
void registerTypes2(Registry& R) {
  const char* NT = "vector<non-trivially copyable>";
  R.add<std::vector<std::string>>(NT);
  R.add<std::vector<std::pair<int32_t, double>>>(NT); // std::pair is not trivially copyable: element-wise path
  R.add<std::vector<std::pair<uint8_t, std::string>>>(NT);
  R.add<std::vector<std::vector<int32_t>>>(NT);
  R.add<std::vector<std::vector<uint8_t>>>(NT);
  R.add<std::vector<std::vector<std::string>>>(NT);
  R.add<std::vector<std::vector<std::pair<int32_t, std::string>>>>(NT);
  R.add<std::vector<std::pair<std::vector<uint16_t>, std::vector<std::string>>>>(NT);
  R.add<std::vector<std::vector<std::vector<double>>>>(NT);
  R.add<std::vector<std::vector<Pod>>>(NT);
  R.add<galois::gstl::Vector<galois::gstl::Str>>(NT);
  R.add<std::vector<galois::gstl::Vector<uint32_t>>>(NT);

  R.add<std::deque<int32_t>>("std::deque");
  R.add<std::deque<uint8_t>>("std::deque");
  R.add<std::deque<Pod>>("std::deque");
  R.add<std::deque<std::string>>("std::deque");
  R.add<std::deque<std::vector<int32_t>>>("std::deque");
  R.add<std::deque<std::pair<int32_t, std::string>>>("std::deque");
  // same wire format (count + elements): written as vector / gdeque, read as std::deque and the other way round
  R.addCross<std::vector<int32_t>, std::deque<int32_t>>("std::deque");
  R.addCross<std::vector<std::string>, std::deque<std::string>>("std::deque");
  R.addCross<std::deque<uint64_t>, std::vector<uint64_t>>("std::deque");
  R.addCross<galois::gdeque<int32_t>, std::deque<int32_t>>("std::deque");

  R.add<galois::gdeque<int32_t>>("gdeque");
  R.add<galois::gdeque<uint8_t>>("gdeque");
  R.add<galois::gdeque<uint64_t, 4>>("gdeque");
  R.add<galois::gdeque<Pod, 3>>("gdeque");
  R.add<galois::gdeque<std::string>>("gdeque");
  R.add<galois::gdeque<std::vector<int32_t>, 8>>("gdeque");
  R.add<galois::gdeque<std::pair<int32_t, double>>>("gdeque");
  R.addCross<galois::gdeque<double, 16>, std::vector<double>>("gdeque");
  R.addCross<std::vector<uint16_t>, galois::gdeque<uint16_t, 5>>("gdeque");
}
} // namespace c17
