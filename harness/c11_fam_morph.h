#pragma once
// C11: LC_Morph_Graph read from a file. Its nodes carry no identity that the
// API exposes (nodes live in a per-thread InsertBag, no ids, default node
// data), so "presents exactly the input" is decided up to isomorphism: exactly
// when the input's edge data identify every edge (unique data), otherwise by
// a necessary condition (node/edge counts and colour-refinement signature).
// Out-of-line lockable does not compile for this type (no getId in NodeInfo).
#include "c11_ptr.h"

namespace c11 {

static const char* MOR = "LC_Morph_Graph";

template <class G>
void opMorphRead(Ctx& c) {
  G g;
  if (c.rng.below(2)) {
    gg::readGraph(g, c.file());
  } else {
    gg::FileGraph f;
    loadFileGraph(c, f, c.file(), c.rng.below(2), c.esz);
    gg::readGraph(g, f);
  }
  ++c.builds;
  c.parallelBuilds += c.threads > 1;
  Indexer<G> ix;
  ix.build(g, c.X.numNodes + 8);
  if (!ix.orderOk) {
    c.fail("read-node-twice", J().kv("nodes", c.X.numNodes).str());
    return;
  }
  Obs o;
  observeOut(g, ix, o, c.rng.below(2) ? galois::MethodFlag::UNPROTECTED : galois::MethodFlag::WRITE);
  if (!checkIsomorphic(c, o, c.X, "read"))
    return;
  checkEdgeRanges(c, g, ix);
  checkLocalRanges(c, g, ix);
  // membership (linear search) against the enumerated, already verified, edges
  if (o.adj.empty())
    return;
  ref::RefGraph seen(o.adj.size());
  seen.adj = o.adj;
  for (uint64_t i : sampleNodes(c, o.adj.size(), 32)) {
    for (uint64_t d : queryDsts(c, seen, i, 8)) {
      bool has = false;
      for (auto& e : o.adj[i])
        has = has || e.dst == d;
      auto it  = g.findEdge(ix.nodes[i], ix.nodes[d], galois::MethodFlag::UNPROTECTED);
      auto end = g.edge_end(ix.nodes[i], galois::MethodFlag::UNPROTECTED);
      bool ok  = has ? (it != end && g.getEdgeDst(it) == ix.nodes[d]) : (it == end);
      ++c.findQueries;
      c.findHits += has;
      if (!ok) {
        c.fail("findEdge-wrong-answer", J().kv("src_position", i).kv("dst_position", d).kv("edge_exists", has).str());
        return;
      }
    }
  }
}

template <class G>
void regMorph(const std::string& cfg) {
  using E = typename G::edge_data_type;
  registry().push_back(mkEntry<E>(MOR, cfg, "read", &opMorphRead<G>, std::is_void_v<E> ? 0u : (unsigned)F_UNIQUE_DATA, 4));
}

// LC_Morph_Graph<NodeTy, EdgeTy, HasNoLockable, UseNumaAlloc, HasOutOfLineLockable, HasId>
template <class E, bool NL = false, bool NU = false, class N = uint32_t>
using Mor = gg::LC_Morph_Graph<N, E, NL, NU>;

template <class E>
void regMorphFull() {
  regMorph<Mor<E>>("lock");
  regMorph<Mor<E, true>>("nolock");
  regMorph<Mor<E, false, true>>("lock+numa");
  regMorph<Mor<E, true, true>>("nolock+numa");
}


} // namespace c11
