// C10 flavours: Morph_SepInOut_Graph, sorted neighbours.
#include "galois/graphs/Morph_SepInOut_Graph.h"
#include "c10_graph.h"
using namespace c10;
typedef galois::graphs::Morph_SepInOut_Graph<ND, uint64_t, true, true, false, true> GSepInOutSorted;
C10_FLAVOUR(sepinouts, "sep-inout-sorted", "sep-inout", F_INOUT | F_SEP | F_SORTED, GSepInOutSorted)
